// C02 harness: every division / remainder call form of Givaro::Integer and IntegerDom.
// Line protocol:  "<form> <n> <d>" (decimal)  ->  result tokens in decimal ("q", "r" or "q r").
// Word-typed operands are produced from the decimal text with the GMP C API (mpz_get_si / mpz_get_ui),
// not with givaro's own casts; results are printed with mpz_get_str / the C++ stream of the word type.
// The "gmp.*" forms call the raw GMP primitives (validation of the trusted GmpSpec section of the model).
#include <iostream>
#include <sstream>
#include <string>
#include <cstdint>
#include <cmath>
#include <climits>
#include <cfloat>
#include <limits>
#include <type_traits>
#include <gmp.h>
#include <gmpxx.h>
#include <csetjmp>
#include <csignal>
#include <cstdlib>
#include <unistd.h>
#include <sys/time.h>
#include "gmp++/gmp++.h"
#include "givinteger.h"
#ifdef C02_ASSERTS
// Second configuration (givaro's own --enable-debug flags: -UNDEBUG -DDEBUG): the two anchored translation units are compiled
// HERE with their asserts on (the archive members of the NDEBUG library are then not pulled by the linker); a failing assert
// does not abort the harness: glibc's __assert_fail is replaced and jumps back to the read loop, which prints ASSERT-FAILED.
#ifdef NDEBUG
#error "C02_ASSERTS needs -UNDEBUG"
#endif
#include "gmp++_int_div.C"
#include "gmp++_int_mod.C"
static sigjmp_buf ASSERT_JMP;
static char ASSERT_MSG[512];
extern "C" void __assert_fail(const char* expr, const char* file, unsigned int line, const char*) noexcept
{
    const char* b = file; for (const char* c = file; *c; ++c) if (*c == '/') b = c + 1;
    snprintf(ASSERT_MSG, sizeof ASSERT_MSG, "ASSERT-FAILED %s:%u `%s'", b, line, expr);
    siglongjmp(ASSERT_JMP, 1);
}
#endif
// per-case CPU-time watchdog (ITIMER_PROF counts CPU time of this process: independent of machine load): a call that does not
// return within the budget (seconds, environment C02_CPU_BUDGET, default 10) ends the harness with a marker line; the check
// re-runs that one case alone with a larger budget before it reports "does not return".
static void cpu_budget_exceeded(int) { static const char m[] = "CPU-BUDGET-EXCEEDED\n"; ssize_t w = write(1, m, sizeof m - 1); (void)w; _exit(97); }
static void arm_watchdog(long sec) { struct itimerval t; t.it_interval.tv_sec = 0; t.it_interval.tv_usec = 0; t.it_value.tv_sec = sec; t.it_value.tv_usec = 0; setitimer(ITIMER_PROF, &t, NULL); }

using namespace Givaro;

static std::string zs(mpz_srcptr z) {
    char* s = mpz_get_str(NULL, 10, z);
    std::string r(s);
    void (*freefunc)(void*, size_t);
    mp_get_memory_functions(NULL, NULL, &freefunc);
    freefunc(s, r.size() + 1);
    return r;
}
static std::string S(const Integer& x) { return zs(x.get_mpz_const()); }
template <class T> static std::string W(T x) { std::ostringstream o; o << (long long)x; return o.str(); }
static std::string WU(uint64_t x) { std::ostringstream o; o << (unsigned long long)x; return o.str(); }

static int64_t i64(const Integer& x) { return (int64_t)mpz_get_si(x.get_mpz_const()); }
static uint64_t u64(const Integer& x) { return (uint64_t)mpz_get_ui(x.get_mpz_const()); }

// Destinations never start from 0 (a default-constructed Integer would hide a result that is simply not written):
// every destination-bearing call form is executed once per garbage value below (positive / negative, single- / multi-limb)
// and the results must coincide.  The word destinations of divmod start from the matching word garbage.
static const int NGARB = 4;
static const char* GARB[NGARB] = { "21845", "-7", "123456789012345678901234567890123", "-340282366920938463463374607431768211457" };
static const int64_t WGARB[NGARB] = { 0x5555, -7, INT64_MAX, INT64_MIN + 1 };
static int GI = 0;
static Integer garbage(int k = 0) { Integer g; mpz_set_str(g.get_mpz(), GARB[(GI + k) % NGARB], 10); return g; }

static std::string run(const std::string& f, const Integer& n, const Integer& d)
{
    IntegerDom Z;
    Integer q = garbage(), r = garbage(1);
    const int64_t dl = i64(d); const uint64_t dul = u64(d);
    const int32_t di = (int32_t)dl; const uint32_t du = (uint32_t)dul;
    // ---------------------------------------------------------------- configuration constants and raw C conversions
    // (the CInt layer of the model: W64, H64, ... and to_u64 / to_i64 / to_i32 / to_i16 / round53 / truncation of a double)
    if (f.compare(0, 4, "cfg.") == 0) {
        if (f == "cfg.sizeof_long") return W(sizeof(long));
        if (f == "cfg.givaro_sizeof_long") return W(__GIVARO_SIZEOF_LONG);
        if (f == "cfg.limb_bits") return W(mp_bits_per_limb);
        if (f == "cfg.ulong_max") return WU(ULONG_MAX);
        if (f == "cfg.i64_min") return W(INT64_MIN);
        if (f == "cfg.i64_max") return W(INT64_MAX);
        if (f == "cfg.u64_max") return WU(UINT64_MAX);
        if (f == "cfg.i32_min") return W(INT32_MIN);
        if (f == "cfg.u32_max") return WU(UINT32_MAX);
        if (f == "cfg.i16_min") return W(INT16_MIN);
        if (f == "cfg.u16_max") return WU(UINT16_MAX);
        if (f == "cfg.dbl_mant_dig") return W(DBL_MANT_DIG);
        if (f == "cfg.dbl_round_nearest") return W(std::numeric_limits<double>::round_style == std::round_to_nearest ? 1 : 0);
#ifdef NDEBUG
        if (f == "cfg.ndebug") return "1";
#else
        if (f == "cfg.ndebug") return "0";
#endif
        if (f == "cfg.long_is_int64") return W((std::is_same<long, int64_t>::value && std::is_same<unsigned long, uint64_t>::value) ? 1 : 0);
        return "UNKNOWN-FORM";
    }
    if (f.compare(0, 5, "cast.") == 0) {
        const int64_t nl = i64(n); const uint64_t nul = u64(n);
        if (f == "cast.i64_u64") return WU((uint64_t)nl);
        if (f == "cast.u64_i64") return W((int64_t)nul);
        if (f == "cast.i64_i32") return W((int32_t)nl);
        if (f == "cast.i64_i16") return W((int16_t)nl);
        if (f == "cast.u64_i32") return W((int32_t)(int64_t)nul);
        if (f == "cast.abs64") { unsigned long a = std::abs(nl); return WU(a); }          // nl != INT64_MIN (the check never sends it)
        if (f == "cast.neg64") { unsigned long a = -nl; return WU(a); }                    // idem
        if (f == "cast.i64_dbl") { double x = static_cast<double>(nl); Integer t; mpz_set_d(t.get_mpz(), x); return S(t); }
        if (f == "cast.mpz_dbl") { double x = mpz_get_d(n.get_mpz_const()); Integer t; mpz_set_d(t.get_mpz(), x); return S(t); }   // Integer::operator double
        if (f == "cast.dbl_u64") { double x = ldexp(mpz_get_d(n.get_mpz_const()), -4); return WU(static_cast<uint64_t>(x)); }
        return "UNKNOWN-FORM";
    }
    // ---------------------------------------------------------------- raw GMP
    if (f.compare(0, 4, "gmp.") == 0) {
        mpz_t a, b; mpz_init_set_str(a, "-987654321987654321987654321", 10); mpz_init_set_str(b, "-1234567", 10);
        mpz_srcptr N = n.get_mpz_const(), D = d.get_mpz_const();
        std::string o;
        if (f == "gmp.tdiv_q") { mpz_tdiv_q(a, N, D); o = zs(a); }
        else if (f == "gmp.tdiv_r") { mpz_tdiv_r(a, N, D); o = zs(a); }
        else if (f == "gmp.tdiv_qr") { mpz_tdiv_qr(a, b, N, D); o = zs(a) + " " + zs(b); }
        else if (f == "gmp.fdiv_qr") { mpz_fdiv_qr(a, b, N, D); o = zs(a) + " " + zs(b); }
        else if (f == "gmp.cdiv_qr") { mpz_cdiv_qr(a, b, N, D); o = zs(a) + " " + zs(b); }
        else if (f == "gmp.fdiv_q") { mpz_fdiv_q(a, N, D); o = zs(a); }
        else if (f == "gmp.fdiv_r") { mpz_fdiv_r(a, N, D); o = zs(a); }
        else if (f == "gmp.cdiv_q") { mpz_cdiv_q(a, N, D); o = zs(a); }
        else if (f == "gmp.cdiv_r") { mpz_cdiv_r(a, N, D); o = zs(a); }
        else if (f == "gmp.mod") { mpz_mod(a, N, D); o = zs(a); }
        else if (f == "gmp.tdiv_q_ui") { unsigned long w = mpz_tdiv_q_ui(a, N, dul); o = zs(a) + " " + WU(w); }
        else if (f == "gmp.tdiv_r_ui") { unsigned long w = mpz_tdiv_r_ui(a, N, dul); o = zs(a) + " " + WU(w); }
        else if (f == "gmp.tdiv_ui") { o = WU(mpz_tdiv_ui(N, dul)); }
        else if (f == "gmp.cdiv_r_ui") { unsigned long w = mpz_cdiv_r_ui(a, N, dul); o = zs(a) + " " + WU(w); }
        else if (f == "gmp.cdiv_ui") { o = WU(mpz_cdiv_ui(N, dul)); }
        else if (f == "gmp.fdiv_r_ui") { unsigned long w = mpz_fdiv_r_ui(a, N, dul); o = zs(a) + " " + WU(w); }
        else if (f == "gmp.fdiv_ui") { o = WU(mpz_fdiv_ui(N, dul)); }
        else if (f == "gmp.mod_ui") { mpz_mod_ui(a, N, dul); o = zs(a); }
        else if (f == "gmp.divexact") { mpz_divexact(a, N, D); o = zs(a); }
        else if (f == "gmp.divexact_ui") { mpz_divexact_ui(a, N, dul); o = zs(a); }
        else o = "UNKNOWN-FORM";
        mpz_clear(a); mpz_clear(b);
        return o;
    }
    // ---------------------------------------------------------------- gmp++_int_div.C
    if (f == "divin.I") { q = n; Integer::divin(q, d); return S(q); }
    if (f == "divin.l") { q = n; Integer::divin(q, dl); return S(q); }
    if (f == "divin.ul") { q = n; Integer::divin(q, dul); return S(q); }
    if (f == "div.I") { Integer::div(q, n, d); return S(q); }
    if (f == "div.l") { Integer::div(q, n, dl); return S(q); }
    if (f == "div.i") { Integer::div(q, n, di); return S(q); }
    if (f == "div.ul") { Integer::div(q, n, dul); return S(q); }
    if (f == "divexact.qI") { Integer::divexact(q, n, d); return S(q); }
    if (f == "divexact.qul") { Integer::divexact(q, n, dul); return S(q); }
    if (f == "divexact.ql") { Integer::divexact(q, n, dl); return S(q); }
    if (f == "divexact.I") { return S(Integer::divexact(n, d)); }
    if (f == "divexact.ul") { return S(Integer::divexact(n, dul)); }
    if (f == "divexact.l") { return S(Integer::divexact(n, dl)); }
    if (f == "op/=.I") { q = n; q /= d; return S(q); }
    if (f == "op/=.ul") { q = n; q /= dul; return S(q); }
    if (f == "op/=.l") { q = n; q /= dl; return S(q); }
    if (f == "op/=.u") { q = n; q /= du; return S(q); }
    if (f == "op/=.i") { q = n; q /= di; return S(q); }
    if (f == "op/=.T") { q = n; mpz_class dd(d.get_mpz_const()); q /= dd; return S(q); }
    if (f == "op/=.Ts") { q = n; short ds = (short)dl; q /= ds; return S(q); }
    if (f == "op/.I") { return S(n / d); }
    if (f == "op/.ul") { return S(n / dul); }
    if (f == "op/.l") { return S(n / dl); }
    if (f == "op/.u") { return S(n / du); }
    if (f == "op/.i") { return S(n / di); }
    if (f == "divmod.I") { Integer::divmod(q, r, n, d); return S(q) + " " + S(r); }
    if (f == "divmod.l") { int64_t rr = WGARB[GI]; Integer::divmod(q, rr, n, dl); return S(q) + " " + W(rr); }
    if (f == "divmod.ul") { uint64_t rr = (uint64_t)WGARB[GI]; Integer::divmod(q, rr, n, dul); return S(q) + " " + WU(rr); }
    if (f == "ceil.r") { Integer::ceil(q, n, d); return S(q); }
    if (f == "floor.r") { Integer::floor(q, n, d); return S(q); }
    if (f == "trunc.r") { Integer::trunc(q, n, d); return S(q); }
    if (f == "ceil.v") { return S(Integer::ceil(n, d)); }
    if (f == "floor.v") { return S(Integer::floor(n, d)); }
    if (f == "trunc.v") { return S(Integer::trunc(n, d)); }
    if (f == "trem.I") { Integer::trem(r, n, d); return S(r); }
    if (f == "crem.I") { Integer::crem(r, n, d); return S(r); }
    if (f == "frem.I") { Integer::frem(r, n, d); return S(r); }
    if (f == "trem.ul") { Integer::trem(r, n, dul); return S(r); }
    if (f == "crem.ul") { Integer::crem(r, n, dul); return S(r); }
    if (f == "frem.ul") { Integer::frem(r, n, dul); return S(r); }
    if (f == "trem.w") { return WU(Integer::trem(n, dul)); }
    if (f == "crem.w") { return WU(Integer::crem(n, dul)); }
    if (f == "frem.w") { return WU(Integer::frem(n, dul)); }
    // word / Integer : here the DIVIDEND is the word
    if (f == "w/I.i") { return S((int32_t)i64(n) / d); }
    if (f == "w/I.l") { return S(i64(n) / d); }
    if (f == "w/I.u") { return S((uint32_t)u64(n) / d); }
    if (f == "w/I.ul") { return S(u64(n) / d); }
    // ---------------------------------------------------------------- gmp++_int_mod.C
    if (f == "modin.I") { r = n; Integer::modin(r, d); return S(r); }
    if (f == "modin.ul") { r = n; Integer::modin(r, dul); return S(r); }
    if (f == "modin.l") { r = n; Integer::modin(r, dl); return S(r); }
    if (f == "mod.I") { Integer::mod(r, n, d); return S(r); }
    if (f == "mod.l") { Integer::mod(r, n, dl); return S(r); }
    if (f == "mod.ul") { Integer::mod(r, n, dul); return S(r); }
    if (f == "mod.i") { Integer::mod(r, n, di); return S(r); }
    if (f == "mod.u") { Integer::mod(r, n, du); return S(r); }
    if (f == "op%=.I") { r = n; r %= d; return S(r); }
    if (f == "op%=.ul") { r = n; r %= dul; return S(r); }
    if (f == "op%=.l") { r = n; r %= dl; return S(r); }
    if (f == "op%=.u") { r = n; r %= du; return S(r); }
    if (f == "op%=.i") { r = n; r %= di; return S(r); }
    if (f == "op%=.T") { r = n; mpz_class dd(d.get_mpz_const()); r %= dd; return S(r); }
    if (f == "op%=.Ts") { r = n; short ds = (short)dl; r %= ds; return S(r); }
    if (f == "op%.I") { return S(n % d); }
    if (f == "op%.ul") { auto x = n % dul; return W(x); }      // `auto`: whatever type the overload returns, not narrowed here
    if (f == "op%.l") { auto x = n % dl; return W(x); }
    if (f == "op%.u") { auto x = n % du; return W(x); }
    if (f == "op%.i") { auto x = n % di; return W(x); }
    if (f == "op%.us") { auto x = n % (uint16_t)dul; return W(x); }
    if (f == "op%.Ts") { short ds = (short)dl; short x = n % ds; return W(x); }
    // double: the operand is exactly representable (the check generates only such values); the result, an integer-valued
    // double, is printed exactly through mpz_set_d
    if (f == "op%.d") { double dd = mpz_get_d(d.get_mpz_const()); double x = n % dd; Integer t; mpz_set_d(t.get_mpz(), x); return S(t); }
    if (f == "op%.dx") { double dd = ldexp(mpz_get_d(d.get_mpz_const()), -4); double x = n % dd; Integer t; mpz_set_d(t.get_mpz(), x); return S(t); }
    if (f == "op%.Tf") { float df = (float)dl; float x = n % df; return W((int64_t)x); }
    // small integer types: promotions / template instantiations
    if (f == "op/.s") { return S(n / (short)dl); }
    if (f == "op/.us") { return S(n / (unsigned short)dul); }
    if (f == "op/.c") { return S(n / (signed char)dl); }
    if (f == "op/=.Tus") { q = n; q /= (unsigned short)dul; return S(q); }
    if (f == "op/=.Tc") { q = n; q /= (signed char)dl; return S(q); }
    if (f == "op/=.Tuc") { q = n; q /= (unsigned char)dul; return S(q); }
    if (f == "op/=.Td") { q = n; q /= (double)dl; return S(q); }
    if (f == "op%=.Tus") { r = n; r %= (unsigned short)dul; return S(r); }
    if (f == "op%=.Tc") { r = n; r %= (signed char)dl; return S(r); }
    if (f == "op%=.Tuc") { r = n; r %= (unsigned char)dul; return S(r); }
    if (f == "op%=.Td") { r = n; r %= (double)dl; return S(r); }
    if (f == "mod.s") { Integer::mod(r, n, (short)dl); return S(r); }
    if (f == "mod.us") { Integer::mod(r, n, (unsigned short)dul); return S(r); }
    if (f == "mod.c") { Integer::mod(r, n, (signed char)dl); return S(r); }
    if (f == "div.s") { Integer::div(q, n, (short)dl); return S(q); }
    if (f == "div.c") { Integer::div(q, n, (signed char)dl); return S(q); }
    if (f == "w%I.i") { return S((int32_t)i64(n) % d); }
    if (f == "w%I.l") { return S(i64(n) % d); }
    if (f == "w%I.u") { return S((uint32_t)u64(n) % d); }
    if (f == "w%I.ul") { return S(u64(n) % d); }
    // more instantiations of the templates / promotions (phase 3)
    if (f == "op%.Tc") { signed char dc = (signed char)dl; signed char x = n % dc; return W(x); }
    if (f == "op%.Tuc") { unsigned char dc = (unsigned char)dul; unsigned char x = n % dc; return WU(x); }   // operator unsigned char: |r|
    if (f == "op/=.Tf") { q = n; q /= (float)dl; return S(q); }
    if (f == "op%=.Tf") { r = n; r %= (float)dl; return S(r); }
    if (f == "mod.uc") { Integer::mod(r, n, (unsigned char)dul); return S(r); }
    if (f == "w/I.s") { return S((short)i64(n) / d); }
    if (f == "w%I.us") { return S((unsigned short)u64(n) % d); }
    // `long` / `unsigned long` operands (the same types as int64_t / uint64_t on LP64: checked by cfg.long_is_int64)
    if (f == "op/.L") { long x = (long)dl; return S(n / x); }
    if (f == "op%.UL") { unsigned long x = (unsigned long)dul; auto y = n % x; return W(y); }
    if (f == "mod.L") { long x = (long)dl; Integer::mod(r, n, x); return S(r); }
    if (f == "divexact.qUL") { unsigned long x = (unsigned long)dul; Integer::divexact(q, n, x); return S(q); }
    // multi-step use of one destination object: the result of an earlier call is what a later call finds in it
    if (f == "seq.mod") { Integer::mod(r, n + d, d); Integer::mod(r, n, d); return S(r); }
    if (f == "seq.mod.ul") { Integer::mod(r, n + 1, dul); Integer::mod(r, n, dul); return S(r); }
    if (f == "seq.mod.l") { Integer::mod(r, n - 1, dl); Integer::mod(r, n, dl); return S(r); }
    if (f == "seq.div") { Integer::div(q, n + d, d); Integer::div(q, n, d); return S(q); }
    if (f == "seq.div.ul") { Integer::div(q, n + 1, dul); Integer::div(q, n, dul); return S(q); }
    if (f == "seq.div.l") { Integer::div(q, n - 1, dl); Integer::div(q, n, dl); return S(q); }
    if (f == "seq.divexact") { Integer::divexact(q, n + d, d); Integer::divexact(q, n, d); return S(q); }
    if (f == "seq.divexact.ul") { Integer::divexact(q, n + d, dul); Integer::divexact(q, n, dul); return S(q); }
    if (f == "seq.divexact.l") { Integer::divexact(q, n - d, dl); Integer::divexact(q, n, dl); return S(q); }
    if (f == "seq.trem.ul") { Integer::trem(r, n + 1, dul); Integer::trem(r, n, dul); return S(r); }
    if (f == "seq.divmod") { Integer::divmod(q, r, n + 1, d); Integer::divmod(q, r, n, d); return S(q) + " " + S(r); }
    // ---------------------------------------------------------------- givinteger.h
    if (f == "dom.div") { Z.div(q, n, d); return S(q); }
    if (f == "dom.divin") { q = n; Z.divin(q, d); return S(q); }
    if (f == "dom.mod") { Z.mod(r, n, d); return S(r); }
    if (f == "dom.modin") { r = n; Z.modin(r, d); return S(r); }
    if (f == "dom.divmod") { Z.divmod(q, r, n, d); return S(q) + " " + S(r); }
    if (f == "dom.divexact") { Z.divexact(q, n, d); return S(q); }
    if (f == "dom.quo") { Z.quo(q, n, d); return S(q); }
    if (f == "dom.rem") { Z.rem(r, n, d); return S(r); }
    if (f == "dom.quoin") { q = n; Z.quoin(q, d); return S(q); }
    if (f == "dom.quo@qb") { q = d; Z.quo(q, n, q); return S(q); }      // destination is the divisor object
    if (f == "dom.remin") { r = n; Z.remin(r, d); return S(r); }
    if (f == "dom.quoRem") { Z.quoRem(q, r, n, d); return S(q) + " " + S(r); }
    if (f == "dom.isDivisor") { return Z.isDivisor(n, d) ? "1" : "0"; }
    // every two-output form with each output object being each input object ("q or r may be the same object as a or b")
    if (f == "divmod.I@qa") { q = n; Integer::divmod(q, r, q, d); return S(q) + " " + S(r); }
    if (f == "divmod.I@qb") { q = d; Integer::divmod(q, r, n, q); return S(q) + " " + S(r); }
    if (f == "divmod.I@ra") { r = n; Integer::divmod(q, r, r, d); return S(q) + " " + S(r); }
    if (f == "divmod.I@rb") { r = d; Integer::divmod(q, r, n, r); return S(q) + " " + S(r); }
    if (f == "divmod.I@qa.rb") { q = n; r = d; Integer::divmod(q, r, q, r); return S(q) + " " + S(r); }
    if (f == "divmod.I@qb.ra") { q = d; r = n; Integer::divmod(q, r, r, q); return S(q) + " " + S(r); }
    if (f == "divmod.l@qa") { q = n; int64_t rr = WGARB[GI]; Integer::divmod(q, rr, q, dl); return S(q) + " " + W(rr); }
    if (f == "divmod.ul@qa") { q = n; uint64_t rr = (uint64_t)WGARB[GI]; Integer::divmod(q, rr, q, dul); return S(q) + " " + WU(rr); }
    if (f == "dom.divmod@qa") { q = n; Z.divmod(q, r, q, d); return S(q) + " " + S(r); }
    if (f == "dom.divmod@qb") { q = d; Z.divmod(q, r, n, q); return S(q) + " " + S(r); }
    if (f == "dom.divmod@ra") { r = n; Z.divmod(q, r, r, d); return S(q) + " " + S(r); }
    if (f == "dom.divmod@rb") { r = d; Z.divmod(q, r, n, r); return S(q) + " " + S(r); }
    if (f == "dom.quoRem@qa") { q = n; Z.quoRem(q, r, q, d); return S(q) + " " + S(r); }
    if (f == "dom.quoRem@qb") { q = d; Z.quoRem(q, r, n, q); return S(q) + " " + S(r); }
    if (f == "dom.quoRem@ra") { r = n; Z.quoRem(q, r, r, d); return S(q) + " " + S(r); }
    if (f == "dom.quoRem@rb") { r = d; Z.quoRem(q, r, n, r); return S(q) + " " + S(r); }
    if (f == "dom.quoRem@qa.rb") { q = n; r = d; Z.quoRem(q, r, q, r); return S(q) + " " + S(r); }
    if (f == "dom.quoRem@qb.ra") { q = d; r = n; Z.quoRem(q, r, r, q); return S(q) + " " + S(r); }
    // the non-virtual base class UnparametricZRing<Integer> (unparametric-operations.h): x = y / z, x = y % z (truncating)
    { const UnparametricZRing<Integer>& B = Z;
      if (f == "zbase.div") { B.div(q, n, d); return S(q); }
      if (f == "zbase.divin") { q = n; B.divin(q, d); return S(q); }
      if (f == "zbase.mod") { B.mod(r, n, d); return S(r); }
      if (f == "zbase.modin") { r = n; B.modin(r, d); return S(r); } }
    return "UNKNOWN-FORM";
}

int main()
{
    struct sigaction sa; sa.sa_handler = cpu_budget_exceeded; sigemptyset(&sa.sa_mask); sa.sa_flags = 0; sigaction(SIGPROF, &sa, NULL);
    const char* be = getenv("C02_CPU_BUDGET");
    const long budget = (be && atol(be) > 0) ? atol(be) : 10;
    std::string line;
    while (std::getline(std::cin, line)) {
        std::istringstream is(line);
        std::string f, a, b;
        is >> f >> a >> b;
        if (!is) continue;
        Integer n, d;
        if (mpz_set_str(n.get_mpz(), a.c_str(), 10) != 0 || mpz_set_str(d.get_mpz(), b.c_str(), 10) != 0) {
            std::cout << "BAD-LINE\n"; continue;
        }
        arm_watchdog(budget);
#ifdef C02_ASSERTS
        if (sigsetjmp(ASSERT_JMP, 1)) { arm_watchdog(0); std::cout << ASSERT_MSG << "\n"; std::cout.flush(); continue; }
#endif
        // every garbage value of the destinations; the answer must not depend on it
        GI = 0;
        std::string out = run(f, n, d);
        if (f.compare(0, 4, "gmp.") != 0 && f.compare(0, 4, "cfg.") != 0 && f.compare(0, 5, "cast.") != 0) {
            std::string diff;
            for (GI = 1; GI < NGARB; ++GI) {
                std::string o2 = run(f, n, d);
                if (o2 != out) { std::ostringstream os; os << " | destination initially " << GARB[GI] << ": " << o2; diff += os.str(); }
            }
            GI = 0;
            if (!diff.empty()) out = "DEST-DEPENDENT destination initially " + std::string(GARB[0]) + ": " + out + diff;
        }
        arm_watchdog(0);
        std::cout << out << "\n";
        std::cout.flush();   // a crash (e.g. SIGFPE inside GMP) must not lose the lines already produced: the check locates the crashing case by counting them
    }
    return 0;
}
