// C03 harness: runs every ring operation (every call form) of /repo's current modular rings.
// line:  <ring> <p> <op> <args...>      output: one result token (decimal), or several for gcdext/info
// ring names: <S>_<C> for the integral Modular<S,C>; f_f f_d d_d; bi32 bi64 bf bd; ef ed; zz; ru<K>_<K'>; ri<K>_<K>; log16
#include <iostream>
#include <sstream>
#include <string>
#include <vector>
#include <map>
#include <memory>
#include <cstdlib>
#include <cstdio>
#include <cmath>
#include "givinteger.h"
#include "modular.h"
#include "modular-balanced.h"
#include "modular-extended.h"
#include <recint/recint.h>

using namespace Givaro;
typedef std::vector<std::string> Args;

// ---------------------------------------------------------------- text <-> element
template <class T, class En = void> struct IO;
template <class T> struct IO<T, typename std::enable_if<std::is_integral<T>::value && std::is_signed<T>::value>::type> {
    static T parse(const std::string& s) { return (T) strtoll(s.c_str(), 0, 10); }
    static std::string show(const T& x) { return std::to_string((long long) x); }
};
template <class T> struct IO<T, typename std::enable_if<std::is_integral<T>::value && std::is_unsigned<T>::value>::type> {
    static T parse(const std::string& s) { return (T) strtoull(s.c_str(), 0, 10); }
    static std::string show(const T& x) { return std::to_string((unsigned long long) x); }
};
template <class T> struct IO<T, typename std::enable_if<std::is_floating_point<T>::value>::type> {
    static T parse(const std::string& s) { return (T) strtod(s.c_str(), 0); }
    static std::string show(const T& x) {
        char b[64]; double d = (double) x;
        if (d != std::floor(d)) { snprintf(b, 64, "NONINT(%.17g)", d); return b; }
        snprintf(b, 64, "%.0f", d); std::string r(b); if (r == "-0") r = "0"; return r;
    }
};
template <> struct IO<Integer> {
    static Integer parse(const std::string& s) { return Integer(s.c_str()); }
    static std::string show(const Integer& x) { std::ostringstream o; o << x; return o.str(); }
};
template <size_t K> struct IO<RecInt::ruint<K> > {
    static RecInt::ruint<K> parse(const std::string& s) { Integer z(s.c_str()); RecInt::ruint<K> r(z); return r; }
    static std::string show(const RecInt::ruint<K>& x) { Integer z(x); std::ostringstream o; o << z; return o.str(); }
};
template <size_t K> struct IO<RecInt::rint<K> > {
    static RecInt::rint<K> parse(const std::string& s) { Integer z(s.c_str()); RecInt::rint<K> r(z); return r; }
    static std::string show(const RecInt::rint<K>& x) { Integer z(x); std::ostringstream o; o << z; return o.str(); }
};

// ---------------------------------------------------------------- how the ring object is obtained
// ""      Ring F(p)
// "copy"  Ring G(p); Ring F(G);            (G destroyed before F is used)
// "asg"   Ring G(p); Ring F(q), q != p; F = G;      (assignment over a ring of ANOTHER modulus)
// "asgd"  Ring G(p); Ring F; F = G;                 (assignment over a default-constructed ring)
static std::string g_mode;
template <class Ring, class R> static std::unique_ptr<Ring> obtain(const R& p, const R& other) {
    if (g_mode == "") return std::unique_ptr<Ring>(new Ring(p));
    std::unique_ptr<Ring> F;
    {
        Ring G(p);
        if (g_mode == "copy") F.reset(new Ring(G));
        else if (g_mode == "asg") { F.reset(new Ring(other)); *F = G; }
        else { F.reset(new Ring()); *F = G; }
    }
    return F;
}

// ---------------------------------------------------------------- generic runner
template <class Ring> struct Precomp {   // rings without mul_precomp_*
    static bool run(const Ring&, const std::string&, const Args&, std::string&) { return false; }
    static bool gcd(const std::string&, const Args&, std::string&) { return false; }
};
template <class S, class C> struct Precomp<Modular<S, C, typename std::enable_if<std::is_integral<S>::value>::type> > {
    typedef Modular<S, C> Ring;
    typedef typename Ring::Element E;
    static bool run(const Ring& F, const std::string& op, const Args& a, std::string& out) {
        typedef typename Ring::Compute_t CT;
        E r = (E) 0x55, x = IO<E>::parse(a[0]), y = IO<E>::parse(a[1]);
        if (op == "mulpp") { CT invp; size_t bs; F.precomp_p(invp, bs); F.mul_precomp_p(r, x, y, invp, bs); out = IO<E>::show(r); return true; }
        if (op == "mulpb") { CT invb; F.precomp_b(invb, y); F.mul_precomp_b(r, x, y, invb); out = IO<E>::show(r); return true; }
        if (op == "mulpb2") { CT invp, invb; size_t bs; F.precomp_p(invp, bs); F.precomp_b(invb, y, invp); F.mul_precomp_b(r, x, y, invb); out = IO<E>::show(r); return true; }
        return false;
    }
    static bool gcd(const std::string& op, const Args& a, std::string& out) {   // gcdext<Element>(d,u,v,a,b)
        E d = 0, u = 0, v = 0, x = IO<E>::parse(a[0]), y = IO<E>::parse(a[1]);
        gcdext(d, u, v, x, y);
        out = IO<E>::show(d) + " " + IO<E>::show(u) + " " + IO<E>::show(v);
        return true;
    }
};

template <class Ring> struct Run {
    typedef typename Ring::Element E;
    typedef typename Ring::Residu_t R;
    static std::string info() {
        std::ostringstream o;
        o << IO<R>::show(Ring::minCardinality()) << " " << IO<R>::show(Ring::maxCardinality());
        return o.str();
    }
    static std::string go(const std::string& ps, const std::string& op, const Args& a) {
        static std::unique_ptr<Ring> cur; static std::string curp;
        if (op == "info") return info();
        if (op == "gcdext") { std::string o; if (Precomp<Ring>::gcd(op, a, o)) return o; return "UNSUPPORTED"; }
        if (!cur || curp != ps + "@" + g_mode) {
            cur = obtain<Ring, R>(IO<R>::parse(ps), IO<R>::parse(ps == "3" ? "5" : "3")); curp = ps + "@" + g_mode;
        }
        const Ring& F = *cur;
        E x, y, z, r; F.init(x); F.init(y); F.init(z); F.init(r);
        if (a.size() > 0) x = IO<E>::parse(a[0]);
        if (a.size() > 1) y = IO<E>::parse(a[1]);
        if (a.size() > 2) z = IO<E>::parse(a[2]);
        F.assign(r, F.mOne);                  // destinations start from a non-zero element
        if (op == "consts") return IO<E>::show(F.zero) + " " + IO<E>::show(F.one) + " " + IO<E>::show(F.mOne) + " " +
                                   IO<E>::show(F.minElement()) + " " + IO<E>::show(F.maxElement()) + " " + IO<R>::show(F.characteristic());
        else if (op == "add") F.add(r, x, y);
        else if (op == "addin") { F.assign(r, x); F.addin(r, y); }
        else if (op == "sub") F.sub(r, x, y);
        else if (op == "subin") { F.assign(r, x); F.subin(r, y); }
        else if (op == "mul") F.mul(r, x, y);
        else if (op == "mulin") { F.assign(r, x); F.mulin(r, y); }
        else if (op == "neg") F.neg(r, x);
        else if (op == "negin") { F.assign(r, x); F.negin(r); }
        else if (op == "inv") F.inv(r, x);
        else if (op == "invin") { F.assign(r, x); F.invin(r); }
        else if (op == "div") F.div(r, x, y);
        else if (op == "divin") { F.assign(r, x); F.divin(r, y); }
        else if (op == "axpy") F.axpy(r, x, y, z);
        else if (op == "axpyin") { F.assign(r, z); F.axpyin(r, x, y); }
        else if (op == "axmy") F.axmy(r, x, y, z);
        else if (op == "axmyin") { F.assign(r, z); F.axmyin(r, x, y); }
        else if (op == "maxpy") F.maxpy(r, x, y, z);
        else if (op == "maxpyin") { F.assign(r, z); F.maxpyin(r, x, y); }
        else if (op == "reduce2") F.reduce(r, x);
        else if (op == "reduce1") { F.assign(r, x); F.reduce(r); }
        else if (op == "isUnit") return F.isUnit(x) ? "1" : "0";
        else { std::string o; if (Precomp<Ring>::run(F, op, a, o)) return o; return "UNKNOWN-OP"; }
        return IO<E>::show(r);
    }
};

// Modular<Log16>: elements are exponents of a generator; operands are given / printed as residues (init / convert)
template <> struct Run<Modular<Log16> > {
    typedef Modular<Log16> Ring;
    typedef Ring::Element E;
    static std::string go(const std::string& ps, const std::string& op, const Args& a) {
        static std::unique_ptr<Ring> cur; static std::string curp;
        if (op == "info") { std::ostringstream o; o << Ring::minCardinality() << " " << Ring::maxCardinality(); return o.str(); }
        if (!cur || curp != ps + "@" + g_mode) {
            cur = obtain<Ring, Ring::Residu_t>((Ring::Residu_t) strtoul(ps.c_str(), 0, 10), (Ring::Residu_t) (ps == "3" ? 5 : 3)); curp = ps + "@" + g_mode;
        }
        const Ring& F = *cur;
        E x, y, z, r; F.init(x); F.init(y); F.init(z); F.init(r);
        if (a.size() > 0) F.init(x, (int32_t) strtol(a[0].c_str(), 0, 10));
        if (a.size() > 1) F.init(y, (int32_t) strtol(a[1].c_str(), 0, 10));
        if (a.size() > 2) F.init(z, (int32_t) strtol(a[2].c_str(), 0, 10));
        F.assign(r, F.mOne);
        if (op == "add") F.add(r, x, y);
        else if (op == "addin") { F.assign(r, x); F.addin(r, y); }
        else if (op == "sub") F.sub(r, x, y);
        else if (op == "subin") { F.assign(r, x); F.subin(r, y); }
        else if (op == "mul") F.mul(r, x, y);
        else if (op == "mulin") { F.assign(r, x); F.mulin(r, y); }
        else if (op == "neg") F.neg(r, x);
        else if (op == "negin") { F.assign(r, x); F.negin(r); }
        else if (op == "inv") F.inv(r, x);
        else if (op == "invin") { F.assign(r, x); F.invin(r); }
        else if (op == "div") F.div(r, x, y);
        else if (op == "divin") { F.assign(r, x); F.divin(r, y); }
        else if (op == "axpy") F.axpy(r, x, y, z);
        else if (op == "axpyin") { F.assign(r, z); F.axpyin(r, x, y); }
        else if (op == "axmy") F.axmy(r, x, y, z);
        else if (op == "axmyin") { F.assign(r, z); F.axmyin(r, x, y); }
        else if (op == "maxpy") F.maxpy(r, x, y, z);
        else if (op == "maxpyin") { F.assign(r, z); F.maxpyin(r, x, y); }
        else if (op == "reduce1" || op == "reduce2") F.init(r, (int32_t) strtol(a[0].c_str(), 0, 10));   // no reduce(): init is the reduction
        else if (op == "isUnit") return F.isUnit(x) ? "1" : "0";
        else return "UNKNOWN-OP";
        int32_t v; F.convert(v, r);
        return std::to_string(v);
    }
};

typedef std::string (*Fn)(const std::string&, const std::string&, const Args&);
static std::map<std::string, Fn> table;
#define REG(name, ...) table[name] = &Run<__VA_ARGS__ >::go

int main() {
    typedef __int128_t i128; typedef __uint128_t u128;
    // The ring types are spread over four translation units (-DC03_PART=1..4, compiled in parallel by checks/C03.py);
    // without C03_PART every ring is registered.
#if !defined(C03_PART) || C03_PART == 1
    // every (Storage_t, Compute_t) pair accepted by the enable_if of modular-integral.h
    REG("i8_i8", Modular<int8_t, int8_t>);     REG("i8_u8", Modular<int8_t, uint8_t>);
    REG("i8_i16", Modular<int8_t, int16_t>);   REG("i8_u16", Modular<int8_t, uint16_t>);
    REG("u8_i8", Modular<uint8_t, int8_t>);    REG("u8_u8", Modular<uint8_t, uint8_t>);
    REG("u8_i16", Modular<uint8_t, int16_t>);  REG("u8_u16", Modular<uint8_t, uint16_t>);
    REG("i16_i16", Modular<int16_t, int16_t>); REG("i16_u16", Modular<int16_t, uint16_t>);
    REG("i16_i32", Modular<int16_t, int32_t>); REG("i16_u32", Modular<int16_t, uint32_t>);
    REG("u16_i16", Modular<uint16_t, int16_t>); REG("u16_u16", Modular<uint16_t, uint16_t>);
    REG("u16_i32", Modular<uint16_t, int32_t>); REG("u16_u32", Modular<uint16_t, uint32_t>);
#endif
#if !defined(C03_PART) || C03_PART == 2
    REG("i32_i32", Modular<int32_t, int32_t>); REG("i32_u32", Modular<int32_t, uint32_t>);
    REG("i32_i64", Modular<int32_t, int64_t>); REG("i32_u64", Modular<int32_t, uint64_t>);
    REG("u32_i32", Modular<uint32_t, int32_t>); REG("u32_u32", Modular<uint32_t, uint32_t>);
    REG("u32_i64", Modular<uint32_t, int64_t>); REG("u32_u64", Modular<uint32_t, uint64_t>);
    REG("i64_i64", Modular<int64_t, int64_t>); REG("i64_u64", Modular<int64_t, uint64_t>);
    REG("i64_i128", Modular<int64_t, i128>);   REG("i64_u128", Modular<int64_t, u128>);
    REG("u64_i64", Modular<uint64_t, int64_t>); REG("u64_u64", Modular<uint64_t, uint64_t>);
    REG("u64_i128", Modular<uint64_t, i128>);  REG("u64_u128", Modular<uint64_t, u128>);
#endif
#if !defined(C03_PART) || C03_PART == 3
    REG("f_f", Modular<float, float>); REG("f_d", Modular<float, double>); REG("d_d", Modular<double, double>);
    REG("bi32", ModularBalanced<int32_t>); REG("bi64", ModularBalanced<int64_t>);
    REG("bf", ModularBalanced<float>); REG("bd", ModularBalanced<double>);
    REG("ef", ModularExtended<float>); REG("ed", ModularExtended<double>);
#endif
#if !defined(C03_PART) || C03_PART == 4
    REG("zz", Modular<Integer>); REG("log16", Modular<Log16>);
    REG("ri7_7", Modular<RecInt::rint<7>, RecInt::rint<7> >);
    REG("ru6_6", Modular<RecInt::ruint<6>, RecInt::ruint<6> >); REG("ru6_7", Modular<RecInt::ruint<6>, RecInt::ruint<7> >);
    REG("ru7_7", Modular<RecInt::ruint<7>, RecInt::ruint<7> >); REG("ru7_8", Modular<RecInt::ruint<7>, RecInt::ruint<8> >);
    REG("ru8_8", Modular<RecInt::ruint<8>, RecInt::ruint<8> >); REG("ru8_9", Modular<RecInt::ruint<8>, RecInt::ruint<9> >);
#endif

    std::string line;
    while (std::getline(std::cin, line)) {
        std::istringstream is(line);
        std::string ring, p, op, t; is >> ring >> p >> op;
        if (!is) continue;
        Args a; while (is >> t) a.push_back(t);
        size_t at = ring.find('@');
        g_mode = (at == std::string::npos) ? "" : ring.substr(at + 1);
        if (at != std::string::npos) ring = ring.substr(0, at);
        std::map<std::string, Fn>::iterator it = table.find(ring);
        if (it == table.end()) { std::cout << "UNKNOWN-RING\n"; continue; }
        std::cout << it->second(p, op, a) << "\n";
    }
    return 0;
}
