// C03 harness: runs every ring operation (every call form) of /repo's current modular rings.
// line:  <ring>[@<how the ring object is obtained>] <p> <op>[:<alias pattern>] <args...>
// output: one result token (decimal), or several for gcdext/info/consts;   line "ppinfo 0 x": the selected preprocessor branches
// ring names: <S>_<C> for the integral Modular<S,C>; f_f f_d d_d; bi32 bi64 bf bd; ef ed; zz; ru<K>_<K'>; ri<K>_<K>; log16
#include <iostream>
#include <sstream>
#include <string>
#include <vector>
#include <map>
#include <memory>
#include <cstdlib>
#include <cstdio>
#include <cmath>
#include <csignal>
#include <sys/time.h>
#include <unistd.h>
#include "givinteger.h"
#include "modular.h"
#include "modular-balanced.h"
#include "modular-extended.h"
#include <recint/recint.h>

using namespace Givaro;
typedef std::vector<std::string> Args;

// checks/C03.py copies every preprocessor conditional of the property's anchor files into c03_ppgen.h (generated on every run
// from /repo's current sources) so that THIS translation unit, compiled with the configuration's flags after the givaro headers,
// reports which branch of each conditional the compiler selected ("ppinfo").  Without the generated header: a fixed macro list.
#ifdef C03_HAVE_PPGEN
#include "c03_ppgen.h"
#else
static void c03_ppinfo(std::ostream& o) {
#ifdef FP_FAST_FMA
    o << "FP_FAST_FMA=1 ";
#else
    o << "FP_FAST_FMA=0 ";
#endif
#ifdef FP_FAST_FMAF
    o << "FP_FAST_FMAF=1 ";
#else
    o << "FP_FAST_FMAF=0 ";
#endif
#ifdef __SSE_MATH__
    o << "__SSE_MATH__=1 ";
#else
    o << "__SSE_MATH__=0 ";
#endif
}
#endif

// ---------------------------------------------------------------- text <-> element
template <class T, class En = void> struct IO;
template <class T> struct IO<T, typename std::enable_if<std::is_integral<T>::value && std::is_signed<T>::value>::type> {
    static T parse(const std::string& s) { return (T) strtoll(s.c_str(), 0, 10); }
    static std::string show(const T& x) { return std::to_string((long long) x); }
};
template <class T> struct IO<T, typename std::enable_if<std::is_integral<T>::value && std::is_unsigned<T>::value>::type> {
    static T parse(const std::string& s) { return (T) strtoull(s.c_str(), 0, 10); }
    static std::string show(const T& x) { return std::to_string((unsigned long long) x); }
};
template <class T> struct IO<T, typename std::enable_if<std::is_floating_point<T>::value>::type> {
    static T parse(const std::string& s) { return (T) strtod(s.c_str(), 0); }
    static std::string show(const T& x) {
        char b[64]; double d = (double) x;
        if (d != std::floor(d)) { snprintf(b, 64, "NONINT(%.17g)", d); return b; }
        snprintf(b, 64, "%.0f", d); std::string r(b); if (r == "-0") r = "0"; return r;
    }
};
template <> struct IO<Integer> {
    static Integer parse(const std::string& s) { return Integer(s.c_str()); }
    static std::string show(const Integer& x) { std::ostringstream o; o << x; return o.str(); }
};
template <size_t K> struct IO<RecInt::ruint<K> > {
    static RecInt::ruint<K> parse(const std::string& s) { Integer z(s.c_str()); RecInt::ruint<K> r(z); return r; }
    static std::string show(const RecInt::ruint<K>& x) { Integer z(x); std::ostringstream o; o << z; return o.str(); }
};
template <size_t K> struct IO<RecInt::rint<K> > {
    static RecInt::rint<K> parse(const std::string& s) { Integer z(s.c_str()); RecInt::rint<K> r(z); return r; }
    static std::string show(const RecInt::rint<K>& x) { Integer z(x); std::ostringstream o; o << z; return o.str(); }
};

// ---------------------------------------------------------------- how the ring object is obtained
// ""      Ring F(p)
// "copy"  Ring G(p); Ring F(G);            (G destroyed before F is used)
// "asg"   Ring G(p); Ring F(q), q != p; F = G;      (assignment over a ring of ANOTHER modulus)
// "asgd"  Ring G(p); Ring F; F = G;                 (assignment over a default-constructed ring)
// "self"  Ring F(p); F = F;                         (self-assignment)
// "chain" Ring H(p); Ring G(q); Ring F(q'); G = H; F = G;   (H and G destroyed before F is used)
// "cpasg" Ring H(p); Ring G(H); Ring F(q); F = G;   (assignment from a copy-constructed ring)
static std::string g_mode, g_alias;
template <class Ring, class R> static std::unique_ptr<Ring> obtain(const R& p, const R& other) {
    if (g_mode == "") return std::unique_ptr<Ring>(new Ring(p));
    std::unique_ptr<Ring> F;
    {
        Ring G(p);
        if (g_mode == "copy") F.reset(new Ring(G));
        else if (g_mode == "asg") { F.reset(new Ring(other)); *F = G; }
        else if (g_mode == "self") { F.reset(new Ring(p)); Ring& alias = *F; *F = alias; }
        else if (g_mode == "chain") { Ring G2(other); F.reset(new Ring(other)); G2 = G; *F = G2; }
        else if (g_mode == "cpasg") { Ring G2(G); F.reset(new Ring(other)); *F = G2; }
        else { F.reset(new Ring()); *F = G; }
    }
    return F;
}


// ---------------------------------------------------------------- one operation, in one alias pattern
// alias (suffix ":<pattern>" of the op name): which arguments of the call are THE SAME OBJECT
//   ra / rb / rc : the destination is the 1st / 2nd / 3rd source operand      ab : 1st and 2nd source are one object
//   rab : destination, 1st and 2nd source are one object                       (in-place forms: the object r itself is passed as
//   the 1st (ra) / 2nd (rb) source).  The case generator gives aliased operands equal values.
template <class Ring, class E> static bool apply_op(const Ring& F, const std::string& op, const std::string& al, E& x, E& y, E& z, E& r, E*& res) {
    const bool rab = (al == "rab");
    E& A = x; E& B = (al == "ab" || rab) ? x : y; E& C = z;
    E& R = (al == "ra" || rab) ? x : (al == "rb" ? y : (al == "rc" ? z : r));
    res = &R;
    if (op == "add") F.add(R, A, B);
    else if (op == "sub") F.sub(R, A, B);
    else if (op == "mul") F.mul(R, A, B);
    else if (op == "div") F.div(R, A, B);
    else if (op == "neg") F.neg(R, A);
    else if (op == "inv") F.inv(R, A);
    else if (op == "axpy") F.axpy(R, A, B, C);
    else if (op == "axmy") F.axmy(R, A, B, C);
    else if (op == "maxpy") F.maxpy(R, A, B, C);
    else {
        res = &r;
        if (op == "addin") { F.assign(r, x); F.addin(r, al == "rb" ? r : y); }
        else if (op == "subin") { F.assign(r, x); F.subin(r, al == "rb" ? r : y); }
        else if (op == "mulin") { F.assign(r, x); F.mulin(r, al == "rb" ? r : y); }
        else if (op == "divin") { F.assign(r, x); F.divin(r, al == "rb" ? r : y); }
        else if (op == "negin") { F.assign(r, x); F.negin(r); }
        else if (op == "invin") { F.assign(r, x); F.invin(r); }
        else if (op == "axpyin") { F.assign(r, z); F.axpyin(r, al == "ra" ? r : x, al == "rb" ? r : y); }
        else if (op == "axmyin") { F.assign(r, z); F.axmyin(r, al == "ra" ? r : x, al == "rb" ? r : y); }
        else if (op == "maxpyin") { F.assign(r, z); F.maxpyin(r, al == "ra" ? r : x, al == "rb" ? r : y); }
        else return false;
    }
    return true;
}

// ---------------------------------------------------------------- generic runner
template <class Ring> struct Precomp {   // rings without mul_precomp_*
    static bool run(const Ring&, const std::string&, const Args&, std::string&) { return false; }
    static bool gcd(const std::string&, const Args&, std::string&) { return false; }
};
template <class S, class C> struct Precomp<Modular<S, C, typename std::enable_if<std::is_integral<S>::value>::type> > {
    typedef Modular<S, C> Ring;
    typedef typename Ring::Element E;
    static bool run(const Ring& F, const std::string& op, const Args& a, std::string& out) {
        typedef typename Ring::Compute_t CT;
        E r = (E) 0x55, x = IO<E>::parse(a[0]), y = IO<E>::parse(a[1]);
        if (op == "mulpp") { CT invp; size_t bs; F.precomp_p(invp, bs); F.mul_precomp_p(r, x, y, invp, bs); out = IO<E>::show(r); return true; }
        if (op == "mulpb") { CT invb; F.precomp_b(invb, y); F.mul_precomp_b(r, x, y, invb); out = IO<E>::show(r); return true; }
        if (op == "mulpb2") { CT invp, invb; size_t bs; F.precomp_p(invp, bs); F.precomp_b(invb, y, invp); F.mul_precomp_b(r, x, y, invb); out = IO<E>::show(r); return true; }
        return false;
    }
    static bool gcd(const std::string& op, const Args& a, std::string& out) {   // gcdext<Element>(d,u,v,a,b)
        E d = 0, u = 0, v = 0, x = IO<E>::parse(a[0]), y = IO<E>::parse(a[1]);
        gcdext(d, u, v, x, y);
        out = IO<E>::show(d) + " " + IO<E>::show(u) + " " + IO<E>::show(v);
        return true;
    }
};

template <class Ring> struct Run {
    typedef typename Ring::Element E;
    typedef typename Ring::Residu_t R;
    static std::string info() {
        std::ostringstream o;
        o << IO<R>::show(Ring::minCardinality()) << " " << IO<R>::show(Ring::maxCardinality());
        return o.str();
    }
    static std::string go(const std::string& ps, const std::string& op, const Args& a) {
        static std::unique_ptr<Ring> cur; static std::string curp;
        if (op == "info") return info();
        if (op == "gcdext") { std::string o; if (Precomp<Ring>::gcd(op, a, o)) return o; return "UNSUPPORTED"; }
        if (!cur || curp != ps + "@" + g_mode) {
            cur = obtain<Ring, R>(IO<R>::parse(ps), IO<R>::parse(ps == "3" ? "5" : "3")); curp = ps + "@" + g_mode;
        }
        const Ring& F = *cur;
        E x, y, z, r; F.init(x); F.init(y); F.init(z); F.init(r);
        if (a.size() > 0) x = IO<E>::parse(a[0]);
        if (a.size() > 1) y = IO<E>::parse(a[1]);
        if (a.size() > 2) z = IO<E>::parse(a[2]);
        F.assign(r, F.mOne);                  // destinations start from a non-zero element
        if (op == "consts") return IO<E>::show(F.zero) + " " + IO<E>::show(F.one) + " " + IO<E>::show(F.mOne) + " " +
                                   IO<E>::show(F.minElement()) + " " + IO<E>::show(F.maxElement()) + " " + IO<R>::show(F.characteristic());
        else if (op == "reduce2") { if (g_alias == "ra") { F.reduce(x, x); return IO<E>::show(x); } F.reduce(r, x); }
        else if (op == "reduce1") { F.assign(r, x); F.reduce(r); }
        else if (op == "isUnit") return F.isUnit(x) ? "1" : "0";
        else {
            E* res = &r;
            if (apply_op(F, op, g_alias, x, y, z, r, res)) return IO<E>::show(*res);
            std::string o; if (Precomp<Ring>::run(F, op, a, o)) return o; return "UNKNOWN-OP";
        }
        return IO<E>::show(r);
    }
};

// Modular<Log16>: elements are exponents of a generator; operands are given / printed as residues (init / convert)
template <> struct Run<Modular<Log16> > {
    typedef Modular<Log16> Ring;
    typedef Ring::Element E;
    static std::string go(const std::string& ps, const std::string& op, const Args& a) {
        static std::unique_ptr<Ring> cur; static std::string curp;
        if (op == "info") { std::ostringstream o; o << Ring::minCardinality() << " " << Ring::maxCardinality(); return o.str(); }
        if (!cur || curp != ps + "@" + g_mode) {
            cur = obtain<Ring, Ring::Residu_t>((Ring::Residu_t) strtoul(ps.c_str(), 0, 10), (Ring::Residu_t) (ps == "3" ? 5 : 3)); curp = ps + "@" + g_mode;
        }
        const Ring& F = *cur;
        E x, y, z, r; F.init(x); F.init(y); F.init(z); F.init(r);
        if (a.size() > 0) F.init(x, (int32_t) strtol(a[0].c_str(), 0, 10));
        if (a.size() > 1) F.init(y, (int32_t) strtol(a[1].c_str(), 0, 10));
        if (a.size() > 2) F.init(z, (int32_t) strtol(a[2].c_str(), 0, 10));
        F.assign(r, F.mOne);
        E* res = &r;
        if (op == "consts") {
            int32_t c0, c1, cm; F.convert(c0, F.zero); F.convert(c1, F.one); F.convert(cm, F.mOne);
            return std::to_string(c0) + " " + std::to_string(c1) + " " + std::to_string(cm) + " 0 " + std::to_string((long) F.characteristic() - 1) + " " + std::to_string((long) F.characteristic());
        }
        else if (apply_op(F, op, g_alias, x, y, z, r, res)) { }
        else if (op == "reduce1" || op == "reduce2") F.init(r, (int32_t) strtol(a[0].c_str(), 0, 10));   // no reduce(): init is the reduction
        else if (op == "isUnit") return F.isUnit(x) ? "1" : "0";
        else return "UNKNOWN-OP";
        int32_t v; F.convert(v, *res);
        return std::to_string(v);
    }
};

typedef std::string (*Fn)(const std::string&, const std::string&, const Args&);
static std::map<std::string, Fn> table;
#define REG(name, ...) table[name] = &Run<__VA_ARGS__ >::go

// per-case CPU-time watchdog (ITIMER_PROF counts CPU time of this process only: independent of machine load).  A ring operation
// that does not return within the budget (C03_CASE_CPU_S seconds, default 10) answers "DOES-NOT-RETURN" for that case and the process
// exits with status 3; checks/C03.py re-runs that one case alone with a larger budget (30 s), then stops driving that call form and carries on with the remaining cases.
static void on_cpu_budget(int) {
    std::cout.flush();
    const char m[] = "DOES-NOT-RETURN\n";
    ssize_t w = write(1, m, sizeof m - 1); (void) w;
    _exit(3);
}
// a fatal signal inside a call: answer CRASHED for that case (flushing what was answered before) and exit with status 4
static void on_fatal(int) {
    std::cout.flush();
    const char m[] = "CRASHED\n";
    ssize_t w = write(1, m, sizeof m - 1); (void) w;
    _exit(4);
}
static void arm_watchdog(long sec) {
    struct itimerval it; it.it_interval.tv_sec = 0; it.it_interval.tv_usec = 0; it.it_value.tv_sec = sec; it.it_value.tv_usec = 0;
    setitimer(ITIMER_PROF, &it, 0);
}

int main() {
    typedef __int128_t i128; typedef __uint128_t u128;
    long cpu_budget = 10; { const char* e = getenv("C03_CASE_CPU_S"); if (e && atol(e) > 0) cpu_budget = atol(e); }
    signal(SIGPROF, on_cpu_budget);
    signal(SIGSEGV, on_fatal); signal(SIGFPE, on_fatal); signal(SIGABRT, on_fatal); signal(SIGBUS, on_fatal); signal(SIGILL, on_fatal);
    // The ring types are spread over four translation units (-DC03_PART=1..4, compiled in parallel by checks/C03.py);
    // without C03_PART every ring is registered.
#if !defined(C03_PART) || C03_PART == 1
    // every (Storage_t, Compute_t) pair accepted by the enable_if of modular-integral.h
    REG("i8_i8", Modular<int8_t, int8_t>);     REG("i8_u8", Modular<int8_t, uint8_t>);
    REG("i8_i16", Modular<int8_t, int16_t>);   REG("i8_u16", Modular<int8_t, uint16_t>);
    REG("u8_i8", Modular<uint8_t, int8_t>);    REG("u8_u8", Modular<uint8_t, uint8_t>);
    REG("u8_i16", Modular<uint8_t, int16_t>);  REG("u8_u16", Modular<uint8_t, uint16_t>);
    REG("i16_i16", Modular<int16_t, int16_t>); REG("i16_u16", Modular<int16_t, uint16_t>);
    REG("i16_i32", Modular<int16_t, int32_t>); REG("i16_u32", Modular<int16_t, uint32_t>);
    REG("u16_i16", Modular<uint16_t, int16_t>); REG("u16_u16", Modular<uint16_t, uint16_t>);
    REG("u16_i32", Modular<uint16_t, int32_t>); REG("u16_u32", Modular<uint16_t, uint32_t>);
#endif
#if !defined(C03_PART) || C03_PART == 2
    REG("i32_i32", Modular<int32_t, int32_t>); REG("i32_u32", Modular<int32_t, uint32_t>);
    REG("i32_i64", Modular<int32_t, int64_t>); REG("i32_u64", Modular<int32_t, uint64_t>);
    REG("u32_i32", Modular<uint32_t, int32_t>); REG("u32_u32", Modular<uint32_t, uint32_t>);
    REG("u32_i64", Modular<uint32_t, int64_t>); REG("u32_u64", Modular<uint32_t, uint64_t>);
    REG("i64_i64", Modular<int64_t, int64_t>); REG("i64_u64", Modular<int64_t, uint64_t>);
    REG("i64_i128", Modular<int64_t, i128>);   REG("i64_u128", Modular<int64_t, u128>);
    REG("u64_i64", Modular<uint64_t, int64_t>); REG("u64_u64", Modular<uint64_t, uint64_t>);
    REG("u64_i128", Modular<uint64_t, i128>);  REG("u64_u128", Modular<uint64_t, u128>);
#endif
#if !defined(C03_PART) || C03_PART == 3
    REG("f_f", Modular<float, float>); REG("f_d", Modular<float, double>); REG("d_d", Modular<double, double>);
    REG("bi32", ModularBalanced<int32_t>); REG("bi64", ModularBalanced<int64_t>);
    REG("bf", ModularBalanced<float>); REG("bd", ModularBalanced<double>);
    REG("ef", ModularExtended<float>); REG("ed", ModularExtended<double>);
#endif
#if !defined(C03_PART) || C03_PART == 4
    REG("zz", Modular<Integer>); REG("log16", Modular<Log16>);
    REG("ri7_7", Modular<RecInt::rint<7>, RecInt::rint<7> >);
    // the other signed RecInt rings the library's own tests instantiate (rint64, rint256, rint64/rint128, rint128/rint256)
    REG("ri6_6", Modular<RecInt::rint<6>, RecInt::rint<6> >); REG("ri8_8", Modular<RecInt::rint<8>, RecInt::rint<8> >);
    REG("ri6_7", Modular<RecInt::rint<6>, RecInt::rint<7> >); REG("ri7_8", Modular<RecInt::rint<7>, RecInt::rint<8> >);
    REG("ru6_6", Modular<RecInt::ruint<6>, RecInt::ruint<6> >); REG("ru6_7", Modular<RecInt::ruint<6>, RecInt::ruint<7> >);
    REG("ru7_7", Modular<RecInt::ruint<7>, RecInt::ruint<7> >); REG("ru7_8", Modular<RecInt::ruint<7>, RecInt::ruint<8> >);
    REG("ru8_8", Modular<RecInt::ruint<8>, RecInt::ruint<8> >); REG("ru8_9", Modular<RecInt::ruint<8>, RecInt::ruint<9> >);
#endif

    std::string line;
    while (std::getline(std::cin, line)) {
        std::istringstream is(line);
        std::string ring, p, op, t; is >> ring >> p >> op;
        if (!is) continue;
        Args a; while (is >> t) a.push_back(t);
        if (ring == "ppinfo") { c03_ppinfo(std::cout); std::cout << "\n"; continue; }
        size_t col = op.find(':');
        g_alias = (col == std::string::npos) ? "" : op.substr(col + 1);
        if (col != std::string::npos) op = op.substr(0, col);
        size_t at = ring.find('@');
        g_mode = (at == std::string::npos) ? "" : ring.substr(at + 1);
        if (at != std::string::npos) ring = ring.substr(0, at);
        std::map<std::string, Fn>::iterator it = table.find(ring);
        if (it == table.end()) { std::cout << "UNKNOWN-RING\n"; continue; }
        if (op == "hang") { volatile unsigned long z = 1; while (z) z += 2; }     // self-test of the watchdog (never generated)
        arm_watchdog(cpu_budget);
        try { std::cout << it->second(p, op, a) << "\n"; }
        catch (...) { std::cout << "EXCEPTION\n"; }
    }
    return 0;
}
