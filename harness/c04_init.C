// C04 harness: init / convert of every ring family of /repo's current headers, one case per line on stdin.
//   init  <ring> <src> <p> <k> <x>   ->  <raw> <cI> <ci64> <cu64> <cd> <ci32> <cu32> <cf> <ci16> <cu16> <flags>   (element, every convert form,
//                                        then isZero isOne isMOne areEqual(e,zero) areEqual(e,init(0)) as five 0/1 characters)
//   rt    <ring> <src> <p> <k> <x>   ->  <raw> <raw of init(convert<Integer>(e))> <.. int64> <.. uint64> <.. double> <.. int32> <.. uint32> <.. float>
//                                        <.. long long> <.. unsigned long long> <.. int16>
//   const <ring> -    <p> <k> 0      ->  <zero> <one> <mOne> <cI(zero)> <cI(one)> <cI(mOne)> <raw of init(-1)>
//   card  <ring> -    0   0   0      ->  <minCardinality> <maxCardinality>
// <x> is a decimal integer; it is converted exactly to the source type (the generator only sends representable
// values).  <k> is the extension degree (GFqDom only; 1 otherwise).  A form that does not exist prints "-".
// Elements are printed as integers (the stored representation); non-integral floating elements as %.17g.
#include <iostream>
#include <sstream>
#include <string>
#include <vector>
#include <cstring>
#include <cstdio>
#include <cmath>
#include <type_traits>
#include <gmp.h>
#include "givinteger.h"
#include "modular.h"
#include "modular-balanced.h"
#include "modular-extended.h"
#include "montgomery.h"
#include "gfq.h"
#include <recint/recint.h>

using namespace Givaro;
using RecInt::ruint;
typedef RecInt::rint<6> rint6; typedef RecInt::rint<7> rint7;
typedef RecInt::ruint<6> ruint6; typedef RecInt::ruint<7> ruint7;
typedef unsigned __int128 u128;
typedef __int128 i128;

// ------------------------------------------------------------------ printing
static std::string mpz_str(const mpz_t z) { char* s = mpz_get_str(NULL, 10, z); std::string r(s); free(s); return r; }

template <class T> static typename std::enable_if<std::is_integral<T>::value && std::is_signed<T>::value, std::string>::type
show(const T& v) { return std::to_string((long long)v); }
template <class T> static typename std::enable_if<std::is_integral<T>::value && std::is_unsigned<T>::value, std::string>::type
show(const T& v) { return std::to_string((unsigned long long)v); }
template <class T> static typename std::enable_if<std::is_floating_point<T>::value, std::string>::type
show(const T& v) {
    double d = (double)v; char buf[64];
    if (std::isfinite(d) && d == std::floor(d)) {
        mpz_t z; mpz_init(z); mpz_set_d(z, d); std::string r = mpz_str(z); mpz_clear(z); return r;
    }
    if (!std::isfinite(d)) return "nonfinite";
    snprintf(buf, sizeof buf, "f%.17g", d); return buf;
}
static std::string show(const Integer& v) { std::ostringstream o; o << v; return o.str(); }
template <size_t K> static std::string show(const ruint<K>& x) {
    const size_t n = RecInt::NBLIMB<K>::value;
    const RecInt::limb* p = reinterpret_cast<const RecInt::limb*>(&x);
    mpz_t z; mpz_init(z); mpz_import(z, n, -1, sizeof(RecInt::limb), 0, 0, p);
    std::string r = mpz_str(z); mpz_clear(z); return r;
}
template <size_t K> static std::string show(const RecInt::rint<K>& x) {
    const size_t n = RecInt::NBLIMB<K>::value;
    const RecInt::limb* p = reinterpret_cast<const RecInt::limb*>(&x.Value);
    mpz_t z, t; mpz_init(z); mpz_init(t); mpz_import(z, n, -1, sizeof(RecInt::limb), 0, 0, p);
    if (mpz_tstbit(z, (1u << K) - 1)) { mpz_set_ui(t, 1); mpz_mul_2exp(t, t, 1u << K); mpz_sub(z, z, t); }
    std::string r = mpz_str(z); mpz_clear(z); mpz_clear(t); return r;
}

// ------------------------------------------------------------------ exact construction of a source value
template <class T> struct Mk;
template <> struct Mk<Integer> { static Integer go(const mpz_t z) { Integer r; mpz_set(r.get_mpz(), z); return r; } };
#define MK_INT(T, GET) template <> struct Mk<T> { static T go(const mpz_t z) { \
    mpz_t m; mpz_init(m); mpz_fdiv_r_2exp(m, z, 64); unsigned long long u = GET; mpz_clear(m); return (T)u; } };
MK_INT(int8_t, mpz_get_ui(m)) MK_INT(uint8_t, mpz_get_ui(m)) MK_INT(int16_t, mpz_get_ui(m)) MK_INT(uint16_t, mpz_get_ui(m))
MK_INT(int32_t, mpz_get_ui(m)) MK_INT(uint32_t, mpz_get_ui(m)) MK_INT(int64_t, mpz_get_ui(m)) MK_INT(uint64_t, mpz_get_ui(m))
MK_INT(long long, mpz_get_ui(m)) MK_INT(unsigned long long, mpz_get_ui(m))   // distinct from int64_t / uint64_t (long) on LP64
template <> struct Mk<double> { static double go(const mpz_t z) { return mpz_get_d(z); } };
template <> struct Mk<float> { static float go(const mpz_t z) { return (float)mpz_get_d(z); } };
template <size_t K> struct Mk<ruint<K> > { static ruint<K> go(const mpz_t z) {
    ruint<K> x; const size_t n = RecInt::NBLIMB<K>::value; RecInt::limb* p = reinterpret_cast<RecInt::limb*>(&x);
    mpz_t m; mpz_init(m); mpz_fdiv_r_2exp(m, z, 1u << K);
    for (size_t i = 0; i < n; ++i) p[i] = (i < mpz_size(m)) ? mpz_getlimbn(m, i) : 0;
    mpz_clear(m); return x; } };
template <size_t K> struct Mk<RecInt::rint<K> > { static RecInt::rint<K> go(const mpz_t z) { RecInt::rint<K> x; x.Value = Mk<ruint<K> >::go(z); return x; } };

// ------------------------------------------------------------------ rings
template <class R> struct Build { static R* go(const mpz_t p, unsigned) { typename R::Residu_t q = Mk<typename R::Residu_t>::go(p); return new R(q); } };
template <class T> struct Build<GFqDom<T> > { static GFqDom<T>* go(const mpz_t p, unsigned k) {
    return new GFqDom<T>((typename GFqDom<T>::Residu_t)mpz_get_ui(p), (typename GFqDom<T>::Residu_t)k); } };
template <> struct Mk<u128> { static u128 go(const mpz_t z) { mpz_t m; mpz_init(m); mpz_fdiv_r_2exp(m, z, 64); u128 lo = mpz_get_ui(m);
    mpz_fdiv_q_2exp(m, z, 64); u128 hi = mpz_get_ui(m); mpz_clear(m); return (hi << 64) | lo; } };

// which convert forms exist: detected, so that a removed/added form changes the output
template <class R, class T, class = void> struct HasConv : std::false_type {};
template <class R, class T> struct HasConv<R, T, decltype((void)std::declval<const R&>().convert(std::declval<T&>(), std::declval<const typename R::Element&>()))> : std::true_type {};
template <class E> static typename std::enable_if<std::is_floating_point<E>::value, bool>::type finite_elt(const E& e) { return std::isfinite((double)e); }
template <class E> static typename std::enable_if<!std::is_floating_point<E>::value, bool>::type finite_elt(const E&) { return true; }
template <class R, class T> static typename std::enable_if<HasConv<R, T>::value, std::string>::type
conv(const R& F, const typename R::Element& e) { if (!finite_elt(e)) return "nonfinite"; T t; F.convert(t, e); return show(t); }
template <class R, class T> static typename std::enable_if<!HasConv<R, T>::value, std::string>::type
conv(const R&, const typename R::Element&) { return "-"; }

template <class R, class S, class = void> struct HasInit : std::false_type {};
template <class R, class S> struct HasInit<R, S, decltype((void)std::declval<const R&>().init(std::declval<typename R::Element&>(), std::declval<const S&>()))> : std::true_type {};

// RecInt sources: a call form that does not compile is a hard error inside the body (the generic init templates
// accept every type), so the forms that exist are listed here (found by compiling each pair once; see frag/C04.design.md)
template <class R, class S> struct Allow : std::true_type {};
template <class R, size_t K> struct Allow<R, ruint<K> > : std::false_type {};
template <class R, size_t K> struct Allow<R, RecInt::rint<K> > : std::false_type {};
#define ALLOW(...) template <> struct Allow<__VA_ARGS__ > : std::true_type {};
// Modular<Integer>::init(long long): Integer(long long) is ambiguous inside the template body (a hard error): no such form
template <> struct Allow<Modular<Integer>, long long> : std::false_type {};
template <> struct Allow<Modular<Integer>, unsigned long long> : std::false_type {};
#ifdef PROBE_R
ALLOW(PROBE_R, PROBE_S)
#else
#include "c04_allow.inc"
#endif

template <class R> static void fill(typename R::Element& e) { memset(static_cast<void*>(&e), 0, sizeof e); }
template <> void fill<Modular<Integer> >(Integer& e) { e = Integer(12345); }

// init(convert<T>(e)) for one more intermediate type T ("-" when the ring has no such convert / init form)
template <class R, class T> static typename std::enable_if<HasConv<R, T>::value && HasInit<R, T>::value && Allow<R, T>::value, std::string>::type
back(const R& F, const typename R::Element& e) { T t; typename R::Element e2; fill<R>(e2); F.convert(t, e);
    if (!finite_elt(t)) return "nonfinite";      // (an element beyond the range of a floating T: outside the claim, and Integer(inf) traps)
    F.init(e2, t); return show(e2); }
template <class R, class T> static typename std::enable_if<!(HasConv<R, T>::value && HasInit<R, T>::value && Allow<R, T>::value), std::string>::type
back(const R&, const typename R::Element&) { return "-"; }

template <class R, class S> static typename std::enable_if<HasInit<R, S>::value && Allow<R, S>::value, std::string>::type
do_init(const R& F, const std::string& op, const mpz_t x) {
    typename R::Element e; fill<R>(e);
    const S s = Mk<S>::go(x);
    F.init(e, s);
    std::ostringstream o;
    if (op == "init") {
        o << show(e) << " " << conv<R, Integer>(F, e) << " " << conv<R, int64_t>(F, e) << " " << conv<R, uint64_t>(F, e)
          << " " << conv<R, double>(F, e) << " " << conv<R, int32_t>(F, e) << " " << conv<R, uint32_t>(F, e)
          << " " << conv<R, float>(F, e) << " " << conv<R, int16_t>(F, e) << " " << conv<R, uint16_t>(F, e);
        // predicates on the element just produced: isZero isOne isMOne areEqual(e, zero) areEqual(e, init(0)) (one character each)
        { typename R::Element z0; fill<R>(z0); F.init(z0, (int64_t)0);
          o << " " << (F.isZero(e) ? '1' : '0') << (F.isOne(e) ? '1' : '0') << (F.isMOne(e) ? '1' : '0')
            << (F.areEqual(e, F.zero) ? '1' : '0') << (F.areEqual(e, z0) ? '1' : '0'); }
    } else {   // rt: init(convert(e)) for each convert target
        o << show(e);
        if (!finite_elt(e)) return o.str() + " nonfinite nonfinite nonfinite nonfinite - - - - - -";
        { Integer t; typename R::Element e2; fill<R>(e2); F.convert(t, e); F.init(e2, t); o << " " << show(e2); }
        { int64_t t; typename R::Element e2; fill<R>(e2); F.convert(t, e); F.init(e2, t); o << " " << show(e2); }
        { uint64_t t; typename R::Element e2; fill<R>(e2); F.convert(t, e); F.init(e2, t); o << " " << show(e2); }
        { double t; typename R::Element e2; fill<R>(e2); F.convert(t, e); F.init(e2, t); o << " " << show(e2); }
        o << " " << back<R, int32_t>(F, e) << " " << back<R, uint32_t>(F, e) << " " << back<R, float>(F, e)
          << " " << back<R, long long>(F, e) << " " << back<R, unsigned long long>(F, e) << " " << back<R, int16_t>(F, e);
    }
    return o.str();
}
template <class R, class S> static typename std::enable_if<!(HasInit<R, S>::value && Allow<R, S>::value), std::string>::type
do_init(const R&, const std::string&, const mpz_t) { return "NOFORM"; }

template <class R> static std::string do_const(const R& F) {
    std::ostringstream o;
    typename R::Element z, u, m, n; fill<R>(z); fill<R>(n);
    F.assign(z, F.zero); F.assign(u, F.one); F.assign(m, F.mOne);
    F.init(n, (int64_t)-1);
    typename R::Element d; fill<R>(d); F.init(d);
    o << show(z) << " " << show(u) << " " << show(m) << " " << conv<R, Integer>(F, z) << " " << conv<R, Integer>(F, u) << " "
      << conv<R, Integer>(F, m) << " " << show(n) << " " << show(d);
    return o.str();
}

// ------------------------------------------------------------------ ways of obtaining the domain object
// op may carry a suffix  @<how>:<p2>:<k2>   (p2^k2 = modulus of the domain that is overwritten):
//   direct      R(p)
//   copy        R G(p); R F(G)
//   assign      R G(p); R F(p2); F = G                 (assignment over a domain of ANOTHER modulus: stale cached fields show)
//   defassign   R G(p); R F;     F = G                 (assignment over a default-constructed domain)
//   randiter    R G(p), H(p2); RandIter a(G), b(H); b = a;  domain = b.ring()      (RandIter::operator= assigns the ring it refers to)
//   copyassign  R G(p); R H(p2); H = G; R F(H)         (copy of an assigned domain)
// A form the ring type does not have prints NOFORM.  Objects are deliberately never destroyed (table rings share tables).
template <class R, bool OK> struct DefAssign { static R* go(R*) { return 0; } };
template <class R> struct DefAssign<R, true> { static R* go(R* G) { R* F = new R(); *F = *G; return F; } };
template <class R, bool OK> struct OverAssign { static R* go(R*, R*) { return 0; } };
template <class R> struct OverAssign<R, true> { static R* go(R* G, R* H) { *H = *G; return H; } };
template <class R, bool OK> struct IterAssign { static R* go(R*, R*) { return 0; } };
template <class R> struct IterAssign<R, true> { static R* go(R* G, R* H) {
    typename R::RandIter* a = new typename R::RandIter(*G); typename R::RandIter* b = new typename R::RandIter(*H);
    typename R::RandIter* c = new typename R::RandIter(*a);      // a copy of the iterator, then assignment from the copy
    *b = *c; return const_cast<R*>(&b->ring()); } };
template <class R> static R* obtain(const std::string& how, const mpz_t p, unsigned k, const mpz_t p2, unsigned k2) {
    R* G = Build<R>::go(p, k);
    if (how == "direct") return G;
    if (how == "copy") return new R(*G);
    if (how == "defassign") return DefAssign<R, std::is_default_constructible<R>::value && std::is_copy_assignable<R>::value>::go(G);
    R* H = Build<R>::go(p2, k2);
    if (how == "assign") return OverAssign<R, std::is_copy_assignable<R>::value>::go(G, H);
    if (how == "copyassign") { R* A = OverAssign<R, std::is_copy_assignable<R>::value>::go(G, H); return A ? new R(*A) : 0; }
    if (how == "randiter") return IterAssign<R, std::is_copy_assignable<typename R::RandIter>::value && std::is_copy_assignable<R>::value>::go(G, H);
    return 0;
}
static std::string g_how = "direct"; static mpz_t g_p2; static unsigned g_k2 = 1;

template <class R> static std::string run_ring(const std::string& op, const std::string& src, const mpz_t p, unsigned k, const mpz_t x) {
    if (op == "card") {
        std::ostringstream o; o << show(R::minCardinality()) << " " << show(R::maxCardinality()); return o.str();
    }
    // ring objects are cached per (p,k): building Log16/GFq tables is expensive
    static std::string lastkey; static R* F = 0;
    std::string key = mpz_str(p) + "^" + std::to_string(k) + "@" + g_how + ":" + mpz_str(g_p2) + ":" + std::to_string(g_k2);
    if (key != lastkey) { F = obtain<R>(g_how, p, k, g_p2, g_k2); lastkey = key; }
    if (F == 0) return "NOFORM";
    if (op == "const") return do_const<R>(*F);
#define SRC(NAME, T) if (src == NAME) return do_init<R, T>(*F, op, x);
    SRC("i8", int8_t) SRC("u8", uint8_t) SRC("i16", int16_t) SRC("u16", uint16_t)
    SRC("i32", int32_t) SRC("u32", uint32_t) SRC("i64", int64_t) SRC("u64", uint64_t)
    SRC("ll", long long) SRC("ull", unsigned long long)
    SRC("f", float) SRC("d", double) SRC("I", Integer)
    SRC("ru6", ruint6) SRC("ru7", ruint7) SRC("ri6", rint6) SRC("ri7", rint7)
#undef SRC
    return "BAD-SRC";
}

// ------------------------------------------------------------------ per-case CPU-time watchdog, accurate crash attribution
// Before each case ITIMER_PROF is armed with a CPU budget (argv[1] seconds, default 20; CPU time does not depend on machine load).
// A call that does not return within it: everything answered so far is flushed, the line HANG is printed for the current case and the
// process exits with status 75; checks/C04.py re-runs that one case alone with a larger budget before it reports "does not return".
// A fatal signal (SIGSEGV, SIGFPE, ...) flushes the answers of the completed cases first, so that the crash is attributed to the right line.
#include <signal.h>
#include <sys/time.h>
#include <unistd.h>
static void on_prof(int) { std::cout.flush(); const char m[] = "HANG\n"; ssize_t w = write(1, m, sizeof m - 1); (void)w; _exit(75); }
static void on_fatal(int sig) { std::cout.flush(); _exit(100 + sig); }
static void on_term(int) { std::cout.flush(); _exit(76); }      // the check stops this stream (cap on hangs reached elsewhere): keep the answers so far
static void arm(long sec) { struct itimerval t; t.it_interval.tv_sec = 0; t.it_interval.tv_usec = 0; t.it_value.tv_sec = sec; t.it_value.tv_usec = 0;
    setitimer(ITIMER_PROF, &t, 0); }

int main(int argc, char** argv) {
    std::ios::sync_with_stdio(false);
    long budget = (argc > 1) ? atol(argv[1]) : 20; if (budget <= 0) budget = 20;
    signal(SIGPROF, on_prof); signal(SIGTERM, on_term);
    // fatal signals run on an alternate stack: an unbounded recursion (stack overflow) must still flush the completed answers
    static char altstack[1 << 16]; stack_t ss; ss.ss_sp = altstack; ss.ss_flags = 0; ss.ss_size = sizeof altstack; sigaltstack(&ss, 0);
    struct sigaction sa; sa.sa_handler = on_fatal; sa.sa_flags = SA_ONSTACK; sigemptyset(&sa.sa_mask);
    sigaction(SIGSEGV, &sa, 0); sigaction(SIGBUS, &sa, 0); sigaction(SIGFPE, &sa, 0); sigaction(SIGILL, &sa, 0); sigaction(SIGABRT, &sa, 0);
    std::string line;
    mpz_t p, x; mpz_init(p); mpz_init(x); mpz_init(g_p2);
    while (std::getline(std::cin, line)) {
        arm(budget);
        std::istringstream is(line);
        std::string op, ring, src, ps, xs; unsigned k = 1;
        if (!(is >> op >> ring >> src >> ps >> k >> xs)) { if (!line.empty()) std::cout << "BAD-LINE\n"; continue; }
        g_how = "direct"; mpz_set_ui(g_p2, 0); g_k2 = 1;
        { size_t at = op.find('@');
          if (at != std::string::npos) {
              std::string h = op.substr(at + 1); op = op.substr(0, at);
              size_t c1 = h.find(':'), c2 = h.find(':', c1 == std::string::npos ? 0 : c1 + 1);
              if (c1 != std::string::npos && c2 != std::string::npos) {
                  g_how = h.substr(0, c1); mpz_set_str(g_p2, h.substr(c1 + 1, c2 - c1 - 1).c_str(), 10); g_k2 = (unsigned)std::stoul(h.substr(c2 + 1));
              } else g_how = h;
          } }
        mpz_set_str(p, ps.c_str(), 10); mpz_set_str(x, xs.c_str(), 10);
        std::string out;
#define RING(NAME, ...) else if (ring == NAME) out = run_ring<__VA_ARGS__ >(op, src, p, k, x);
        if (false) {}
        // the ring list is split into parts (-DC04_PART=n) so that the translation units compile in parallel; checks/C04.py knows the map
#if !defined(C04_PART) || C04_PART == 0
        RING("mi8", Modular<int8_t>) RING("mu8", Modular<uint8_t>) RING("mi16", Modular<int16_t>) RING("mu16", Modular<uint16_t>)
#endif
#if !defined(C04_PART) || C04_PART == 1
        RING("mi32", Modular<int32_t>) RING("mu32", Modular<uint32_t>) RING("mi64", Modular<int64_t>) RING("mu64", Modular<uint64_t>)
#endif
#if !defined(C04_PART) || C04_PART == 2
        RING("mi8w", Modular<int8_t, int16_t>) RING("mu8w", Modular<uint8_t, uint16_t>) RING("mi16w", Modular<int16_t, int32_t>) RING("mu16w", Modular<uint16_t, uint32_t>)
#endif
#if !defined(C04_PART) || C04_PART == 3
        RING("mi32w", Modular<int32_t, int64_t>) RING("mu32w", Modular<uint32_t, uint64_t>) RING("mi64w", Modular<int64_t, i128>) RING("mu64w", Modular<uint64_t, u128>)
#endif
#if !defined(C04_PART) || C04_PART == 4
        RING("mf", Modular<float>) RING("md", Modular<double>) RING("mfd", Modular<float, double>) RING("bd", ModularBalanced<double>) RING("bf", ModularBalanced<float>)
#endif
#if !defined(C04_PART) || C04_PART == 5
        RING("bi32", ModularBalanced<int32_t>) RING("bi64", ModularBalanced<int64_t>) RING("ef", ModularExtended<float>) RING("ed", ModularExtended<double>)
#endif
#if !defined(C04_PART) || C04_PART == 6
        RING("log16", Modular<Log16>) RING("mont32", Montgomery<int32_t>) RING("mI", Modular<Integer>) RING("gfq32", GFqDom<int32_t>) RING("gfq64", GFqDom<int64_t>)
#endif
#if !defined(C04_PART) || C04_PART == 7
        RING("mru7", Modular<ruint<7> >) RING("mru67", Modular<ruint<6>, ruint<7> >)
        RING("mgru6", Montgomery<ruint<6> >) RING("mgru7", Montgomery<ruint<7> >)
#endif
        else out = "BAD-RING";
#undef RING
        arm(0);
        std::cout << out << "\n";
    }
    return 0;
}
