// C04 standalone reproducer of the init/convert defects listed in frag/C04.findings.json.
// Build (from /verif):  python3 -c "import sys; sys.path.insert(0,'lib'); import vf; print(vf.build_harness('c04_repro.C')[0])"
// Each line: call, modulus, source value, observed element (convert<Integer> where it exists), expected canonical value.
#include <iostream>
#include <cstdint>
#include <climits>
#include "givinteger.h"
#include "modular.h"
#include "modular-balanced.h"
#include "modular-extended.h"
#include "montgomery.h"
#include "gfq.h"
#include <recint/recint.h>
using namespace Givaro;
template <class R, class S> static void show(const char* what, const R& F, const S& x, const char* xs, const char* want) {
    typename R::Element e; F.init(e, x); Integer v; F.convert(v, e);
    std::cout << what << "  p=" << Integer(F.characteristic()) << "  x=" << xs << "  ->  " << v << "   (expected " << want << ")\n";
}
int main() {
    { Modular<int32_t> F(3);            show("Modular<int32_t>::init(int64_t)", F, (int64_t)INT64_MIN, "-2^63", "1"); }
    { Modular<uint32_t,uint64_t> F(3);  show("Modular<uint32_t,uint64_t>::init(int64_t)", F, (int64_t)INT64_MIN, "-2^63", "1"); }
    { Modular<int16_t> F(3);            show("Modular<int16_t>::init(int32_t)", F, (int32_t)INT32_MIN, "-2^31", "1"); }
    { Modular<double> F(3);             show("Modular<double>::init(int64_t)", F, (int64_t)INT64_MIN, "-2^63", "1"); }
    { Modular<float> F(3);              show("Modular<float>::init(int32_t)", F, (int32_t)INT32_MIN, "-2^31", "1"); }
    { Montgomery<int32_t> F(3);         show("Montgomery<int32_t>::init(int64_t)", F, (int64_t)INT64_MIN, "-2^63", "1"); }
    { Modular<int32_t> F(3);            show("Modular<int32_t>::init(uint32_t)", F, (uint32_t)2147483648u, "2^31", "2"); }
    { Modular<int64_t> F(3);            show("Modular<int64_t>::init(uint64_t)", F, (uint64_t)1 << 63, "2^63", "2"); }
    { ModularBalanced<int32_t> F(3);    show("ModularBalanced<int32_t>::init(uint32_t)", F, (uint32_t)2147483648u, "2^31", "-1"); }
    { ModularBalanced<int64_t> F(3);    show("ModularBalanced<int64_t>::init(uint64_t)", F, (uint64_t)1 << 63, "2^63", "-1"); }
    { Modular<uint64_t> F(7);           show("Modular<uint64_t>::init(int32_t)", F, (int32_t)INT32_MIN, "-2^31", "5"); }
    { Modular<uint32_t> F(3);           show("Modular<uint32_t>::init(Integer)", F, Integer(-2), "-2", "1"); }
    { Modular<uint64_t> F(3);           show("Modular<uint64_t>::init(Integer)", F, Integer(-2), "-2", "1"); }
    { Modular<int8_t> F(3);             show("Modular<int8_t>::init(Integer)", F, Integer(-2), "-2", "1"); }
    { ModularBalanced<double> F(5);     show("ModularBalanced<double>::init(Integer)", F, Integer(-3), "-3", "2"); }
    { ModularBalanced<int32_t> F(5);    show("ModularBalanced<int32_t>::init(Integer)", F, Integer(-3), "-3", "2"); }
    { Modular<int32_t,int64_t> F(16777259); show("Modular<int32_t,int64_t>::init(float)", F, 16777260.0f, "16777260", "1"); }
    { Modular<int64_t> F(3);            show("Modular<int64_t>::init(float)", F, 9223372036854775808.0f, "2^63", "2"); }
    { ModularExtended<double> F(2);     show("ModularExtended<double>::init(int64_t)", F, (int64_t)9007199254740993LL, "2^53+1", "1"); }
    { ModularExtended<double> F(3);     show("ModularExtended<double>::init(double)", F, 9223372036854775808.0, "2^63", "2"); }
    { Modular<Log16> F(3);              show("Modular<Log16>::init(int64_t)", F, (int64_t)-3, "-3", "0"); }
    { Modular<RecInt::ruint<7> > F(RecInt::ruint<7>(3)); show("Modular<ruint<7>>::init(Integer)", F, Integer(1) << 128, "2^128", "1"); }
    { Modular<RecInt::ruint<7> > F(RecInt::ruint<7>(7)); show("Modular<ruint<7>>::init(int32_t)", F, (int32_t)INT32_MIN, "-2^31", "5"); }
    { Montgomery<int32_t> F(3);         show("Montgomery<int32_t>::init(float)", F, 4294967296.0f, "2^32", "1"); }
    { Montgomery<int32_t> F(3);         show("Montgomery<int32_t>::init(unsigned long long)", F, (unsigned long long)1 << 63, "2^63", "2"); }
    { ModularBalanced<double> F(5);     show("ModularBalanced<double>::init(unsigned long long)", F, ((unsigned long long)1 << 63) + 1, "2^63+1", "-1"); }
    { ModularBalanced<int64_t> F(5);    show("ModularBalanced<int64_t>::init(uint64_t)", F, ((uint64_t)1 << 63) + 1, "2^63+1", "-1"); }
    { Modular<Log16> F(3);              show("Modular<Log16>::init(double)", F, 18446744073709551616.0, "2^64", "1"); }
    { Montgomery<int32_t> F(3);         show("Montgomery<int32_t>::init(float)", F, 18446744073709551616.0f, "2^64", "1"); }
    { ModularExtended<double> F(2);     show("ModularExtended<double>::init(uint64_t)", F, (uint64_t)9007199254740993ULL, "2^53+1", "1"); }
    { ModularExtended<double> F(2);     show("ModularExtended<double>::init(Integer)", F, (Integer(1) << 100) + 1, "2^100+1", "1"); }
    { ModularExtended<float> F(2);      show("ModularExtended<float>::init(Integer)", F, Integer(16777217), "2^24+1", "1"); }
    { ModularExtended<float> F(3);      show("ModularExtended<float>::init(float)", F, 4294967296.0f, "2^32", "1"); }
    std::cout << "GFqDom<int32_t>(3,1)::init(int32_t -2^31): " << std::flush;
    { GFqDom<int32_t> F(3, 1); GFqDom<int32_t>::Element e; F.init(e, (int32_t)INT32_MIN); Integer v; F.convert(v, e); std::cout << v << " (expected 1)\n"; }
    return 0;
}
