// C05: one call of a field operation with a prescribed aliasing pattern of destination and operands.
// The operands live in the slots s[0..3]; pat[i] in '0'..'3' is the slot passed as the i-th argument (pat[0] = destination).
// Variants: three-address add sub mul div (r,a,b); neg inv (r,a); axpy axmy maxpy (r,a,b,c);
//           in place  addin subin mulin divin (r,b); negin invin (r); axpyin maxpyin axmyin (r,b,c).
#ifndef C05_ALIAS_H
#define C05_ALIAS_H
#include <string>
inline bool c05_inplace(const std::string& v) { return v.size() > 2 && v.compare(v.size() - 2, 2, "in") == 0; }
inline size_t c05_nargs(const std::string& v) {      // number of arguments including the destination
    if (v == "add" || v == "sub" || v == "mul" || v == "div" || v == "axpyin" || v == "maxpyin" || v == "axmyin") return 3;
    if (v == "neg" || v == "inv" || v == "addin" || v == "subin" || v == "mulin" || v == "divin") return 2;
    if (v == "axpy" || v == "axmy" || v == "maxpy") return 4;
    if (v == "negin" || v == "invin") return 1;
    return 0;
}
// fill the slots: first value that claims a slot wins; returns false on a malformed pattern
template <class Slots, class V> bool c05_fill(const std::string& v, const std::string& pat, Slots& s, const V* vals) {
    size_t n = c05_nargs(v);
    if (n == 0 || pat.size() != n) return false;
    bool assigned[4] = {false, false, false, false};
    size_t vi = 0;
    for (size_t i = 0; i < n; ++i) if (pat[i] < '0' || pat[i] > '3') return false;
    if (c05_inplace(v)) { s[pat[0] - '0'] = vals[vi++]; assigned[pat[0] - '0'] = true; }
    for (size_t i = 1; i < n; ++i) {
        int k = pat[i] - '0';
        if (!assigned[k]) { s[k] = vals[vi]; assigned[k] = true; }
        ++vi;
    }
    return true;
}
template <class F, class Slots> bool c05_call(const F& f, const std::string& v, const std::string& p, Slots& s) {
#define SL(i) s[p[i] - '0']
    if (v == "add") f.add(SL(0), SL(1), SL(2));
    else if (v == "sub") f.sub(SL(0), SL(1), SL(2));
    else if (v == "mul") f.mul(SL(0), SL(1), SL(2));
    else if (v == "div") f.div(SL(0), SL(1), SL(2));
    else if (v == "neg") f.neg(SL(0), SL(1));
    else if (v == "inv") f.inv(SL(0), SL(1));
    else if (v == "axpy") f.axpy(SL(0), SL(1), SL(2), SL(3));
    else if (v == "axmy") f.axmy(SL(0), SL(1), SL(2), SL(3));
    else if (v == "maxpy") f.maxpy(SL(0), SL(1), SL(2), SL(3));
    else if (v == "addin") f.addin(SL(0), SL(1));
    else if (v == "subin") f.subin(SL(0), SL(1));
    else if (v == "mulin") f.mulin(SL(0), SL(1));
    else if (v == "divin") f.divin(SL(0), SL(1));
    else if (v == "negin") f.negin(SL(0));
    else if (v == "invin") f.invin(SL(0));
    else if (v == "axpyin") f.axpyin(SL(0), SL(1), SL(2));
    else if (v == "maxpyin") f.maxpyin(SL(0), SL(1), SL(2));
    else if (v == "axmyin") f.axmyin(SL(0), SL(1), SL(2));
    else return false;
#undef SL
    return true;
}
#endif
