// C05 harness (2): Extension<>, GFqExtFast / GFqExt, GF2 of /repo's current headers.
// (gfqkronecker.h cannot be compiled in this tree: it includes givaro/givzpz.h and givaro/givzpzInt.h, which do not exist,
//  and uses ModularRandIter with two template arguments; GFqKronecker is therefore not instantiable by any user.)
// stdin lines:
//   gf2 <way> <variant> <e|b> <prev> <pos> a b c -> "<destination after the call> <value of the returned reference>"
//        way: 0 GF2(), 1 GF2(2,1), 2 copy-constructed, 3 assigned, 4 self-assigned; e = Element& overload, b = BitReference overload
//        (a bit of a 130-bit std::vector<bool> at position pos; every other bit must stay unchanged); prev = previous content
//   gf2desc <way>                      -> "card char size residu zero one mone cardI charI min max"
//   ext <gfq|mod> <pe|bf|pol> <p> <k> [| c0 .. ck]   -> "E <card> <cardI> <char> <charI> <expo> <order> I <irred p-adic> Z <zero> <one> <mone>"
//   erand <arg> <n>                    -> n draws of Extension::RandIter(F, arg): "<zero draws> <invalid draws> <same sequence twice>"
//   eop <variant> a b c                -> p-adic value of the result (operands are p-adic values < p^k)
//   gext <ext|fast> <p> <k> <way> <p2> <k2> [| c0 .. ck]  -> "G <q> <irred> <gen> <card> <char> <expo> H <hash log2pol> Q <bits> <base> <mask> <maxdot> <char(UTT&)> <X>"
//        way: d constructed in place, c copy-constructed (source destroyed), a assigned over a default-constructed object,
//        o assigned over a field GF(p2^k2), s assigned to itself, h copy kept while its source is overwritten, t assigned twice
//        (GF(p2^k2) first), m constructed from (p, k, modulus polynomial)
//   gdotn <n> a b                      -> init( n times convert(a)*convert(b) accumulated )  -> "<rep> <p-adic>"
//   gdotw <mode>                       -> n = maxdot() | maxdot()-1 | maxdot()/2 products of the all-(p-1) element with itself: "<n> <rep> <p-adic>"
//   groundtrip a                       -> init(rep, convert(d, a)) -> "<rep> <p-adic>"
//   gflt <integer>                     -> init(rep, float) / convert(float&) -> "<rep> <p-adic> <convert(float) of rep>"
//   ginitul <n>                        -> init(rep, unsigned long) -> "<rep> <p-adic>"
//   grand <n>                          -> n calls of random(g, r): "<min p-adic> <max p-adic> <count outside the field>"
//   gop <variant> a b c                -> GFqDom scalar operation through the derived class (Zech representations)
//   gconv a                            -> convert(double|Ints, a) as an integer
//   ginit <integer>                    -> init(rep, double|Ints) -> "<rep> <p-adic>"
//   gdot <n> | a.. | b..               -> init( sum_j convert(a_j)*convert(b_j) )  -> "<rep> <p-adic>"
#include <iostream>
#include <sstream>
#include <string>
#include <vector>
#include <cstdlib>
#include <unistd.h>
#include <signal.h>
#include <sys/wait.h>
#include <sys/resource.h>
#include <sys/time.h>
#include "givinteger.h"
#include "gfq.h"
#include "gfqext.h"
#include "extension.h"
#include "gf2.h"
#include "c05_alias.h"
#include "modular.h"
#include "givpoly1.h"

using namespace Givaro;
typedef long long ll;

static std::vector<std::vector<std::string> > split_bar(const std::vector<std::string>& t, size_t from) {
    std::vector<std::vector<std::string> > r(1);
    for (size_t i = from; i < t.size(); ++i) { if (t[i] == "|") r.push_back(std::vector<std::string>()); else r.back().push_back(t[i]); }
    return r;
}
static std::string hash1(const std::vector<ll>& v) {
    ll h1 = 0, h2 = 0;
    for (size_t i = 0; i < v.size(); ++i) { ll x = v[i] + 4294967296LL; h1 = (h1 * 31 + x + 7) % 1000000007LL; h2 = (h2 * 37 + x + 11) % 998244353LL; }
    std::ostringstream o; o << h1 << "." << h2; return o.str();
}

struct Session { virtual ~Session() {} virtual std::string line(const std::vector<std::string>& t) = 0; virtual std::string describe() = 0; };

// ------------------------------------------------------------------ Extension<Base>
template <class Base> struct ExtS : public Session {
    typedef Extension<Base> Ext;
    typedef typename Ext::Element Elt;
    typedef typename Ext::Pol_t Pol;
    Base B; Ext* F; Integer P; unsigned long k;
    // ext <gfq|mod> <pe|bf|pol|tower> <p> <k> [<s>] : tower = Extension over the non-prime base field GFqDom(p,s), order k
    static Base mk_base(unsigned long p, unsigned long s, GFqDom<int64_t>*) { return GFqDom<int64_t>((uint64_t)p, (uint64_t)s); }
    static Base mk_base(unsigned long p, unsigned long, Modular<int64_t>*) { return Modular<int64_t>((int64_t)p); }
    static Base mk_base(unsigned long, unsigned long, GF2*) { return GF2(); }
    static std::string base_info(const GF2&) { return "2 1 -1 1"; }
    static bool okrep(const GF2&, int64_t r) { return r == 0 || r == 1; }
    static Ext* mk_pe(unsigned long, unsigned long, char, unsigned long, unsigned long, GF2*) { return 0; }
    static std::string base_info(const GFqDom<int64_t>& b) { std::ostringstream o; o << (ll)b.cardinality() << " " << (ll)b.exponent() << " " << (b.exponent() > 1 ? (ll)b.irreducible() : -1) << " " << (ll)b.generator(); return o.str(); }
    static std::string base_info(const Modular<int64_t>& b) { std::ostringstream o; o << (ll)b.cardinality() << " 1 -1 0"; return o.str(); }
    // way (token "w=<c>[,p2,k2]" at the end of the ext line): how the object that is used was obtained from the constructed one
    static Ext* obtain(Ext& G, char way, unsigned long p2, unsigned long k2) {
        if (way == 'c') return new Ext(G);                                   // copy constructor
        if (way == 'a') { Ext H; H = G; return new Ext(H); }                  // operator= over a default-constructed object, then copy
        if (way == 'o') { Ext* H = new Ext(mk_base(p2, 1, (Base*)0), (typename Ext::Residu_t)k2); *H = G; return H; }   // over another field
        if (way == 's') { Ext* H = new Ext(G); Ext& R = *H; *H = R; return H; }                                        // self-assignment
        if (way == 'h') { Ext* A = new Ext(G); Ext* C = new Ext(*A); *A = Ext(mk_base(p2, 1, (Base*)0), (typename Ext::Residu_t)k2); delete A; return C; }
        if (way == 't') { Ext* H = new Ext(); *H = Ext(mk_base(p2, 1, (Base*)0), (typename Ext::Residu_t)k2); *H = G; return H; }
        return 0;
    }
    ExtS(const std::vector<std::string>& t0) : B(mk_base(strtoul(t0[3].c_str(), 0, 10), (t0[2] == "tower" && t0.size() > 5 && t0[5][0] != 'w' && t0[5] != "|") ? strtoul(t0[5].c_str(), 0, 10) : 1, (Base*)0)), F(0) {
        std::vector<std::string> t(t0);
        char way = 0; unsigned long p2 = 2, k2 = 2;
        if (!t.empty() && t.back().compare(0, 2, "w=") == 0) {
            std::string w = t.back().substr(2); t.pop_back(); way = w[0];
            size_t c1 = w.find(','), c2 = w.find(',', c1 == std::string::npos ? 0 : c1 + 1);
            if (c1 != std::string::npos && c2 != std::string::npos) { p2 = strtoul(w.substr(c1 + 1, c2 - c1 - 1).c_str(), 0, 10); k2 = strtoul(w.substr(c2 + 1).c_str(), 0, 10); }
        }
        unsigned long p = strtoul(t[3].c_str(), 0, 10); k = strtoul(t[4].c_str(), 0, 10);
        if (t[2] == "pe") { F = mk_pe(p, k, way ? way : 'c', p2, k2, (Base*)0); }
        else if (t[2] == "bf" || t[2] == "tower") { Ext G(B, (typename Ext::Residu_t)k); F = obtain(G, way ? way : 'a', p2, k2); }
        else {
            std::vector<std::vector<std::string> > parts = split_bar(t, 5);
            Pol PD(B, "Y"); typename Pol::Element irr(parts[1].size());
            for (size_t i = 0; i < parts[1].size(); ++i) B.init(irr[i], (int64_t)strtoll(parts[1][i].c_str(), 0, 10));
            Ext G(PD, irr); F = obtain(G, way ? way : 'a', p2, k2);
        }
        if (!F) throw 1;
        // coefficients are read and written through the base field the extension really uses
        B = F->base_field(); Integer cb; B.cardinality(cb); P = cb;
    }
    static Ext* mk_pe(unsigned long p, unsigned long k, char way, unsigned long p2, unsigned long k2, GFqDom<int64_t>*) { Ext G((typename Ext::Residu_t)p, (typename Ext::Residu_t)k); return obtain(G, way, p2, k2); }
    static Ext* mk_pe(unsigned long, unsigned long, char, unsigned long, unsigned long, Modular<int64_t>*) { return 0; }     // Extension<Modular>(p,e) does not exist
    ~ExtS() { delete F; }
    static bool okrep(const GFqDom<int64_t>& b, int64_t r) { return r >= 0 && (uint64_t)r < (uint64_t)b.cardinality(); }
    static bool okrep(const Modular<int64_t>& b, int64_t r) { return r >= 0 && r < (int64_t)b.cardinality(); }
    Integer val(const Elt& e) const {       // p-adic value computed by hand from the coefficients (independent of Extension::convert)
        Integer r(0);                       // -1: a coefficient is no element of the base field (its conversion would read out of bounds)
        for (size_t i = e.size(); i-- > 0;) { if (!okrep(B, (int64_t)e[i])) return Integer(-1); Integer c; B.convert(c, e[i]); r = r * P + c; }
        return r;
    }
    Elt elt(const std::string& s) const {   // element with the given p-adic value, normalised (no leading zero coefficient)
        Integer x(s.c_str()); Elt e;
        while (x > 0) { typename Base::Element c; B.init(c, Integer(x % P)); e.push_back(c); x /= P; }
        return e;
    }
    std::string describe() {
        std::ostringstream o; Integer ci, chi; F->cardinality(ci); F->characteristic(chi);
        o << "E " << (ll)F->cardinality() << " " << ci << " " << (ll)F->characteristic() << " " << chi << " " << (ll)F->exponent() << " " << (ll)F->order()
          << " I " << val(F->irreducible()) << " Z " << val(F->zero) << " " << val(F->one) << " " << val(F->mOne) << " B " << base_info(B);
        return o.str();
    }
    std::string line(const std::vector<std::string>& t) {
        if (t[0] == "eopa") {
            Elt sl[4], vals[3];
            for (int i = 0; i < 4; ++i) F->init(sl[i], Integer(7 + i));
            for (size_t i = 3; i < t.size() && i < 6; ++i) vals[i - 3] = elt(t[i]);
            if (!c05_fill(t[1], t[2], sl, vals) || !c05_call(*F, t[1], t[2], sl)) return "UNKNOWN-OP";
            std::ostringstream o; o << val(sl[t[2][0] - '0']); return o.str();
        }
        if (t[0] == "erand") {     // erand <second constructor argument> <n>: n draws of Ext::RandIter(F, arg) -> "<zero draws> <invalid draws> <same sequence from a second iterator 0/1>"
            typename Ext::RandIter g((*F), Integer(t[1].c_str())), g2((*F), Integer(t[1].c_str()));
            int n = atoi(t[2].c_str()), zeros = 0, invalid = 0, same = 1;
            for (int i = 0; i < n; ++i) {
                Elt x, y; g.random(x); g2.random(y);
                if (F->isZero(x)) ++zeros;
                if (val(x) < 0 || x.size() > (size_t)F->order()) ++invalid;
                if (val(x) != val(y)) same = 0;
            }
            std::ostringstream o; o << zeros << " " << invalid << " " << same; return o.str();
        }
        if (t[0] != "eop") return "BAD-LINE";
        const std::string& v = t[1];
        Elt a = elt(t.size() > 2 ? t[2] : "0"), b = elt(t.size() > 3 ? t[3] : "0"), c = elt(t.size() > 4 ? t[4] : "0"), r;
        F->init(r, Integer(7));     // destinations start from some other element
        std::ostringstream o;
        if (v == "add") F->add(r, a, b);
        else if (v == "sub") F->sub(r, a, b);
        else if (v == "mul") F->mul(r, a, b);
        else if (v == "div") F->div(r, a, b);
        else if (v == "neg") F->neg(r, a);
        else if (v == "inv") F->inv(r, a);
        else if (v == "addin") { r = a; F->addin(r, b); }
        else if (v == "subin") { r = a; F->subin(r, b); }
        else if (v == "mulin") { r = a; F->mulin(r, b); }
        else if (v == "divin") { r = a; F->divin(r, b); }
        else if (v == "negin") { r = a; F->negin(r); }
        else if (v == "invin") { r = a; F->invin(r); }
        else if (v == "axpy") F->axpy(r, a, b, c);                       // a*b + c
        else if (v == "axpyin") { r = a; F->axpyin(r, b, c); }            // r + b*c
        else if (v == "maxpy") F->maxpy(r, a, b, c);                     // c - a*b
        else if (v == "maxpyin") { r = a; F->maxpyin(r, b, c); }          // r - b*c
        else if (v == "axmy") F->axmy(r, a, b, c);                       // a*b - c
        else if (v == "axmyin") { r = a; F->axmyin(r, b, c); }            // b*c - r
        else if (v == "assign") F->assign(r, a);
        else if (v == "initI") { F->init(r, Integer(t[2].c_str())); if (!r.empty()) { Integer back; F->convert(back, r); if (back != val(r)) return "CONVERT-MISMATCH"; } }
        else if (v == "convzero") {
            // Extension::convert(Integer&, e) of the zero element a - a, in a child process (it crashed before the repair)
            Elt z(F->zero); Elt z2; F->sub(z2, a, a); if (!F->areEqual(z, z2)) return "ZERO-NOT-CANONICAL";
            int fd[2]; if (pipe(fd) != 0) return "PIPE-ERROR";
            std::cout.flush();
            pid_t pid = fork();
            if (pid == 0) {
                close(fd[0]); { struct rlimit rl; rl.rlim_cur = 10; rl.rlim_max = 10; setrlimit(RLIMIT_CPU, &rl); } alarm(300);   // CPU limit (load-independent); the alarm only covers a sleeping child
                Integer back(77); F->convert(back, z);
                std::ostringstream oo; oo << back; std::string res = oo.str();
                if (write(fd[1], res.c_str(), res.size()) < 0) _exit(3);
                _exit(0);
            }
            close(fd[1]);
            char buf[256]; std::string gotc; ssize_t n;
            while ((n = read(fd[0], buf, sizeof buf)) > 0) gotc.append(buf, (size_t)n);
            close(fd[0]);
            int st = 0; waitpid(pid, &st, 0);
            return (WIFEXITED(st) && WEXITSTATUS(st) == 0) ? gotc : std::string("UB");
        }
        else if (v == "initS") { F->init(r, (int64_t)strtoll(t[2].c_str(), 0, 10)); }          // a scalar of the base field
        else if (v == "pred") { o << F->isZero(a) << F->isOne(a) << F->isMOne(a) << F->areEqual(a, b); return o.str(); }
        else return "UNKNOWN-OP";
        o << val(r); return o.str();
    }
};

// ------------------------------------------------------------------ GFqExtFast / GFqExt (double) and GFqKronecker (Integer)
template <class Fld> struct Conv;
template <> struct Conv<GFqExtFast<int32_t> > { typedef double T; };
template <> struct Conv<GFqExt<int32_t> > { typedef double T; };

template <class Fld> struct Mk { static Fld* mod(unsigned long, unsigned long, const std::vector<int64_t>&) { return 0; } };
template <> struct Mk<GFqExtFast<int32_t> > {
    static GFqExtFast<int32_t>* mod(unsigned long p, unsigned long k, const std::vector<int64_t>& m) { return new GFqExtFast<int32_t>((uint32_t)p, (uint32_t)k, m); }
};
template <class Fld> struct GS : public Session {
    typedef typename Fld::Element Elt;
    typedef typename Conv<Fld>::T CT;
    Fld* Fp; Fld& F;
    static Fld* obtain(unsigned long p, unsigned long k, char way, unsigned long p2, unsigned long k2, const std::vector<int64_t>& m) {
        typedef typename Fld::Residu_t R;
        if (way == 'd') return new Fld((R)p, (R)k);                                         // used where it was constructed
        if (way == 'c') { Fld* G = new Fld((R)p, (R)k); Fld* H = new Fld(*G); delete G; return H; }   // copy constructor, source destroyed
        if (way == 'a') { Fld G((R)p, (R)k); Fld* H = new Fld(); *H = G; return H; }          // operator= over a default-constructed object
        if (way == 'o') { Fld G((R)p, (R)k); Fld* H = new Fld((R)p2, (R)k2); *H = G; return H; }   // over a field of other characteristic / degree / bit length
        if (way == 's') { Fld* H = new Fld((R)p, (R)k); Fld& r = *H; *H = r; return H; }      // self-assignment
        if (way == 'h') { Fld* A = new Fld((R)p, (R)k); Fld* C = new Fld(*A); *A = Fld((R)p2, (R)k2); delete A; return C; }
        if (way == 't') { Fld G((R)p, (R)k); Fld* H = new Fld(); *H = Fld((R)p2, (R)k2); *H = G; Fld* C = new Fld(); *C = *H; delete H; return C; }
        if (way == 'm') return Mk<Fld>::mod(p, k, m);
        return 0;
    }
    GS(unsigned long p, unsigned long k, char way, unsigned long p2, unsigned long k2, const std::vector<int64_t>& m) : Fp(obtain(p, k, way, p2, k2, m)), F(*Fp) { if (!Fp) throw 1; }
    ~GS() { delete Fp; }
    static Integer toI(const double& d) { return Integer(d); }
    static Integer toI(const Integer& d) { return d; }
    static void fromI(double& d, const Integer& i) { d = (double)i; }
    static void fromI(Integer& d, const Integer& i) { d = i; }
    std::string describe() {
        std::vector<ll> a; size_t q = (size_t)F.cardinality();
        for (size_t i = 0; i < q; ++i) a.push_back((ll)F.zech2padic(i));
        std::ostringstream o;
        typename Fld::Residu_t chu = 0; F.characteristic(chu);
        o << "G " << q << " " << (ll)F.irreducible() << " " << (ll)F.generator() << " " << (ll)F.cardinality() << " " << (ll)F.characteristic() << " " << (ll)F.exponent()
          << " H " << hash1(a) << " Q " << (ll)F.bits() << " " << (ll)F.base() << " " << (ll)F.mask() << " " << (ll)F.maxdot() << " " << (ll)chu
          << " " << (F.exponent() > 1 ? (ll)F.zech2padic((size_t)F.indeterminate()) : -1);
        return o.str();
    }
    std::string rp(Elt r) { std::ostringstream o; o << (ll)r << " " << (ll)F.zech2padic((size_t)r); return o.str(); }
    std::string line(const std::vector<std::string>& t) {
        std::ostringstream o;
        if (t[0] == "gop") {
            Elt a = (Elt)strtoll(t[2].c_str(), 0, 10), b = t.size() > 3 ? (Elt)strtoll(t[3].c_str(), 0, 10) : 0, c = t.size() > 4 ? (Elt)strtoll(t[4].c_str(), 0, 10) : 0, r = -99;
            const std::string& v = t[1];
            if (v == "add") F.add(r, a, b); else if (v == "sub") F.sub(r, a, b); else if (v == "mul") F.mul(r, a, b);
            else if (v == "div") F.div(r, a, b); else if (v == "neg") F.neg(r, a); else if (v == "inv") F.inv(r, a);
            else if (v == "axpy") F.axpy(r, a, b, c); else if (v == "maxpy") F.maxpy(r, a, b, c); else if (v == "axmy") F.axmy(r, a, b, c);
            else return "UNKNOWN-OP";
            o << (ll)r; return o.str();
        }
        if (t[0] == "gopa") {
            Elt sl[4] = {-91, -92, -93, -94}, vals[3] = {0, 0, 0};
            for (size_t i = 3; i < t.size() && i < 6; ++i) vals[i - 3] = (Elt)strtoll(t[i].c_str(), 0, 10);
            if (!c05_fill(t[1], t[2], sl, vals) || !c05_call(F, t[1], t[2], sl)) return "UNKNOWN-OP";
            o << (ll)sl[t[2][0] - '0']; return o.str();
        }
        if (t[0] == "gconv") { Elt a = (Elt)strtoll(t[1].c_str(), 0, 10); CT d; F.convert(d, a); o << toI(d); return o.str(); }
        if (t[0] == "ginit") { CT d; fromI(d, Integer(t[1].c_str())); Elt r = -99; F.init(r, d); return rp(r); }
        if (t[0] == "gdotn") {        // n times the same product accumulated (worst-case digits of the packed accumulator)
            unsigned long n = strtoul(t[1].c_str(), 0, 10); CT x, y, acc; fromI(acc, Integer(0));
            F.convert(x, (Elt)strtoll(t[2].c_str(), 0, 10)); F.convert(y, (Elt)strtoll(t[3].c_str(), 0, 10));
            for (unsigned long j = 0; j < n; ++j) acc += x * y;
            Elt r = -99; F.init(r, acc); return rp(r);
        }
        if (t[0] == "gdotw") {        // the documented limit: n = maxdot() (mode 0), maxdot()-1 (1), maxdot()/2 (2) products of the element whose
            int mode = atoi(t[1].c_str());   // coefficients are all p-1 with itself -> "<n> <rep> <p-adic>"
            unsigned long n = (unsigned long)F.maxdot(); if (mode == 1 && n > 0) --n; if (mode == 2) n /= 2;
            Elt top = (Elt)F.padic2zech((size_t)F.cardinality() - 1); CT x, acc; fromI(acc, Integer(0)); F.convert(x, top);
            for (unsigned long j = 0; j < n; ++j) acc += x * x;
            Elt r = -99; F.init(r, acc); o << n << " " << rp(r); return o.str();
        }
        if (t[0] == "groundtrip") { Elt a = (Elt)strtoll(t[1].c_str(), 0, 10); CT d; F.convert(d, a); Elt r = -99; F.init(r, d); return rp(r); }
        if (t[0] == "gflt") { float f = (float)strtod(t[1].c_str(), 0); Elt r = -99; F.init(r, f); float back = -1; F.convert(back, r); o << rp(r) << " " << (ll)back; return o.str(); }
        if (t[0] == "ginitul") { unsigned long n = strtoul(t[1].c_str(), 0, 10); Elt r = -99; F.init(r, n); return rp(r); }
        if (t[0] == "grand") {
            unsigned long n = strtoul(t[1].c_str(), 0, 10); GivRandom g(12345); ll mn = -1, mx = -1, bad = 0; ll q = (ll)F.cardinality();
            for (unsigned long j = 0; j < n; ++j) { Elt r = -99; F.random(g, r); if (r < 0 || (ll)r >= q) { ++bad; continue; } ll v = (ll)F.zech2padic((size_t)r); if (mn < 0 || v < mn) mn = v; if (v > mx) mx = v; }
            o << mn << " " << mx << " " << bad; return o.str();
        }
        if (t[0] == "gdot") {
            std::vector<std::vector<std::string> > parts = split_bar(t, 2);
            CT acc; fromI(acc, Integer(0));
            for (size_t j = 0; j < parts[1].size() && j < parts[2].size(); ++j) {
                CT x, y; F.convert(x, (Elt)strtoll(parts[1][j].c_str(), 0, 10)); F.convert(y, (Elt)strtoll(parts[2][j].c_str(), 0, 10));
                acc += x * y;
            }
            Elt r = -99; F.init(r, acc); return rp(r);
        }
        return "BAD-LINE";
    }
};

// ------------------------------------------------------------------ GF2
static GF2* gf2_obtain(int way) {
    if (way == 1) return new GF2(2, 1);
    if (way == 2) { GF2 G; return new GF2(G); }                 // copy constructor
    if (way == 3) { GF2 G(2); GF2* H = new GF2(); *H = G; return H; }     // operator=
    if (way == 4) { GF2* H = new GF2(); GF2& r = *H; *H = r; return H; }  // self-assignment
    return new GF2();
}
static const size_t GF2_BITS = 130;
// one call of a GF2 operation: every one of the 18 arithmetic variants + assign / init / convert, for both destination kinds.
// Prints the destination after the call and the value of the returned reference (they must agree).
static std::string gf2_line(const std::vector<std::string>& t) {
    std::ostringstream o;
    if (t[0] == "gf2desc") {
        GF2* Fp = gf2_obtain(t.size() > 1 ? atoi(t[1].c_str()) : 0); GF2& F = *Fp;
        Integer ci, chi; F.cardinality(ci); F.characteristic(chi); uint64_t c64 = 0, h64 = 0; F.cardinality(c64); F.characteristic(h64);
        o << (int)F.cardinality() << " " << (int)F.characteristic() << " " << (int)F.size() << " " << (int)F.residu() << " " << F.zero << " " << F.one << " " << F.mOne
          << " " << ci << " " << chi << " " << F.minElement() << " " << F.maxElement() << " " << c64 << " " << h64 << " " << GF2::maxCardinality();
        delete Fp; return o.str();
    }
    if (t[0] == "gf2a") {     // gf2a <variant> <e|b> <pattern> v1 v2 v3
        GF2 F;
        bool vals[3] = {false, false, false};
        for (size_t i = 4; i < t.size() && i < 7; ++i) vals[i - 4] = (t[i] == "1");
        if (t[2] == "e") {
            bool sl[4] = {true, false, true, false};
            if (!c05_fill(t[1], t[3], sl, vals) || !c05_call(F, t[1], t[3], sl)) return "UNKNOWN-OP";
            o << sl[t[3][0] - '0']; return o.str();
        }
        std::vector<bool> sl(6, true); sl[1] = false; sl[3] = false;
        std::vector<bool> before(sl);
        if (!c05_fill(t[1], t[3], sl, vals)) return "UNKNOWN-OP";
        before = sl;
        if (!c05_call(F, t[1], t[3], sl)) return "UNKNOWN-OP";
        for (int i = 0; i < 6; ++i) if (i != t[3][0] - '0' && sl[i] != before[i]) return "OTHER-BIT-CHANGED";
        o << sl[t[3][0] - '0']; return o.str();
    }
    if (t[0] == "gf2rand") {   // gf2rand <e|b> <n> -> "<zeros> <ones> <nonzerorandom results that are 0>"
        GF2 F; GivRandom g(4242); int n = atoi(t[2].c_str()), c0 = 0, c1 = 0, nz0 = 0; std::vector<bool> st(3, false);
        for (int i = 0; i < n; ++i) {
            bool e = false;
            if (t[1] == "e") { F.random(g, e); (e ? c1 : c0)++; F.nonzerorandom(g, e); if (!e) ++nz0; }
            else { F.random(g, st[1]); (st[1] ? c1 : c0)++; st[1] = false; F.nonzerorandom(g, st[1]); if (!st[1]) ++nz0; }
        }
        o << c0 << " " << c1 << " " << nz0; return o.str();
    }
    // gf2 <way> <variant> <e|b> <prev> <pos> a b c
    if (t.size() < 7) return "BAD-LINE";
    GF2* Fp = gf2_obtain(atoi(t[1].c_str())); GF2& F = *Fp;
    const std::string& v = t[2]; bool useref = (t[3] == "b"); bool prev = (t[4] == "1"); size_t pos = (size_t)atoi(t[5].c_str()) % GF2_BITS;
    bool a = t[6] == "1", b = t.size() > 7 && t[7] == "1", c = t.size() > 8 && t[8] == "1";
    Integer big(t[6].c_str());
    std::vector<bool> store(GF2_BITS); for (size_t i = 0; i < GF2_BITS; ++i) store[i] = ((i * 7 + 3) % 5 < 2);
    bool re = prev, ret = false; store[pos] = prev;
    bool inplace = c05_inplace(v);
    if (inplace) { re = a; store[pos] = a; }
    std::vector<bool> before(store);
#define GF2_DO(call_e, call_b) { if (useref) { GF2::BitReference rr = call_b; ret = (bool)rr; } else { bool& rr = call_e; ret = rr; if (&rr != &re) { delete Fp; return "RETURNED-OTHER-OBJECT"; } } }
    if (v == "add") GF2_DO(F.add(re, a, b), F.add(store[pos], a, b))
    else if (v == "sub") GF2_DO(F.sub(re, a, b), F.sub(store[pos], a, b))
    else if (v == "mul") GF2_DO(F.mul(re, a, b), F.mul(store[pos], a, b))
    else if (v == "div") GF2_DO(F.div(re, a, b), F.div(store[pos], a, b))
    else if (v == "neg") GF2_DO(F.neg(re, a), F.neg(store[pos], a))
    else if (v == "inv") GF2_DO(F.inv(re, a), F.inv(store[pos], a))
    else if (v == "assign") GF2_DO(F.assign(re, a), F.assign(store[pos], a))
    else if (v == "axpy") GF2_DO(F.axpy(re, a, b, c), F.axpy(store[pos], a, b, c))
    else if (v == "axmy") GF2_DO(F.axmy(re, a, b, c), F.axmy(store[pos], a, b, c))
    else if (v == "maxpy") GF2_DO(F.maxpy(re, a, b, c), F.maxpy(store[pos], a, b, c))
    else if (v == "addin") GF2_DO(F.addin(re, b), F.addin(store[pos], b))
    else if (v == "subin") GF2_DO(F.subin(re, b), F.subin(store[pos], b))
    else if (v == "mulin") GF2_DO(F.mulin(re, b), F.mulin(store[pos], b))
    else if (v == "divin") GF2_DO(F.divin(re, b), F.divin(store[pos], b))
    else if (v == "negin") GF2_DO(F.negin(re), F.negin(store[pos]))
    else if (v == "invin") GF2_DO(F.invin(re), F.invin(store[pos]))
    else if (v == "axpyin") GF2_DO(F.axpyin(re, b, c), F.axpyin(store[pos], b, c))
    else if (v == "axmyin") GF2_DO(F.axmyin(re, b, c), F.axmyin(store[pos], b, c))
    else if (v == "maxpyin") GF2_DO(F.maxpyin(re, b, c), F.maxpyin(store[pos], b, c))
    else if (v == "init_Integer") GF2_DO(F.init(re, big), F.init(store[pos], big))
    else if (v == "init_none") GF2_DO(F.init(re), F.init(store[pos]))
    else if (v == "convert_bit") { GF2::BitReference rr = F.convert(store[pos], a); ret = (bool)rr; re = store[pos]; useref = true; }
    else if (!useref && v == "init_i32") { bool& rr = F.init(re, (int32_t)strtoll(t[6].c_str(), 0, 10)); ret = rr; }
    else if (!useref && v == "init_u32") { bool& rr = F.init(re, (uint32_t)strtoull(t[6].c_str(), 0, 10)); ret = rr; }
    else if (!useref && v == "init_i64") { bool& rr = F.init(re, (int64_t)strtoll(t[6].c_str(), 0, 10)); ret = rr; }
    else if (!useref && v == "init_u64") { bool& rr = F.init(re, (uint64_t)strtoull(t[6].c_str(), 0, 10)); ret = rr; }
    else if (!useref && v == "init_dbl") { bool& rr = F.init(re, (double)strtod(t[6].c_str(), 0)); ret = rr; }
    else if (!useref && v == "init_flt") { bool& rr = F.init(re, (float)strtod(t[6].c_str(), 0)); ret = rr; }
    else if (!useref && v == "convert") {   // convert(Integer&), convert<int>, convert<double>, convert<uint64_t>: all must give the same 0/1
        Integer ci(7); F.convert(ci, a); int cn = 7; F.convert(cn, a); double cd = 7; F.convert(cd, a); uint64_t cu = 7; F.convert(cu, a);
        delete Fp;
        if (ci != Integer(cn) || (double)cn != cd || (uint64_t)cn != cu) return "CONVERT-OVERLOADS-DISAGREE";
        o << cn << " " << cn; return o.str();
    }
    else if (!useref && v == "pred") { o << F.isZero(a) << F.isOne(a) << F.isMOne(a) << F.isUnit(a) << F.areEqual(a, b); delete Fp; return o.str(); }
    else { delete Fp; return "UNKNOWN-OP"; }
#undef GF2_DO
    delete Fp;
    if (useref) {
        for (size_t i = 0; i < GF2_BITS; ++i) if (i != pos && store[i] != before[i]) return "OTHER-BIT-CHANGED";
        re = store[pos];
    }
    o << re << " " << ret; return o.str();
}

// per-call CPU watchdog (ITIMER_PROF counts the CPU time of this process only, so it is independent of the machine load): a call that
// does not come back within its budget ends the process with exit code 99; the check re-runs that one call alone with a larger
// budget (C05_CALL_CPU) before it reports "does not return"
static void on_budget(int) { const char m[] = "CPU-BUDGET\n"; ssize_t w = write(2, m, sizeof m - 1); (void)w; _exit(99); }
static void arm(double s) { struct itimerval it; it.it_interval.tv_sec = 0; it.it_interval.tv_usec = 0; it.it_value.tv_sec = (long)s; it.it_value.tv_usec = (long)((s - (long)s) * 1e6); setitimer(ITIMER_PROF, &it, 0); }
static double env_d(const char* n, double d) { const char* v = getenv(n); return (v && *v) ? atof(v) : d; }
int main() {
    signal(SIGPROF, on_budget);
    const double call_cpu = env_d("C05_CALL_CPU", 10.0), field_cpu = env_d("C05_FIELD_CPU", 60.0);
    std::string l; Session* cur = 0;
    while (std::getline(std::cin, l)) {
        std::istringstream is(l); std::vector<std::string> t; std::string w;
        while (is >> w) t.push_back(w);
        if (t.empty()) continue;
        std::string out;
        arm((t[0] == "ext" || t[0] == "gext") ? field_cpu : call_cpu);
        try {
            if (t[0] == "gf2" || t[0] == "gf2desc" || t[0] == "gf2a" || t[0] == "gf2rand") out = gf2_line(t);
            else if (t[0] == "ext") {
                delete cur; cur = 0;
                if (t[1] == "gfq") cur = new ExtS<GFqDom<int64_t> >(t); else if (t[1] == "gf2") cur = new ExtS<GF2>(t); else cur = new ExtS<Modular<int64_t> >(t);
                out = cur->describe();
            } else if (t[0] == "gext") {
                delete cur; cur = 0;
                unsigned long p = strtoul(t[2].c_str(), 0, 10), k = strtoul(t[3].c_str(), 0, 10);
                char way = t.size() > 4 ? t[4][0] : 'a';
                unsigned long p2 = t.size() > 5 ? strtoul(t[5].c_str(), 0, 10) : 2, k2 = t.size() > 6 ? strtoul(t[6].c_str(), 0, 10) : 2;
                std::vector<int64_t> m; std::vector<std::vector<std::string> > parts = split_bar(t, 4);
                if (parts.size() > 1) for (size_t i = 0; i < parts[1].size(); ++i) m.push_back(strtoll(parts[1][i].c_str(), 0, 10));
                if (t[1] == "ext") cur = new GS<GFqExt<int32_t> >(p, k, way, p2, k2, m);
                else cur = new GS<GFqExtFast<int32_t> >(p, k, way, p2, k2, m);
                out = cur->describe();
            } else if (!cur) out = "NO-FIELD";
            else out = cur->line(t);
        } catch (...) { out = "EXCEPTION"; }
        arm(0);
        std::cout << out << std::endl;      // flushed: a crash or a hang is attributed to the next input line
    }
    std::cout.flush();
    return 0;
}
