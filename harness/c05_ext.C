// C05 harness (2): Extension<>, GFqExtFast / GFqExt, GF2 of /repo's current headers.
// (gfqkronecker.h cannot be compiled in this tree: it includes givaro/givzpz.h and givaro/givzpzInt.h, which do not exist,
//  and uses ModularRandIter with two template arguments; GFqKronecker is therefore not instantiable by any user.)
// stdin lines:
//   gf2 <variant> <e|b> a b c          -> result bit  (e = Element& overload, b = BitReference overload)
//   gf2desc                            -> "card char size residu zero one mone cardI charI"
//   ext <gfq|mod> <pe|bf|pol> <p> <k> [| c0 .. ck]   -> "E <card> <cardI> <char> <charI> <expo> <order> I <irred p-adic> Z <zero> <one> <mone>"
//   eop <variant> a b c                -> p-adic value of the result (operands are p-adic values < p^k)
//   gext <ext|fast> <p> <k>            -> "G <q> <irred> <gen> <card> <char> <expo> H <hash log2pol>"
//   gop <variant> a b c                -> GFqDom scalar operation through the derived class (Zech representations)
//   gconv a                            -> convert(double|Ints, a) as an integer
//   ginit <integer>                    -> init(rep, double|Ints) -> "<rep> <p-adic>"
//   gdot <n> | a.. | b..               -> init( sum_j convert(a_j)*convert(b_j) )  -> "<rep> <p-adic>"
#include <iostream>
#include <sstream>
#include <string>
#include <vector>
#include <cstdlib>
#include <unistd.h>
#include <signal.h>
#include <sys/wait.h>
#include "givinteger.h"
#include "gfq.h"
#include "gfqext.h"
#include "extension.h"
#include "gf2.h"
#include "c05_alias.h"
#include "modular.h"
#include "givpoly1.h"

using namespace Givaro;
typedef long long ll;

static std::vector<std::vector<std::string> > split_bar(const std::vector<std::string>& t, size_t from) {
    std::vector<std::vector<std::string> > r(1);
    for (size_t i = from; i < t.size(); ++i) { if (t[i] == "|") r.push_back(std::vector<std::string>()); else r.back().push_back(t[i]); }
    return r;
}
static std::string hash1(const std::vector<ll>& v) {
    ll h1 = 0, h2 = 0;
    for (size_t i = 0; i < v.size(); ++i) { ll x = v[i] + 4294967296LL; h1 = (h1 * 31 + x + 7) % 1000000007LL; h2 = (h2 * 37 + x + 11) % 998244353LL; }
    std::ostringstream o; o << h1 << "." << h2; return o.str();
}

struct Session { virtual ~Session() {} virtual std::string line(const std::vector<std::string>& t) = 0; virtual std::string describe() = 0; };

// ------------------------------------------------------------------ Extension<Base>
template <class Base> struct ExtS : public Session {
    typedef Extension<Base> Ext;
    typedef typename Ext::Element Elt;
    typedef typename Ext::Pol_t Pol;
    Base B; Ext* F; Integer P; unsigned long k;
    // ext <gfq|mod> <pe|bf|pol|tower> <p> <k> [<s>] : tower = Extension over the non-prime base field GFqDom(p,s), order k
    static Base mk_base(unsigned long p, unsigned long s, GFqDom<int64_t>*) { return GFqDom<int64_t>((uint64_t)p, (uint64_t)s); }
    static Base mk_base(unsigned long p, unsigned long, Modular<int64_t>*) { return Modular<int64_t>((int64_t)p); }
    static std::string base_info(const GFqDom<int64_t>& b) { std::ostringstream o; o << (ll)b.cardinality() << " " << (ll)b.exponent() << " " << (b.exponent() > 1 ? (ll)b.irreducible() : -1) << " " << (ll)b.generator(); return o.str(); }
    static std::string base_info(const Modular<int64_t>& b) { std::ostringstream o; o << (ll)b.cardinality() << " 1 -1 0"; return o.str(); }
    ExtS(const std::vector<std::string>& t) : B(mk_base(strtoul(t[3].c_str(), 0, 10), (t[2] == "tower" && t.size() > 5) ? strtoul(t[5].c_str(), 0, 10) : 1, (Base*)0)), F(0) {
        unsigned long p = strtoul(t[3].c_str(), 0, 10); k = strtoul(t[4].c_str(), 0, 10);
        if (t[2] == "pe") { F = mk_pe(p, k, (Base*)0); }
        else if (t[2] == "bf" || t[2] == "tower") { Ext G(B, (typename Ext::Residu_t)k); Ext H; H = G; F = new Ext(H); }               // operator=
        else {
            std::vector<std::vector<std::string> > parts = split_bar(t, 5);
            Pol PD(B, "Y"); typename Pol::Element irr(parts[1].size());
            for (size_t i = 0; i < parts[1].size(); ++i) B.init(irr[i], (int64_t)strtoll(parts[1][i].c_str(), 0, 10));
            Ext G(PD, irr); Ext H; H = G; F = new Ext(H);
        }
        // coefficients are read and written through the base field the extension really uses
        B = F->base_field(); Integer cb; B.cardinality(cb); P = cb;
    }
    static Ext* mk_pe(unsigned long p, unsigned long k, GFqDom<int64_t>*) { Ext G((typename Ext::Residu_t)p, (typename Ext::Residu_t)k); return new Ext(G); }  // copy ctor
    static Ext* mk_pe(unsigned long, unsigned long, Modular<int64_t>*) { return 0; }     // Extension<Modular>(p,e) does not exist
    ~ExtS() { delete F; }
    Integer val(const Elt& e) const {       // p-adic value computed by hand from the coefficients (independent of Extension::convert)
        Integer r(0);
        for (size_t i = e.size(); i-- > 0;) { Integer c; B.convert(c, e[i]); r = r * P + c; }
        return r;
    }
    Elt elt(const std::string& s) const {   // element with the given p-adic value, normalised (no leading zero coefficient)
        Integer x(s.c_str()); Elt e;
        while (x > 0) { typename Base::Element c; B.init(c, Integer(x % P)); e.push_back(c); x /= P; }
        return e;
    }
    std::string describe() {
        std::ostringstream o; Integer ci, chi; F->cardinality(ci); F->characteristic(chi);
        o << "E " << (ll)F->cardinality() << " " << ci << " " << (ll)F->characteristic() << " " << chi << " " << (ll)F->exponent() << " " << (ll)F->order()
          << " I " << val(F->irreducible()) << " Z " << val(F->zero) << " " << val(F->one) << " " << val(F->mOne) << " B " << base_info(B);
        return o.str();
    }
    std::string line(const std::vector<std::string>& t) {
        if (t[0] == "eopa") {
            Elt sl[4], vals[3];
            for (int i = 0; i < 4; ++i) F->init(sl[i], Integer(7 + i));
            for (size_t i = 3; i < t.size() && i < 6; ++i) vals[i - 3] = elt(t[i]);
            if (!c05_fill(t[1], t[2], sl, vals) || !c05_call(*F, t[1], t[2], sl)) return "UNKNOWN-OP";
            std::ostringstream o; o << val(sl[t[2][0] - '0']); return o.str();
        }
        if (t[0] != "eop") return "BAD-LINE";
        const std::string& v = t[1];
        Elt a = elt(t.size() > 2 ? t[2] : "0"), b = elt(t.size() > 3 ? t[3] : "0"), c = elt(t.size() > 4 ? t[4] : "0"), r;
        F->init(r, Integer(7));     // destinations start from some other element
        std::ostringstream o;
        if (v == "add") F->add(r, a, b);
        else if (v == "sub") F->sub(r, a, b);
        else if (v == "mul") F->mul(r, a, b);
        else if (v == "div") F->div(r, a, b);
        else if (v == "neg") F->neg(r, a);
        else if (v == "inv") F->inv(r, a);
        else if (v == "addin") { r = a; F->addin(r, b); }
        else if (v == "subin") { r = a; F->subin(r, b); }
        else if (v == "mulin") { r = a; F->mulin(r, b); }
        else if (v == "divin") { r = a; F->divin(r, b); }
        else if (v == "negin") { r = a; F->negin(r); }
        else if (v == "invin") { r = a; F->invin(r); }
        else if (v == "axpy") F->axpy(r, a, b, c);                       // a*b + c
        else if (v == "axpyin") { r = a; F->axpyin(r, b, c); }            // r + b*c
        else if (v == "maxpy") F->maxpy(r, a, b, c);                     // c - a*b
        else if (v == "maxpyin") { r = a; F->maxpyin(r, b, c); }          // r - b*c
        else if (v == "axmy") F->axmy(r, a, b, c);                       // a*b - c
        else if (v == "axmyin") { r = a; F->axmyin(r, b, c); }            // b*c - r
        else if (v == "assign") F->assign(r, a);
        else if (v == "initI") { F->init(r, Integer(t[2].c_str())); if (!r.empty()) { Integer back; F->convert(back, r); if (back != val(r)) return "CONVERT-MISMATCH"; } }
        else if (v == "convzero") {
            // Extension::convert(Integer&, e) of the zero element a - a, in a child process (it crashed before the repair)
            Elt z(F->zero); Elt z2; F->sub(z2, a, a); if (!F->areEqual(z, z2)) return "ZERO-NOT-CANONICAL";
            int fd[2]; if (pipe(fd) != 0) return "PIPE-ERROR";
            std::cout.flush();
            pid_t pid = fork();
            if (pid == 0) {
                close(fd[0]); alarm(5);
                Integer back(77); F->convert(back, z);
                std::ostringstream oo; oo << back; std::string res = oo.str();
                if (write(fd[1], res.c_str(), res.size()) < 0) _exit(3);
                _exit(0);
            }
            close(fd[1]);
            char buf[256]; std::string gotc; ssize_t n;
            while ((n = read(fd[0], buf, sizeof buf)) > 0) gotc.append(buf, (size_t)n);
            close(fd[0]);
            int st = 0; waitpid(pid, &st, 0);
            return (WIFEXITED(st) && WEXITSTATUS(st) == 0) ? gotc : std::string("UB");
        }
        else if (v == "initS") { F->init(r, (int64_t)strtoll(t[2].c_str(), 0, 10)); }          // a scalar of the base field
        else if (v == "pred") { o << F->isZero(a) << F->isOne(a) << F->isMOne(a) << F->areEqual(a, b); return o.str(); }
        else return "UNKNOWN-OP";
        o << val(r); return o.str();
    }
};

// ------------------------------------------------------------------ GFqExtFast / GFqExt (double) and GFqKronecker (Integer)
template <class Fld> struct Conv;
template <> struct Conv<GFqExtFast<int32_t> > { typedef double T; };
template <> struct Conv<GFqExt<int32_t> > { typedef double T; };

template <class Fld> struct GS : public Session {
    typedef typename Fld::Element Elt;
    typedef typename Conv<Fld>::T CT;
    Fld F;
    GS(unsigned long p, unsigned long k) : F() {
        Fld G((typename Fld::Residu_t)p, (typename Fld::Residu_t)k);
        Fld H(G);        // copy constructor
        F = H;           // hand-written operator=
    }
    static Integer toI(const double& d) { return Integer(d); }
    static Integer toI(const Integer& d) { return d; }
    static void fromI(double& d, const Integer& i) { d = (double)i; }
    static void fromI(Integer& d, const Integer& i) { d = i; }
    std::string describe() {
        std::vector<ll> a; size_t q = (size_t)F.cardinality();
        for (size_t i = 0; i < q; ++i) a.push_back((ll)F.zech2padic(i));
        std::ostringstream o;
        o << "G " << q << " " << (ll)F.irreducible() << " " << (ll)F.generator() << " " << (ll)F.cardinality() << " " << (ll)F.characteristic() << " " << (ll)F.exponent()
          << " H " << hash1(a);
        return o.str();
    }
    std::string rp(Elt r) { std::ostringstream o; o << (ll)r << " " << (ll)F.zech2padic((size_t)r); return o.str(); }
    std::string line(const std::vector<std::string>& t) {
        std::ostringstream o;
        if (t[0] == "gop") {
            Elt a = (Elt)strtoll(t[2].c_str(), 0, 10), b = t.size() > 3 ? (Elt)strtoll(t[3].c_str(), 0, 10) : 0, c = t.size() > 4 ? (Elt)strtoll(t[4].c_str(), 0, 10) : 0, r = -99;
            const std::string& v = t[1];
            if (v == "add") F.add(r, a, b); else if (v == "sub") F.sub(r, a, b); else if (v == "mul") F.mul(r, a, b);
            else if (v == "div") F.div(r, a, b); else if (v == "neg") F.neg(r, a); else if (v == "inv") F.inv(r, a);
            else if (v == "axpy") F.axpy(r, a, b, c); else if (v == "maxpy") F.maxpy(r, a, b, c); else if (v == "axmy") F.axmy(r, a, b, c);
            else return "UNKNOWN-OP";
            o << (ll)r; return o.str();
        }
        if (t[0] == "gopa") {
            Elt sl[4] = {-91, -92, -93, -94}, vals[3] = {0, 0, 0};
            for (size_t i = 3; i < t.size() && i < 6; ++i) vals[i - 3] = (Elt)strtoll(t[i].c_str(), 0, 10);
            if (!c05_fill(t[1], t[2], sl, vals) || !c05_call(F, t[1], t[2], sl)) return "UNKNOWN-OP";
            o << (ll)sl[t[2][0] - '0']; return o.str();
        }
        if (t[0] == "gconv") { Elt a = (Elt)strtoll(t[1].c_str(), 0, 10); CT d; F.convert(d, a); o << toI(d); return o.str(); }
        if (t[0] == "ginit") { CT d; fromI(d, Integer(t[1].c_str())); Elt r = -99; F.init(r, d); return rp(r); }
        if (t[0] == "gdot") {
            std::vector<std::vector<std::string> > parts = split_bar(t, 2);
            CT acc; fromI(acc, Integer(0));
            for (size_t j = 0; j < parts[1].size() && j < parts[2].size(); ++j) {
                CT x, y; F.convert(x, (Elt)strtoll(parts[1][j].c_str(), 0, 10)); F.convert(y, (Elt)strtoll(parts[2][j].c_str(), 0, 10));
                acc += x * y;
            }
            Elt r = -99; F.init(r, acc); return rp(r);
        }
        return "BAD-LINE";
    }
};

// ------------------------------------------------------------------ GF2
static std::string gf2_line(const std::vector<std::string>& t) {
    GF2 F; std::ostringstream o;
    if (t[0] == "gf2desc") {
        Integer ci, chi; F.cardinality(ci); F.characteristic(chi);
        o << (int)F.cardinality() << " " << (int)F.characteristic() << " " << (int)F.size() << " " << (int)F.residu() << " " << F.zero << " " << F.one << " " << F.mOne
          << " " << ci << " " << chi << " " << F.minElement() << " " << F.maxElement();
        return o.str();
    }
    if (t[0] == "gf2a") {     // gf2a <variant> <e|b> <pattern> v1 v2 v3
        bool vals[3] = {false, false, false};
        for (size_t i = 4; i < t.size() && i < 7; ++i) vals[i - 4] = (t[i] == "1");
        if (t[2] == "e") {
            bool sl[4] = {true, false, true, false};
            if (!c05_fill(t[1], t[3], sl, vals) || !c05_call(F, t[1], t[3], sl)) return "UNKNOWN-OP";
            o << sl[t[3][0] - '0']; return o.str();
        }
        std::vector<bool> sl(6, true); sl[1] = false; sl[3] = false;
        std::vector<bool> before(sl);
        if (!c05_fill(t[1], t[3], sl, vals)) return "UNKNOWN-OP";
        before = sl;
        if (!c05_call(F, t[1], t[3], sl)) return "UNKNOWN-OP";
        for (int i = 0; i < 6; ++i) if (i != t[3][0] - '0' && sl[i] != before[i]) return "OTHER-BIT-CHANGED";
        o << sl[t[3][0] - '0']; return o.str();
    }
    const std::string& v = t[1]; bool useref = (t[2] == "b");
    bool a = t[3] == "1", b = t.size() > 4 && t[4] == "1", c = t.size() > 5 && t[5] == "1";
    std::vector<bool> store(3, true); bool re = true;
#define GF2_CALL3(op) { if (useref) { store[1] = !0; F.op(store[1], a, b); re = store[1]; } else F.op(re, a, b); }
#define GF2_CALL2(op) { if (useref) { F.op(store[1], a); re = store[1]; } else F.op(re, a); }
#define GF2_IN2(op) { if (useref) { store[1] = a; F.op(store[1], b); re = store[1]; } else { re = a; F.op(re, b); } }
#define GF2_IN1(op) { if (useref) { store[1] = a; F.op(store[1]); re = store[1]; } else { re = a; F.op(re); } }
#define GF2_CALL4(op) { if (useref) { F.op(store[1], a, b, c); re = store[1]; } else F.op(re, a, b, c); }
#define GF2_IN3(op) { if (useref) { store[1] = a; F.op(store[1], b, c); re = store[1]; } else { re = a; F.op(re, b, c); } }
    if (v == "add") GF2_CALL3(add) else if (v == "sub") GF2_CALL3(sub) else if (v == "mul") GF2_CALL3(mul) else if (v == "div") GF2_CALL3(div)
    else if (v == "neg") GF2_CALL2(neg) else if (v == "inv") GF2_CALL2(inv)
    else if (v == "addin") GF2_IN2(addin) else if (v == "subin") GF2_IN2(subin) else if (v == "mulin") GF2_IN2(mulin) else if (v == "divin") GF2_IN2(divin)
    else if (v == "negin") GF2_IN1(negin) else if (v == "invin") GF2_IN1(invin)
    else if (v == "axpy") GF2_CALL4(axpy) else if (v == "axmy") GF2_CALL4(axmy) else if (v == "maxpy") GF2_CALL4(maxpy)
    else if (v == "axpyin") GF2_IN3(axpyin) else if (v == "axmyin") GF2_IN3(axmyin) else if (v == "maxpyin") GF2_IN3(maxpyin)
    else if (v == "pred") { o << F.isZero(a) << F.isOne(a) << F.isMOne(a) << F.isUnit(a) << F.areEqual(a, b); return o.str(); }
    else if (v == "init") { Integer x(t[3].c_str()); if (useref) { F.init(store[1], x); re = store[1]; } else F.init(re, x); }
    else return "UNKNOWN-OP";
    // neighbours of the written bit must be untouched
    if (useref && !(store[0] && store[2])) return "NEIGHBOUR-BIT-CHANGED";
    o << re; return o.str();
}

int main() {
    std::string l; Session* cur = 0;
    while (std::getline(std::cin, l)) {
        std::istringstream is(l); std::vector<std::string> t; std::string w;
        while (is >> w) t.push_back(w);
        if (t.empty()) continue;
        std::string out;
        try {
            if (t[0] == "gf2" || t[0] == "gf2desc" || t[0] == "gf2a") out = gf2_line(t);
            else if (t[0] == "ext") {
                delete cur; cur = 0;
                if (t[1] == "gfq") cur = new ExtS<GFqDom<int64_t> >(t); else cur = new ExtS<Modular<int64_t> >(t);
                out = cur->describe();
            } else if (t[0] == "gext") {
                delete cur; cur = 0;
                unsigned long p = strtoul(t[2].c_str(), 0, 10), k = strtoul(t[3].c_str(), 0, 10);
                if (t[1] == "ext") cur = new GS<GFqExt<int32_t> >(p, k);
                else cur = new GS<GFqExtFast<int32_t> >(p, k);
                out = cur->describe();
            } else if (!cur) out = "NO-FIELD";
            else out = cur->line(t);
        } catch (...) { out = "EXCEPTION"; }
        std::cout << out << std::endl;      // flushed: a crash or a hang is attributed to the next input line
    }
    std::cout.flush();
    return 0;
}
