// C05 harness (1): GFqDom<int32_t> / GFqDom<int64_t> of /repo's current headers.
// stdin lines (all operations refer to the last "field" line):
//   field <32|64> auto[:<way>:<p2>:<k2>] <p> <k>      (same suffix for mod / modgen)
//        way: a (default) copy-constructed, then assigned over a default-constructed object; d used where it was constructed;
//        c copy-constructed, source destroyed; o assigned over the field GF(p2^k2); s assigned to itself;
//        h copy kept while its source is overwritten by GF(p2^k2); t assigned twice (GF(p2^k2) first)
//   field <32|64> mod <p> <k> | c0 c1 .. ck
//   field <32|64> modgen <p> <k> | c0 .. ck | g0 .. gm
//        -> "F <q> <one> <mone> H <h1> <h2> <h3> X <irred> <gen> <card> <char> <expo> <zero> <size> <residu> <genrep> [T l2p | p2l | pl1]"
//   op <variant> a b c          -> result (see run_op)
//   opa <variant> <pattern> v1 v2 v3 -> result of the call with aliased destination/operands (c05_alias.h)
//   arr <variant>[@rx|@ry|@xy|@rxy] <sz> <scalar> | r.. | x.. | y..   -> "R r.." or "UB" (the call crashed in a child process);
//        @rx: the x argument IS the destination array (contents of r), @ry: y is, @xy: x and y are one array, @rxy: all three
//   dot[@xy] <sz> | a.. | b..   -> result (@xy: both operands are the same array)
//   cvt <variant> <value>       -> init from the given C++ type, then convert back:  "<rep> <converted>"
#include <iostream>
#include <sstream>
#include <string>
#include <vector>
#include <cstring>
#include <cstdlib>
#include <unistd.h>
#include <signal.h>
#include <sys/wait.h>
#include <sys/resource.h>
#include <sys/time.h>
#include "givinteger.h"
#include "gfq.h"
#include "c05_alias.h"

using namespace Givaro;

typedef long long ll;

template <class T> struct Peek : public GFqDom<T> {
    typedef GFqDom<T> Base;
    typedef typename Base::Rep Rep;
    typedef typename Base::TT TT;
    typedef typename Base::UTT UTT;
    typedef typename Base::UT UT;
#ifdef __GIVARO_COUNT__
    // second macro set of gfq.inl (operation counters): the macros name the static counters unqualified
    using Base::_add_count; using Base::_mul_count; using Base::_neg_count; using Base::_div_count; using Base::_sub_count; using Base::_inv_count;
    using Base::_add_call; using Base::_mul_call; using Base::_neg_call; using Base::_div_call; using Base::_sub_call; using Base::_inv_call;
#endif
    Peek() : Base() {}
    Peek(const Base& b) : Base(b) {}
    Peek(UTT P, UTT e) : Base(P, e) {}
    template <class V> Peek(UTT P, UTT e, const V& m) : Base(P, e, m) {}
    template <class V> Peek(UTT P, UTT e, const V& m, const V& g) : Base(P, e, m, g) {}
    ll plus1(size_t i) const { return (ll)this->_plus1[i]; }
    size_t tabsize() const { return this->_log2pol.size(); }
    ll qm1() const { return (ll)this->_qm1; }
    // the macros that no member function uses, called as the header defines them
    Rep m_sq(Rep a) const { Rep res = -77; _GIVARO_GFQ_SQ(res, a, (TT)this->_qm1); return res; }
    Rep m_sqadd(Rep a, Rep b) const { Rep c = -77; _GIVARO_GFQ_SQADD(c, a, b, (TT)this->_qm1, this->_plus1); return c; }
    Rep m_muladd(Rep a1, Rep a2, Rep b) const { Rep c = -77; _GIVARO_GFQ_MULADD(c, a1, a2, b, this->_qm1, this->_plus1); return c; }
    Rep m_mulsub(Rep a1, Rep a2, Rep b) const { Rep c = -77; _GIVARO_GFQ_MULSUB(c, a1, a2, b, (TT)this->mOne, (TT)this->_qm1, this->_plus1); return c; }
};

static std::string hash3(const std::vector<ll>& v) {
    ll h1 = 0, h2 = 0;
    for (size_t i = 0; i < v.size(); ++i) {
        ll x = v[i] + 4294967296LL;
        h1 = (h1 * 31 + x + 7) % 1000000007LL;
        h2 = (h2 * 37 + x + 11) % 998244353LL;
    }
    std::ostringstream o; o << h1 << "." << h2; return o.str();
}
static std::string show(const std::vector<ll>& v) {
    std::ostringstream o; for (size_t i = 0; i < v.size(); ++i) { if (i) o << " "; o << v[i]; } return o.str();
}
static std::vector<std::vector<std::string> > split_bar(const std::vector<std::string>& t, size_t from) {
    std::vector<std::vector<std::string> > r(1);
    for (size_t i = from; i < t.size(); ++i) { if (t[i] == "|") r.push_back(std::vector<std::string>()); else r.back().push_back(t[i]); }
    return r;
}

struct Session { virtual ~Session() {} virtual std::string line(const std::vector<std::string>& t) = 0; virtual std::string describe() = 0; };

template <class T> struct S : public Session {
    typedef Peek<T> Fld;
    typedef typename GFqDom<T>::Element Elt;
    Fld* Fp; Fld& F;
    static Fld* construct(const std::string& ctor, unsigned long long p, unsigned long long k, const std::vector<int64_t>& m, const std::vector<int64_t>& g) {
        typedef typename Fld::UTT U;
        if (ctor == "auto") return new Fld((U)p, (U)k);
        if (ctor == "mod") return new Fld((U)p, (U)k, m);
        return new Fld((U)p, (U)k, m, g);
    }
    static Fld* obtain(const std::vector<std::string>& t) {
        unsigned long long p = strtoull(t[3].c_str(), 0, 10), k = strtoull(t[4].c_str(), 0, 10);
        std::vector<std::vector<std::string> > parts = split_bar(t, 5);
        std::vector<int64_t> m, g;
        if (parts.size() > 1) for (size_t i = 0; i < parts[1].size(); ++i) m.push_back(strtoll(parts[1][i].c_str(), 0, 10));
        if (parts.size() > 2) for (size_t i = 0; i < parts[2].size(); ++i) g.push_back(strtoll(parts[2][i].c_str(), 0, 10));
        std::string ctor = t[2]; char way = 'a'; unsigned long long p2 = 2, k2 = 2;
        size_t c1 = ctor.find(':');
        if (c1 != std::string::npos) {
            std::string w = ctor.substr(c1 + 1); ctor = ctor.substr(0, c1); way = w.empty() ? 'a' : w[0];
            size_t c2 = w.find(':'), c3 = (c2 == std::string::npos) ? c2 : w.find(':', c2 + 1);
            if (c3 != std::string::npos) { p2 = strtoull(w.substr(c2 + 1, c3 - c2 - 1).c_str(), 0, 10); k2 = strtoull(w.substr(c3 + 1).c_str(), 0, 10); }
        }
        typedef typename Fld::UTT U;
        Fld* G = construct(ctor, p, k, m, g);
        if (way == 'd') return G;
        if (way == 'c') { Fld* H = new Fld(*G); delete G; return H; }
        if (way == 'o') { Fld* H = new Fld((U)p2, (U)k2); *H = *G; delete G; return H; }
        if (way == 's') { Fld& r = *G; *G = r; return G; }
        if (way == 'h') { Fld* C = new Fld(*G); *G = Fld((U)p2, (U)k2); delete G; return C; }
        if (way == 't') { Fld* H = new Fld(); *H = Fld((U)p2, (U)k2); *H = *G; delete G; return H; }
        { GFqDom<T> B(*G); delete G; Fld H(B); Fld* R = new Fld(); *R = H; return R; }       // 'a': copy constructor + operator=
    }
    S(const std::vector<std::string>& t) : Fp(obtain(t)), F(*Fp) {}
    ~S() { delete Fp; }
    std::string describe() {
        size_t q = F.tabsize();
        std::vector<ll> a(q), b(q), c(q);
        for (size_t i = 0; i < q; ++i) { a[i] = (ll)F.zech2padic((typename Fld::UTT)i); b[i] = (ll)F.padic2zech((typename Fld::UTT)i); c[i] = F.plus1(i); }
        std::ostringstream o;
        Elt gr; F.generator(gr);
        Integer ci; F.cardinality(ci); uint64_t ch; F.characteristic(ch);
        o << "F " << q << " " << (ll)F.one << " " << (ll)F.mOne << " H " << hash3(a) << " " << hash3(b) << " " << hash3(c)
          << " X " << (F.exponent() > 1 ? (ll)F.irreducible() : -1) << " " << (ll)F.generator() << " " << (ll)F.cardinality() << " " << (ll)F.characteristic()
          << " " << (ll)F.exponent() << " " << (ll)F.zero << " " << (ll)F.size() << " " << (ll)F.residu() << " " << (ll)gr
          << " " << ci << " " << ch << " " << (ll)F.minElement() << " " << (ll)F.maxElement();
        { Elt xi = -9; if (F.exponent() > 1) { F.indeterminate(xi); if (xi != F.indeterminate() || xi != F.sage_generator()) xi = -8; } o << " " << (ll)xi; }
        if (q <= 1024) o << " T " << show(a) << " | " << show(b) << " | " << show(c);
        return o.str();
    }
    std::string run_op(const std::string& v, Elt a, Elt b, Elt c) {
        Elt r = -99;       // destinations start from a value that is no element
        std::ostringstream o;
        if (v == "add") F.add(r, a, b);
        else if (v == "addin") { r = a; F.addin(r, b); }
        else if (v == "sub") F.sub(r, a, b);
        else if (v == "subin") { r = a; F.subin(r, b); }
        else if (v == "mul") F.mul(r, a, b);
        else if (v == "mulin") { r = a; F.mulin(r, b); }
        else if (v == "div") F.div(r, a, b);
        else if (v == "divin") { r = a; F.divin(r, b); }
        else if (v == "neg") F.neg(r, a);
        else if (v == "negin") { r = a; F.negin(r); }
        else if (v == "inv") F.inv(r, a);
        else if (v == "invin") { r = a; F.invin(r); }
        else if (v == "axpy") F.axpy(r, a, b, c);
        else if (v == "axpyin") { r = a; F.axpyin(r, b, c); }        // r = r + b*c
        else if (v == "maxpyin") { r = a; F.maxpyin(r, b, c); }      // r = r - b*c
        else if (v == "axmyin") { r = a; F.axmyin(r, b, c); }        // r = b*c - r
        else if (v == "axmy") F.axmy(r, a, b, c);                    // r = a*b - c
        else if (v == "maxpy") F.maxpy(r, a, b, c);                  // r = c - a*b
        else if (v == "m.sq") r = F.m_sq(a);
        else if (v == "m.sqadd") r = F.m_sqadd(a, b);
        else if (v == "m.muladd") r = F.m_muladd(a, b, c);
        else if (v == "m.mulsub") r = F.m_mulsub(a, b, c);
        else if (v == "pred") {   // isZero isOne isMOne isnzero areEqual(a,b) areNEqual(a,b)
            o << F.isZero(a) << F.isOne(a) << F.isMOne(a) << F.isnzero(a) << F.areEqual(a, b) << F.areNEqual(a, b) << F.isUnit(a); return o.str();
        }
        else if (v == "assign") { F.assign(r, a); }
        else if (v == "reduce") { F.reduce(r, a); Elt s = a; F.reduce(s); if (s != r) r = -98; }
        else return "UNKNOWN-OP";
        o << (ll)r; return o.str();
    }
    std::string run_arr(const std::string& v0, size_t sz, Elt s, std::vector<Elt> r, const std::vector<Elt>& x, const std::vector<Elt>& y) {
        // guard cells around the buffers are not needed: lengths are those the caller announces
        // variant[@alias]: alias rx = x is the destination array itself, ry = y is, xy = x and y are one array, rxy = all three
        std::string v = v0, al; size_t at = v0.find('@'); if (at != std::string::npos) { v = v0.substr(0, at); al = v0.substr(at + 1); }
        Elt* rp = r.data(); const Elt* xp = x.data(); const Elt* yp = y.data();
        if (al == "rx" || al == "rxy") xp = rp;
        if (al == "ry" || al == "rxy") yp = rp;
        if (al == "xy") yp = xp;
        if (v == "mul") F.mul(sz, rp, xp, yp);
        else if (v == "mul_s") F.mul(sz, rp, xp, s);
        else if (v == "div") F.div(sz, rp, xp, yp);
        else if (v == "div_s") F.div(sz, rp, xp, s);
        else if (v == "add") F.add(sz, rp, xp, yp);
        else if (v == "add_s") F.add(sz, rp, xp, s);
        else if (v == "sub") F.sub(sz, rp, xp, yp);
        else if (v == "sub_s") F.sub(sz, rp, xp, s);
        else if (v == "neg") F.neg(sz, rp, xp);
        else if (v == "inv") F.inv(sz, rp, xp);
        else if (v == "axpy") F.axpy(sz, rp, s, xp, yp);
        else if (v == "axpy_s") F.axpy(sz, rp, s, xp, y.empty() ? Elt(0) : y[0]);
        else if (v == "axpyin") F.axpyin(sz, rp, s, xp);
        else if (v == "axmy") F.axmy(sz, rp, s, xp, yp);
        else if (v == "axmy_s") F.axmy(sz, rp, s, xp, y.empty() ? Elt(0) : y[0]);
        else if (v == "maxpyin") F.maxpyin(sz, rp, s, xp);
        else if (v == "assign") F.assign(sz, rp, xp);
        else return "UNKNOWN-OP";
        std::ostringstream o; o << "R";
        for (size_t i = 0; i < r.size(); ++i) o << " " << (ll)r[i];
        return o.str();
    }
    std::string line(const std::vector<std::string>& t) {
        if (t[0] == "op") {
            Elt a = t.size() > 2 ? (Elt)strtoll(t[2].c_str(), 0, 10) : 0, b = t.size() > 3 ? (Elt)strtoll(t[3].c_str(), 0, 10) : 0,
                c = t.size() > 4 ? (Elt)strtoll(t[4].c_str(), 0, 10) : 0;
            return run_op(t[1], a, b, c);
        }
        if (t[0] == "opa") {      // opa <variant> <pattern> v1 v2 v3 : the call with destination/operands aliased as the pattern says
            Elt sl[4] = {-91, -92, -93, -94}, vals[3] = {0, 0, 0};
            for (size_t i = 3; i < t.size() && i < 6; ++i) vals[i - 3] = (Elt)strtoll(t[i].c_str(), 0, 10);
            if (!c05_fill(t[1], t[2], sl, vals) || !c05_call(F, t[1], t[2], sl)) return "UNKNOWN-OP";
            std::ostringstream o; o << (ll)sl[t[2][0] - '0']; return o.str();
        }
        if (t[0] == "arr") {
            size_t sz = strtoull(t[2].c_str(), 0, 10); Elt s = (Elt)strtoll(t[3].c_str(), 0, 10);
            std::vector<std::vector<std::string> > parts = split_bar(t, 4);
            while (parts.size() < 4) parts.push_back(std::vector<std::string>());
            std::vector<Elt> r, x, y;
            for (size_t i = 0; i < parts[1].size(); ++i) r.push_back((Elt)strtoll(parts[1][i].c_str(), 0, 10));
            for (size_t i = 0; i < parts[2].size(); ++i) x.push_back((Elt)strtoll(parts[2][i].c_str(), 0, 10));
            for (size_t i = 0; i < parts[3].size(); ++i) y.push_back((Elt)strtoll(parts[3][i].c_str(), 0, 10));
            if (sz != 0) return run_arr(t[1], sz, s, r, x, y);
            // sz == 0: run in a child so that a runaway loop cannot take the harness down
            int fd[2]; if (pipe(fd) != 0) return "PIPE-ERROR";
            std::cout.flush();
            pid_t pid = fork();
            if (pid == 0) {
                close(fd[0]); { struct rlimit rl; rl.rlim_cur = 10; rl.rlim_max = 10; setrlimit(RLIMIT_CPU, &rl); } alarm(300);   // CPU limit (load-independent); the alarm only covers a sleeping child
                r.reserve(4); x.reserve(4); y.reserve(4);
                std::string res = run_arr(t[1], sz, s, r, x, y);
                if (write(fd[1], res.c_str(), res.size()) < 0) _exit(3);
                _exit(0);
            }
            close(fd[1]);
            char buf[4096]; std::string got; ssize_t n;
            while ((n = read(fd[0], buf, sizeof buf)) > 0) got.append(buf, (size_t)n);
            close(fd[0]);
            int st = 0; waitpid(pid, &st, 0);
            if (WIFEXITED(st) && WEXITSTATUS(st) == 0) return got;
            return "UB";
        }
        if (t[0] == "dot" || t[0] == "dot@xy") {
            size_t sz = strtoull(t[1].c_str(), 0, 10);
            std::vector<std::vector<std::string> > parts = split_bar(t, 2);
            while (parts.size() < 3) parts.push_back(std::vector<std::string>());
            std::vector<Elt> x, y;
            for (size_t i = 0; i < parts[1].size(); ++i) x.push_back((Elt)strtoll(parts[1][i].c_str(), 0, 10));
            for (size_t i = 0; i < parts[2].size(); ++i) y.push_back((Elt)strtoll(parts[2][i].c_str(), 0, 10));
            x.reserve(1); y.reserve(1);
            Elt r = -99; F.dotprod(r, sz, x.data(), (t[0] == "dot@xy") ? x.data() : y.data());
            std::ostringstream o; o << (ll)r; return o.str();
        }
        if (t[0] == "cvt") {
            const std::string& v = t[1]; Elt r = -99; std::ostringstream o;
            Integer big(t[2].c_str());
            if (v == "i32") { F.init(r, (int32_t)strtoll(t[2].c_str(), 0, 10)); int32_t c; F.convert(c, r); o << (ll)r << " " << c; }
            else if (v == "u32") { F.init(r, (uint32_t)strtoull(t[2].c_str(), 0, 10)); uint32_t c; F.convert(c, r); o << (ll)r << " " << c; }
            else if (v == "i64") { F.init(r, (int64_t)strtoll(t[2].c_str(), 0, 10)); int64_t c; F.convert(c, r); o << (ll)r << " " << c; }
            else if (v == "u64") { F.init(r, (uint64_t)strtoull(t[2].c_str(), 0, 10)); uint64_t c; F.convert(c, r); o << (ll)r << " " << c; }
            else if (v == "dbl") { F.init(r, (double)strtod(t[2].c_str(), 0)); double c; F.convert(c, r); o << (ll)r << " " << (ll)c; }
            else if (v == "flt") { F.init(r, (float)strtod(t[2].c_str(), 0)); float c; F.convert(c, r); o << (ll)r << " " << (ll)c; }
            else if (v == "Integer") { F.init(r, big); Integer c; F.convert(c, r); o << (ll)r << " " << c; }
            else if (v == "assignI") { F.assign(r, big); o << (ll)r << " " << (ll)F.convert(r); }
            else if (v == "none") { F.init(r); o << (ll)r << " " << (ll)F.convert(r); }
            else if (v == "vec") {   // init from a polynomial given p-adically: digits of t[2], one more coefficient than needed
                std::vector<int64_t> P; Integer x(big); Integer pp((uint64_t)F.characteristic());
                while (x > 0) { P.push_back((int64_t)(x % pp)); x /= pp; }
                std::vector<Elt> Pe(P.size()); GFqDom<T> Zp((typename Fld::UTT)F.characteristic(), 1);
                for (size_t i = 0; i < P.size(); ++i) Zp.init(Pe[i], P[i]);
                F.init(r, Pe); o << (ll)r << " " << (ll)F.convert(r);
            }
            else return "UNKNOWN-OP";
            return o.str();
        }
        return "BAD-LINE";
    }
};

// per-call CPU watchdog (ITIMER_PROF counts the CPU time of this process only, so it is independent of the machine load): a call that
// does not come back within its budget ends the process with exit code 99; the check re-runs that one call alone with a larger
// budget (C05_CALL_CPU) before it reports "does not return"
static void on_budget(int) { const char m[] = "CPU-BUDGET\n"; ssize_t w = write(2, m, sizeof m - 1); (void)w; _exit(99); }
static void arm(double s) { struct itimerval it; it.it_interval.tv_sec = 0; it.it_interval.tv_usec = 0; it.it_value.tv_sec = (long)s; it.it_value.tv_usec = (long)((s - (long)s) * 1e6); setitimer(ITIMER_PROF, &it, 0); }
static double env_d(const char* n, double d) { const char* v = getenv(n); return (v && *v) ? atof(v) : d; }
int main() {
    signal(SIGPROF, on_budget);
    const double call_cpu = env_d("C05_CALL_CPU", 10.0), field_cpu = env_d("C05_FIELD_CPU", 60.0);
    std::string l; Session* cur = 0;
    while (std::getline(std::cin, l)) {
        std::istringstream is(l); std::vector<std::string> t; std::string w;
        while (is >> w) t.push_back(w);
        if (t.empty()) continue;
        std::string out;
        arm(t[0] == "field" ? field_cpu : call_cpu);
        try {
            if (t[0] == "field") {
                delete cur; cur = 0;
                if (t[1] == "32") cur = new S<int32_t>(t); else cur = new S<int64_t>(t);
                out = cur->describe();
            } else if (!cur) out = "NO-FIELD";
            else out = cur->line(t);
        } catch (...) { out = "EXCEPTION"; }
        arm(0);
        std::cout << out << std::endl;      // flushed: a crash or a hang is attributed to the next input line
    }
    std::cout.flush();
    return 0;
}
