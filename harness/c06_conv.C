// C06 harness, conversion part: every entry point that converts between ruint<K> / rint<K> and big integers (mpz_class, mpz_t,
// Givaro::Integer, decimal / hexadecimal text on a stream, C strings), run on a destination that is NOT fresh: the
// destination object holds `prev` (its previous contents, limb for limb) before the conversion is called.
// line:   conv.<form> <K> <thr> <prev> <value>       output: the converted value (all entry points must agree)
// Givaro::Integer is compiled into this translation unit (gmp++_int.C is the library's own all-in-one source file).
#include <iostream>
#include <sstream>
#include <string>
#include <vector>
#include <cstring>
#include <cstdint>
#include <new>
#include <gmp.h>
#include <gmpxx.h>
#include "gmp++/gmp++.h"
#include <recint/recint.h>
#include "c06_watchdog.h"
#include "gmp++/gmp++_int.C"
#include "gmp++/gmp++_int_lib.C"
#include "giverror.C"

using RecInt::ruint;
using RecInt::limb;
typedef std::vector<mpz_t*> Args;

// ---- GMP allocation accounting (live blocks): a conversion must release / initialise exactly what it owns
static long g_live = 0;
static void* cnt_alloc(size_t n) { ++g_live; return malloc(n); }
static void* cnt_realloc(void* p, size_t, size_t n) { return realloc(p, n); }
static void cnt_free(void* p, size_t) { --g_live; free(p); }

template <size_t K> static void from_mpz(ruint<K>& x, const mpz_t z) {
    const size_t n = RecInt::NBLIMB<K>::value;
    limb* p = reinterpret_cast<limb*>(&x);
    for (size_t i = 0; i < n; ++i) p[i] = (i < mpz_size(z)) ? mpz_getlimbn(z, i) : 0;
    if (mpz_sgn(z) < 0) {
        limb c = 1;
        for (size_t i = 0; i < n; ++i) { p[i] = ~p[i] + c; c = (c && p[i] == 0); }
    }
}
template <size_t K> static std::string to_hex(const ruint<K>& x) {
    const size_t n = RecInt::NBLIMB<K>::value;
    const limb* p = reinterpret_cast<const limb*>(&x);
    mpz_t z; mpz_init(z);
    mpz_import(z, n, -1, sizeof(limb), 0, 0, p);
    char* s = mpz_get_str(NULL, 16, z);
    std::string r(s); free(s); mpz_clear(z);
    return r;
}
template <size_t K> static std::string to_hex(const RecInt::rint<K>& x) { return to_hex(x.Value); }
template <size_t K> static bool same(const ruint<K>& a, const ruint<K>& b) { return memcmp(&a, &b, sizeof(a)) == 0; }
static std::string dec(const mpz_class& z) { return z.get_str(10); }
static Givaro::Integer mkI(const mpz_t z) { Givaro::Integer I; mpz_set(I.get_mpz(), z); return I; }

#define CHK(cond, name) do { if (!(cond)) bad += std::string(" INCONSISTENT:") + name; } while (0)

// ruint<K>(const char*) for every K (the one-limb specialisation is defined since /repo ebe0fe7)
template <size_t K> struct FromStr { static bool ok(const char* s, const ruint<K>& want) { ruint<K> t(s); return same(t, want); } };

template <size_t K> struct Conv {
    typedef RecInt::rint<K> SI;
    // big integer -> ruint<K>, destination holds prev
    static std::string to_ruint(Args& a) {
        using namespace RecInt;
        std::string bad; ruint<K> prev, r, r2; from_mpz(prev, *a[0]);
        mpz_class m(*a[1]); Givaro::Integer I(mkI(*a[1]));
        r = prev; mpz_to_ruint(r, m);
        r2 = prev; mpz_t_to_ruint(r2, *a[1]); CHK(same(r, r2), "mpz_t_to_ruint");
        r2 = prev; Givaro::Caster(r2, I); CHK(same(r, r2), "Caster(ruint,Integer)");
        r2 = prev; { std::istringstream is(m.get_str(10)); is >> r2; } CHK(same(r, r2), "istream>>ruint");
        r2 = prev; r2 = I; CHK(same(r, r2), "ruint=Integer");
        r2 = prev; r2 = (ruint<K>)I; CHK(same(r, r2), "(ruint)Integer");
        { ruint<K> f(I); CHK(same(r, f), "ruint(Integer)"); }
        { alignas(16) unsigned char buf[sizeof(ruint<K>)]; memset(buf, 0xA5, sizeof(buf));
          ruint<K>* p = new (buf) ruint<K>(I); CHK(same(r, *p), "new(used memory) ruint(Integer)"); }
        { std::string s = m.get_str(10); CHK(FromStr<K>::ok(s.c_str(), r), "ruint(const char*)"); }
        // twice on the same object: the second conversion must not see the first
        r2 = prev; { mpz_class big(*a[0]); mpz_to_ruint(r2, big); mpz_to_ruint(r2, m); } CHK(same(r, r2), "mpz_to_ruint twice");
        CHK(mpz_cmp(m.get_mpz_t(), *a[1]) == 0, "source modified");
        return to_hex(r) + bad;
    }
    // big integer (any sign) -> rint<K>
    static std::string to_rint(Args& a) {
        using namespace RecInt;
        std::string bad; SI prev, r, r2; from_mpz(prev.Value, *a[0]);
        mpz_class m(*a[1]); Givaro::Integer I(mkI(*a[1]));
        r = prev; mpz_to_rint(r, m);
        r2 = prev; mpz_t_to_rint(r2, *a[1]); CHK(same(r.Value, r2.Value), "mpz_t_to_rint");
        r2 = prev; Givaro::Caster(r2, I); CHK(same(r.Value, r2.Value), "Caster(rint,Integer)");
        r2 = prev; { std::istringstream is(m.get_str(10)); is >> r2; } CHK(same(r.Value, r2.Value), "istream>>rint");
        { SI f = I.operator SI(); CHK(same(r.Value, f.Value), "Integer::operator rint"); }
        CHK(mpz_cmp(m.get_mpz_t(), *a[1]) == 0, "source modified");
        return to_hex(r) + bad;
    }
    // rint<K>(const Integer&) (the templated constructor, not Integer::operator rint<K>()), also by assignment to a used object
    static std::string rint_from_integer(Args& a) {
        using namespace RecInt;
        std::string bad; SI prev, r2; from_mpz(prev.Value, *a[0]);
        Givaro::Integer I(mkI(*a[1]));
        SI r(I);
        r2 = prev; r2 = (SI)I; CHK(same(r.Value, r2.Value), "rint=(rint)Integer");
        return to_hex(r) + bad;
    }
    // ruint<K> -> big integer; the mpz / Integer destination holds prevm
    static std::string from_ruint(Args& a) {
        using namespace RecInt;
        std::string bad; ruint<K> x; from_mpz(x, *a[1]); const ruint<K> x0(x);
        mpz_class m(*a[0]); ruint_to_mpz(m, x);
        long live0 = g_live;
        { mpz_t t; ruint_to_mpz_t(t, x); CHK(mpz_cmp(t, m.get_mpz_t()) == 0, "ruint_to_mpz_t"); mpz_clear(t); }
        long leak = g_live - live0;
        { Givaro::Integer I(x); CHK(mpz_cmp(I.get_mpz_const(), m.get_mpz_t()) == 0, "Integer(ruint)"); }
        { Givaro::Integer t(mkI(*a[0])); Givaro::Caster(t, x); CHK(mpz_cmp(t.get_mpz_const(), m.get_mpz_t()) == 0, "Caster(Integer,ruint)"); }
        long leak2 = g_live - live0;
        { std::ostringstream os; os << x; CHK(os.str() == m.get_str(10), "ostream<<ruint dec"); }
        { std::ostringstream os; os << std::hex << x; mpz_class h(os.str(), 16); CHK(h == m, "ostream<<ruint hex"); }
        { mpz_class m2; ruint_to_mpz(m2, x); ruint<K> back; memset(static_cast<void*>(&back), 0xA5, sizeof(back)); mpz_to_ruint(back, m2); CHK(same(back, x0), "round trip"); }
        CHK(same(x, x0), "source modified");
        std::ostringstream o; o << dec(m) << " " << leak << " " << leak2 << bad;
        return o.str();
    }
    static std::string from_rint(Args& a) {
        using namespace RecInt;
        std::string bad; SI x; from_mpz(x.Value, *a[1]); const SI x0(x);
        mpz_class m(*a[0]); rint_to_mpz(m, x);
        long live0 = g_live;
        { mpz_t t; rint_to_mpz_t(t, x); CHK(mpz_cmp(t, m.get_mpz_t()) == 0, "rint_to_mpz_t"); mpz_clear(t); }
        long leak = g_live - live0;
        { Givaro::Integer I(x); CHK(mpz_cmp(I.get_mpz_const(), m.get_mpz_t()) == 0, "Integer(rint)"); }
        { Givaro::Integer t(mkI(*a[0])); Givaro::Caster(t, x); CHK(mpz_cmp(t.get_mpz_const(), m.get_mpz_t()) == 0, "Caster(Integer,rint)"); }
        long leak2 = g_live - live0;
        { std::ostringstream os; os << x; CHK(os.str() == m.get_str(10), "ostream<<rint dec"); }
        { std::ostringstream os; os << std::hex << x; std::ostringstream ou; ou << std::hex << x.Value;     // same digits (padding may differ)
          CHK(mpz_class(os.str(), 16) == mpz_class(ou.str(), 16), "ostream<<rint hex"); }
        { mpz_class m2; rint_to_mpz(m2, x); SI back; memset(static_cast<void*>(&back), 0xA5, sizeof(back)); mpz_to_rint(back, m2); CHK(same(back.Value, x0.Value), "round trip"); }
        CHK(same(x.Value, x0.Value), "source modified");
        std::ostringstream o; o << dec(m) << " " << leak << " " << leak2 << bad;
        return o.str();
    }
    // decimal output as text: operator<< of ruint<K> and of rint<K> (the digits are compared with the model's digit loop)
    static std::string dec_out(Args& a) {
        using namespace RecInt;
        ruint<K> x; from_mpz(x, *a[1]); SI s(x);
        std::ostringstream os, ot; os << x; ot << s;
        return os.str() + " " + ot.str();
    }
    // object-level copies on a used destination: copy constructor, operator=, copy(), widening constructor, reset, placement
    // construction on used memory (a default-constructed ruint is 0: the constructors from native words rely on it)
    static std::string copies(Args& a) {
        using namespace RecInt;
        std::string bad; ruint<K> prev, x, r; from_mpz(prev, *a[0]); from_mpz(x, *a[1]);
        r = prev; r = x; CHK(same(r, x), "operator=");
        r = prev; copy(r, x); CHK(same(r, x), "copy");
        r = x; copy(r, r); CHK(same(r, x), "copy(a,a)");
        { ruint<K> c(x); CHK(same(c, x), "copy constructor"); }
        { SI s; from_mpz(s.Value, *a[0]); SI t(x); s = t; CHK(same(s.Value, x), "rint operator="); SI u(t); CHK(same(u.Value, x), "rint copy constructor");
          SI v; from_mpz(v.Value, *a[0]); copy(v, t); CHK(same(v.Value, x), "copy(rint)"); reset(v); ruint<K> z0; memset(static_cast<void*>(&z0), 0, sizeof(z0)); CHK(same(v.Value, z0), "reset(rint)"); }
        // neg(rint&, const rint&) (compiles since /repo 47f3dcf) against unary minus and neg(rint&)
        { SI t2(x), ng, n2(-t2), n3(t2); from_mpz(ng.Value, *a[0]); neg(ng, t2); neg(n3); CHK(same(ng.Value, n2.Value) && same(n3.Value, n2.Value), "neg(rint,rint)"); }
        alignas(16) unsigned char buf[sizeof(ruint<K>)];
        memset(buf, 0xA5, sizeof(buf)); ruint<K>* d = new (buf) ruint<K>();
        ruint<K> zero; memset(static_cast<void*>(&zero), 0, sizeof(zero));
        CHK(same(*d, zero), "default constructor on used memory");
        memset(buf, 0xA5, sizeof(buf)); SI* ds = new (buf) SI(); CHK(same(ds->Value, zero), "rint default constructor on used memory");
        r = prev; reset(r); CHK(same(r, zero), "reset");
        return to_hex(r = x) + bad;
    }
};
// widening constructors ruint<K+1>(ruint<K>), rint<K+1>(rint<K>) (sign extension) on used memory (K <= 10)
template <size_t K, bool OK = (K <= 10)> struct Widen {
    static std::string go(Args& a) {
        std::string bad; ruint<K> x; from_mpz(x, *a[1]);
        alignas(16) unsigned char buf[sizeof(ruint<K+1>)];
        memset(buf, 0xA5, sizeof(buf)); ruint<K+1>* w = new (buf) ruint<K+1>(x);
        std::string u = to_hex(*w);
        RecInt::rint<K> s(x);
        memset(buf, 0xA5, sizeof(buf)); RecInt::rint<K+1>* ws = new (buf) RecInt::rint<K+1>(s);
        return u + " " + to_hex(*ws) + bad;
    }
};
template <size_t K> struct Widen<K, false> { static std::string go(Args&) { return "UNSUPPORTED-K"; } };

template <size_t K> static std::string run(const std::string& v, Args& a) {
    if (a.size() < 2) return "BAD-ARGS";
    if (v == "conv.to_ruint") return Conv<K>::to_ruint(a);
    if (v == "conv.to_rint") return Conv<K>::to_rint(a);
    if (v == "conv.rint_from_integer") return Conv<K>::rint_from_integer(a);
    if (v == "conv.from_ruint") return Conv<K>::from_ruint(a);
    if (v == "conv.from_rint") return Conv<K>::from_rint(a);
    if (v == "conv.copies") return Conv<K>::copies(a);
    if (v == "conv.dec") return Conv<K>::dec_out(a);
    if (v == "conv.widen") return Widen<K>::go(a);
    return "UNKNOWN-VARIANT";
}

int main() {
    mp_set_memory_functions(cnt_alloc, cnt_realloc, cnt_free);
    c06_watchdog_install(); const double budget = c06_cpu_budget();
    std::string line;
    std::cout << "#thr " << __RECINT_THRESHOLD_KARA << "\n";
    while (std::getline(std::cin, line)) {
        std::istringstream is(line);
        std::string v; int K, thr; is >> v >> K >> thr;
        if (!is) continue;
        Args a; std::string t;
        while (is >> t) {
            mpz_t* z = new mpz_t[1]; mpz_init(*z);
            const char* s = t.c_str();
            if (t.size() > 2 && t[0] == '0' && t[1] == 'x') mpz_set_str(*z, s + 2, 16);
            else if (t.size() > 3 && t[0] == '-' && t[1] == '0' && t[2] == 'x') { mpz_set_str(*z, s + 3, 16); mpz_neg(*z, *z); }
            else mpz_set_str(*z, s, 10);
            a.push_back(z);
        }
        std::string r;
        c06_arm(budget);
        switch (K) {
            case 6: r = run<6>(v, a); break;
            case 7: r = run<7>(v, a); break;
            case 8: r = run<8>(v, a); break;
            case 9: r = run<9>(v, a); break;
            case 10: r = run<10>(v, a); break;
            case 11: r = run<11>(v, a); break;
            default: r = "BAD-K";
        }
        c06_disarm();
        std::cout << r << std::endl;
        for (auto z : a) { mpz_clear(*z); delete[] z; }
    }
    return 0;
}
