// C06 harness, native-operand part: every overload of a RecInt operation that takes a NATIVE operand (bool, the 8/16/32/64 bit
// signed and unsigned integers, long long / unsigned long long, double holding an integer), the constructors from and the casts
// to native types, for ruint<K> and rint<K>, K = 6..11, compiled against /repo's current headers.
// line:   nat.<op>.<type> <K> <thr> <x hex> <c dec> [<n hex>]       output: result tokens in hex
// All call forms of one operation (function / in-place / operator / reversed operator) are run on the same operands inside
// one case; they must agree with each other (otherwise the token INCONSISTENT:<form> is appended) and the common result is
// printed.  Native results are printed as the 64-bit two's complement of their value.
// Build with -DC06_NPART=1 (unsigned types), 2 (signed types), 3 (bool, long long types, double) or without (everything).
#include <iostream>
#include <sstream>
#include <string>
#include <vector>
#include <cstring>
#include <cstdint>
#include <gmp.h>
#include <gmpxx.h>
#include <recint/recint.h>
#include "c06_watchdog.h"

#ifndef C06_NPART
#define C06_NPART 0
#endif

using RecInt::ruint;
using RecInt::limb;
typedef std::vector<mpz_t*> Args;

template <size_t K> static void from_mpz(ruint<K>& x, const mpz_t z) {
    const size_t n = RecInt::NBLIMB<K>::value;
    limb* p = reinterpret_cast<limb*>(&x);
    for (size_t i = 0; i < n; ++i) p[i] = (i < mpz_size(z)) ? mpz_getlimbn(z, i) : 0;
    if (mpz_sgn(z) < 0) {
        limb c = 1;
        for (size_t i = 0; i < n; ++i) { p[i] = ~p[i] + c; c = (c && p[i] == 0); }
    }
}
template <size_t K> static std::string to_hex(const ruint<K>& x) {
    const size_t n = RecInt::NBLIMB<K>::value;
    const limb* p = reinterpret_cast<const limb*>(&x);
    mpz_t z; mpz_init(z);
    mpz_import(z, n, -1, sizeof(limb), 0, 0, p);
    char* s = mpz_get_str(NULL, 16, z);
    std::string r(s); free(s); mpz_clear(z);
    return r;
}
template <size_t K> static std::string to_hex(const RecInt::rint<K>& x) { return to_hex(x.Value); }
static std::string hex64(uint64_t w) { std::ostringstream o; o << std::hex << w; return o.str(); }
template <size_t K> static void garbage(ruint<K>& x) { memset(static_cast<void*>(&x), 0xA5, sizeof(x)); }
template <size_t K> static void garbage(RecInt::rint<K>& x) { garbage(x.Value); }
template <size_t K> static bool same(const ruint<K>& a, const ruint<K>& b) { return memcmp(&a, &b, sizeof(a)) == 0; }
template <size_t K> static bool same(const RecInt::rint<K>& a, const RecInt::rint<K>& b) { return memcmp(&a, &b, sizeof(a)) == 0; }
static int sgn3(int s) { return s < 0 ? -1 : s > 0 ? 1 : 0; }

// the native operand: decimal argument converted to T (the check only sends values T can hold)
template <typename T, bool S = std::is_signed<T>::value, bool F = std::is_floating_point<T>::value> struct Conv;
template <typename T> struct Conv<T, false, false> { static T get(const mpz_t z) { return (T)mpz_get_ui(z); } static uint64_t bits(T v) { return (uint64_t)v; } };
template <typename T> struct Conv<T, true, false> { static T get(const mpz_t z) { return (T)mpz_get_si(z); } static uint64_t bits(T v) { return (uint64_t)(int64_t)v; } };
template <typename T> struct Conv<T, true, true> { static T get(const mpz_t z) { return (T)mpz_get_d(z); }
    static uint64_t bits(T v) { return v < 0 ? (uint64_t)(int64_t)v : (uint64_t)v; } };
template <> struct Conv<bool, false, false> { static bool get(const mpz_t z) { return mpz_sgn(z) != 0; } static uint64_t bits(bool v) { return v ? 1 : 0; } };

#define CHK(cond, name) do { if (!(cond)) bad += std::string(" INCONSISTENT:") + name; } while (0)

template <size_t K, typename T> struct Nat {
    typedef RecInt::rint<K> SI;
    // ---- add: function forms (c >= 0), carry reported
    static std::string addf(const ruint<K>& x, T t) {
        using namespace RecInt;
        std::string bad; ruint<K> r, r2; bool c = false, c2 = false; garbage(r); garbage(r2);
        add(c, r, x, t);
        r2 = x; add(c2, r2, t); CHK(same(r, r2) && c == c2, "add(r,a,c)");
        garbage(r2); add(r2, x, t); CHK(same(r, r2), "add(a,b,c)");
        r2 = x; add(r2, t); CHK(same(r, r2), "add(a,c)");
        { SI s, b(x); garbage(s); bool cs = false; add(cs, s, b, t); CHK(same(s.Value, r) && cs == c, "add(r,rint,rint,c)"); }
        { SI s(x); bool cs = false; add(cs, s, t); CHK(same(s.Value, r) && cs == c, "add(r,rint,c)"); }
        { SI s, b(x); garbage(s); add(s, b, t); CHK(same(s.Value, r), "add(rint,rint,c)"); }
        { SI s(x); add(s, t); CHK(same(s.Value, r), "add(rint,c)"); }
        return to_hex(r) + " " + (c ? "1" : "0") + bad;
    }
    // ---- add: operator forms (any c)
    static std::string addo(const ruint<K>& x, T t) {
        using namespace RecInt;
        std::string bad; ruint<K> r, r2; garbage(r); garbage(r2);
        r = x + t;
        r2 = t + x; CHK(same(r, r2), "c+a");
        r2 = x; r2 += t; CHK(same(r, r2), "a+=c");
        { SI s(x); s += t; CHK(same(s.Value, r), "rint+=c"); }
        return to_hex(r) + bad;
    }
    static std::string subf(const ruint<K>& x, T t) {
        using namespace RecInt;
        std::string bad; ruint<K> r, r2; bool c = false, c2 = false; garbage(r); garbage(r2);
        sub(c, r, x, t);
        r2 = x; sub(c2, r2, t); CHK(same(r, r2) && c == c2, "sub(r,a,c)");
        garbage(r2); sub(r2, x, t); CHK(same(r, r2), "sub(a,b,c)");
        r2 = x; sub(r2, t); CHK(same(r, r2), "sub(a,c)");
        { SI s, b(x); garbage(s); bool cs = false; sub(cs, s, b, t); CHK(same(s.Value, r) && cs == c, "sub(r,rint,rint,c)"); }
        { SI s(x); bool cs = false; sub(cs, s, t); CHK(same(s.Value, r) && cs == c, "sub(r,rint,c)"); }
        { SI s, b(x); garbage(s); sub(s, b, t); CHK(same(s.Value, r), "sub(rint,rint,c)"); }
        { SI s(x); sub(s, t); CHK(same(s.Value, r), "sub(rint,c)"); }
        return to_hex(r) + " " + (c ? "1" : "0") + bad;
    }
    static std::string subo(const ruint<K>& x, T t) {
        using namespace RecInt;
        std::string bad; ruint<K> r, r2, rr; garbage(r); garbage(r2); garbage(rr);
        r = x - t;
        r2 = x; r2 -= t; CHK(same(r, r2), "a-=c");
        { SI s(x); s -= t; CHK(same(s.Value, r), "rint-=c"); }
        rr = t - x;                                   // reversed: c - a
        return to_hex(r) + " " + to_hex(rr) + bad;
    }
    // ---- mul: function forms (c >= 0), the limb that overflows is reported
    static std::string mulf(const ruint<K>& x, T t) {
        using namespace RecInt;
        std::string bad; ruint<K> r, r2; limb ret = 0xA5A5; garbage(r); garbage(r2);
        lmul(ret, r, x, t);
        mul(r2, x, t); CHK(same(r, r2), "mul(a,b,c)");
        r2 = x; mul(r2, t); CHK(same(r, r2), "mul(a,c)");
        r2 = x; { limb ret2 = 7; lmul(ret2, r2, r2, t); CHK(same(r, r2) && ret2 == ret, "lmul(ret,a,a,c)"); }
        { SI s, b(x); garbage(s); mul(s, b, t); CHK(same(s.Value, r), "mul(rint,rint,c)"); }
        { SI s(x); mul(s, t); CHK(same(s.Value, r), "mul(rint,c)"); }
        return to_hex(r) + " " + hex64(ret) + bad;
    }
    static std::string mulo(const ruint<K>& x, T t) {
        using namespace RecInt;
        std::string bad; ruint<K> r, r2; garbage(r); garbage(r2);
        r = x * t;
        r2 = t * x; CHK(same(r, r2), "c*a");
        r2 = x; r2 *= t; CHK(same(r, r2), "a*=c");
        { SI b(x); SI s = b * t; CHK(same(s.Value, r), "rint*c"); }
        { SI b(x); SI s = t * b; CHK(same(s.Value, r), "c*rint"); }
        { SI s(x); s *= t; CHK(same(s.Value, r), "rint*=c"); }
        return to_hex(r) + bad;
    }
    // ---- div: function forms (c > 0): quotient and remainder
    static std::string divf(const ruint<K>& x, T t) {
        using namespace RecInt;
        std::string bad; ruint<K> q, q2; T rr = T(1), rr2 = T(1); garbage(q); garbage(q2);
        div(q, rr, x, t);
        div_q(q2, x, t); CHK(same(q, q2), "div_q(q,a,c)");
        div_r(rr2, x, t); CHK(rr == rr2, "div_r(r,a,c)");
        q2 = x; { T r3 = T(1); div(q2, r3, q2, t); CHK(same(q, q2) && r3 == rr, "div(a,r,a,c)"); }   // display_dec divides in place
        return to_hex(q) + " " + hex64(Conv<T>::bits(rr)) + bad;
    }
    // operator forms: quotient for any c != 0
    static std::string divo(const ruint<K>& x, T t) {
        using namespace RecInt;
        std::string bad; ruint<K> r, r2; garbage(r); garbage(r2);
        r = x / t;
        r2 = x; r2 /= t; CHK(same(r, r2), "a/=c");
        return to_hex(r) + bad;
    }
    // remainder operators (c > 0)
    static std::string modo(const ruint<K>& x, T t) {
        using namespace RecInt;
        std::string bad; ruint<K> r, r2; garbage(r); garbage(r2);
        r = x % t;
        r2 = x; r2 %= t; CHK(same(r, r2), "a%=c");
        return to_hex(r) + bad;
    }
    // signed quotient: rint / T (truncated), any c != 0
    static std::string sdivo(const ruint<K>& x, T t) {
        using namespace RecInt;
        std::string bad; SI b(x), s, s2; garbage(s); garbage(s2);
        div_q(s, b, t);
        s2 = b / t; CHK(same(s, s2), "rint/c");
        s2 = b; s2 /= t; CHK(same(s, s2), "rint/=c");
        return to_hex(s) + bad;
    }
    // ---- rint function forms with a native operand of ANY sign: add/sub(rint&, const rint&, T), add/sub(rint&, T) and the carry forms
    static std::string saddf(const ruint<K>& x, T t) {
        using namespace RecInt;
        std::string bad; SI b(x), s, s2, d, d2; garbage(s); garbage(d);
        add(s, b, t); s2 = b; add(s2, t); CHK(same(s, s2), "add(rint,c)");
        { bool cs = false; SI s3; garbage(s3); add(cs, s3, b, t); CHK(same(s, s3), "add(r,rint,rint,c)"); SI s4(b); add(cs, s4, t); CHK(same(s, s4), "add(r,rint,c)"); }
        sub(d, b, t); d2 = b; sub(d2, t); CHK(same(d, d2), "sub(rint,c)");
        { bool cs = false; SI d3; garbage(d3); sub(cs, d3, b, t); CHK(same(d, d3), "sub(r,rint,rint,c)"); SI d4(b); sub(cs, d4, t); CHK(same(d, d4), "sub(r,rint,c)"); }
        return to_hex(s) + " " + to_hex(d) + bad;
    }
    // ---- rint remainder, the divisor a rint built from the native value (any sign, |c| > 1)
    static std::string sremo(const ruint<K>& x, T t) {
        using namespace RecInt;
        std::string bad; SI b(x), m(t), r, r2; garbage(r);
        div_r(r, b, m); r2 = b % m; CHK(same(r, r2), "rint%rint"); r2 = b; r2 %= m; CHK(same(r, r2), "rint%=rint");
        return to_hex(r) + bad;
    }
    // ---- compare: cmp and the twelve operators, for ruint and rint
    static std::string cmpo(const ruint<K>& x, T t) {
        using namespace RecInt;
        std::string bad;
        int s = sgn3(cmp(x, t));
        CHK(((x == t) == (s == 0)) && ((x != t) == (s != 0)) && ((x < t) == (s < 0)) && ((x <= t) == (s <= 0))
            && ((x > t) == (s > 0)) && ((x >= t) == (s >= 0)), "a?c");
        CHK(((t == x) == (s == 0)) && ((t != x) == (s != 0)) && ((t < x) == (s > 0)) && ((t <= x) == (s >= 0))
            && ((t > x) == (s < 0)) && ((t >= x) == (s <= 0)), "c?a");
        SI b(x);
        int ss = sgn3(cmp(b, t));
        CHK(((b == t) == (ss == 0)) && ((b != t) == (ss != 0)) && ((b < t) == (ss < 0)) && ((b <= t) == (ss <= 0))
            && ((b > t) == (ss > 0)) && ((b >= t) == (ss >= 0)), "rint?c");
        CHK(((t == b) == (ss == 0)) && ((t != b) == (ss != 0)) && ((t < b) == (ss > 0)) && ((t <= b) == (ss >= 0))
            && ((t > b) == (ss < 0)) && ((t >= b) == (ss <= 0)), "c?rint");
        std::ostringstream o; o << s << " " << ss << bad;
        return o.str();
    }
    // ---- bit operations with a native word
    static std::string bito(const ruint<K>& x, T t) {
        using namespace RecInt;
        std::string bad; ruint<K> ro, rx, ra, r2; garbage(ro); garbage(rx); garbage(ra);
        ro = x | t; r2 = x; r2 |= t; CHK(same(ro, r2), "a|=c");
        rx = x ^ t; r2 = x; r2 ^= t; CHK(same(rx, r2), "a^=c");
        T an = x & t; ra = x; ra &= t; CHK(Conv<T>::bits(an) == Conv<T>::bits((T)ra), "a&c");
        { SI s(x); s ^= t; CHK(same(s.Value, rx), "rint^=c"); }
        { SI s(x); s &= t; CHK(same(s.Value, ra), "rint&=c"); }
        return to_hex(ro) + " " + to_hex(rx) + " " + to_hex(ra) + " " + hex64(Conv<T>::bits(an)) + bad;
    }
    // ---- constructors from T, assignment of a T over a used object, cast back
    static std::string ctor(T t, bool castback) {
        using namespace RecInt;
        std::string bad; ruint<K> s(t); ruint<K> r; garbage(r); r = t; CHK(same(r, s), "a=c");
        ruint<K> r3; garbage(r3); r3 = ruint<K>(t); CHK(same(r3, s), "a=ruint(c)");
        SI si(t); SI sj; garbage(sj); sj = t; CHK(same(si, sj), "rint=c");
        std::string back = "x";
        if (castback) { T tb = (T)s; T tc = (T)si; back = hex64(Conv<T>::bits(tb)); CHK(Conv<T>::bits(tb) == Conv<T>::bits(tc), "(T)rint"); }
        return to_hex(s) + " " + to_hex(si) + " " + back + bad;
    }
};

// shifts with a count of type T (integer types only), ruint and rint
template <size_t K, typename T> struct NatShift {
    typedef RecInt::rint<K> SI;
    static std::string shl(const ruint<K>& x, T t) {
        using namespace RecInt;
        std::string bad; ruint<K> r, r2; garbage(r); garbage(r2);
        left_shift(r, x, t);
        r2 = x << t; CHK(same(r, r2), "a<<c");
        r2 = x; r2 <<= t; CHK(same(r, r2), "a<<=c");
        r2 = x; left_shift(r2, r2, t); CHK(same(r, r2), "left_shift(a,a,c)");
        { SI b(x); SI s = b << t; CHK(same(s.Value, r), "rint<<c"); }
        { SI s(x); s <<= t; CHK(same(s.Value, r), "rint<<=c"); }
        return to_hex(r) + bad;
    }
    static std::string shr(const ruint<K>& x, T t) {
        using namespace RecInt;
        std::string bad; ruint<K> r, r2; garbage(r); garbage(r2);
        right_shift(r, x, t);
        r2 = x >> t; CHK(same(r, r2), "a>>c");
        r2 = x; r2 >>= t; CHK(same(r, r2), "a>>=c");
        r2 = x; right_shift(r2, r2, t); CHK(same(r, r2), "right_shift(a,a,c)");
        SI b(x); SI s = b >> t;                       // arithmetic shift of the signed reading
        { SI s2(x); s2 >>= t; CHK(same(s, s2), "rint>>=c"); }
        return to_hex(r) + " " + to_hex(s) + bad;
    }
};
// exp_mod with an unsigned native exponent (needs ruint<K+1>: K <= 10)
template <size_t K, typename T, bool OK = (K <= 10)> struct NatExp {
    static std::string go(const ruint<K>& x, T t, const ruint<K>& n) {
        using namespace RecInt;
        ruint<K> r; garbage(r); exp_mod(r, x, t, n); return to_hex(r);
    }
};
template <size_t K, typename T> struct NatExp<K, T, false> {
    static std::string go(const ruint<K>&, T, const ruint<K>&) { return "UNSUPPORTED-K"; }
};

// casts of a ruint / rint to every native type (one form, no type tag)
template <size_t K> static std::string cast_all(const ruint<K>& x) {
    std::string bad; RecInt::rint<K> s(x);
    std::ostringstream o;
    o << hex64((uint8_t)x) << " " << hex64((uint16_t)x) << " " << hex64((uint32_t)x) << " " << hex64((uint64_t)x) << " "
      << hex64((uint64_t)(int64_t)(int8_t)x) << " " << hex64((uint64_t)(int64_t)(int16_t)x) << " "
      << hex64((uint64_t)(int64_t)(int32_t)x) << " " << hex64((uint64_t)(int64_t)x) << " " << (bool(x) ? 1 : 0);
    // (double)rint / (float)rint keep the sign (rrint.h, /repo d984652); printed when a double holds the value exactly
    {
        RecInt::ruint<K> mag = s.isNegative() ? (-s).Value : s.Value;
        uint64_t lowmag = (uint64_t)mag;
        if (lowmag < (uint64_t(1) << 53)) {
            double d = (double)s;
            o << " " << hex64((uint64_t)(int64_t)d);
            if (lowmag < (uint64_t(1) << 24)) CHK((double)(float)s == d, "(float)rint");
        } else o << " big";
    }
    CHK((unsigned long long)x == (uint64_t)x && (long long)x == (int64_t)x && (unsigned char)x == (uint8_t)x && (short)x == (int16_t)x
        && (char)x == (char)(uint8_t)x && (unsigned short)x == (uint16_t)x && (int)x == (int32_t)x && (unsigned int)x == (uint32_t)x, "cast-aliases");
    CHK((double)x == (double)(uint64_t)x && (float)x == (float)(uint64_t)x, "(double)a");
    CHK((uint8_t)s == (uint8_t)x && (uint16_t)s == (uint16_t)x && (uint32_t)s == (uint32_t)x && (uint64_t)s == (uint64_t)x
        && (int8_t)s == (int8_t)x && (int16_t)s == (int16_t)x && (int32_t)s == (int32_t)x && (int64_t)s == (int64_t)x, "(T)rint");
    return o.str() + bad;
}
// class constants: maxCardinality, maxElement, maxFFLAS of ruint<K>; maxElement of rint<K>
template <size_t K> static std::string consts() {
    return to_hex(ruint<K>::maxCardinality()) + " " + to_hex(ruint<K>::maxElement()) + " " + to_hex(ruint<K>::maxFFLAS())
         + " " + to_hex(RecInt::rint<K>::maxElement()) + " " + to_hex(RecInt::rint<K>::maxCardinality());
}

template <size_t K, typename T> static bool common_ops(const std::string& op, const ruint<K>& x, T t, Args& a, std::string& out) {
    if (op == "addf") out = Nat<K, T>::addf(x, t);
    else if (op == "addo") out = Nat<K, T>::addo(x, t);
    else if (op == "subf") out = Nat<K, T>::subf(x, t);
    else if (op == "subo") out = Nat<K, T>::subo(x, t);
    else if (op == "mulf") out = Nat<K, T>::mulf(x, t);
    else if (op == "mulo") out = Nat<K, T>::mulo(x, t);
    else if (op == "divf") out = Nat<K, T>::divf(x, t);
    else if (op == "divo") out = Nat<K, T>::divo(x, t);
    else if (op == "modo") out = Nat<K, T>::modo(x, t);
    else if (op == "sdivo") out = Nat<K, T>::sdivo(x, t);
    else if (op == "saddf") out = Nat<K, T>::saddf(x, t);
    else if (op == "sremo") out = Nat<K, T>::sremo(x, t);
    else if (op == "cmp") out = Nat<K, T>::cmpo(x, t);
    else if (op == "bit") out = Nat<K, T>::bito(x, t);
    else if (op == "ctor") out = Nat<K, T>::ctor(t, a.size() > 2 && mpz_sgn(*a[2]) != 0);
    else return false;
    return true;
}
template <size_t K, typename T> static std::string run_float(const std::string& op, const ruint<K>& x, Args& a) {
    T t = Conv<T>::get(*a[1]); std::string out;
    if (common_ops<K, T>(op, x, t, a, out)) return out;
    return "UNKNOWN-OP";
}
template <size_t K, typename T> static std::string run_int(const std::string& op, const ruint<K>& x, Args& a) {
    T t = Conv<T>::get(*a[1]); std::string out;
    if (common_ops<K, T>(op, x, t, a, out)) return out;
    if (op == "shl") return NatShift<K, T>::shl(x, t);
    if (op == "shr") return NatShift<K, T>::shr(x, t);
    return "UNKNOWN-OP";
}
template <size_t K, typename T> static std::string run_uns(const std::string& op, const ruint<K>& x, Args& a) {
    if (op == "expw") { T t = Conv<T>::get(*a[1]); ruint<K> n; from_mpz(n, *a[2]); return NatExp<K, T>::go(x, t, n); }
    return run_int<K, T>(op, x, a);
}

template <size_t K> static std::string run(const std::string& op, const std::string& ty, Args& a) {
    ruint<K> x;
    if (a.size() > 0) from_mpz(x, *a[0]);
    if (op == "cast") return cast_all<K>(x);
    if (op == "consts") return consts<K>();
    if (a.size() < 2) return "BAD-ARGS";
#if C06_NPART == 0 || C06_NPART == 1
    if (ty == "u8") return run_uns<K, uint8_t>(op, x, a);
    if (ty == "u16") return run_uns<K, uint16_t>(op, x, a);
    if (ty == "u32") return run_uns<K, uint32_t>(op, x, a);
    if (ty == "u64") return run_uns<K, uint64_t>(op, x, a);
#endif
#if C06_NPART == 0 || C06_NPART == 2
    if (ty == "i8") return run_int<K, int8_t>(op, x, a);
    if (ty == "i16") return run_int<K, int16_t>(op, x, a);
    if (ty == "i32") return run_int<K, int32_t>(op, x, a);
    if (ty == "i64") return run_int<K, int64_t>(op, x, a);
#endif
#if C06_NPART == 0 || C06_NPART == 3
    if (ty == "bool") return run_int<K, bool>(op, x, a);
    if (ty == "ull") return run_uns<K, unsigned long long>(op, x, a);
    if (ty == "ll") return run_int<K, long long>(op, x, a);
    if (ty == "dbl") return run_float<K, double>(op, x, a);
#endif
    return "TYPE-NOT-IN-THIS-PART";
}

int main() {
    std::string line;
    c06_watchdog_install(); const double budget = c06_cpu_budget();
    // constants of the compiled implementation, compared by the check with the source text and with the model on every run
    std::cout << "#thr " << __RECINT_THRESHOLD_KARA << "\n";
    std::cout << "#limb_bits " << __RECINT_LIMB_BITS << " limb_size " << __RECINT_LIMB_SIZE << " sizeof_limb " << sizeof(limb) << "\n";
    std::cout << "#minusone " << std::hex << (uint64_t)__RECINT_MINUSONE << " maxpowtwo " << (uint64_t)__RECINT_MAXPOWTWO << std::dec
              << " thirtyonepointfive " << (uint64_t)__RECINT_THIRTYONEPOINTFIVE << "\n";
#define SIZES(K) std::cout << "#size " << K << " " << RecInt::NBLIMB<K>::value << " " << RecInt::NBBITS<K>::value << " " << sizeof(ruint<K>) \
                           << " " << sizeof(RecInt::rint<K>) << "\n";
    SIZES(6) SIZES(7) SIZES(8) SIZES(9) SIZES(10) SIZES(11) SIZES(12)
#ifdef __RECINT_USE_FAST_128
    std::cout << "#fast128 1\n";
#else
    std::cout << "#fast128 0\n";
#endif
    while (std::getline(std::cin, line)) {
        std::istringstream is(line);
        std::string v; int K, thr; is >> v >> K >> thr;
        if (!is) continue;
        Args a; std::string t;
        while (is >> t) {
            mpz_t* z = new mpz_t[1]; mpz_init(*z);
            const char* s = t.c_str();
            if (t.size() > 2 && t[0] == '0' && t[1] == 'x') mpz_set_str(*z, s + 2, 16);
            else if (t.size() > 3 && t[0] == '-' && t[1] == '0' && t[2] == 'x') { mpz_set_str(*z, s + 3, 16); mpz_neg(*z, *z); }
            else mpz_set_str(*z, s, 10);
            a.push_back(z);
        }
        // variant = nat.<op>[.<type>]
        std::string op = v, ty;
        if (v.compare(0, 4, "nat.") == 0) {
            op = v.substr(4);
            size_t d = op.find('.');
            if (d != std::string::npos) { ty = op.substr(d + 1); op = op.substr(0, d); }
        }
        std::string r;
        c06_arm(budget);
        switch (K) {
            case 6: r = run<6>(op, ty, a); break;
            case 7: r = run<7>(op, ty, a); break;
            case 8: r = run<8>(op, ty, a); break;
            case 9: r = run<9>(op, ty, a); break;
            case 10: r = run<10>(op, ty, a); break;
            case 11: r = run<11>(op, ty, a); break;
            default: r = "BAD-K";
        }
        c06_disarm();
        std::cout << r << std::endl;
        for (auto z : a) { mpz_clear(*z); delete[] z; }
    }
    return 0;
}
