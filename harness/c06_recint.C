// C06 harness: runs RecInt operations of /repo's current headers on cases read from stdin.
// line:  <variant> <K> <thr> <hex args...>      output: result tokens in hex (same order as the model driver)
// thr is informational here: __RECINT_THRESHOLD_KARA is whatever the headers define.
// Arguments are non-negative hex numbers ("0x..") or decimal numbers with an optional sign.
// Build with -DC06_PART=1 (add/sub/mul/bit/shift families) or -DC06_PART=2 (division, gcd, modular, conversions,
// signed); without C06_PART both parts are compiled into one binary.
#include <iostream>
#include <sstream>
#include <string>
#include <vector>
#include <cstring>
#include <cstdint>
#include <gmp.h>
#include <gmpxx.h>
#include <recint/recint.h>
#include "c06_watchdog.h"

#ifndef C06_PART
#define C06_PART 0
#endif

using RecInt::ruint;
using RecInt::limb;
typedef std::vector<mpz_t*> Args;

template <size_t K> static void from_mpz(ruint<K>& x, const mpz_t z) {
    // little-endian limbs of |z| truncated to 2^K bits, two's complement when z < 0 (harness-side, no RecInt code)
    const size_t n = RecInt::NBLIMB<K>::value;
    limb* p = reinterpret_cast<limb*>(&x);
    for (size_t i = 0; i < n; ++i) p[i] = (i < mpz_size(z)) ? mpz_getlimbn(z, i) : 0;
    if (mpz_sgn(z) < 0) {
        limb c = 1;
        for (size_t i = 0; i < n; ++i) { p[i] = ~p[i] + c; c = (c && p[i] == 0); }
    }
}
template <size_t K> static std::string to_hex(const ruint<K>& x) {
    const size_t n = RecInt::NBLIMB<K>::value;
    const limb* p = reinterpret_cast<const limb*>(&x);
    mpz_t z; mpz_init(z);
    mpz_import(z, n, -1, sizeof(limb), 0, 0, p);
    char* s = mpz_get_str(NULL, 16, z);
    std::string r(s); free(s); mpz_clear(z);
    return r;
}
template <size_t K> static std::string to_hex(const RecInt::rint<K>& x) { return to_hex(x.Value); }
static std::string hex64(uint64_t w) { std::ostringstream o; o << std::hex << w; return o.str(); }
static std::string mpz_dec(const mpz_class& z) { return z.get_str(10); }

template <size_t K> static void garbage(ruint<K>& x) {   // destinations start from a non-zero pattern
    memset(static_cast<void*>(&x), 0xA5, sizeof(x));
}
template <size_t K> static void garbage(RecInt::rint<K>& x) { garbage(x.Value); }
static uint64_t word(const Args& a, size_t i) {
    return (a.size() > i && mpz_size(*a[i]) > 0) ? mpz_getlimbn(*a[i], 0) : 0;
}
static int sgn3(int s) { return s < 0 ? -1 : s > 0 ? 1 : 0; }

// ruint<K>(const char*) for every K (the one-limb specialisation is defined since /repo ebe0fe7)
template <size_t K> struct FromStr { static std::string go(const char* s) { ruint<K> t(s); return to_hex(t); } };

#define V(name) else if (v == name)
#define OUT1(x) o << to_hex(x)
#define OUT2(x, c) o << to_hex(x) << " " << (c)

// ------------------------------------------------------------------------------------------------ part 1
template <size_t K> struct Run1 {
    static bool go(const std::string& v, Args& a, std::ostringstream& o) {
        using namespace RecInt;
        ruint<K> x, y, z, r, r2; bool c = false;
        garbage(r); garbage(r2);
        if (a.size() > 0) from_mpz(x, *a[0]);
        if (a.size() > 1) from_mpz(y, *a[1]);
        if (a.size() > 2) from_mpz(z, *a[2]);
        limb w1 = word(a, 1);
        bool cy = a.size() > 2 && mpz_sgn(*a[2]) != 0;
        if (false) {}
        // ---- add family
        V("add.rabc") { add(c, r, x, y); OUT2(r, c); }
        V("add.rab") { r = x; add(c, r, y); OUT2(r, c); }
        V("add.abc") { add(r, x, y); OUT1(r); }
        V("add.ab") { r = x; add(r, y); OUT1(r); }
        V("add.op+") { r = x + y; OUT1(r); }
        V("add.op+=") { r = x; r += y; OUT1(r); }
        V("add.alias") { r = x; add(c, r, r, y); OUT2(r, c); }
        V("add.alias2") { r = y; add(c, r, x, r); OUT2(r, c); }
        V("add_wc.rabc") { add_wc(c, r, x, y, cy); OUT2(r, c); }
        V("add_wc.rab") { r = x; add_wc(c, r, y, cy); OUT2(r, c); }
        V("add_wc.abc") { add_wc(r, x, y, cy); OUT1(r); }
        V("add_wc.ab") { r = x; add_wc(r, y, cy); OUT1(r); }
        V("add_w.rabc") { add(c, r, x, w1); OUT2(r, c); }
        V("add_w.rab") { r = x; add(c, r, w1); OUT2(r, c); }
        V("add_w.abc") { add(r, x, w1); OUT1(r); }
        V("add_w.ab") { r = x; add(r, w1); OUT1(r); }
        V("add_w.op+") { r = x + w1; OUT1(r); }
        V("add_w.op+r") { r = w1 + x; OUT1(r); }
        V("add_w.op+=") { r = x; r += w1; OUT1(r); }
        V("add_w.u32") { r = x + (unsigned int)w1; OUT1(r); }
        V("add_w.int") { r = x + (long)w1; OUT1(r); }                       // 0 <= w1 < 2^63
        V("add_w.op-neg") { r = x - (-(long)w1); OUT1(r); }                 // x - (negative) = x + w1
        V("add_w.op-=neg") { r = x; r -= (-(long)w1); OUT1(r); }
        V("add_1.ra") { r = x; add_1(c, r); OUT2(r, c); }
        V("add_1.rab") { add_1(c, r, x); OUT2(r, c); }
        V("add_1.a") { r = x; add_1(r); OUT1(r); }
        V("add_1.ab") { add_1(r, x); OUT1(r); }
        V("add_1.op++") { r = x; ++r; OUT1(r); }
        V("add_1.op++post") { r = x; r2 = r++; if (r2 != x) o << "POSTINC-VALUE "; OUT1(r); }
        // ---- sub family
        V("sub.rabc") { sub(c, r, x, y); OUT2(r, c); }
        V("sub.rab") { r = x; sub(c, r, y); OUT2(r, c); }
        V("sub.abc") { sub(r, x, y); OUT1(r); }
        V("sub.ab") { r = x; sub(r, y); OUT1(r); }
        V("sub.op-") { r = x - y; OUT1(r); }
        V("sub.op-=") { r = x; r -= y; OUT1(r); }
        V("sub.alias") { r = x; sub(c, r, r, y); OUT2(r, c); }
        V("sub.alias2") { r = y; sub(c, r, x, r); OUT2(r, c); }
        V("sub_wc.rabc") { sub_wc(c, r, x, y, cy); OUT2(r, c); }
        V("sub_wc.rab") { r = x; sub_wc(c, r, y, cy); OUT2(r, c); }
        V("sub_wc.abc") { sub_wc(r, x, y, cy); OUT1(r); }
        V("sub_wc.ab") { r = x; sub_wc(r, y, cy); OUT1(r); }
        V("sub_w.rabc") { sub(c, r, x, w1); OUT2(r, c); }
        V("sub_w.rab") { r = x; sub(c, r, w1); OUT2(r, c); }
        V("sub_w.abc") { sub(r, x, w1); OUT1(r); }
        V("sub_w.ab") { r = x; sub(r, w1); OUT1(r); }
        V("sub_w.op-") { r = x - w1; OUT1(r); }
        V("sub_w.op-=") { r = x; r -= w1; OUT1(r); }
        V("sub_w.int") { r = x - (long)w1; OUT1(r); }
        V("sub_w.op+neg") { r = x + (-(long)w1); OUT1(r); }                 // x + (negative) = x - w1
        V("sub_w.op+=neg") { r = x; r += (-(long)w1); OUT1(r); }
        V("rsub_w.op-") { r = w1 - x; OUT1(r); }                            // word - ruint
        V("sub_1.ra") { r = x; sub_1(c, r); OUT2(r, c); }
        V("sub_1.rab") { sub_1(c, r, x); OUT2(r, c); }
        V("sub_1.a") { r = x; sub_1(r); OUT1(r); }
        V("sub_1.ab") { sub_1(r, x); OUT1(r); }
        V("sub_1.op--") { r = x; --r; OUT1(r); }
        V("sub_1.op--post") { r = x; r2 = r--; if (r2 != x) o << "POSTDEC-VALUE "; OUT1(r); }
        // ---- compare
        V("cmp.cmp") { o << sgn3(cmp(x, y)); }
        V("cmp.ops") {
            int s = (x < y) ? -1 : (x > y) ? 1 : 0;
            bool ok = ((x == y) == (s == 0)) && ((x != y) == (s != 0)) && ((x <= y) == (s <= 0)) && ((x >= y) == (s >= 0));
            if (!ok) o << "INCONSISTENT"; else o << s;
        }
        V("cmp_w.u64") {
            int s = sgn3(cmp(x, w1));
            bool ok = ((x == w1) == (s == 0)) && ((x != w1) == (s != 0)) && ((x < w1) == (s < 0)) && ((x <= w1) == (s <= 0))
                   && ((x > w1) == (s > 0)) && ((x >= w1) == (s >= 0)) && ((w1 == x) == (s == 0)) && ((w1 < x) == (s > 0))
                   && ((w1 > x) == (s < 0)) && ((w1 <= x) == (s >= 0)) && ((w1 >= x) == (s <= 0)) && ((w1 != x) == (s != 0));
            if (!ok) o << "INCONSISTENT"; else o << s;
        }
        V("cmp_w.i64") {   // signed word, the argument is given as a decimal number that fits int64_t
            long sw = mpz_get_si(*a[1]);
            int s = sgn3(cmp(x, sw));
            bool ok = ((x == sw) == (s == 0)) && ((x < sw) == (s < 0)) && ((x > sw) == (s > 0)) && ((sw < x) == (s > 0));
            if (!ok) o << "INCONSISTENT"; else o << s;
        }
        // ---- products
        V("lmul_naive.hl") { lmul_naive(r2, r, x, y); o << to_hex(r) << " " << to_hex(r2); }
        V("lmul_kara.hl") { lmul_kara(r2, r, x, y); o << to_hex(r) << " " << to_hex(r2); }
        V("lmul.hl") { lmul(r2, r, x, y); o << to_hex(r) << " " << to_hex(r2); }
        // outputs aliasing the operands: documented as safe for the naive product and for laddmul (rumul.h, ruaddmul.h)
        V("lmul_naive.alias") { r = x; r2 = y; lmul_naive(r2, r, r, r2); o << to_hex(r) << " " << to_hex(r2); }
        V("lmul_naive.alias2") { r = x; r2 = y; lmul_naive(r, r2, r, r2); o << to_hex(r2) << " " << to_hex(r); }
        V("lmul.alias") { r = x; r2 = y; lmul(r2, r, r, r2); o << to_hex(r) << " " << to_hex(r2); }     // naive path only (K < threshold)
        V("laddmul.alias") { r = x; r2 = y; laddmul(c, r2, r, r, r2, z); o << to_hex(r) << " " << to_hex(r2) << " " << c; }
        V("laddmul.alias2") { r = x; r2 = z; laddmul(c, r, r2, r, y, r2); o << to_hex(r2) << " " << to_hex(r) << " " << c; }
        V("laddmul.rhl") { laddmul(c, r2, r, x, y, z); o << to_hex(r) << " " << to_hex(r2) << " " << c; }
        V("laddmul.hl") { laddmul(r2, r, x, y, z); o << to_hex(r) << " " << to_hex(r2); }
        V("mul.abc") { mul(r, x, y); OUT1(r); }
        V("mul.ab") { r = x; mul(r, y); OUT1(r); }
        V("mul.op*") { r = x * y; OUT1(r); }
        V("mul.op*=") { r = x; r *= y; OUT1(r); }
        V("mul.alias") { r = x; mul(r, r, y); OUT1(r); }
        V("mul.alias2") { r = y; mul(r, x, r); OUT1(r); }
        V("mul.self") { r = x; mul(r, r); OUT1(r); }                        // one operand: x*x
        V("addmul.abc") { r = x; addmul(r, y, z); OUT1(r); }
        V("addmul_w.abc") { r = x; addmul(r, y, (UDItype)word(a, 2)); OUT1(r); }
        V("lmul_w.ra") { limb ret = 0xA5A5; lmul(ret, r, x, w1); o << to_hex(r) << " " << hex64(ret); }
        V("mul_w.abc") { mul(r, x, w1); OUT1(r); }
        V("mul_w.ab") { r = x; mul(r, w1); OUT1(r); }
        V("mul_w.op*") { r = x * w1; OUT1(r); }
        V("mul_w.op*r") { r = w1 * x; OUT1(r); }
        V("mul_w.op*=") { r = x; r *= w1; OUT1(r); }
        V("mul_w.u32") { r = x * (unsigned int)w1; OUT1(r); }
        V("mul_w.int") { r = x * (long)w1; OUT1(r); }
        V("mulneg_w.op*") { r = x * (-(long)w1); OUT1(r); }                 // -(x*w1)
        V("mulneg_w.op*r") { r = (-(long)w1) * x; OUT1(r); }
        V("mulneg_w.op*=") { r = x; r *= (-(long)w1); OUT1(r); }
        V("square.ab") { square(r, x); OUT1(r); }
        // ---- bit operations
        V("lnot.op~") { r = ~x; OUT1(r); }
        V("neg.op-") { r = -x; OUT1(r); }
        V("neg.ab") { neg(r, x); OUT1(r); }
        V("neg.a") { r = x; neg(r); OUT1(r); }
        V("lor.op|") { r = x | y; OUT1(r); }
        V("lor.op|=") { r = x; r |= y; OUT1(r); }
        V("lxor.op^") { r = x ^ y; OUT1(r); }
        V("lxor.op^=") { r = x; r ^= y; OUT1(r); }
        V("land.op&") { r = x & y; OUT1(r); }
        V("land.op&=") { r = x; r &= y; OUT1(r); }
        V("lor_w.op|") { r = x | w1; OUT1(r); }
        V("lor_w.op|=") { r = x; r |= w1; OUT1(r); }
        V("lxor_w.op^") { r = x ^ w1; OUT1(r); }
        V("lxor_w.op^=") { r = x; r ^= w1; OUT1(r); }
        V("land_w.op&") { limb t = x & w1; o << hex64(t); }
        V("land_w.op&=") { r = x; r &= w1; OUT1(r); }
        V("bits.all") {
            ruint<K> sh(x), sl(x), mp, on; garbage(mp); garbage(on);
            set_highest_bit(sh); set_lowest_bit(sl); max_pow_two(mp); fill_with_1(on);
            o << highest_bit(x) << " " << lowest_bit(x) << " " << to_hex(sh) << " " << to_hex(sl) << " " << to_hex(mp) << " " << to_hex(on);
        }
        V("limb.setget") {
            unsigned idx = (unsigned)word(a, 2);
            r = x; set_limb(r, w1, idx);
            o << to_hex(r) << " " << hex64(get_limb(x, idx));
            if (*get_limb_p(x, idx) != get_limb(x, idx)) o << " LIMBP";
        }
        V("manip.all") {   // reset, copy, ms_limb, set_highest_word, set_lowest_word, begin, bool cast, size
            ruint<K> t; garbage(t); reset(t); ruint<K> u; garbage(u); copy(u, x); copy(u, u);
            ruint<K> hw(x), lw(x); set_highest_word(hw, w1); set_lowest_word(lw, w1);
            o << to_hex(t) << " " << to_hex(u) << " " << hex64(ms_limb(x)) << " " << to_hex(hw) << " " << to_hex(lw)
              << " " << hex64(*begin(x)) << " " << (bool(x) ? 1 : 0) << " " << hex64((uint64_t)x) << " " << hex64(x.size());
        }
        // ---- shifts
        V("shl.abc") { left_shift(r, x, w1); OUT1(r); }
        V("shl.op<<") { r = x << w1; OUT1(r); }
        V("shl.op<<=") { r = x; r <<= w1; OUT1(r); }
        V("shl.int") { r = x << (int)w1; OUT1(r); }
        V("shl.u32") { r = x << (unsigned int)w1; OUT1(r); }
        V("shl.u16") { r = x << (unsigned short)w1; OUT1(r); }
        V("shl.u8") { r = x << (unsigned char)w1; OUT1(r); }
        V("shr.abc") { right_shift(r, x, w1); OUT1(r); }
        V("shr.op>>") { r = x >> w1; OUT1(r); }
        V("shr.op>>=") { r = x; r >>= w1; OUT1(r); }
        V("shr.int") { r = x >> (int)w1; OUT1(r); }
        V("shr.u32") { r = x >> (unsigned int)w1; OUT1(r); }
        V("shr.u16") { r = x >> (unsigned short)w1; OUT1(r); }
        V("shr.u8") { r = x >> (unsigned char)w1; OUT1(r); }
        V("shl.alias") { r = x; left_shift(r, r, w1); OUT1(r); }
        V("shr.alias") { r = x; right_shift(r, r, w1); OUT1(r); }           // div() un-normalises in place
        V("shl1.zab") { left_shift_1(c, r, x); OUT2(r, c); }
        V("shl1.ab") { left_shift_1(r, x); OUT1(r); }
        V("shl1.alias") { r = x; left_shift_1(r, r); OUT1(r); }             // lsquare doubles in place
        V("shr1.zab") { right_shift_1(c, r, x); OUT2(r, c); }
        V("shr1.ab") { right_shift_1(r, x); OUT1(r); }
        V("norm.d") { UDItype d = 12345; normalization(d, x); o << hex64(d); }
        else return false;
        return true;
    }
    // forms that need ruint<K+1>
    static bool wide(const std::string& v, Args& a, std::ostringstream& o) {
        using namespace RecInt;
        ruint<K> x, y, z; bool c = false;
        if (a.size() > 0) from_mpz(x, *a[0]);
        if (a.size() > 1) from_mpz(y, *a[1]);
        if (a.size() > 2) from_mpz(z, *a[2]);
        ruint<K+1> p; garbage(p);
        if (false) {}
        V("lmul_naive.a") { lmul_naive(p, x, y); o << to_hex(p.Low) << " " << to_hex(p.High); }
        V("lmul_kara.a") { lmul_kara(p, x, y); o << to_hex(p.Low) << " " << to_hex(p.High); }
        V("lmul.a") { lmul(p, x, y); o << to_hex(p.Low) << " " << to_hex(p.High); }
        V("laddmul.ra") { laddmul(c, p, x, y, z); o << to_hex(p.Low) << " " << to_hex(p.High) << " " << c; }
        V("laddmul.a") { laddmul(p, x, y, z); o << to_hex(p.Low) << " " << to_hex(p.High); }
        V("laddmul2.rhl") { ruint<K+1> d; ruint<K> r, r2; garbage(r); garbage(r2); from_mpz(d, *a[2]); laddmul(c, r2, r, x, y, d); o << to_hex(r) << " " << to_hex(r2) << " " << c; }
        V("laddmul2.ra") { ruint<K+1> d; from_mpz(d, *a[2]); laddmul(c, p, x, y, d); o << to_hex(p.Low) << " " << to_hex(p.High) << " " << c; }
        // the alias pattern of mul(al, c): low output = first operand (and = second operand for a *= a), high output = its sibling
        V("lmul.inplace") { p.Low = x; lmul(p.High, p.Low, p.Low, y); o << to_hex(p.Low) << " " << to_hex(p.High); }
        V("lmul.inplace2") { p.Low = y; lmul(p.High, p.Low, x, p.Low); o << to_hex(p.Low) << " " << to_hex(p.High); }
        V("lmul_kara.inplace") { p.Low = x; lmul_kara(p.High, p.Low, p.Low, y); o << to_hex(p.Low) << " " << to_hex(p.High); }
        V("lmul_kara.inplace2") { p.Low = y; lmul_kara(p.High, p.Low, x, p.Low); o << to_hex(p.Low) << " " << to_hex(p.High); }
        V("lmul_naive.inplace") { p.Low = x; lmul_naive(p.High, p.Low, p.Low, y); o << to_hex(p.Low) << " " << to_hex(p.High); }
        V("lmul_kara.inplacesq") { p.Low = x; lmul_kara(p.High, p.Low, p.Low, p.Low); o << to_hex(p.Low) << " " << to_hex(p.High); }
        V("lmul_w.a") { lmul(p, x, word(a, 1)); o << to_hex(p.Low) << " " << to_hex(p.High); }
        V("lsquare.a") { lsquare(p, x); o << to_hex(p.Low) << " " << to_hex(p.High); }
        V("shl_ext.abd") { left_shift(p, x, word(a, 1)); o << to_hex(p); }
        else return false;
        return true;
    }
};

// ------------------------------------------------------------------------------------------------ part 2
template <size_t K> struct Run2 {
    typedef RecInt::rint<K> SI;
    typedef RecInt::rint<K+1> SI2;
    static bool go(const std::string& v, Args& a, std::ostringstream& o) {
        using namespace RecInt;
        ruint<K> x, y, z, r, r2;
        garbage(r); garbage(r2);
        if (a.size() > 0) from_mpz(x, *a[0]);
        if (a.size() > 1) from_mpz(y, *a[1]);
        if (a.size() > 2) from_mpz(z, *a[2]);
        limb w1 = word(a, 1);
        if (false) {}
        // ---- division
        V("div.qrab") { div(r, r2, x, y); o << to_hex(r) << " " << to_hex(r2); }
        V("div.q") { div_q(r, x, y); OUT1(r); }
        V("div.r") { div_r(r, x, y); OUT1(r); }
        V("div.op/") { r = x / y; OUT1(r); }
        V("div.op/=") { r = x; r /= y; OUT1(r); }
        V("div.op%") { r = x % y; OUT1(r); }
        V("div.op%=") { r = x; r %= y; OUT1(r); }
        V("div.alias") { r = x; r2 = y; div(r, r2, r, r2); o << to_hex(r) << " " << to_hex(r2); }
        V("div_w.qrab") { limb rr = 0xA5; div(r, rr, x, w1); o << to_hex(r) << " " << hex64(rr); }
        V("div_w.q") { div_q(r, x, w1); OUT1(r); }
        V("div_w.r") { limb rr = 0xA5; div_r(rr, x, w1); o << hex64(rr); }
        V("div_w.op/") { r = x / w1; OUT1(r); }
        V("div_w.op/=") { r = x; r /= w1; OUT1(r); }
        V("div_w.op%") { r = x % w1; OUT1(r); }
        V("div_w.op%=") { r = x; r %= w1; OUT1(r); }
        V("div_w.int") { r = x / (long)w1; OUT1(r); }
        V("divneg_w.op/") { r = x / (-(long)w1); OUT1(r); }                 // -(x / w1)
        V("divneg_w.op/=") { r = x; r /= (-(long)w1); OUT1(r); }
        V("div21.qr") { div_2_1(r, r2, x, y, z); o << to_hex(r) << " " << to_hex(r2); }
        V("div32.qrr") {
            ruint<K> b1, b0, q, r1, r0; garbage(q); garbage(r1); garbage(r0);
            from_mpz(b1, *a[3]); from_mpz(b0, *a[4]);
            div_3_2(q, r1, r0, x, y, z, b1, b0);
            o << to_hex(q) << " " << to_hex(r1) << " " << to_hex(r0);
        }
        V("mod_n.ab") { mod_n(r, x, y); OUT1(r); }                          // same size: r = x % y
        V("mod_n.a") { r = x; mod_n(r, y); OUT1(r); }
        // ---- gcd, modular inverse, exponentiation, inverse modulo 2^(2^K)
        V("gcd.abc") { gcd(r, x, y); OUT1(r); }
        V("gcd.bc") { r = gcd(x, y); OUT1(r); }
        V("inv_mod.abc") { inv_mod(r, x, y); OUT1(r); }
        V("bezout_mod.xycd") { bezout_mod(r, r2, x, y); o << to_hex(r) << " " << to_hex(r2); }
        V("exp_mod.abcn") { exp_mod(r, x, y, z); OUT1(r); }
        V("exp_mod_w.abcn") { exp_mod(r, x, (uint64_t)w1, z); OUT1(r); }
        V("exp_mod_w.u32") { exp_mod(r, x, (unsigned int)w1, z); OUT1(r); }
        V("arazi_qi.ua") { arazi_qi(r, x); OUT1(r); }
        // ---- conversions to and from GMP integers
        V("mpz_to_ruint.ab") { mpz_class m(*a[0]); mpz_to_ruint(r, m); OUT1(r); }
        V("mpz_to_ruint.t") { mpz_t_to_ruint(r, *a[0]); OUT1(r); }
        V("mpz_to_ruint.str") { char* s = mpz_get_str(NULL, 10, *a[0]); o << FromStr<K>::go(s); free(s); }
        V("ruint_to_mpz.ab") { mpz_class m(12345); ruint_to_mpz(m, x); o << mpz_dec(m); }
        V("ruint_to_mpz.t") { mpz_t m; ruint_to_mpz_t(m, x); o << mpz_dec(mpz_class(m)); mpz_clear(m); }
        V("ruint_to_mpz.round") { mpz_class m; ruint_to_mpz(m, x); mpz_to_ruint(r, m); OUT1(r); }
        // ---- signed: SI
        V("s.mpz_to_rint") { SI s; garbage(s); mpz_class m(*a[0]); mpz_to_rint(s, m); OUT1(s); }
        V("s.mpz_to_rint.t") { SI s; garbage(s); mpz_t_to_rint(s, *a[0]); OUT1(s); }
        V("s.rint_to_mpz") { SI s(x); mpz_class m(777); rint_to_mpz(m, s); o << mpz_dec(m); }
        V("s.rint_to_mpz.t") { SI s(x); mpz_t m; rint_to_mpz_t(m, s); o << mpz_dec(mpz_class(m)); mpz_clear(m); }
        V("s.add.abc") { SI s, b(x), c(y); garbage(s); add(s, b, c); OUT1(s); }
        V("s.add.rabc") { SI s, b(x), c(y); bool cc; garbage(s); add(cc, s, b, c); OUT2(s, cc); }
        V("s.add.op+") { SI b(x), c(y); SI s = b + c; OUT1(s); }
        V("s.add.op+=") { SI s(x), c(y); s += c; OUT1(s); }
        V("s.add_1.op++") { SI s(x); ++s; OUT1(s); }
        V("s.sub.abc") { SI s, b(x), c(y); garbage(s); sub(s, b, c); OUT1(s); }
        V("s.sub.rabc") { SI s, b(x), c(y); bool cc; garbage(s); sub(cc, s, b, c); OUT2(s, cc); }
        V("s.sub.op-") { SI b(x), c(y); SI s = b - c; OUT1(s); }
        V("s.sub.op-=") { SI s(x), c(y); s -= c; OUT1(s); }
        V("s.sub_1.op--") { SI s(x); --s; OUT1(s); }
        V("s.mul.abc") { SI s, b(x), c(y); garbage(s); mul(s, b, c); OUT1(s); }
        V("s.mul.ab") { SI s(x), c(y); mul(s, c); OUT1(s); }
        V("s.mul.op*") { SI b(x), c(y); SI s = b * c; OUT1(s); }
        V("s.mul.op*=") { SI s(x), c(y); s *= c; OUT1(s); }
        V("s.addmul.abc") { SI s(x), b(y), c(z); addmul(s, b, c); OUT1(s); }
        V("s.neg.op-") { SI b(x); SI s = -b; OUT1(s); }
        // neg(rint&, const rint&) (rfiddling.h:96) does not compile when instantiated: not callable, not covered
        V("s.neg.a") { SI s(x); neg(s); OUT1(s); }
        V("s.lnot.op~") { SI b(x); SI s = ~b; OUT1(s); }
        V("s.lor.op|") { SI b(x), c(y); SI s = b | c; OUT1(s); }
        V("s.lor.op|=") { SI s(x), c(y); s |= c; OUT1(s); }
        V("s.lxor.op^") { SI b(x), c(y); SI s = b ^ c; OUT1(s); }
        V("s.lxor.op^=") { SI s(x), c(y); s ^= c; OUT1(s); }
        V("s.land.op&") { SI b(x), c(y); SI s = b & c; OUT1(s); }
        V("s.land.op&=") { SI s(x), c(y); s &= c; OUT1(s); }
        V("s.shl.op<<") { SI b(x); SI s = b << w1; OUT1(s); }
        V("s.shl.op<<=") { SI s(x); s <<= w1; OUT1(s); }
        V("s.shr.op>>") { SI b(x); SI s = b >> w1; OUT1(s); }
        V("s.shr.op>>=") { SI s(x); s >>= w1; OUT1(s); }
        V("s.sign") { SI b(x); o << b.isNegative() << " " << b.isPositive(); }
        V("s.div_q.qab") { SI s, b(x), c(y); garbage(s); div_q(s, b, c); OUT1(s); }
        V("s.div_q.op/") { SI b(x), c(y); SI s = b / c; OUT1(s); }
        V("s.div_q.op/=") { SI s(x), c(y); s /= c; OUT1(s); }
        V("s.div_r.rab") { SI s, b(x), c(y); garbage(s); div_r(s, b, c); OUT1(s); }
        V("s.div_r.op%") { SI b(x), c(y); SI s = b % c; OUT1(s); }
        V("s.div_r.op%=") { SI s(x), c(y); s %= c; OUT1(s); }
        V("s.div_q_w.i64") { long sw = mpz_get_si(*a[1]); SI s, b(x); garbage(s); div_q(s, b, sw); OUT1(s); }
        V("s.div_q_w.op/") { long sw = mpz_get_si(*a[1]); SI b(x); SI s = b / sw; OUT1(s); }
        V("s.div_q_w.op/=") { long sw = mpz_get_si(*a[1]); SI s(x); s /= sw; OUT1(s); }
        V("s.cmp.cmp") { SI b(x), c(y); o << sgn3(cmp(b, c)); }
        V("s.cmp.ops") {
            SI b(x), c(y);
            int s = (b < c) ? -1 : (b > c) ? 1 : 0;
            bool ok = ((b == c) == (s == 0)) && ((b != c) == (s != 0)) && ((b <= c) == (s <= 0)) && ((b >= c) == (s >= 0));
            if (!ok) o << "INCONSISTENT"; else o << s;
        }
        V("s.cmp_w.i64") {
            long sw = mpz_get_si(*a[1]); SI b(x);
            int s = sgn3(cmp(b, sw));
            bool ok = ((b == sw) == (s == 0)) && ((b != sw) == (s != 0)) && ((b < sw) == (s < 0)) && ((b <= sw) == (s <= 0))
                   && ((b > sw) == (s > 0)) && ((b >= sw) == (s >= 0)) && ((sw == b) == (s == 0)) && ((sw < b) == (s > 0))
                   && ((sw > b) == (s < 0)) && ((sw <= b) == (s >= 0)) && ((sw >= b) == (s <= 0)) && ((sw != b) == (s != 0));
            if (!ok) o << "INCONSISTENT"; else o << s;
        }
        V("s.cmp_w.int") { int sw = (int)mpz_get_si(*a[1]); SI b(x); o << sgn3(cmp(b, sw)); }
        V("s.cmp_w.u64") {
            SI b(x);
            int s = sgn3(cmp(b, w1));
            bool ok = ((b == w1) == (s == 0)) && ((b < w1) == (s < 0)) && ((b > w1) == (s > 0)) && ((w1 < b) == (s > 0));
            if (!ok) o << "INCONSISTENT"; else o << s;
        }
        V("s.ctor.i64") { long sw = mpz_get_si(*a[0]); SI s(sw); OUT1(s); }
        V("s.ctor.int") { int sw = (int)mpz_get_si(*a[0]); SI s(sw); OUT1(s); }
        V("u.ctor.i64") { long sw = mpz_get_si(*a[0]); ruint<K> s(sw); OUT1(s); }
        V("u.ctor.u64") { ruint<K> s((uint64_t)word(a, 0)); OUT1(s); }
        V("s.add_w.i64") { long sw = mpz_get_si(*a[1]); SI s, b(x); garbage(s); add(s, b, sw); OUT1(s); }
        V("s.add_w.op+=") { long sw = mpz_get_si(*a[1]); SI s(x); s += sw; OUT1(s); }
        V("s.add_w.u64") { SI s(x); s += w1; OUT1(s); }
        V("s.sub_w.i64") { long sw = mpz_get_si(*a[1]); SI s, b(x); garbage(s); sub(s, b, sw); OUT1(s); }
        V("s.sub_w.op-=") { long sw = mpz_get_si(*a[1]); SI s(x); s -= sw; OUT1(s); }
        V("s.sub_w.u64") { SI s(x); s -= w1; OUT1(s); }
        V("s.mul_w.op*") { long sw = mpz_get_si(*a[1]); SI b(x); SI s = b * sw; OUT1(s); }
        V("s.mul_w.op*r") { long sw = mpz_get_si(*a[1]); SI b(x); SI s = sw * b; OUT1(s); }
        V("s.mul_w.op*=") { long sw = mpz_get_si(*a[1]); SI s(x); s *= sw; OUT1(s); }
        V("s.mul_w.abc") { long sw = mpz_get_si(*a[1]); SI s, b(x); garbage(s); mul(s, b, sw); OUT1(s); }
        V("s.mod_n.a") { SI s(x), n(y); mod_n(s, n); OUT1(s); }
        V("s.inv_mod") { SI s, b(x), n(y); garbage(s); inv_mod(s, b, n); OUT1(s); }
        else return false;
        return true;
    }
    static bool wide(const std::string& v, Args& a, std::ostringstream& o) {
        using namespace RecInt;
        ruint<K> x, y, r; garbage(r);
        if (a.size() > 0) from_mpz(x, *a[0]);
        if (a.size() > 1) from_mpz(y, *a[1]);
        if (false) {}
        V("mod_n.abn") { ruint<K+1> b; from_mpz(b, *a[0]); mod_n(r, b, y); OUT1(r); }
        V("s.lmul.a") { SI b(x), c(y); SI2 p; garbage(p); lmul(p, b, c); OUT1(p); }
        V("s.lsquare.a") { SI b(x); SI2 p; garbage(p); lsquare(p, b); OUT1(p); }
        V("s.sext") { SI b(x); SI2 p(b); OUT1(p); }
        V("s.mod_n.abn") { SI2 b; from_mpz(b.Value, *a[0]); SI s, n(y); garbage(s); mod_n(s, b, n); OUT1(s); }
        else return false;
        return true;
    }
};

template <size_t K, bool WIDE> struct Wide {
    static bool go(const std::string& v, Args& a, std::ostringstream& o) {
        bool done = false;
#if C06_PART == 0 || C06_PART == 1
        if (!done) done = Run1<K>::wide(v, a, o);
#endif
#if C06_PART == 0 || C06_PART == 2
        if (!done) done = Run2<K>::wide(v, a, o);
#endif
        return done;
    }
};
template <size_t K> struct Wide<K, false> {
    static bool go(const std::string&, Args&, std::ostringstream&) { return false; }
};
template <size_t K, bool WIDE> static std::string run(const std::string& v, Args& a) {
    std::ostringstream o;
    bool done = false;
#if C06_PART == 0 || C06_PART == 1
    if (!done) done = Run1<K>::go(v, a, o);
#endif
#if C06_PART == 0 || C06_PART == 2
    if (!done) done = Run2<K>::go(v, a, o);
#endif
    if (!done) done = Wide<K, WIDE>::go(v, a, o);
    if (!done) return "UNKNOWN-VARIANT";
    return o.str();
}

int main() {
    std::string line;
    c06_watchdog_install(); const double budget = c06_cpu_budget();
    std::cout << "#thr " << __RECINT_THRESHOLD_KARA << "\n";
    while (std::getline(std::cin, line)) {
        std::istringstream is(line);
        std::string v; int K, thr; is >> v >> K >> thr;
        if (!is) continue;
        Args a; std::string t;
        while (is >> t) {
            mpz_t* z = new mpz_t[1]; mpz_init(*z);
            const char* s = t.c_str();
            if (t.size() > 2 && t[0] == '0' && t[1] == 'x') mpz_set_str(*z, s + 2, 16);
            else if (t.size() > 3 && t[0] == '-' && t[1] == '0' && t[2] == 'x') { mpz_set_str(*z, s + 3, 16); mpz_neg(*z, *z); }
            else mpz_set_str(*z, s, 10);
            a.push_back(z);
        }
        std::string r;
        c06_arm(budget);
        switch (K) {
            case 6: r = run<6, true>(v, a); break;
            case 7: r = run<7, true>(v, a); break;
            case 8: r = run<8, true>(v, a); break;
            case 9: r = run<9, true>(v, a); break;
            case 10: r = run<10, true>(v, a); break;
            case 11: r = run<11, false>(v, a); break;     // forms that need ruint<12> are covered up to K = 10
            default: r = "BAD-K";
        }
        c06_disarm();
        std::cout << r << std::endl;
        for (auto z : a) { mpz_clear(*z); delete[] z; }
    }
    return 0;
}
