// C06 harness: runs RecInt operations of /repo's current headers on cases read from stdin.
// line:  <variant> <K> <thr> <hex args...>      output: result tokens in hex (same order as the model driver)
// thr is informational here: __RECINT_THRESHOLD_KARA is whatever the headers define.
#include <iostream>
#include <sstream>
#include <string>
#include <vector>
#include <cstring>
#include <gmp.h>
#include <recint/recint.h>

using namespace RecInt;

template <size_t K> static void from_mpz(ruint<K>& x, const mpz_t z) {
    // little-endian limbs, truncated to 2^K bits (two's complement for negative z is not needed: inputs >= 0)
    const size_t n = NBLIMB<K>::value;
    limb* p = reinterpret_cast<limb*>(&x);
    for (size_t i = 0; i < n; ++i) p[i] = (i < mpz_size(z)) ? mpz_getlimbn(z, i) : 0;
}
template <size_t K> static std::string to_hex(const ruint<K>& x) {
    const size_t n = NBLIMB<K>::value;
    const limb* p = reinterpret_cast<const limb*>(&x);
    mpz_t z; mpz_init(z);
    mpz_import(z, n, -1, sizeof(limb), 0, 0, p);
    char* s = mpz_get_str(NULL, 16, z);
    std::string r(s); free(s); mpz_clear(z);
    return r;
}

template <size_t K> static void garbage(ruint<K>& x) {   // destinations start from a non-zero pattern
    memset(static_cast<void*>(&x), 0xA5, sizeof(x));
}

template <size_t K> struct Run {
    static std::string go(const std::string& v, std::vector<mpz_t*>& a) {
        ruint<K> x, y, z, r, r2; bool c = false; std::ostringstream o;
        garbage(r); garbage(r2);
        if (a.size() > 0) from_mpz(x, *a[0]);
        if (a.size() > 1) from_mpz(y, *a[1]);
        if (a.size() > 2) from_mpz(z, *a[2]);
        limb w1 = a.size() > 1 ? mpz_getlimbn(*a[1], 0) * (mpz_size(*a[1]) > 0) : 0;
        bool cy = a.size() > 2 && mpz_sgn(*a[2]) != 0;
        // ---- add family
        if (v == "add.rabc") { add(c, r, x, y); o << to_hex(r) << " " << c; }
        else if (v == "add.rab") { r = x; add(c, r, y); o << to_hex(r) << " " << c; }
        else if (v == "add.abc") { add(r, x, y); o << to_hex(r); }
        else if (v == "add.ab") { r = x; add(r, y); o << to_hex(r); }
        else if (v == "add.op+") { r = x + y; o << to_hex(r); }
        else if (v == "add.op+=") { r = x; r += y; o << to_hex(r); }
        else if (v == "add.alias") { r = x; add(c, r, r, y); o << to_hex(r) << " " << c; }
        else if (v == "add_wc.rabc") { add_wc(c, r, x, y, cy); o << to_hex(r) << " " << c; }
        else if (v == "add_wc.rab") { r = x; add_wc(c, r, y, cy); o << to_hex(r) << " " << c; }
        else if (v == "add_wc.abc") { add_wc(r, x, y, cy); o << to_hex(r); }
        else if (v == "add_wc.ab") { r = x; add_wc(r, y, cy); o << to_hex(r); }
        else if (v == "add_w.rabc") { add(c, r, x, w1); o << to_hex(r) << " " << c; }
        else if (v == "add_w.rab") { r = x; add(c, r, w1); o << to_hex(r) << " " << c; }
        else if (v == "add_w.abc") { add(r, x, w1); o << to_hex(r); }
        else if (v == "add_w.ab") { r = x; add(r, w1); o << to_hex(r); }
        else if (v == "add_w.op+") { r = x + w1; o << to_hex(r); }
        else if (v == "add_1.ra") { r = x; add_1(c, r); o << to_hex(r) << " " << c; }
        else if (v == "add_1.rab") { add_1(c, r, x); o << to_hex(r) << " " << c; }
        else if (v == "add_1.a") { r = x; add_1(r); o << to_hex(r); }
        else if (v == "add_1.ab") { add_1(r, x); o << to_hex(r); }
        else if (v == "add_1.op++") { r = x; ++r; o << to_hex(r); }
        // ---- sub family
        else if (v == "sub.rabc") { sub(c, r, x, y); o << to_hex(r) << " " << c; }
        else if (v == "sub.rab") { r = x; sub(c, r, y); o << to_hex(r) << " " << c; }
        else if (v == "sub.abc") { sub(r, x, y); o << to_hex(r); }
        else if (v == "sub.ab") { r = x; sub(r, y); o << to_hex(r); }
        else if (v == "sub.op-") { r = x - y; o << to_hex(r); }
        else if (v == "sub.op-=") { r = x; r -= y; o << to_hex(r); }
        else if (v == "sub_wc.rabc") { sub_wc(c, r, x, y, cy); o << to_hex(r) << " " << c; }
        else if (v == "sub_wc.rab") { r = x; sub_wc(c, r, y, cy); o << to_hex(r) << " " << c; }
        else if (v == "sub_wc.abc") { sub_wc(r, x, y, cy); o << to_hex(r); }
        else if (v == "sub_wc.ab") { r = x; sub_wc(r, y, cy); o << to_hex(r); }
        // ---- compare
        else if (v == "cmp.cmp") { int s = cmp(x, y); o << (s < 0 ? -1 : s > 0 ? 1 : 0); }
        else if (v == "cmp.ops") {
            int s = (x < y) ? -1 : (x > y) ? 1 : 0;
            bool ok = ((x == y) == (s == 0)) && ((x != y) == (s != 0)) && ((x <= y) == (s <= 0)) && ((x >= y) == (s >= 0));
            if (!ok) o << "INCONSISTENT"; else o << s;
        }
        // ---- products
        else if (v == "lmul_naive.hl") { lmul_naive(r2, r, x, y); o << to_hex(r) << " " << to_hex(r2); }
        else if (v == "lmul_naive.a") { ruint<K+1> p; garbage(p); lmul_naive(p, x, y); o << to_hex(p.Low) << " " << to_hex(p.High); }
        else if (v == "lmul_kara.hl") { lmul_kara(r2, r, x, y); o << to_hex(r) << " " << to_hex(r2); }
        else if (v == "lmul_kara.a") { ruint<K+1> p; garbage(p); lmul_kara(p, x, y); o << to_hex(p.Low) << " " << to_hex(p.High); }
        else if (v == "lmul.hl") { lmul(r2, r, x, y); o << to_hex(r) << " " << to_hex(r2); }
        else if (v == "lmul.a") { ruint<K+1> p; garbage(p); lmul(p, x, y); o << to_hex(p.Low) << " " << to_hex(p.High); }
        else if (v == "laddmul.rhl") { laddmul(c, r2, r, x, y, z); o << to_hex(r) << " " << to_hex(r2) << " " << c; }
        else if (v == "laddmul.hl") { laddmul(r2, r, x, y, z); o << to_hex(r) << " " << to_hex(r2); }
        else if (v == "laddmul.ra") { ruint<K+1> p; garbage(p); laddmul(c, p, x, y, z); o << to_hex(p.Low) << " " << to_hex(p.High) << " " << c; }
        else if (v == "laddmul2.rhl") { ruint<K+1> d; from_mpz(d, *a[2]); laddmul(c, r2, r, x, y, d); o << to_hex(r) << " " << to_hex(r2) << " " << c; }
        else if (v == "laddmul2.ra") { ruint<K+1> d, p; garbage(p); from_mpz(d, *a[2]); laddmul(c, p, x, y, d); o << to_hex(p.Low) << " " << to_hex(p.High) << " " << c; }
        else if (v == "mul.abc") { mul(r, x, y); o << to_hex(r); }
        else if (v == "mul.ab") { r = x; mul(r, y); o << to_hex(r); }
        else if (v == "mul.op*") { r = x * y; o << to_hex(r); }
        else if (v == "mul.op*=") { r = x; r *= y; o << to_hex(r); }
        else if (v == "addmul.abc") { r = x; addmul(r, y, z); o << to_hex(r); }
        else o << "UNKNOWN-VARIANT";
        return o.str();
    }
};

int main() {
    std::string line;
    std::cout << "#thr " << __RECINT_THRESHOLD_KARA << "\n";
    while (std::getline(std::cin, line)) {
        std::istringstream is(line);
        std::string v; int K, thr; is >> v >> K >> thr;
        if (!is) continue;
        std::vector<mpz_t*> a; std::string t;
        while (is >> t) {
            mpz_t* z = new mpz_t[1]; mpz_init(*z);
            const char* s = t.c_str();
            if (t.size() > 2 && t[0] == '0' && t[1] == 'x') mpz_set_str(*z, s + 2, 16); else mpz_set_str(*z, s, 10);
            a.push_back(z);
        }
        std::string r;
        switch (K) {
            case 6: r = Run<6>::go(v, a); break;
            case 7: r = Run<7>::go(v, a); break;
            case 8: r = Run<8>::go(v, a); break;
            case 9: r = Run<9>::go(v, a); break;
            case 10: r = Run<10>::go(v, a); break;
            case 11: r = Run<11>::go(v, a); break;
            default: r = "BAD-K";
        }
        std::cout << r << "\n";
        for (auto z : a) { mpz_clear(*z); delete[] z; }
    }
    return 0;
}
