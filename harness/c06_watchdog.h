// C06 harness: per-case CPU-time watchdog.  Every case is run under an ITIMER_PROF budget (process CPU time: independent of the
// machine load).  When a call does not return within the budget the handler writes the line DOES-NOT-RETURN for that case
// (async-signal-safe write) and ends the process with status 3; the check restarts the harness on the remaining cases and
// re-runs the offending case alone with a larger budget before it reports it as a failing input "does not return".
// Budget in seconds: environment variable C06_CPU_BUDGET (default 10).
#ifndef C06_WATCHDOG_H
#define C06_WATCHDOG_H
#include <csignal>
#include <cstdlib>
#include <cstring>
#include <sys/time.h>
#include <unistd.h>

static void c06_on_prof(int) {
    static const char msg[] = "DOES-NOT-RETURN\n";
    ssize_t w = write(1, msg, sizeof(msg) - 1); (void)w;
    _exit(3);
}
static double c06_cpu_budget() {
    const char* e = getenv("C06_CPU_BUDGET");
    double s = e ? atof(e) : 10.0;
    return s > 0.01 ? s : 10.0;
}
static void c06_watchdog_install() {
    struct sigaction sa; memset(&sa, 0, sizeof(sa));
    sa.sa_handler = c06_on_prof; sigemptyset(&sa.sa_mask);
    sigaction(SIGPROF, &sa, NULL);
}
static void c06_arm(double s) {
    struct itimerval it; memset(&it, 0, sizeof(it));
    it.it_value.tv_sec = (long)s; it.it_value.tv_usec = (long)((s - (double)(long)s) * 1e6);
    setitimer(ITIMER_PROF, &it, NULL);
}
static void c06_disarm() {
    struct itimerval it; memset(&it, 0, sizeof(it));
    setitimer(ITIMER_PROF, &it, NULL);
}
#endif
