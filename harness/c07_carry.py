# C07 generator aid (NOT an oracle): a line-by-line python mirror of the recursive multiply-accumulate routines of
# src/kernel/recint/ruaddmul.h / rumul.h that the two Montgomery reductions (rmgreduc.h, montgomery-ruint.inl) and
# rmint's mul/square call, instrumented so that it reports WHICH partial carry fired in WHICH routine at WHICH level.
# checks/C07.py uses it to SOLVE for inputs: for every K it drives and every carry term of every overload on the
# REDC path it constructs (modulus, operands) for which exactly that carry decides the result, instead of hoping a
# random operand hits a 2^-64 event.  The expected values of those cases still come from the python big-integer
# oracle and from the extracted Coq model; a mistake in this file can only lose coverage (reported in the evidence),
# never produce a wrong verdict.
#
# Notation: a level-K word has 2^K bits; Hh(K) = 2^(2^(K-1)) is the radix of its halves; level 6 = one 64-bit limb
# (the full specialisations).  An event is a tuple (routine, K, carry) e.g. ("dw", 7, "rmid2.sole").
#   routine  dw  = laddmul(bool& r, ah, al, b, c, const ruint<K+1>& d)     (double-width addend: REDC of a product)
#            sw  = laddmul(bool& r, ah, al, b, c, const ruint<K>& d)       (single-width addend: REDC of a word)
#            swn = laddmul(ah, al, b, c, const ruint<K>& d)                (no carry out: inside lmul_naive)
#            nv  = lmul_naive,  ka = lmul_kara,  sq = lsquare
#   carry    <name>       the flag was set when its `if (<name>) add_1(..)` was reached
#            <name>.out   the add_1 it guards overflowed (the flag is still set afterwards)
#            <name>.sole  it is the ONLY term of `r = (.. || ..)` that is set: dropping it from the disjunction, or
#                         losing the carry out of its add_1, changes r

M64 = (1 << 64) - 1
THRESHOLD_KARA = 10          # overwritten by checks/C07.py with the value printed by the compiled implementation


def Hh(K):
    return 1 << (1 << (K - 1))


def Bw(K):
    return 1 << (1 << K)


def _sole(ev, rt, K, flags):
    on = [n for n, v in flags if v]
    if len(on) == 1:
        ev.add((rt, K, on[0] + ".sole"))


def laddmul_dw(K, b, c, d, ev):
    """(r, ah, al) = b*c + d, d a double word"""
    if K == 6:
        s = b * c + d
        return (s >> 128) & 1, (s >> 64) & M64, s & M64
    h = K - 1
    H = Hh(K)
    BK = H * H
    bl, bh, cl, ch = b % H, b // H, c % H, c // H
    dl, dh = d % BK, d // BK
    rlow, xh, xl = laddmul_dw(h, bl, cl, dl, ev)               # blcldl
    bcmid = lmul(h, bh, cl, ev)
    rmid, mh, ml = laddmul_dw(h, bl, ch, bcmid, ev)            # bcmid
    rhigh, ahh, ahl = laddmul_dw(h, bh, ch, dh, ev)            # ah
    s = xh + ml
    rlow2, alh = s >= H, s % H
    s = ahl + mh
    rmid2, ahl = s >= H, s % H
    ah = ahh * H + ahl
    for nm, f in (("rlow", rlow), ("rlow2", rlow2), ("rmid", rmid), ("rmid2", rmid2), ("rhigh", rhigh)):
        if f:
            ev.add(("dw", K, nm))
    if rlow:
        ah += 1
        rlow = ah >= BK
        ah %= BK
    if rlow2:
        ah += 1
        rlow2 = ah >= BK
        ah %= BK
    ahh, ahl = ah // H, ah % H
    if rmid:
        ahh += 1
        rmid = ahh >= H
        ahh %= H
    if rmid2:
        ahh += 1
        rmid2 = ahh >= H
        ahh %= H
    fl = (("rlow", rlow), ("rlow2", rlow2), ("rmid", rmid), ("rmid2", rmid2), ("rhigh", rhigh))
    for nm, f in fl[:4]:
        if f:
            ev.add(("dw", K, nm + ".out"))
    _sole(ev, "dw", K, fl)
    r = 1 if any(f for _, f in fl) else 0
    return r, ahh * H + ahl, alh * H + xl


def laddmul_sw(K, b, c, d, ev, carry=True):
    """(r, ah, al) = b*c + d, d a single word; carry=False is the overload without the flag"""
    rt = "sw" if carry else "swn"
    if K == 6:
        s = b * c + d
        return (s >> 128) & 1, (s >> 64) & M64, s & M64
    h = K - 1
    H = Hh(K)
    BK = H * H
    bl, bh, cl, ch = b % H, b // H, c % H, c // H
    rlow, xh, xl = laddmul_dw(h, bl, cl, d, ev)                # blcld = bl*cl + d   (d is a level-K word = double of level h)
    bcmid = lmul(h, bh, cl, ev)
    rmid, mh, ml = laddmul_dw(h, bl, ch, bcmid, ev)
    rhigh, ahh, ahl = laddmul_sw(h, bh, ch, mh, ev, carry)     # ah = bh*ch + bcmid.High
    ah = ahh * H + ahl
    s = xh + ml
    rlow2, alh = s >= H, s % H
    for nm, f in (("rlow", rlow), ("rlow2", rlow2), ("rmid", rmid), ("rhigh", rhigh)):
        if f:
            ev.add((rt, K, nm))
    if rlow:
        ah += 1
        rlow = ah >= BK
        ah %= BK
    if rlow2:
        ah += 1
        rlow2 = ah >= BK
        ah %= BK
    ahh, ahl = ah // H, ah % H
    if rmid:
        ahh += 1
        rmid = ahh >= H
        ahh %= H
    fl = (("rlow", rlow), ("rlow2", rlow2), ("rmid", rmid), ("rhigh", rhigh))
    if carry:
        for nm, f in fl[:3]:
            if f:
                ev.add((rt, K, nm + ".out"))
        _sole(ev, rt, K, fl)
    r = 1 if any(f for _, f in fl) else 0
    return r, ahh * H + ahl, alh * H + xl


def lmul_naive(K, b, c, ev):
    if K == 6:
        return b * c
    h = K - 1
    H = Hh(K)
    BK = H * H
    bl, bh, cl, ch = b % H, b // H, c % H, c // H
    blcl = lmul_naive(h, bl, cl, ev)
    bcmid = lmul_naive(h, bh, cl, ev)
    rmid, mh, ml = laddmul_dw(h, bl, ch, bcmid, ev)
    _, ahh, ahl = laddmul_sw(h, bh, ch, mh, ev, carry=False)
    ah = ahh * H + ahl
    s = blcl // H + ml
    rlow, alh = s >= H, s % H
    if rlow:
        ev.add(("nv", K, "rlow"))
        ah = (ah + 1) % BK
    if rmid:
        ev.add(("nv", K, "rmid"))
        ah = (ah + H) % BK
    return ah * BK + alh * H + blcl % H


def lmul_kara(K, b, c, ev):
    if K == 6:
        return b * c
    h = K - 1
    H = Hh(K)
    BK = H * H
    bl, bh, cl, ch = b % H, b // H, c % H, c // H
    s = bh + bl
    rb, bb = s >= H, s % H
    s = ch + cl
    rc, cc = s >= H, s % H
    ah = lmul(h, bh, ch, ev)
    al = lmul(h, bl, cl, ev)
    bc = lmul(h, bb, cc, ev)
    rt1 = rt2 = False
    if rb:
        t = bc // H + cc
        rt1 = t >= H
        bc = (t % H) * H + bc % H
    if rc:
        t = bc // H + bb
        rt2 = t >= H
        bc = (t % H) * H + bc % H
    rt3 = bc < ah
    bc = (bc - ah) % BK
    rt4 = bc < al
    bc = (bc - al) % BK
    r = (1 if (rb and rc) else 0) + rt1 + rt2 - rt3 - rt4
    s = al // H + bc % H
    rt5 = s >= H
    al = (s % H) * H + al % H
    if rt5:
        ah = (ah + 1) % BK
    s = ah % H + bc // H
    rt6 = s >= H
    ah = (ah // H) * H + s % H
    if rt6 or r:
        ah = ((ah // H + rt6 + r) % H) * H + ah % H
    for nm, f in (("rb", rb), ("rc", rc), ("rt1", rt1), ("rt2", rt2), ("rt3", rt3), ("rt4", rt4), ("rt5", rt5), ("rt6", rt6)):
        if f:
            ev.add(("ka", K, nm))
    ev.add(("ka", K, "r=%d" % r))
    return ah * BK + al


def lmul(K, b, c, ev):
    if K == 6 or K < THRESHOLD_KARA:
        return lmul_naive(K, b, c, ev)
    return lmul_kara(K, b, c, ev)


def lsquare(K, b, ev):
    if K == 6:
        return b * b
    h = K - 1
    H = Hh(K)
    BK = H * H
    bl, bh = b % H, b // H
    bhbl = lmul(h, bh, bl, ev)
    aH = lsquare(h, bh, ev)
    aL = lsquare(h, bl, ev)
    rbb = bhbl >= BK // 2
    bhbl = (bhbl * 2) % BK
    s = aL // H + bhbl % H
    ralb = s >= H
    aL = (s % H) * H + aL % H
    s = aH % H + bhbl // H
    rbah = s >= H
    aH = (aH // H) * H + s % H
    if ralb:
        aH = (aH + 1) % BK
    if rbah or rbb:
        aH = ((aH // H + rbah + rbb) % H) * H + aH % H
    for nm, f in (("rbb", rbb), ("ralb", ralb), ("rbah", rbah)):
        if f:
            ev.add(("sq", K, nm))
    if rbb and rbah:
        ev.add(("sq", K, "rbb+rbah"))
    return aH * BK + aL


# ------------------------------------------------------------------ the two reductions as the code calls them
def redc_wide(K, p, a, ev):
    """events of reduction(rmint<K,MGA>&, const ruint<K+1>&) / mg_reduc(Element&, const LargeElement&); returns (r, t) before the subtraction"""
    B = Bw(K)
    p1 = (-pow(p, -1, B)) % B
    m = (a % B) * p1 % B
    r, ah, al = laddmul_dw(K, m, p, a, ev)
    assert (r * B + ah) * B + al == m * p + a, "mirror of laddmul(dw) is wrong"
    if r:
        ev.add(("redc", K, "r"))
    elif ah >= p:
        ev.add(("redc", K, "t>=p"))
        if ah == p:
            ev.add(("redc", K, "t==p"))
    else:
        ev.add(("redc", K, "t<p"))
    return r, ah


def redc_narrow(K, p, a, ev):
    B = Bw(K)
    p1 = (-pow(p, -1, B)) % B
    m = a * p1 % B
    r, ah, al = laddmul_sw(K, m, p, a, ev)
    assert (r * B + ah) * B + al == m * p + a, "mirror of laddmul(sw) is wrong"
    if ah == p:
        ev.add(("redcn", K, "t==p"))
    return r, ah


def mul_events(K, x, y, ev):
    a = lmul(K, x, y, ev)
    assert a == x * y, "mirror of lmul is wrong"
    return a


def square_events(K, x, ev):
    a = lsquare(K, x, ev)
    assert a == x * x, "mirror of lsquare is wrong"
    return a


# ------------------------------------------------------------------ solving for inputs
def limbword(rng, K, kind=None):
    """a level-K word built limb-wise from {0, 1, 2^63, 2^64-1, 2^64-2, random}"""
    n = (1 << K) // 64
    k = rng.below(6) if kind is None else kind
    if k == 0:
        return rng.bits(1 << K)
    v = 0
    for i in range(n):
        l = rng.choice([0, 1, 1 << 63, M64, M64 - 1, M64, rng.bits(64), rng.bits(64) | (1 << 63), M64 ^ rng.bits(rng.range(1, 20))])
        v |= l << (64 * i)
    return v


def big_odd_modulus(rng, K):
    """an odd modulus in the upper part of the range (T = (a + m p)/B reaches B only for p > 0.618 B)"""
    B = Bw(K)
    k = rng.below(5)
    if k == 0:
        return B - 1 - 2 * rng.below(200)
    if k == 1:
        return (B - rng.bits(rng.range(2, (1 << K) - 2))) | 1
    p = limbword(rng, K) | 1 | (B >> 1) | (B >> 2)
    if k == 2:
        p |= (B >> 3)
    return p % B


def wide_inputs_for(K, p, m, rng):
    """candidate double words a < p*B with a mod B = -m p mod B (so that the REDC factor is m), whose high word is solved
    so that the accumulator of the top-level laddmul(dw) sits on a carry boundary: all ones, high half all ones, exactly B, ..."""
    B = Bw(K)
    H = Hh(K) if K > 6 else (1 << 32)
    al = (-m * p) % B
    bh, ch = m // H, p // H
    mid = (m // H) * (p % H) + (m % H) * (p // H)
    mh = (mid // H) % H                      # bcmid.High (without its own carry)
    x = bh * ch
    us = [B - 1 - mh, B - 2 - mh, B - mh, (H - 1) * H + (H - 1), (H - 1) * H + (H - mh) % H, (H - 2) * H + (H - 1), (H - 1) * H + rng.below(H),
          (H - 1) * H, B, B + 1, B + H, B + rng.below(H), B - 1, B - H, (H - 1) * H + (H - 1 - mh) % H, (H - 1) * H + (H - 2 - mh) % H,
          (H - 2) * H + (H - mh) % H, (H - 2) * H + (H - 1 - mh) % H]
    out = []
    for u in us:
        ahi = u - x
        if 0 <= ahi < p:
            out.append(ahi * B + al)
    # and by the value of the quotient T = (a + m p) / B: on both sides of p and of B
    q = (m * p + al) // B                    # contribution of the low word and of m p
    for T in (p, p - 1, p + 1, B - 1, B, B + 1, 2 * p - 1, B + H - 1, B + H, q, q + 1):
        ahi = T - q
        if 0 <= ahi < p:
            out.append(ahi * B + al)
    return out


def solve_wide(K, rng, want, tries):
    """search (p, a) for the wide reduction until every event of `want` has a witness; returns {event: (p, a)} and the events seen"""
    wit = {}
    seen = set()
    for _ in range(tries):
        if all(e in wit for e in want):
            break
        p = big_odd_modulus(rng, K)
        m = limbword(rng, K)
        for a in wide_inputs_for(K, p, m, rng):
            ev = set()
            redc_wide(K, p, a, ev)
            seen |= ev
            for e in ev:
                if e in want and e not in wit:
                    wit[e] = (p, a)
    return wit, seen


def product_with_quotient(K, p, x, T):
    """y < p such that REDC(x*y) has the quotient T = (x y + m p)/B exactly, or None: m = T B / p (mod x) in (T B/p - x, T B/p]"""
    import math
    B = Bw(K)
    if x <= 1 or math.gcd(x, p) != 1:
        return None
    hi = (T * B) // p
    m0 = (T * B * pow(p, -1, x)) % x
    m = hi - ((hi - m0) % x)
    if not (0 <= m < B):
        return None
    a = T * B - m * p
    if a < 0 or a % x:
        return None
    y = a // x
    if not (0 <= y < p):
        return None
    return y


def solve_mul(K, rng, want, tries):
    """search (p, x, y), x, y < p, whose PRODUCT drives the wide reduction through the events of `want` (quotient T solved for)"""
    B = Bw(K)
    H = Hh(K) if K > 6 else (1 << 32)
    wit = {}
    seen = set()
    for _ in range(tries):
        if all(e in wit for e in want):
            break
        p = big_odd_modulus(rng, K)
        x = limbword(rng, K) % p
        for T in (B, B + 1, B + rng.below(H), B + rng.below(H), B + H - 1, B + H, B + H + rng.below(H), p, B - 1, 2 * p - 2 - rng.below(3),
                  B + rng.below(H), B + rng.below(H), B + (H - 1) - rng.below(3)):
            if not (0 <= T < 2 * p):
                continue
            y = product_with_quotient(K, p, x, T)
            if y is None:
                continue
            ev = set()
            redc_wide(K, p, x * y, ev)
            seen |= ev
            for e in ev:
                if e in want and e not in wit:
                    wit[e] = (p, x, y)
    return wit, seen


def lift_wide(K, sub, rng):
    """a witness (p', a') of level K-1 placed in the HIGH halves of a level-K instance: the sub-call
    laddmul(rhigh, ah, b.High, c.High, d.High) of the level-K routine then runs exactly the level-(K-1) witness"""
    ps, as_ = sub
    h = K - 1
    Bs = Bw(h)
    ms = ((as_ % Bs) * ((-pow(ps, -1, Bs)) % Bs)) % Bs
    # level K: m.High = ms, p.High = ps, a.High = as_ (needs as_ < p = ps*Bs + pl: true because as_ < ps*Bs)
    out = []
    for _ in range(6):
        pl = limbword(rng, h) | 1
        p = ps * Bs + pl
        B = Bw(K)
        # m must have the high half ms: choose m.Low freely, then a.Low = -m p mod B is forced and a.High = as_
        ml = limbword(rng, h)
        m = ms * Bs + ml
        a = as_ * B + (-m * p) % B
        if a < p * B:
            out.append((p, a))
    return out
