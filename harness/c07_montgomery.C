// C07 implementation driver, part 1: Givaro::Montgomery<int32_t> of /repo's CURRENT headers.
// Line protocol (decimal):  <variant> <p> <args...>   ->   one result line.
// Elements on the wire are the RAW stored values (Montgomery form), so model, implementation and
// oracle are compared on the representation itself and on the converted-out value.
//   --params                          prints the constants the code uses (radix, mask, maxCardinality)
//   sweep.* lines                     exhaustive loops with an in-harness oracle that uses only
//                                     uint64_t % (no library function): prints OK <n> or FAIL ...
#include <iostream>
#include <sstream>
#include <string>
#include <vector>
#include <cstdint>
#include <cstdlib>
#include <memory>
#include "givinteger.h"
#include "montgomery-int32.h"
#include "modular.h"
#include <signal.h>
#include <sys/time.h>
#include <unistd.h>

using namespace Givaro;
typedef Montgomery<int32_t> Field;
typedef Field::Element Elt;

// access to the protected reduction functions and constants
struct Open : public Field {
    Open() : Field() {}
    Open(uint32_t p) : Field(p) {}
    Open(const Field& F) : Field(F) {}
    Open& operator=(const Open& F) { Field::operator=(F); return *this; }
    Elt x_redc(Elt c) const { Elt r; return redc(r, c); }
    Elt x_redcal(Elt c) const { return redcal(c); }
    Elt x_redcsal(Elt c) const { return redcsal(c); }
    Elt x_redcs(Elt c) const { Elt r; return redcs(r, c); }
    Elt x_redcin(Elt c) const { Elt r = c; return redcin(r); }
    Elt x_redcsin(Elt c) const { Elt r = c; return redcsin(r); }
    uint32_t Bp() const { return _Bp; }
    uint32_t B2p() const { return _B2p; }
    uint32_t B3p() const { return _B3p; }
    uint32_t nim() const { return _nim; }
};

// Every way of obtaining a ring object with modulus p (line prefix "@<how>:").  The object is built IN PLACE on the heap and
// never returned by value, so that no copy constructor repairs a field an assignment left stale.
static Open* obtain(const std::string& how, uint32_t p) {
    const uint32_t other = (p == 7) ? 11 : 7, big = (p == 40499) ? 40493 : 40499;
    if (how == "" || how == "ctor") return new Open(p);
    if (how == "copy") { Open G(p); return new Open(G); }
    if (how == "asgS") { Open* W = new Open(other); Open G(p); *W = G; return W; }          // assigned over a ring of another (small) modulus
    if (how == "asgL") { Open* W = new Open(big); Open G(p); *W = G; return W; }            // ... of a large modulus
    if (how == "dflt") { Open* W = new Open(); Open G(p); *W = G; return W; }               // default-constructed, then assigned
    if (how == "self") { Open* W = new Open(p); Open& A = *W; *W = A; return W; }           // self-assignment
    if (how == "twice") { Open* W = new Open(other); { Open G(big); *W = G; } { Open G(p); *W = G; } return W; }
    if (how == "chain") { Open* W = new Open(other); Open G(p); Open H(big); H = G; *W = H; return W; }   // assigned from an assigned ring
    if (how == "cpasg") { Open* W0 = new Open(other); Open G(p); *W0 = G; Open* W = new Open(*W0); delete W0; return W; }   // copy of an assigned ring
    return nullptr;
}

static uint64_t binv_of(uint64_t p) {          // brute force: the x in [0,p) with 65536*x = 1 mod p
    for (uint64_t x = 0; x < p; ++x) if ((B32 % p) * x % p == 1 % p) return x;
    return 0;
}
static uint64_t gcd64(uint64_t a, uint64_t b) { while (b) { uint64_t t = a % b; a = b; b = t; } return a; }

// per-request CPU-time watchdog (CPU time does not depend on the machine load): a call that does not return within the budget
// ends the process with the marker line below; the check re-runs that one request alone with a larger budget
static void on_prof(int) { const char m[] = "WATCHDOG does-not-return\n"; ssize_t r = write(1, m, sizeof(m) - 1); (void)r; _exit(75); }
static void arm(long sec) { struct itimerval it; it.it_interval.tv_sec = 0; it.it_interval.tv_usec = 0; it.it_value.tv_sec = sec; it.it_value.tv_usec = 0; setitimer(ITIMER_PROF, &it, 0); }
static long env_long(const char* n, long d) { const char* e = getenv(n); return e ? atol(e) : d; }

// the library's NON-Montgomery ring of the same element type: Montgomery<int32_t> must be indistinguishable from it
typedef Modular<int32_t> Plain;
// vsmod.<op>: both rings initialised from the same residues x, y, z in [0,p), the operation, both results converted out
static bool vsmod(const std::string& op, const Open& F, uint32_t p, uint32_t x, uint32_t y, uint32_t z, uint32_t& mo, uint32_t& po) {
    Plain Z((int32_t)p);
    Elt a, b, c, r; F.init(a, x); F.init(b, y); F.init(c, z); r = c;
    Plain::Element A, B, C, R; Z.init(A, x); Z.init(B, y); Z.init(C, z); R = C;
    if (op == "add") { F.add(r, a, b); Z.add(R, A, B); }
    else if (op == "sub") { F.sub(r, a, b); Z.sub(R, A, B); }
    else if (op == "mul") { F.mul(r, a, b); Z.mul(R, A, B); }
    else if (op == "neg") { F.neg(r, a); Z.neg(R, A); }
    else if (op == "inv") { F.inv(r, a); Z.inv(R, A); }
    else if (op == "div") { F.div(r, a, b); Z.div(R, A, B); }
    else if (op == "addin") { r = a; R = A; F.addin(r, b); Z.addin(R, B); }
    else if (op == "subin") { r = a; R = A; F.subin(r, b); Z.subin(R, B); }
    else if (op == "mulin") { r = a; R = A; F.mulin(r, b); Z.mulin(R, B); }
    else if (op == "negin") { r = a; R = A; F.negin(r); Z.negin(R); }
    else if (op == "invin") { r = a; R = A; F.invin(r); Z.invin(R); }
    else if (op == "divin") { r = a; R = A; F.divin(r, b); Z.divin(R, B); }
    else if (op == "axpy") { F.axpy(r, a, b, c); Z.axpy(R, A, B, C); }
    else if (op == "axmy") { F.axmy(r, a, b, c); Z.axmy(R, A, B, C); }
    else if (op == "maxpy") { F.maxpy(r, a, b, c); Z.maxpy(R, A, B, C); }
    else if (op == "axpyin") { F.axpyin(r, a, b); Z.axpyin(R, A, B); }
    else if (op == "axmyin") { F.axmyin(r, a, b); Z.axmyin(R, A, B); }
    else if (op == "maxpyin") { F.maxpyin(r, a, b); Z.maxpyin(R, A, B); }
    else if (op == "isZero") { F.mul(r, a, b); Z.mul(R, A, B); mo = F.isZero(r); po = Z.isZero(R); return true; }
    else if (op == "areEqual") { F.add(r, a, b); Z.add(R, A, B); mo = F.areEqual(r, c); po = Z.areEqual(R, C); return true; }
    else if (op == "isUnit") { mo = F.isUnit(a); po = Z.isUnit(A); return true; }
    else return false;
    F.convert(mo, r); Z.convert(po, R);
    return true;
}
static const char* VSMOD_BIN[] = {"add", "sub", "mul", "addin", "subin", "mulin", "isZero"};
static const char* VSMOD_TER[] = {"axpy", "axmy", "maxpy", "axpyin", "axmyin", "maxpyin", "areEqual"};

struct Fail { std::ostringstream s; bool bad = false; uint64_t n = 0; };
#define CHECK(F_, name, got, exp, a, b, c) do { (F_).n++; if ((uint64_t)(got) != (uint64_t)(exp) && !(F_).bad) { \
    (F_).bad = true; (F_).s << "FAIL " << name << " " << p << " " << (a) << " " << (b) << " " << (c) << " got " << (got) << " exp " << (exp); } } while (0)

// every two- and three-operand call form on (a,b,c), raw expected values from uint64 arithmetic
static void check_ops(Fail& f, const Open& F, uint64_t p, uint64_t Bi, uint32_t a, uint32_t b, uint32_t c, bool ternary) {
    Elt r;
    uint64_t ab = (uint64_t)a * b % p * Bi % p;                 // raw Montgomery product
    CHECK(f, "mul", F.mul(r, a, b), ab, a, b, 0);
    r = a; CHECK(f, "mulin", F.mulin(r, b), ab, a, b, 0);
    CHECK(f, "add", F.add(r, a, b), ((uint64_t)a + b) % p, a, b, 0);
    r = a; CHECK(f, "addin", F.addin(r, b), ((uint64_t)a + b) % p, a, b, 0);
    CHECK(f, "sub", F.sub(r, a, b), ((uint64_t)a + p - b) % p, a, b, 0);
    r = a; CHECK(f, "subin", F.subin(r, b), ((uint64_t)a + p - b) % p, a, b, 0);
    // destination is the same object as an operand
    r = a; CHECK(f, "mul.rra", F.mul(r, r, b), ab, a, b, 0);
    r = b; CHECK(f, "mul.rar", F.mul(r, a, r), ab, a, b, 0);
    r = a; CHECK(f, "add.rra", F.add(r, r, b), ((uint64_t)a + b) % p, a, b, 0);
    r = b; CHECK(f, "add.rar", F.add(r, a, r), ((uint64_t)a + b) % p, a, b, 0);
    r = a; CHECK(f, "sub.rra", F.sub(r, r, b), ((uint64_t)a + p - b) % p, a, b, 0);
    r = b; CHECK(f, "sub.rar", F.sub(r, a, r), ((uint64_t)a + p - b) % p, a, b, 0);
    { uint32_t mo, po; for (const char* op : VSMOD_BIN) { vsmod(op, F, (uint32_t)p, a, b, c, mo, po); CHECK(f, std::string("vsmod.") + op, mo, po, a, b, c); } }
    if (!ternary) return;
    { uint32_t mo, po; for (const char* op : VSMOD_TER) { vsmod(op, F, (uint32_t)p, a, b, c, mo, po); CHECK(f, std::string("vsmod.") + op, mo, po, a, b, c); } }
    r = a; CHECK(f, "axpy.ra", F.axpy(r, r, b, c), (ab + c) % p, a, b, c);
    r = b; CHECK(f, "axpy.rb", F.axpy(r, a, r, c), (ab + c) % p, a, b, c);
    r = c; CHECK(f, "axpy.rc", F.axpy(r, a, b, r), (ab + c) % p, a, b, c);
    r = a; CHECK(f, "axmy.ra", F.axmy(r, r, b, c), (ab + p - c) % p, a, b, c);
    r = c; CHECK(f, "axmy.rc", F.axmy(r, a, b, r), (ab + p - c) % p, a, b, c);
    r = a; CHECK(f, "maxpy.ra", F.maxpy(r, r, b, c), (c + p - ab) % p, a, b, c);
    r = c; CHECK(f, "maxpy.rc", F.maxpy(r, a, b, r), (c + p - ab) % p, a, b, c);
    CHECK(f, "axpy", F.axpy(r, a, b, c), (ab + c) % p, a, b, c);
    r = c; CHECK(f, "axpyin", F.axpyin(r, a, b), (ab + c) % p, c, a, b);
    CHECK(f, "axmy", F.axmy(r, a, b, c), (ab + p - c) % p, a, b, c);
    r = c; CHECK(f, "axmyin", F.axmyin(r, a, b), (ab + p - c) % p, c, a, b);
    CHECK(f, "maxpy", F.maxpy(r, a, b, c), (c + p - ab) % p, a, b, c);
    r = c; CHECK(f, "maxpyin", F.maxpyin(r, a, b), (c + p - ab) % p, c, a, b);
}
static void check_unary(Fail& f, const Open& F, uint64_t p, uint64_t Bi, uint32_t a, bool with_inv) {
    Elt r; uint32_t b = 0, c = 0;
    CHECK(f, "neg", F.neg(r, a), (p - a) % p, a, b, c);
    r = a; CHECK(f, "negin", F.negin(r), (p - a) % p, a, b, c);
    r = a; CHECK(f, "neg.rr", F.neg(r, r), (p - a) % p, a, b, c);
    uint64_t va = (uint64_t)a * Bi % p;                         // the residue a stands for
    uint32_t u32v; CHECK(f, "convert.u32", F.convert(u32v, a), va, a, b, c);
    CHECK(f, "init.uint32+convert", F.convert(u32v, F.init(r, (uint32_t)a)), a, a, b, c);   // identity on [0,p)
    CHECK(f, "init.uint32", F.init(r, (uint32_t)a), (uint64_t)a * (B32 % p) % p, a, b, c);
    // initialising from EVERY native source type and converting back is the identity on [0,p); converting out to every target type
    CHECK(f, "init.double+convert", F.convert(u32v, F.init(r, (double)a)), a, a, b, c);
    CHECK(f, "init.float+convert", F.convert(u32v, F.init(r, (float)a)), a, a, b, c);
    CHECK(f, "init.int32+convert", F.convert(u32v, F.init(r, (int32_t)a)), a, a, b, c);
    CHECK(f, "init.int64+convert", F.convert(u32v, F.init(r, (int64_t)a)), a, a, b, c);
    CHECK(f, "init.uint64+convert", F.convert(u32v, F.init(r, (uint64_t)a)), a, a, b, c);
    CHECK(f, "init.uint16+convert", F.convert(u32v, F.init(r, (uint16_t)a)), a, a, b, c);
    CHECK(f, "init.double", F.init(r, (double)a), (uint64_t)a * (B32 % p) % p, a, b, c);
    { double dv; CHECK(f, "convert.double", (uint64_t)F.convert(dv, a), va, a, b, c); }
    { float fv; CHECK(f, "convert.float", (uint64_t)F.convert(fv, a), va, a, b, c); }
    { int64_t iv; CHECK(f, "convert.i64", (uint64_t)F.convert(iv, a), va, a, b, c); }
    { uint64_t uv; CHECK(f, "convert.u64", F.convert(uv, a), va, a, b, c); }
    { int32_t iv; CHECK(f, "convert.i32", (uint64_t)F.convert(iv, a), va, a, b, c); }
    CHECK(f, "redc", F.x_redc(a), va, a, b, c);
    CHECK(f, "redcs", F.x_redcs(a), va, a, b, c);
    CHECK(f, "isUnit", (uint64_t)F.isUnit(a), (uint64_t)(gcd64(a, p) == 1), a, b, c);
    if (with_inv && gcd64(a, p) == 1) {                         // the defining property: inverse is canonical and a * inv = 1
        F.inv(r, a);
        CHECK(f, "inv", (uint64_t)(r < p ? (uint64_t)r * Bi % p * va % p : 99), 1 % p, a, b, c);
        r = a; F.invin(r);
        CHECK(f, "invin", (uint64_t)(r < p ? (uint64_t)r * Bi % p * va % p : 99), 1 % p, a, b, c);
        Elt q; F.div(q, a, a);                                  // a / a = one
        CHECK(f, "div", q, B32 % p, a, a, c);
        q = a; F.divin(q, a);
        CHECK(f, "divin", q, B32 % p, a, a, c);
        q = a; F.div(q, q, a);                                  // destination is the dividend / the divisor / the inverted element
        CHECK(f, "div.rra", q, B32 % p, a, a, c);
        q = a; F.div(q, a, q);
        CHECK(f, "div.rar", q, B32 % p, a, a, c);
        r = a; F.inv(r, r);
        CHECK(f, "inv.rr", (uint64_t)(r < p ? (uint64_t)r * Bi % p * va % p : 99), 1 % p, a, b, c);
        uint32_t mo, po;                                       // against the library's plain ring, a taken as a residue
        vsmod("inv", F, (uint32_t)p, a, a, 0, mo, po); CHECK(f, "vsmod.inv", mo, po, a, b, c);
        vsmod("div", F, (uint32_t)p, (uint32_t)((a + 1) % p), a, 0, mo, po); CHECK(f, "vsmod.div", mo, po, (a + 1) % p, a, c);
    } else if (with_inv) {                                     // non-units and 0: the result must still be a residue (theorem M32_inv_div_any)
        F.inv(r, a); CHECK(f, "inv.nonunit.canon", (uint64_t)(r < p), 1, a, b, c);
        Elt q; F.div(q, (Elt)((a + 1) % p), a); CHECK(f, "div.nonunit.canon", (uint64_t)(q < p), 1, (a + 1) % p, a, c);
        if (a == 0) CHECK(f, "inv.zero", r, 0, a, b, c);
    }
    { uint32_t mo, po; vsmod("neg", F, (uint32_t)p, a, 0, 0, mo, po); CHECK(f, "vsmod.neg", mo, po, a, b, c);
      vsmod("isUnit", F, (uint32_t)p, a, 0, 0, mo, po); CHECK(f, "vsmod.isUnit", mo, po, a, b, c); }
}
static void check_ctor(Fail& f, const Open& F, uint64_t p) {
    uint64_t Bp = B32 % p, a = 0, b = 0, c = 0;
    CHECK(f, "ctor._Bp", F.Bp(), Bp, a, b, c);
    CHECK(f, "ctor._B2p", F.B2p(), Bp * Bp % p, a, b, c);
    CHECK(f, "ctor._B3p", F.B3p(), Bp * Bp % p * Bp % p, a, b, c);
    CHECK(f, "ctor._nim.range", (uint64_t)(F.nim() < B32), 1, a, b, c);
    CHECK(f, "ctor._nim", ((uint64_t)F.nim() * p + 1) % B32, 0, a, b, c);
    CHECK(f, "ctor.one", F.one, Bp, a, b, c);
    CHECK(f, "ctor.mOne", F.mOne, (p - Bp) % p, a, b, c);
    CHECK(f, "ctor.zero", F.zero, 0, a, b, c);
}
static std::vector<uint32_t> boundary(uint64_t p) {
    std::vector<uint32_t> s;
    uint64_t c[] = {0, 1, 2, p - 1, p - 2, (p - 1) / 2, (p + 1) / 2, B32 % p, (p - B32 % p) % p, (B32 - 1) % p, 255 % p, 256 % p};
    for (uint64_t x : c) { bool seen = false; for (uint32_t y : s) seen |= (y == x); if (!seen && x < p) s.push_back((uint32_t)x); }
    return s;
}

static std::string fields(const Open& F) {
    std::ostringstream o;
    o << F.Bp() << " " << F.B2p() << " " << F.B3p() << " " << F.nim() << " " << F.one << " " << F.mOne << " " << F.zero
      << " " << F.residu() << " " << F.characteristic() << " " << F.cardinality() << " " << F.size();
    return o.str();
}

int main(int argc, char** argv) {
    std::ios::sync_with_stdio(false);
    if (argc > 1 && std::string(argv[1]) == "--params") {
        std::cout << "HALF_BITS32 " << HALF_BITS32 << "\nB32 " << B32 << "\nMASK32 " << MASK32
                  << "\nmaxCardinality32 " << Field::maxCardinality() << "\nminCardinality32 " << Field::minCardinality() << "\n";
        return 0;
    }
    std::string line;
    signal(SIGPROF, on_prof);
    const long budget = env_long("C07_CPU_BUDGET", 60), budget_sweep = env_long("C07_CPU_BUDGET_SWEEP", 7200);
    while (std::getline(std::cin, line)) {
        std::istringstream in(line);
        std::string v; uint64_t p;
        if (!(in >> v >> p)) continue;
        arm(v.compare(0, 6, "sweep.") == 0 ? budget_sweep : budget);
        std::ostringstream out;
        if (v.compare(0, 6, "sweep.") == 0) {
            Fail f;
            if (v == "sweep.allp") {              // sweep.allp lo hi : every odd p in [lo,hi], boundary operands
                uint64_t hi; in >> hi;
                Open W(3);                         // one ring object re-assigned for every modulus (over the previous modulus)
                for (uint64_t q = p | 1; q <= hi && !f.bad; q += 2) {
                    uint64_t p = q; Open F((uint32_t)p); uint64_t Bi = binv_of(p);
                    W = F; Open D; D = F;          // assigned over another modulus / default-constructed then assigned
                    check_ctor(f, F, p); check_ctor(f, W, p); check_ctor(f, D, p);
                    std::vector<uint32_t> s = boundary(p);
                    for (uint32_t a : s) { check_unary(f, F, p, Bi, a, true); check_unary(f, W, p, Bi, a, true); check_unary(f, D, p, Bi, a, false);
                        for (uint32_t b : s) { check_ops(f, W, p, Bi, a, b, s[(a + b) % s.size()], true); check_ops(f, D, p, Bi, a, b, 0, false); }
                        for (uint32_t b : s) for (uint32_t c : s) check_ops(f, F, p, Bi, a, b, c, true); }
                }
            } else if (v == "sweep.elts") {       // sweep.elts lo hi : every odd p, EVERY element: unary forms, init/convert identity
                uint64_t hi; int winv; in >> hi >> winv;
                Open W(40499);                     // every second modulus runs on a ring ASSIGNED over the previous modulus
                for (uint64_t q = p | 1; q <= hi && !f.bad; q += 2) {
                    uint64_t p = q; Open F((uint32_t)p); uint64_t Bi = binv_of(p);
                    W = F;
                    const Open& R = ((q >> 1) & 1) ? W : F;
                    for (uint32_t a = 0; a < p; ++a) check_unary(f, R, p, Bi, a, winv != 0);
                }
            } else if (v == "sweep.pairs") {      // sweep.pairs p alo ahi : all (a,b), a in [alo,ahi), b in [0,p)
                uint64_t alo, ahi; in >> alo >> ahi; if (ahi > p) ahi = p;
                Open F((uint32_t)p); uint64_t Bi = binv_of(p);
                for (uint32_t a = (uint32_t)alo; a < ahi && !f.bad; ++a)
                    for (uint32_t b = 0; b < p; ++b) check_ops(f, F, p, Bi, a, b, (a ^ b) % p, true);
            } else if (v == "sweep.redc") {       // sweep.redc p lo hi : every c in [lo,hi) through the six reductions
                uint64_t lo, hi; in >> lo >> hi;
                Open F((uint32_t)p); uint64_t Bi = binv_of(p);
                for (uint64_t c = lo; c < hi && !f.bad; ++c) {
                    uint64_t e = c % p * Bi % p; uint32_t cc = (uint32_t)c;
                    CHECK(f, "redc", F.x_redc(cc), e, c, 0, 0); CHECK(f, "redcal", F.x_redcal(cc), e, c, 0, 0);
                    CHECK(f, "redcsal", F.x_redcsal(cc), e, c, 0, 0); CHECK(f, "redcs", F.x_redcs(cc), e, c, 0, 0);
                    CHECK(f, "redcin", F.x_redcin(cc), e, c, 0, 0); CHECK(f, "redcsin", F.x_redcsin(cc), e, c, 0, 0);
                }
            }
            arm(0);
            if (f.bad) std::cout << f.s.str() << "\n" << std::flush; else std::cout << "OK " << f.n << "\n" << std::flush;
            continue;
        }
        std::string how;
        if (!v.empty() && v[0] == '@') { size_t c = v.find(':'); how = v.substr(1, c - 1); v = v.substr(c + 1); }
        std::unique_ptr<Open> FP(obtain(how, (uint32_t)p));
        if (!FP) { arm(0); std::cout << "UNKNOWN-WAY\n" << std::flush; continue; }
        Open& F = *FP;
        std::vector<std::string> a; std::string t; while (in >> t) a.push_back(t);
        auto U = [&](size_t i) -> uint32_t { return (uint32_t)std::strtoull(a.at(i).c_str(), 0, 10); };
        Elt r = 0; bool haveElt = true;
        if (v == "ctor.p") { out << fields(F); haveElt = false; }
        else if (v == "ctor.copy") { Open G(F); out << fields(G); haveElt = false; }
        else if (v == "ctor.assign") { Open G(3); G = F; out << fields(G); haveElt = false; }
        else if (v == "assign.use" || v == "copy.use") {     // init, inv, mulin, addin, convert, div on an ASSIGNED / COPIED ring
            Open G(3); if (v == "assign.use") G = F; Open H(F); const Open& R = (v == "assign.use") ? G : H;
            Elt u, w, d; uint32_t t, t2; R.init(u, U(0)); R.inv(w, u); R.mulin(w, u); R.addin(w, u); R.convert(t, w);
            R.div(d, u, U(1)); R.convert(t2, d);
            out << w << " " << t << " " << d << " " << t2; haveElt = false;
        }
        else if (v == "redc") { out << F.x_redc(U(0)); haveElt = false; }
        else if (v == "redcal") { out << F.x_redcal(U(0)); haveElt = false; }
        else if (v == "redcsal") { out << F.x_redcsal(U(0)); haveElt = false; }
        else if (v == "redcs") { out << F.x_redcs(U(0)); haveElt = false; }
        else if (v == "redcin") { out << F.x_redcin(U(0)); haveElt = false; }
        else if (v == "redcsin") { out << F.x_redcsin(U(0)); haveElt = false; }
        else if (v.compare(0, 6, "vsmod.") == 0) {
            uint32_t mo = 0, po = 0; uint32_t z = a.size() > 2 ? U(2) : 0, y = a.size() > 1 ? U(1) : 0;
            if (vsmod(v.substr(6), F, (uint32_t)p, U(0), y, z, mo, po)) out << mo << " " << po; else out << "UNKNOWN-VARIANT";
            haveElt = false;
        }
        else if (v == "mul.rra") { r = U(0); F.mul(r, r, U(1)); }
        else if (v == "mul.rar") { r = U(1); F.mul(r, U(0), r); }
        else if (v == "add.rra") { r = U(0); F.add(r, r, U(1)); }
        else if (v == "add.rar") { r = U(1); F.add(r, U(0), r); }
        else if (v == "sub.rra") { r = U(0); F.sub(r, r, U(1)); }
        else if (v == "sub.rar") { r = U(1); F.sub(r, U(0), r); }
        else if (v == "div.rra") { r = U(0); F.div(r, r, U(1)); }
        else if (v == "div.rar") { r = U(1); F.div(r, U(0), r); }
        else if (v == "neg.rr") { r = U(0); F.neg(r, r); }
        else if (v == "inv.rr") { r = U(0); F.inv(r, r); }
        else if (v == "axpy.ra") { r = U(0); F.axpy(r, r, U(1), U(2)); }
        else if (v == "axpy.rb") { r = U(1); F.axpy(r, U(0), r, U(2)); }
        else if (v == "axpy.rc") { r = U(2); F.axpy(r, U(0), U(1), r); }
        else if (v == "axmy.ra") { r = U(0); F.axmy(r, r, U(1), U(2)); }
        else if (v == "axmy.rc") { r = U(2); F.axmy(r, U(0), U(1), r); }
        else if (v == "maxpy.ra") { r = U(0); F.maxpy(r, r, U(1), U(2)); }
        else if (v == "maxpy.rc") { r = U(2); F.maxpy(r, U(0), U(1), r); }
        else if (v == "mul") F.mul(r, U(0), U(1));
        else if (v == "mulin") { r = U(0); F.mulin(r, U(1)); }
        else if (v == "add") F.add(r, U(0), U(1));
        else if (v == "addin") { r = U(0); F.addin(r, U(1)); }
        else if (v == "sub") F.sub(r, U(0), U(1));
        else if (v == "subin") { r = U(0); F.subin(r, U(1)); }
        else if (v == "div") F.div(r, U(0), U(1));
        else if (v == "divin") { r = U(0); F.divin(r, U(1)); }
        else if (v == "neg") F.neg(r, U(0));
        else if (v == "negin") { r = U(0); F.negin(r); }
        else if (v == "inv") F.inv(r, U(0));
        else if (v == "invin") { r = U(0); F.invin(r); }
        else if (v == "axpy") F.axpy(r, U(0), U(1), U(2));
        else if (v == "axpyin") { r = U(0); F.axpyin(r, U(1), U(2)); }
        else if (v == "axmy") F.axmy(r, U(0), U(1), U(2));
        else if (v == "axmyin") { r = U(0); F.axmyin(r, U(1), U(2)); }
        else if (v == "maxpy") F.maxpy(r, U(0), U(1), U(2));
        else if (v == "maxpyin") { r = U(0); F.maxpyin(r, U(1), U(2)); }
        else if (v == "init.none") { r = 77; F.init(r); }
        else if (v == "init.double") F.init(r, (double)std::strtoll(a.at(0).c_str(), 0, 10));
        else if (v == "init.float") F.init(r, (float)std::strtoll(a.at(0).c_str(), 0, 10));
        else if (v == "init.int64") F.init(r, (int64_t)std::strtoll(a.at(0).c_str(), 0, 10));
        else if (v == "init.uint64") F.init(r, (uint64_t)std::strtoull(a.at(0).c_str(), 0, 10));
        else if (v == "init.integer") F.init(r, Integer(a.at(0).c_str()));
        else if (v == "init.int32") F.init(r, (int32_t)std::strtoll(a.at(0).c_str(), 0, 10));
        else if (v == "init.uint32") F.init(r, (uint32_t)std::strtoull(a.at(0).c_str(), 0, 10));
        else if (v == "init.int16") F.init(r, (int16_t)std::strtoll(a.at(0).c_str(), 0, 10));
        else if (v == "init.uint16") F.init(r, (uint16_t)std::strtoull(a.at(0).c_str(), 0, 10));
        else if (v == "init.int8") F.init(r, (int8_t)std::strtoll(a.at(0).c_str(), 0, 10));
        else if (v == "init.longlong") F.init(r, (long long)std::strtoll(a.at(0).c_str(), 0, 10));
        else if (v == "init.ulonglong") F.init(r, (unsigned long long)std::strtoull(a.at(0).c_str(), 0, 10));
        else if (v == "read") { std::istringstream is(a.at(0)); F.read(is, r); }
        else if (v == "convert.u32") { uint32_t x; out << F.convert(x, U(0)); haveElt = false; }
        else if (v == "convert.i32") { int32_t x; out << F.convert(x, U(0)); haveElt = false; }
        else if (v == "convert.i64") { int64_t x; out << F.convert(x, U(0)); haveElt = false; }
        else if (v == "convert.u64") { uint64_t x; out << F.convert(x, U(0)); haveElt = false; }
        else if (v == "convert.float") { float x; out << (int64_t)F.convert(x, U(0)); haveElt = false; }
        else if (v == "convert.u16") { uint16_t x; out << F.convert(x, U(0)); haveElt = false; }
        else if (v == "convert.double") { double x; out << (int64_t)F.convert(x, U(0)); haveElt = false; }
        else if (v == "convert.integer") { Integer x; out << F.convert(x, U(0)); haveElt = false; }
        else if (v == "write") { F.write(out, U(0)); haveElt = false; }
        else if (v == "isUnit") { out << F.isUnit(U(0)); haveElt = false; }
        else if (v == "isZero") { out << F.isZero(U(0)); haveElt = false; }
        else if (v == "isOne") { out << F.isOne(U(0)); haveElt = false; }
        else if (v == "isMOne") { out << F.isMOne(U(0)); haveElt = false; }
        else if (v == "areEqual") { out << F.areEqual(U(0), U(1)); haveElt = false; }
        else { out << "UNKNOWN-VARIANT"; haveElt = false; }
        if (haveElt) { uint32_t x; out << r << " " << F.convert(x, r); }
        arm(0);
        std::cout << out.str() << "\n" << std::flush;
    }
    return 0;
}
