// C07 implementation driver, part 2: RecInt rmint<K,MG_ACTIVE>, rmint<K,MG_INACTIVE> and
// Givaro::Montgomery<RecInt::ruint<K>> of /repo's CURRENT headers, K = 6..9.
// Line protocol:  <op> <K> <p> <args...>   ->   one result line (hex tokens, no prefix).
// Numbers: "0x.." hex or decimal with optional sign.  Elements on the wire are the RAW stored values
// (rmint::Value / the ruint<K> element), so model, implementation and oracle are compared on the
// representation itself and on the converted-out value ("raw value" pairs).
#include <iostream>
#include <sstream>
#include <string>
#include <vector>
#include <cstring>
#include <cstdint>
#include <memory>
#include <gmp.h>
#include <gmpxx.h>
#include <recint/recint.h>
#include "givinteger.h"
#include "montgomery-ruint.h"
#include "modular.h"
#include <signal.h>
#include <sys/time.h>
#include <unistd.h>

using RecInt::ruint;

using RecInt::rmint;
using RecInt::limb;
typedef std::vector<mpz_class> Args;

template <size_t K> static void from_mpz(ruint<K>& x, const mpz_class& zz) {
    // little-endian limbs of |z| truncated to 2^K bits, two's complement when z < 0 (harness-side, no RecInt code)
    const size_t n = RecInt::NBLIMB<K>::value;
    mpz_srcptr z = zz.get_mpz_t();
    limb* p = reinterpret_cast<limb*>(&x);
    for (size_t i = 0; i < n; ++i) p[i] = (i < mpz_size(z)) ? mpz_getlimbn(z, i) : 0;
    if (mpz_sgn(z) < 0) {
        limb c = 1;
        for (size_t i = 0; i < n; ++i) { p[i] = ~p[i] + c; c = (c && p[i] == 0); }
    }
}
template <size_t K> static std::string hx(const ruint<K>& x) {
    const size_t n = RecInt::NBLIMB<K>::value;
    const limb* p = reinterpret_cast<const limb*>(&x);
    mpz_t z; mpz_init(z);
    mpz_import(z, n, -1, sizeof(limb), 0, 0, p);
    char* s = mpz_get_str(NULL, 16, z);
    std::string r(s); free(s); mpz_clear(z);
    return r;
}
static std::string hx64(uint64_t w) { std::ostringstream o; o << std::hex << w; return o.str(); }
template <size_t K> static void garbage(ruint<K>& x) { memset(static_cast<void*>(&x), 0xA5, sizeof(x)); }

// access to the protected members of Montgomery<ruint<K>>
template <size_t K> struct OpenR : public Givaro::Montgomery<ruint<K>> {
    typedef Givaro::Montgomery<ruint<K>> Base;
    OpenR() : Base() {}
    OpenR(const ruint<K>& p) : Base(p) {}
    OpenR(const Base& F) : Base(F) {}
    OpenR& operator=(const OpenR& F) { Base::operator=(F); return *this; }
    std::string fields() const {
        return hx(this->_p1) + " " + hx(this->_r) + " " + hx(this->_r2) + " " + hx(this->_r3) + " " + hx(this->one) + " " +
               hx(this->mOne) + " " + hx(this->zero) + " " + hx(this->_p) + " " + hx(this->residu()) + " " + hx(this->characteristic()) +
               " " + hx(this->cardinality());
    }
    ruint<K> x_reduc(const ruint<K>& b) const { ruint<K> a; garbage(a); this->mg_reduc(a, b); return a; }
    ruint<K> x_to_mg(const ruint<K>& b) const { ruint<K> a; garbage(a); this->to_mg(a, b); return a; }
    ruint<K> x_to_mg_in(const ruint<K>& b) const { ruint<K> a = b; this->to_mg(a); return a; }
};

#define V(name) else if (v == name)

// per-request CPU-time watchdog (load-independent): see harness/c07_montgomery.C
static void on_prof(int) { const char m[] = "WATCHDOG does-not-return\n"; ssize_t r = write(1, m, sizeof(m) - 1); (void)r; _exit(75); }
static void arm(long sec) { struct itimerval it; it.it_interval.tv_sec = 0; it.it_interval.tv_usec = 0; it.it_value.tv_sec = sec; it.it_value.tv_usec = 0; setitimer(ITIMER_PROF, &it, 0); }

// Every way of obtaining a Montgomery<ruint<K>> object with modulus p (line prefix "@<how>:"), built in place on the heap
// (returning by value would run the copy constructor and repair what an assignment left stale).
template <size_t K> static OpenR<K>* obtainR(const std::string& how, const ruint<K>& p) {
    typedef OpenR<K> F_t;
    ruint<K> other(p == ruint<K>(7) ? 11 : 7), big; memset(static_cast<void*>(&big), 0xFF, sizeof(big));   // 2^(2^K) - 1
    if (big == p) big = p - 2;
    if (how == "" || how == "ctor") return new F_t(p);
    if (how == "copy") { F_t G(p); return new F_t(G); }
    if (how == "asgS") { F_t* W = new F_t(other); F_t G(p); *W = G; return W; }
    if (how == "asgL") { F_t* W = new F_t(big); F_t G(p); *W = G; return W; }
    if (how == "dflt") { F_t* W = new F_t(); F_t G(p); *W = G; return W; }
    if (how == "self") { F_t* W = new F_t(p); F_t& A = *W; *W = A; return W; }
    if (how == "twice") { F_t* W = new F_t(other); { F_t G(big); *W = G; } { F_t G(p); *W = G; } return W; }
    if (how == "chain") { F_t* W = new F_t(other); F_t G(p); F_t H(big); H = G; *W = H; return W; }
    if (how == "cpasg") { F_t* W0 = new F_t(other); F_t G(p); *W0 = G; F_t* W = new F_t(*W0); delete W0; return W; }
    return nullptr;
}
// rmint<K,MG>: the modulus is static; "obtaining the ring" = init_module, possibly after the module held another modulus
template <size_t K> static bool reinit(const std::string& how, const ruint<K>& p) {
    using namespace RecInt;
    ruint<K> other(p == ruint<K>(7) ? 11 : 7), big; memset(static_cast<void*>(&big), 0xFF, sizeof(big));
    if (big == p) big = p - 2;
    if (how == "" || how == "ctor") return true;
    const ruint<K>* seq[3] = {nullptr, nullptr, nullptr};
    if (how == "reinitS") seq[0] = &other;
    else if (how == "reinitL") seq[0] = &big;
    else if (how == "same") seq[0] = &p;
    else if (how == "twice") { seq[0] = &other; seq[1] = &big; }
    else return false;
    for (int i = 0; i < 3 && seq[i]; ++i) {          // use the module under the earlier modulus, then leave it behind
        rmint<K, MGA>::init_module(*seq[i]); rmint<K, MGI>::init_module(*seq[i]);
        rmint<K, MGA> x(ruint<K>(5)), y(ruint<K>(3)); mul(x, x, y); rmint<K, MGI> u(ruint<K>(5)), w(ruint<K>(3)); mul(u, u, w);
    }
    return true;
}

// ------------------------------------------------------------------------------------ rmint<K, MG>
template <size_t K, size_t MG> struct RunM {
    typedef rmint<K, MG> E;
    static std::string elt(const E& a) { return hx(a.Value) + " " + hx(get_ruint(a)); }
    static E raw(const Args& a, size_t i) { E e; from_mpz(e.Value, a.at(i)); return e; }
    static bool go(const std::string& v, const ruint<K>& p, const Args& a, std::ostringstream& o) {
        using namespace RecInt;
        E::init_module(p);
        E r; garbage(r.Value);
        ruint<K> c0; if (a.size() > 0) from_mpz(c0, a[0]);
        if (false) {}
        // ---- constructors / conversions in
        V("ctor.ruint") { E x(c0); o << elt(x); }
        V("ctor.u64") { E x((uint64_t)a.at(0).get_ui()); o << elt(x); }
        V("ctor.u32") { E x((uint32_t)a.at(0).get_ui()); o << elt(x); }
        V("ctor.i64") { E x((int64_t)a.at(0).get_si()); o << elt(x); }
        V("ctor.i32") { E x((int32_t)a.at(0).get_si()); o << elt(x); }
        V("ctor.i16") { E x((int16_t)a.at(0).get_si()); o << elt(x); }
        V("ctor.u16") { E x((uint16_t)a.at(0).get_ui()); o << elt(x); }
        V("ctor.i8") { E x((signed char)a.at(0).get_si()); o << elt(x); }
        V("ctor.u8") { E x((unsigned char)a.at(0).get_ui()); o << elt(x); }
        V("ctor.ll") { E x((long long)a.at(0).get_si()); o << elt(x); }
        V("ctor.ull") { E x((unsigned long long)a.at(0).get_ui()); o << elt(x); }
        V("ctor.double") { E x((double)a.at(0).get_si()); o << elt(x); }
        V("ctor.rint") { RecInt::rint<K> s; from_mpz(s.Value, a.at(0)); E x(s); o << elt(x); }
        V("ctor.copy") { E y = raw(a, 0); E x(y); o << elt(x); }
        V("ctor.default") { E x; o << elt(x); }
        V("ctor.mpz") { mpz_class z(a.at(0)); mpz_to_rmint(r, z); o << elt(r); }
        V("assign.ruint") { r = c0; o << elt(r); }
        // ---- conversions out
        V("get.ruint") { E x = raw(a, 0); o << hx(get_ruint(x)); }
        V("get.u64") { E x = raw(a, 0); o << hx64((uint64_t)x); }
        V("get.mpz") { E x = raw(a, 0); mpz_class z; rmint_to_mpz(z, x); o << z.get_str(16); }
        V("get.reduction") { E x = raw(a, 0); reduction(r, x); o << hx(r.Value); }
        // ---- mul
        V("mul.abc") { mul(r, raw(a, 0), raw(a, 1)); o << elt(r); }
        V("mul.ab") { r = raw(a, 0); mul(r, raw(a, 1)); o << elt(r); }
        V("mul.op") { o << elt(raw(a, 0) * raw(a, 1)); }
        V("mul.opeq") { r = raw(a, 0); r *= raw(a, 1); o << elt(r); }
        V("mul.alias") { r = raw(a, 0); mul(r, r, r); o << elt(r); }
        V("mul.T") { mul(r, raw(a, 0), (uint64_t)a.at(1).get_ui()); o << elt(r); }
        V("mul.Tin") { r = raw(a, 0); mul(r, (uint64_t)a.at(1).get_ui()); o << elt(r); }
        V("mul.Ti") { mul(r, raw(a, 0), (int64_t)a.at(1).get_si()); o << elt(r); }
        V("mul.Tiin") { r = raw(a, 0); mul(r, (int64_t)a.at(1).get_si()); o << elt(r); }
        V("mul.opTi") { o << elt(raw(a, 0) * (int)a.at(1).get_si()); }
        V("mul.opTil") { o << elt((long)a.at(1).get_si() * raw(a, 0)); }
        V("add.Ti") { add(r, raw(a, 0), (int64_t)a.at(1).get_si()); o << elt(r); }
        V("add.opTi") { r = raw(a, 0); r += (int)a.at(1).get_si(); o << elt(r); }
        V("sub.Ti") { sub(r, raw(a, 0), (int64_t)a.at(1).get_si()); o << elt(r); }
        V("sub.Timinus") { o << elt((int64_t)a.at(1).get_si() - raw(a, 0)); }
        V("div.Ti") { div(r, raw(a, 0), (int64_t)a.at(1).get_si()); o << elt(r); }
        V("addmul.Ti") { r = raw(a, 0); addmul(r, raw(a, 1), (int64_t)a.at(2).get_si()); o << elt(r); }
        V("inv.Ti") { inv(r, (int64_t)a.at(0).get_si()); o << elt(r); }
        V("square.ab") { square(r, raw(a, 0)); o << elt(r); }
        V("square.a") { r = raw(a, 0); square(r); o << elt(r); }
        // ---- add / sub / neg
        V("add.abc") { add(r, raw(a, 0), raw(a, 1)); o << elt(r); }
        V("add.ab") { r = raw(a, 0); add(r, raw(a, 1)); o << elt(r); }
        V("add.op") { o << elt(raw(a, 0) + raw(a, 1)); }
        V("add.opeq") { r = raw(a, 0); r += raw(a, 1); o << elt(r); }
        V("add.T") { add(r, raw(a, 0), (uint64_t)a.at(1).get_ui()); o << elt(r); }
        V("add.inc") { r = raw(a, 0); ++r; o << elt(r); }
        V("sub.abc") { sub(r, raw(a, 0), raw(a, 1)); o << elt(r); }
        V("sub.ab") { r = raw(a, 0); sub(r, raw(a, 1)); o << elt(r); }
        V("sub.op") { o << elt(raw(a, 0) - raw(a, 1)); }
        V("sub.opeq") { r = raw(a, 0); r -= raw(a, 1); o << elt(r); }
        V("sub.T") { sub(r, raw(a, 0), (uint64_t)a.at(1).get_ui()); o << elt(r); }
        V("sub.Tminus") { o << elt((uint64_t)a.at(1).get_ui() - raw(a, 0)); }
        V("sub.dec") { r = raw(a, 0); --r; o << elt(r); }
        V("neg.ab") { neg(r, raw(a, 0)); o << elt(r); }
        V("neg.a") { r = raw(a, 0); neg(r); o << elt(r); }
        V("neg.op") { o << elt(-raw(a, 0)); }
        // ---- inv / div
        V("inv.ab") { inv(r, raw(a, 0)); o << elt(r); }
        V("inv.a") { r = raw(a, 0); inv(r); o << elt(r); }
        V("inv.T") { inv(r, (uint64_t)a.at(0).get_ui()); o << elt(r); }
        V("div.abc") { div(r, raw(a, 0), raw(a, 1)); o << elt(r); }
        V("div.ab") { r = raw(a, 0); div(r, raw(a, 1)); o << elt(r); }
        V("div.op") { o << elt(raw(a, 0) / raw(a, 1)); }
        V("div.opeq") { r = raw(a, 0); r /= raw(a, 1); o << elt(r); }
        // ---- fused, exponentiation, comparison
        V("addmul.abc") { r = raw(a, 0); addmul(r, raw(a, 1), raw(a, 2)); o << elt(r); }
        V("exp.u64") { UDItype e = (UDItype)a.at(1).get_ui(); exp(r, raw(a, 0), e); o << elt(r); }
        V("exp.ruint") { ruint<K> e; from_mpz(e, a.at(1)); exp(r, raw(a, 0), e); o << elt(r); }
        V("eq") { o << (raw(a, 0) == raw(a, 1)) << " " << (raw(a, 0) != raw(a, 1)); }
        V("eq.ruint") { ruint<K> c1; from_mpz(c1, a.at(1)); o << (raw(a, 0) == c1) << " " << (raw(a, 0) != c1); }
        else return false;
        return true;
    }
};

template <size_t K> struct RunK {
    static bool go(const std::string& v0, const Args& all, std::ostringstream& o) {
        using namespace RecInt;
        ruint<K> p; from_mpz(p, all.at(0));
        Args a(all.begin() + 1, all.end());
        std::string how, v = v0;
        if (!v.empty() && v[0] == '@') { size_t c = v.find(':'); how = v.substr(1, c - 1); v = v.substr(c + 1); }
        if (v.compare(0, 2, "R.") != 0 && !reinit<K>(how, p)) return false;
        if (v.compare(0, 2, "A.") == 0) {
            if (v == "A.module") {
                rmint<K, MGA>::init_module(p); ruint<K> q; rmint<K, MGA>::get_module(q);
                o << hx(q) << " " << hx(rmint<K, MGA>::p1) << " " << hx(rmint<K, MGA>::r); return true;
            }
            if (v == "A.ctor.mgi") {      // rmint<K,MGA>(const rmint<K,MGI>&)
                rmint<K, MGA>::init_module(p); rmint<K, MGI>::init_module(p);
                rmint<K, MGI> y; from_mpz(y.Value, a.at(0)); rmint<K, MGA> x(y);
                o << hx(x.Value) << " " << hx(get_ruint(x)); return true;
            }
            return RunM<K, MGA>::go(v.substr(2), p, a, o);
        }
        if (v.compare(0, 2, "I.") == 0) {
            if (v == "I.module") {
                rmint<K, MGI>::init_module(p); ruint<K> q; rmint<K, MGI>::get_module(q); o << hx(q); return true;
            }
            if (v == "I.ctor.mga") {      // rmint<K,MGI>(const rmint<K,MGA>&)
                rmint<K, MGA>::init_module(p); rmint<K, MGI>::init_module(p);
                rmint<K, MGA> y; from_mpz(y.Value, a.at(0)); rmint<K, MGI> x(y);
                o << hx(x.Value) << " " << hx(get_ruint(x)); return true;
            }
            return RunM<K, MGI>::go(v.substr(2), p, a, o);
        }
        if (v.compare(0, 2, "R.") != 0) return false;
        // ---------------------------------------------------------------- Givaro::Montgomery<ruint<K>>
        typedef OpenR<K> F_t;
        typedef ruint<K> E;
        std::unique_ptr<F_t> FP(obtainR<K>(how, p));
        if (!FP) return false;
        F_t& F = *FP;
        E r; garbage(r);
        E x, y, z;
        if (a.size() > 0) from_mpz(x, a[0]);
        if (a.size() > 1) from_mpz(y, a[1]);
        if (a.size() > 2) from_mpz(z, a[2]);
        bool haveElt = true;
        if (false) {}
        else if (v.compare(0, 8, "R.vsmod.") == 0) {
            // the library's NON-Montgomery ring of the same element type, same residues x, y, z in [0,p), same operation, both converted out
            typedef Givaro::Modular<ruint<K>, ruint<K+1>> Plain;
            // the plain ring's documented precondition (modular-implem.h: "ruint<K> | ruint<K+1> | 2^(2^K-1); because addition is done over ruint<K>")
            if (p > Plain::maxCardinality()) { o << "NA"; return true; }
            Plain Z(p); const std::string op = v.substr(8);
            E a, b, c, A, B, C, R; F.init(a, x); F.init(b, y); F.init(c, z); r = c; Z.init(A, x); Z.init(B, y); Z.init(C, z); R = C;
            bool flag = false; bool mf = false, pf = false;
            if (op == "add") { F.add(r, a, b); Z.add(R, A, B); }
            else if (op == "sub") { F.sub(r, a, b); Z.sub(R, A, B); }
            else if (op == "mul") { F.mul(r, a, b); Z.mul(R, A, B); }
            else if (op == "neg") { F.neg(r, a); Z.neg(R, A); }
            else if (op == "inv") { F.inv(r, a); Z.inv(R, A); }
            else if (op == "div") { F.div(r, a, b); Z.div(R, A, B); }
            else if (op == "addin") { r = a; R = A; F.addin(r, b); Z.addin(R, B); }
            else if (op == "subin") { r = a; R = A; F.subin(r, b); Z.subin(R, B); }
            else if (op == "mulin") { r = a; R = A; F.mulin(r, b); Z.mulin(R, B); }
            else if (op == "negin") { r = a; R = A; F.negin(r); Z.negin(R); }
            else if (op == "invin") { r = a; R = A; F.invin(r); Z.invin(R); }
            else if (op == "divin") { r = a; R = A; F.divin(r, b); Z.divin(R, B); }
            else if (op == "axpy") { F.axpy(r, a, b, c); Z.axpy(R, A, B, C); }
            else if (op == "axmy") { F.axmy(r, a, b, c); Z.axmy(R, A, B, C); }
            else if (op == "maxpy") { F.maxpy(r, a, b, c); Z.maxpy(R, A, B, C); }
            else if (op == "axpyin") { F.axpyin(r, a, b); Z.axpyin(R, A, B); }
            else if (op == "axmyin") { F.axmyin(r, a, b); Z.axmyin(R, A, B); }
            else if (op == "maxpyin") { F.maxpyin(r, a, b); Z.maxpyin(R, A, B); }
            else if (op == "isZero") { F.mul(r, a, b); Z.mul(R, A, B); flag = true; mf = F.isZero(r); pf = Z.isZero(R); }
            else if (op == "areEqual") { F.add(r, a, b); Z.add(R, A, B); flag = true; mf = F.areEqual(r, c); pf = Z.areEqual(R, C); }
            else if (op == "isUnit") { flag = true; mf = F.isUnit(a); pf = Z.isUnit(A); }
            else return false;
            if (flag) o << mf << " " << pf; else { E t, u; o << hx(F.convert(t, r)) << " " << hx(Z.convert(u, R)); }
            haveElt = false;
        }
        V("R.ctor.p") { o << F.fields(); haveElt = false; }
        V("R.ctor.copy") { F_t G(F); o << G.fields(); haveElt = false; }
        V("R.ctor.assign") { F_t G(ruint<K>(3)); G = F; o << G.fields(); haveElt = false; }
        V("R.assign.mul") {           // a ring assigned from another one must compute like it
            F_t G(ruint<K>(3)); G = F; G.mul(r, x, y); E t; G.convert(t, r); o << hx(r) << " " << hx(t); haveElt = false;
        }
        V("R.assign.use") {           // init, inv, mul, add, convert on a ring that was ASSIGNED from F
            F_t G(ruint<K>(5)); G = F; E u, w, t; G.init(u, x); G.inv(w, u); G.mulin(w, u); G.addin(w, u); G.convert(t, w);
            G.inv(r, y); E t2; G.convert(t2, r); o << hx(w) << " " << hx(t) << " " << hx(r) << " " << hx(t2); haveElt = false;
        }
        V("R.copy.use") {             // the same on a COPY of F
            F_t G(F); E u, w, t; G.init(u, x); G.inv(w, u); G.mulin(w, u); G.addin(w, u); G.convert(t, w);
            G.inv(r, y); E t2; G.convert(t2, r); o << hx(w) << " " << hx(t) << " " << hx(r) << " " << hx(t2); haveElt = false;
        }
        V("R.reduc") { o << hx(F.x_reduc(x)); haveElt = false; }
        V("R.to_mg") { r = F.x_to_mg(x); }
        V("R.to_mg.in") { r = F.x_to_mg_in(x); }
        V("R.mul") F.mul(r, x, y);
        V("R.mulin") { r = x; F.mulin(r, y); }
        V("R.add") F.add(r, x, y);
        V("R.addin") { r = x; F.addin(r, y); }
        V("R.sub") F.sub(r, x, y);
        V("R.subin") { r = x; F.subin(r, y); }
        V("R.neg") F.neg(r, x);
        V("R.negin") { r = x; F.negin(r); }
        V("R.inv") F.inv(r, x);
        V("R.invin") { r = x; F.invin(r); }
        V("R.div") F.div(r, x, y);
        V("R.divin") { r = x; F.divin(r, y); }
        V("R.axpy") F.axpy(r, x, y, z);
        V("R.axpyin") { r = x; F.axpyin(r, y, z); }
        V("R.axmy") F.axmy(r, x, y, z);
        V("R.axmyin") { r = x; F.axmyin(r, y, z); }
        V("R.maxpy") F.maxpy(r, x, y, z);
        V("R.maxpyin") { r = x; F.maxpyin(r, y, z); }
        V("R.init.none") { F.init(r); }
        V("R.init.ruint") F.init(r, x);
        V("R.init.u64") F.init(r, (uint64_t)a.at(0).get_ui());
        V("R.init.i64") F.init(r, (int64_t)a.at(0).get_si());
        V("R.init.u32") F.init(r, (uint32_t)a.at(0).get_ui());
        V("R.init.i32") F.init(r, (int32_t)a.at(0).get_si());
        V("R.init.double") F.init(r, (double)a.at(0).get_d());
        V("R.init.float") F.init(r, (float)a.at(0).get_d());
        V("R.init.u16") F.init(r, (uint16_t)a.at(0).get_ui());
        V("R.init.i16") F.init(r, (int16_t)a.at(0).get_si());
        V("R.init.ull") F.init(r, (unsigned long long)a.at(0).get_ui());
        V("R.init.ll") F.init(r, (long long)a.at(0).get_si());
        V("R.convert.u32") { uint32_t t; o << hx64(F.convert(t, x)); haveElt = false; }
        V("R.convert.i64") { int64_t t; o << hx64((uint64_t)F.convert(t, x)); haveElt = false; }
        V("R.convert.double") { double t; o << hx64((uint64_t)F.convert(t, x)); haveElt = false; }
        V("R.init.integer") { Givaro::Integer I(a.at(0).get_str(10).c_str()); F.init(r, I); }
        V("R.read") { std::istringstream is(a.at(0).get_str(10)); F.read(is, r); }
        V("R.convert.ruint") { E t; garbage(t); o << hx(F.convert(t, x)); haveElt = false; }
        V("R.convert.u64") { uint64_t t; o << hx64(F.convert(t, x)); haveElt = false; }
        V("R.convert.integer") { Givaro::Integer t; F.convert(t, x); std::ostringstream s; s << t; mpz_class zz(s.str()); o << zz.get_str(16); haveElt = false; }
        V("R.write") { std::ostringstream s; F.write(s, x); mpz_class zz(s.str()); o << zz.get_str(16); haveElt = false; }
        V("R.isUnit") { o << F.isUnit(x); haveElt = false; }
        V("R.isZero") { o << F.isZero(x); haveElt = false; }
        V("R.isOne") { o << F.isOne(x); haveElt = false; }
        V("R.isMOne") { o << F.isMOne(x); haveElt = false; }
        V("R.areEqual") { o << F.areEqual(x, y); haveElt = false; }
        else return false;
        if (haveElt) { E t; garbage(t); o << hx(r) << " " << hx(F.convert(t, r)); }
        return true;
    }
};

int main() {
    std::ios::sync_with_stdio(false);
    std::string line;
    signal(SIGPROF, on_prof);
    const long budget = getenv("C07_CPU_BUDGET") ? atol(getenv("C07_CPU_BUDGET")) : 120;
    while (std::getline(std::cin, line)) {
        std::istringstream in(line);
        std::string v; int K;
        if (!(in >> v >> K)) continue;
        arm(budget);
        Args a; std::string t;
        while (in >> t) { mpz_class z; z.set_str(t, 0); a.push_back(z); }
        std::ostringstream o; bool ok = false;
        switch (K) {
            case 6: ok = RunK<6>::go(v, a, o); break;
            case 7: ok = RunK<7>::go(v, a, o); break;
            case 8: ok = RunK<8>::go(v, a, o); break;
            case 9: ok = RunK<9>::go(v, a, o); break;
            default: break;
        }
        arm(0);
        if (!ok) std::cout << "UNKNOWN-VARIANT\n" << std::flush; else std::cout << o.str() << "\n" << std::flush;
    }
    return 0;
}
