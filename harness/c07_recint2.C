// C07 implementation driver, part 2b (phase 3): the call forms harness/c07_recint.C does not drive, K = 6..10
// (K = 10 is the first size whose lmul goes through lmul_kara: __RECINT_THRESHOLD_KARA, printed by --params):
//   * every three-address operation of rmint<K,MG> and of Givaro::Montgomery<ruint<K>> with the destination being
//     the same object as the first / second / both operands (sub.aab = sub(a,a,c), sub.aba = sub(a,b,a), ...),
//   * the double-width reductions called directly: reduction(rmint<K,MGA>&, const ruint<K+1>&) and
//     Montgomery<ruint<K>>::mg_reduc(Element&, const LargeElement&)  (inputs solved for by the check so that each
//     carry of the recursive laddmul fires),
//   * exp with every unsigned native exponent type, in-place exp,
//   * multi-step sequences on one object (every intermediate stored value is printed),
//   * zero tests on products (a second representation of zero is visible only there),
//   * the basic forms once more so that K = 10 gets them.
// Same line protocol as c07_recint.C:  <fam>.<op> <K> <p> <args...>  ->  one line of hex tokens; elements are RAW stored values.
#include <iostream>
#include <sstream>
#include <string>
#include <vector>
#include <cstring>
#include <cstdint>
#include <gmp.h>
#include <gmpxx.h>
#include <recint/recint.h>
#include "givinteger.h"
#include "montgomery-ruint.h"
#include "modular.h"
#include <signal.h>
#include <sys/time.h>
#include <unistd.h>

using RecInt::ruint;
using RecInt::rmint;
using RecInt::limb;
typedef std::vector<mpz_class> Args;

template <size_t K> static void from_mpz(ruint<K>& x, const mpz_class& zz) {
    const size_t n = RecInt::NBLIMB<K>::value;
    mpz_srcptr z = zz.get_mpz_t();
    limb* p = reinterpret_cast<limb*>(&x);
    for (size_t i = 0; i < n; ++i) p[i] = (i < mpz_size(z)) ? mpz_getlimbn(z, i) : 0;
    if (mpz_sgn(z) < 0) {
        limb c = 1;
        for (size_t i = 0; i < n; ++i) { p[i] = ~p[i] + c; c = (c && p[i] == 0); }
    }
}
template <size_t K> static std::string hx(const ruint<K>& x) {
    const size_t n = RecInt::NBLIMB<K>::value;
    const limb* p = reinterpret_cast<const limb*>(&x);
    mpz_t z; mpz_init(z);
    mpz_import(z, n, -1, sizeof(limb), 0, 0, p);
    char* s = mpz_get_str(NULL, 16, z);
    std::string r(s); free(s); mpz_clear(z);
    return r;
}
template <size_t K> static void garbage(ruint<K>& x) { memset(static_cast<void*>(&x), 0xA5, sizeof(x)); }

template <size_t K> struct OpenR : public Givaro::Montgomery<ruint<K>> {
    typedef Givaro::Montgomery<ruint<K>> Base;
    OpenR(const ruint<K>& p) : Base(p) {}
    std::string fields() const {
        return hx(this->_p1) + " " + hx(this->_r) + " " + hx(this->_r2) + " " + hx(this->_r3) + " " + hx(this->one) + " " +
               hx(this->mOne) + " " + hx(this->zero) + " " + hx(this->_p) + " " + hx(this->residu()) + " " + hx(this->characteristic()) +
               " " + hx(this->cardinality());
    }
    ruint<K> x_reduc_wide(const ruint<K+1>& b) const { ruint<K> a; garbage(a); this->mg_reduc(a, b); return a; }
};

#define V(name) else if (v == name)

// per-request CPU-time watchdog (load-independent): see harness/c07_montgomery.C
static void on_prof(int) { const char m[] = "WATCHDOG does-not-return\n"; ssize_t r = write(1, m, sizeof(m) - 1); (void)r; _exit(75); }
static void arm(long sec) { struct itimerval it; it.it_interval.tv_sec = 0; it.it_interval.tv_usec = 0; it.it_value.tv_sec = sec; it.it_value.tv_usec = 0; setitimer(ITIMER_PROF, &it, 0); }

template <size_t K, size_t MG> struct RunM {
    typedef rmint<K, MG> E;
    static std::string elt(const E& a) { return hx(a.Value) + " " + hx(get_ruint(a)); }
    static E raw(const Args& a, size_t i) { E e; from_mpz(e.Value, a.at(i)); return e; }
    static bool go(const std::string& v, const ruint<K>& p, const Args& a, std::ostringstream& o) {
        using namespace RecInt;
        E::init_module(p);
        E r; garbage(r.Value);
        if (false) {}
        // ---- destination aliases an operand
        V("sub.aab") { r = raw(a, 0); sub(r, r, raw(a, 1)); o << elt(r); }
        V("sub.aba") { r = raw(a, 1); sub(r, raw(a, 0), r); o << elt(r); }
        V("sub.aaa") { r = raw(a, 0); sub(r, r, r); o << elt(r); }
        V("sub.aaT") { r = raw(a, 0); sub(r, r, (uint64_t)a.at(1).get_ui()); o << elt(r); }
        V("add.aab") { r = raw(a, 0); add(r, r, raw(a, 1)); o << elt(r); }
        V("add.aba") { r = raw(a, 1); add(r, raw(a, 0), r); o << elt(r); }
        V("add.aaa") { r = raw(a, 0); add(r, r, r); o << elt(r); }
        V("add.aaT") { r = raw(a, 0); add(r, r, (uint64_t)a.at(1).get_ui()); o << elt(r); }
        V("mul.aab") { r = raw(a, 0); mul(r, r, raw(a, 1)); o << elt(r); }
        V("mul.aba") { r = raw(a, 1); mul(r, raw(a, 0), r); o << elt(r); }
        V("mul.aaT") { r = raw(a, 0); mul(r, r, (uint64_t)a.at(1).get_ui()); o << elt(r); }
        V("div.aab") { r = raw(a, 0); div(r, r, raw(a, 1)); o << elt(r); }
        V("div.aba") { r = raw(a, 1); div(r, raw(a, 0), r); o << elt(r); }
        V("div.aaa") { r = raw(a, 0); div(r, r, r); o << elt(r); }
        V("neg.aa") { r = raw(a, 0); neg(r, r); o << elt(r); }
        V("inv.aa") { r = raw(a, 0); inv(r, r); o << elt(r); }
        V("square.aa") { r = raw(a, 0); square(r, r); o << elt(r); }
        V("addmul.aab") { r = raw(a, 0); addmul(r, r, raw(a, 1)); o << elt(r); }
        V("addmul.aba") { r = raw(a, 0); addmul(r, raw(a, 1), r); o << elt(r); }
        V("addmul.aaa") { r = raw(a, 0); addmul(r, r, r); o << elt(r); }
        V("exp.aa.u64") { r = raw(a, 0); UDItype e = (UDItype)a.at(1).get_ui(); exp(r, r, e); o << elt(r); }
        V("exp.aa.ruint") { r = raw(a, 0); ruint<K> e; from_mpz(e, a.at(1)); exp(r, r, e); o << elt(r); }
        // ---- exponent of every unsigned native type
        V("exp.u32") { exp(r, raw(a, 0), (uint32_t)a.at(1).get_ui()); o << elt(r); }
        V("exp.u16") { exp(r, raw(a, 0), (uint16_t)a.at(1).get_ui()); o << elt(r); }
        V("exp.u8") { exp(r, raw(a, 0), (unsigned char)a.at(1).get_ui()); o << elt(r); }
        V("exp.ull") { exp(r, raw(a, 0), (unsigned long long)a.at(1).get_ui()); o << elt(r); }
        // ---- zero tests on a product (a non-canonical zero shows only here), all comparison forms
        V("mul.iszero") { mul(r, raw(a, 0), raw(a, 1)); E z0; E z1(ruint<K>(0)); ruint<K> w0(0);
                          o << hx(r.Value) << " " << (r == 0) << (r != 0) << (r == z0) << (r != z0) << (r == z1) << (r == w0) << (r != w0) << (0 == r); }
        // ---- a sequence of operations on ONE object; every intermediate stored value is printed
        V("seq.ring") {
            E x = raw(a, 0), y = raw(a, 1), z = raw(a, 2);
            r = x; r *= y; o << hx(r.Value) << " ";
            r += z; o << hx(r.Value) << " ";
            r -= x; o << hx(r.Value) << " ";
            square(r); o << hx(r.Value) << " ";
            neg(r); o << hx(r.Value) << " ";
            mul(r, r, y); o << hx(r.Value) << " ";
            sub(r, z, r); o << hx(r.Value) << " ";
            addmul(r, x, y); o << hx(r.Value) << " ";
            ++r; o << hx(r.Value) << " ";
            r = r - r; o << hx(r.Value) << " ";
            r -= z; o << elt(r);
        }
        // ---- the basic forms (for K = 10)
        V("ctor.ruint") { ruint<K> c0; from_mpz(c0, a.at(0)); E x(c0); o << elt(x); }
        V("get.ruint") { E x = raw(a, 0); o << hx(get_ruint(x)); }
        V("mul.abc") { mul(r, raw(a, 0), raw(a, 1)); o << elt(r); }
        V("square.ab") { square(r, raw(a, 0)); o << elt(r); }
        V("add.abc") { add(r, raw(a, 0), raw(a, 1)); o << elt(r); }
        V("sub.abc") { sub(r, raw(a, 0), raw(a, 1)); o << elt(r); }
        V("sub.ab") { r = raw(a, 0); sub(r, raw(a, 1)); o << elt(r); }
        V("neg.ab") { neg(r, raw(a, 0)); o << elt(r); }
        V("inv.ab") { inv(r, raw(a, 0)); o << elt(r); }
        V("div.abc") { div(r, raw(a, 0), raw(a, 1)); o << elt(r); }
        V("addmul.abc") { r = raw(a, 0); addmul(r, raw(a, 1), raw(a, 2)); o << elt(r); }
        V("exp.u64") { UDItype e = (UDItype)a.at(1).get_ui(); exp(r, raw(a, 0), e); o << elt(r); }
        V("exp.ruint") { ruint<K> e; from_mpz(e, a.at(1)); exp(r, raw(a, 0), e); o << elt(r); }
        else return false;
        return true;
    }
};

template <size_t K> struct RunK {
    static bool go(const std::string& v, const Args& all, std::ostringstream& o) {
        using namespace RecInt;
        ruint<K> p; from_mpz(p, all.at(0));
        Args a(all.begin() + 1, all.end());
        if (v.compare(0, 2, "A.") == 0) {
            if (v == "A.module") {
                rmint<K, MGA>::init_module(p); ruint<K> q; rmint<K, MGA>::get_module(q);
                o << hx(q) << " " << hx(rmint<K, MGA>::p1) << " " << hx(rmint<K, MGA>::r); return true;
            }
            if (v == "A.reduction.wide") {          // reduction(rmint<K,MGA>&, const ruint<K+1>&) on a caller-supplied double word
                rmint<K, MGA>::init_module(p); rmint<K, MGA> t; garbage(t.Value);
                ruint<K+1> w; from_mpz(w, a.at(0)); reduction(t, w); o << hx(t.Value); return true;
            }
            if (v == "A.reduction.narrow") {        // reduction(rmint<K,MGA>&, const ruint<K>&), then in place (&a == &t.Value)
                rmint<K, MGA>::init_module(p); rmint<K, MGA> t, u; garbage(t.Value);
                ruint<K> w; from_mpz(w, a.at(0)); reduction(t, w); u.Value = w; reduction(u);
                o << hx(t.Value) << " " << hx(u.Value); return true;
            }
            return RunM<K, MGA>::go(v.substr(2), p, a, o);
        }
        if (v.compare(0, 2, "I.") == 0) {
            if (v == "I.module") { rmint<K, MGI>::init_module(p); ruint<K> q; rmint<K, MGI>::get_module(q); o << hx(q); return true; }
            return RunM<K, MGI>::go(v.substr(2), p, a, o);
        }
        if (v.compare(0, 2, "R.") != 0) return false;
        typedef OpenR<K> F_t;
        typedef ruint<K> E;
        F_t F(p);
        E r; garbage(r);
        E x, y, z;
        if (a.size() > 0) from_mpz(x, a[0]);
        if (a.size() > 1) from_mpz(y, a[1]);
        if (a.size() > 2) from_mpz(z, a[2]);
        bool haveElt = true;
        if (false) {}
        V("R.ctor.p") { o << F.fields(); haveElt = false; }
        V("R.reduc.wide") { ruint<K+1> w; from_mpz(w, a.at(0)); o << hx(F.x_reduc_wide(w)); haveElt = false; }
        // destination aliases an operand
        V("R.mul.rry") { r = x; F.mul(r, r, y); }
        V("R.mul.rxr") { r = y; F.mul(r, x, r); }
        V("R.mul.rrr") { r = x; F.mul(r, r, r); }
        V("R.add.rry") { r = x; F.add(r, r, y); }
        V("R.add.rxr") { r = y; F.add(r, x, r); }
        V("R.add.rrr") { r = x; F.add(r, r, r); }
        V("R.sub.rry") { r = x; F.sub(r, r, y); }
        V("R.sub.rxr") { r = y; F.sub(r, x, r); }
        V("R.sub.rrr") { r = x; F.sub(r, r, r); }
        V("R.div.rry") { r = x; F.div(r, r, y); }
        V("R.div.rxr") { r = y; F.div(r, x, r); }
        V("R.neg.rr") { r = x; F.neg(r, r); }
        V("R.inv.rr") { r = x; F.inv(r, r); }
        V("R.mulin.rr") { r = x; F.mulin(r, r); }
        V("R.addin.rr") { r = x; F.addin(r, r); }
        V("R.subin.rr") { r = x; F.subin(r, r); }
        V("R.axpy.r1") { r = x; F.axpy(r, r, y, z); }
        V("R.axpy.r2") { r = y; F.axpy(r, x, r, z); }
        V("R.axpy.r3") { r = z; F.axpy(r, x, y, r); }
        V("R.axmy.r1") { r = x; F.axmy(r, r, y, z); }
        V("R.axmy.r2") { r = y; F.axmy(r, x, r, z); }
        V("R.axmy.r3") { r = z; F.axmy(r, x, y, r); }
        V("R.maxpy.r1") { r = x; F.maxpy(r, r, y, z); }
        V("R.maxpy.r2") { r = y; F.maxpy(r, x, r, z); }
        V("R.maxpy.r3") { r = z; F.maxpy(r, x, y, r); }
        V("R.axpyin.r1") { r = x; F.axpyin(r, r, z); }          // r += r*z
        V("R.axmyin.r1") { r = x; F.axmyin(r, r, z); }          // r = r*z - r
        V("R.maxpyin.r1") { r = x; F.maxpyin(r, r, z); }        // r -= r*z
        V("R.seq.ring") {
            r = x; F.mulin(r, y); o << hx(r) << " ";
            F.addin(r, z); o << hx(r) << " ";
            F.subin(r, x); o << hx(r) << " ";
            F.mul(r, r, r); o << hx(r) << " ";
            F.negin(r); o << hx(r) << " ";
            F.axpyin(r, x, y); o << hx(r) << " ";
            F.sub(r, z, r); o << hx(r) << " ";
            F.maxpyin(r, y, z); o << hx(r) << " ";
            F.axmyin(r, x, z); o << hx(r) << " ";
            F.sub(r, r, r); o << hx(r) << " ";
            F.subin(r, z);
        }
        V("R.mul.iszero") { F.mul(r, x, y); o << hx(r) << " " << F.isZero(r) << F.areEqual(r, F.zero) << (r == 0); haveElt = false; }
        // the basic forms (for K = 10)
        V("R.mul") F.mul(r, x, y);
        V("R.add") F.add(r, x, y);
        V("R.sub") F.sub(r, x, y);
        V("R.neg") F.neg(r, x);
        V("R.inv") F.inv(r, x);
        V("R.div") F.div(r, x, y);
        V("R.axpy") F.axpy(r, x, y, z);
        V("R.axmy") F.axmy(r, x, y, z);
        V("R.maxpy") F.maxpy(r, x, y, z);
        V("R.init.ruint") F.init(r, x);
        V("R.convert.ruint") { E t; garbage(t); o << hx(F.convert(t, x)); haveElt = false; }
        else return false;
        if (haveElt) { E t; garbage(t); o << hx(r) << " " << hx(F.convert(t, r)); }
        return true;
    }
};

int main(int argc, char** argv) {
    std::ios::sync_with_stdio(false);
    if (argc > 1 && std::string(argv[1]) == "--params") {      // constants of the code the check's generators depend on
        std::cout << "THRESHOLD_KARA " << __RECINT_THRESHOLD_KARA << "\nLIMB_SIZE " << __RECINT_LIMB_SIZE
                  << "\nLIMB_BITS " << __RECINT_LIMB_BITS << "\nMAXSIZE " << 11 << "\n";
        return 0;
    }
    std::string line;
    signal(SIGPROF, on_prof);
    const long budget = getenv("C07_CPU_BUDGET") ? atol(getenv("C07_CPU_BUDGET")) : 120;
    while (std::getline(std::cin, line)) {
        std::istringstream in(line);
        std::string v; int K;
        if (!(in >> v >> K)) continue;
        arm(budget);
        Args a; std::string t;
        while (in >> t) { mpz_class z; z.set_str(t, 0); a.push_back(z); }
        std::ostringstream o; bool ok = false;
        switch (K) {
            case 6: ok = RunK<6>::go(v, a, o); break;
            case 7: ok = RunK<7>::go(v, a, o); break;
            case 8: ok = RunK<8>::go(v, a, o); break;
            case 9: ok = RunK<9>::go(v, a, o); break;
            case 10: ok = RunK<10>::go(v, a, o); break;
            default: break;
        }
        arm(0);
        if (!ok) std::cout << "UNKNOWN-VARIANT\n" << std::flush; else std::cout << o.str() << "\n" << std::flush;
    }
    return 0;
}
