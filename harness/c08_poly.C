// C08 harness: runs Poly1Dom<Modular<int32_t>,Dense> operations of /repo's current headers on cases from stdin.
// line:   <variant> <p> <kthr> <sthr> <args...>     polynomial arg: c0,c1,..,cn or '-' (empty); scalar: integer
// output: result tokens in the same syntax.  kthr/sthr are informational: the thresholds are compile-time
// (KARA_THRESHOLD / SQR_THRESHOLD, possibly overridden with -D by the check); they are printed in the "#thr" line.
#include <iostream>
#include <sstream>
#include <string>
#include <vector>
#include <map>
#include <cstdlib>
#include "modular.h"
#include "givpoly1.h"

using namespace Givaro;
typedef Modular<int32_t> Field;
typedef Poly1Dom<Field, Dense> PolDom;
typedef PolDom::Element Poly;
typedef Field::Element Elt;

static Poly parse_poly(const Field& F, const std::string& s) {
    Poly P;
    if (s == "-") return P;
    std::istringstream is(s); std::string t;
    while (std::getline(is, t, ',')) { Elt e; F.init(e, (int64_t)atoll(t.c_str())); P.push_back(e); }
    return P;
}
static std::string sp(const Poly& P) {
    if (P.empty()) return "-";
    std::ostringstream o;
    for (size_t i = 0; i < P.size(); ++i) { if (i) o << ","; o << (long)P[i]; }
    return o.str();
}
static std::string run(const PolDom& D, const Field& F, const std::string& v, const std::vector<std::string>& a) {
    std::ostringstream o;
    // destinations start from a non-empty junk value so that every resize branch is exercised
    Poly R, R2, R3; R.assign(3, F.one); R2.assign(5, F.one); R3.assign(2, F.one);
    auto P = [&](size_t i) { return parse_poly(F, a.at(i)); };
    auto S = [&](size_t i) { Elt e; F.init(e, (int64_t)atoll(a.at(i).c_str())); return e; };
    Elt e, m; F.init(e); F.init(m);
    // ---- misc
    if (v == "setdegree") { Poly A = P(0); o << sp(D.setdegree(A)); }
    else if (v == "setDegree") { Poly A = P(0); D.setDegree(A); o << sp(A); }
    else if (v == "degree.d") { Poly A = P(0); Degree d; D.degree(d, A); o << d.value(); }
    else if (v == "degree.v") { Poly A = P(0); o << D.degree(A).value(); }
    else if (v == "leadcoef") { Poly A = P(0); o << (long)D.leadcoef(e, A); }
    else if (v == "isZero") { Poly A = P(0); o << (D.isZero(A) ? 1 : 0); }
    else if (v == "areEqual") { Poly A = P(0), B = P(1); o << (D.areEqual(A, B) ? 1 : 0); }
    else if (v == "areNEqual") { Poly A = P(0), B = P(1); o << (D.areNEqual(A, B) ? 0 : 1); }
    else if (v == "assign") { Poly A = P(0); o << sp(D.assign(R, A)); }
    else if (v == "monomial") { o << sp(D.assign(R, Degree(atol(a.at(0).c_str())), S(1))); }
    else if (v == "monomial.init") { o << sp(D.init(R, Degree(atol(a.at(0).c_str())), (int64_t)atoll(a.at(1).c_str()))); }
    else if (v == "eval") { Poly A = P(0); o << (long)D.eval(e, A, S(1)); }
    else if (v == "diff") { Poly A = P(0); o << sp(D.diff(R, A)); }
    else if (v == "reverse") { Poly A = P(0); o << sp(D.reverse(R, A)); }
    else if (v == "reversein") { Poly A = P(0); o << sp(D.reversein(A)); }
    // ---- add / sub / neg
    else if (v == "add.rpq") { Poly A = P(0), B = P(1); o << sp(D.add(R, A, B)); }
    else if (v == "add.alias") { Poly A = P(0), B = P(1); o << sp(D.add(A, A, B)); }
    else if (v == "addin") { Poly A = P(0), B = P(1); o << sp(D.addin(A, B)); }
    else if (v == "add.rps") { Poly A = P(0); o << sp(D.add(R, A, S(1))); }
    else if (v == "add.rsp") { Poly A = P(0); o << sp(D.add(R, S(1), A)); }
    else if (v == "addin.s") { Poly A = P(0); o << sp(D.addin(A, S(1))); }
    else if (v == "sub.rpq") { Poly A = P(0), B = P(1); o << sp(D.sub(R, A, B)); }
    else if (v == "subin") { Poly A = P(0), B = P(1); o << sp(D.subin(A, B)); }
    else if (v == "sub.rps") { Poly A = P(0); o << sp(D.sub(R, A, S(1))); }
    else if (v == "sub.rsp") { Poly A = P(1); o << sp(D.sub(R, S(0), A)); }
    else if (v == "subin.s") { Poly A = P(0); o << sp(D.subin(A, S(1))); }
    else if (v == "neg") { Poly A = P(0); o << sp(D.neg(R, A)); }
    else if (v == "negin") { Poly A = P(0); o << sp(D.negin(A)); }
    // ---- products
    else if (v == "mul.rpq") { Poly A = P(0), B = P(1); o << sp(D.mul(R, A, B)); }
    else if (v == "mul.empty") { Poly A = P(0), B = P(1); Poly Z; o << sp(D.mul(Z, A, B)); }
    else if (v == "mulin") { Poly A = P(0), B = P(1); o << sp(D.mulin(A, B)); }
    else if (v == "stdmul") { Poly A = P(0), B = P(1); o << sp(D.stdmul(R, A, B)); }
    else if (v == "karamul") { Poly A = P(0), B = P(1); o << sp(D.karamul(R, A, B)); }
    else if (v == "mul.rps") { Poly A = P(0); o << sp(D.mul(R, A, S(1))); }
    else if (v == "mul.rsp") { Poly A = P(0); o << sp(D.mul(R, S(1), A)); }
    else if (v == "mulin.s") { Poly A = P(0); o << sp(D.mulin(A, S(1))); }
    else if (v == "sqr") { Poly A = P(0); o << sp(D.sqr(R, A)); }
    // ---- division
    else if (v == "div.rps") { Poly A = P(0); o << sp(D.div(R, A, S(1))); }
    else if (v == "divin.s") { Poly A = P(0); o << sp(D.divin(A, S(1))); }
    else if (v == "invmodpowx") { Poly A = P(0); o << sp(D.invmodpowx(R, A, Degree(atol(a.at(1).c_str())))); }
    else if (v == "div.rpq") { Poly A = P(0), B = P(1); o << sp(D.div(R, A, B)); }
    else if (v == "divin") { Poly A = P(0), B = P(1); o << sp(D.divin(A, B)); }
    else if (v == "divmod") { Poly A = P(0), B = P(1); D.divmod(R, R2, A, B); o << sp(R) << " " << sp(R2); }
    else if (v == "divmodin") { Poly A = P(0), B = P(1); D.divmodin(R, A, B); o << sp(R) << " " << sp(A); }
    else if (v == "mod.rpq") { Poly A = P(0), B = P(1); o << sp(D.mod(R, A, B)); }
    else if (v == "modin") { Poly A = P(0), B = P(1); o << sp(D.modin(A, B)); }
    else if (v == "pdivmod") { Poly A = P(0), B = P(1); D.pdivmod(R, R2, m, A, B); o << sp(R) << " " << sp(R2) << " " << (long)m; }
    else if (v == "pmod") { Poly A = P(0), B = P(1); D.pmod(R, m, A, B); o << sp(R) << " " << (long)m; }
    // ---- gcd family
    else if (v == "gcd.2") { Poly A = P(0), B = P(1); o << sp(D.gcd(R, A, B)); }
    else if (v == "gcd.5") { Poly A = P(0), B = P(1); D.gcd(R, R2, R3, A, B); o << sp(R) << " " << sp(R2) << " " << sp(R3); }
    else if (v == "invmod") { Poly A = P(0), B = P(1); o << sp(D.invmod(R, A, B)); }
    else if (v == "invmodunit") { Poly A = P(0), B = P(1); o << sp(D.invmodunit(R, A, B)); }
    else if (v == "lcm") { Poly A = P(0), B = P(1); o << sp(D.lcm(R, A, B)); }
    else if (v == "isDivisor") { Poly A = P(0), B = P(1); o << (D.isDivisor(A, B) ? 1 : 0); }
    // ---- powers
    else if (v == "pow") { Poly A = P(0); o << sp(D.pow(R, A, (uint64_t)atoll(a.at(1).c_str()))); }
    else if (v == "powmod") { Poly A = P(0), U = P(2); o << sp(D.powmod(R, A, Integer(a.at(1).c_str()), U)); }
    else if (v == "powmod.u64") { Poly A = P(0), U = P(2); o << sp(D.powmod(R, A, (uint64_t)atoll(a.at(1).c_str()), U)); }
    // ---- fused forms
    else if (v == "axpy") { Poly A = P(0), X = P(1), Y = P(2); o << sp(D.axpy(R, A, X, Y)); }
    else if (v == "axpy.s") { Poly X = P(1), Y = P(2); o << sp(D.axpy(R, S(0), X, Y)); }
    else if (v == "axpyin") { Poly Rr = P(0), A = P(1), X = P(2); o << sp(D.axpyin(Rr, A, X)); }
    else if (v == "axpyin.s") { Poly Rr = P(2), X = P(1); o << sp(D.axpyin(Rr, S(0), X)); }
    else if (v == "maxpy") { Poly A = P(0), B = P(1), C = P(2); o << sp(D.maxpy(R, A, B, C)); }
    else if (v == "maxpyin") { Poly Rr = P(0), A = P(1), B = P(2); o << sp(D.maxpyin(Rr, A, B)); }
    else if (v == "maxpyin.s") { Poly Rr = P(0), B = P(2); o << sp(D.maxpyin(Rr, S(1), B)); }
    else if (v == "axmy") { Poly A = P(0), X = P(1), Y = P(2); o << sp(D.axmy(R, A, X, Y)); }
    else if (v == "axmy.s") { Poly X = P(1), Y = P(2); o << sp(D.axmy(R, S(0), X, Y)); }
    else if (v == "axmyin") { Poly Rr = P(0), A = P(1), X = P(2); o << sp(D.axmyin(Rr, A, X)); }
    else if (v == "axmyin.s") { Poly Rr = P(0), X = P(2); o << sp(D.axmyin(Rr, S(1), X)); }
    else o << "UNKNOWN-VARIANT";
    return o.str();
}

int main() {
    std::cout << "#thr " << KARA_THRESHOLD << " " << SQR_THRESHOLD << "\n";
    std::map<long, std::pair<Field*, PolDom*> > doms;
    std::string line;
    while (std::getline(std::cin, line)) {
        std::istringstream is(line);
        std::string v; long p, k, s; is >> v >> p >> k >> s;
        if (!is) continue;
        std::vector<std::string> a; std::string t;
        while (is >> t) a.push_back(t);
        if (!doms.count(p)) { Field* F = new Field((int32_t)p); doms[p] = std::make_pair(F, new PolDom(*F, Indeter("X"))); }
        std::string r;
        try { r = run(*doms[p].second, *doms[p].first, v, a); } catch (...) { r = "EXCEPTION"; }
        std::cout << r << "\n";
    }
    return 0;
}
