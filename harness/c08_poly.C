// C08 harness: runs Poly1Dom<Field,Dense> (and Interpolation<Field>, Poly1CRT<Field>) operations of /repo's
// current headers on cases from stdin, over several coefficient fields.
// line:   <variant> <field> <p> <kthr> <sthr> <args...>   polynomial arg: c0,c1,..,cn or '-' (empty); scalar: integer
//         field in { mi32 = Modular<int32_t>, mi64 = Modular<int64_t>, md = Modular<double>, mI = Modular<Integer>,
//                    mb32 = ModularBalanced<int32_t>, gfq = GFqDom<int32_t>(p,1) (Zech logarithms) }
// output: result tokens in the same syntax (coefficients printed as canonical residues 0..p-1).
// kthr/sthr are informational: the thresholds are compile-time (KARA_THRESHOLD / SQR_THRESHOLD, possibly overridden
// with -D by the check); they are printed in the "#thr" line.
#include <iostream>
#include <sstream>
#include <string>
#include <vector>
#include <map>
#include <cstdlib>
#include <csignal>
#include <unistd.h>
#include <sys/time.h>
#include "modular.h"
#include "modular-balanced.h"
#include "gfq.h"
#include "givpoly1.h"
#include "givinterp.h"
#include "givpoly1crt.h"
#include "givpoly1padic.h"
#include "givinterpgeom.h"

using namespace Givaro;

// Derived class exposing the PROTECTED iterator-range helpers declared at the end of givpoly1dense.h, so that they
// can be driven directly on sub-ranges of larger containers (a helper confusing the container with the range).
template <class Field>
struct Open : Poly1Dom<Field, Dense> {
    typedef Poly1Dom<Field, Dense> Base;
    Open(const Field& f, const Indeter& x) : Base(f, x) {}
    using Base::mul; using Base::stdmul; using Base::karamul;
    using Base::midmul; using Base::stdmidmul; using Base::karamidmul;
    using Base::sqr; using Base::stdsqr; using Base::sqrrec;
    using Base::subin;
};

// the two anchor files nothing else reaches: Poly1PadicDom (givpoly1padic.h) and NewtonInterpGeom (givinterpgeom.h); only for the
// coefficient domains they make sense for (specialisations after Runner)
template <class Field> struct Runner;
template <class Field> struct AnchorDispatch { static std::string run(Runner<Field>&, const std::string&, const std::vector<std::string>&) { return "UNKNOWN-VARIANT"; } };

template <class Field>
struct Runner {
    typedef Poly1Dom<Field, Dense> PolDom;
    typedef typename PolDom::Element Poly;
    typedef typename Field::Element Elt;
    Field F;
    PolDom D0;          // the domain object every plain variant uses
    PolDom Dc;          // copy-constructed from D0            (variant suffix "@c")
    PolDom Da;          // default-constructed, then assigned  (variant suffix "@a")
    Open<Field> O;      // access to the protected range helpers (variants "r.*")
    Integer p;
    Runner(const Field& f, const Integer& pp) : F(f), D0(f, Indeter("X")), Dc(D0), Da(), O(f, Indeter("X")), p(pp) { Da = D0; }

    // junk entry number i of a padded container: non-zero, alternating one / -one (equal in characteristic 2)
    Elt junk(size_t i) const { return (i & 1) ? F.mOne : F.one; }
    Poly padded(const Poly& P, size_t a, size_t b) const {
        Poly X; X.reserve(a + P.size() + b);
        for (size_t i = 0; i < a; ++i) X.push_back(junk(i));
        for (size_t i = 0; i < P.size(); ++i) X.push_back(P[i]);
        for (size_t i = 0; i < b; ++i) X.push_back(junk(a + i));
        return X;
    }
    bool same(const Poly& X, const Poly& Y) const {
        if (X.size() != Y.size()) return false;
        for (size_t i = 0; i < X.size(); ++i) if (!F.areEqual(X[i], Y[i])) return false;
        return true;
    }
    // result container junk^a ++ junk^n ++ junk^b ; after the call: the n inner entries, or PADBROKEN
    std::string inner(const Poly& RR, const Poly& RR0, size_t a, size_t n) const {
        if (RR.size() != RR0.size()) return "PADBROKEN";
        for (size_t i = 0; i < RR.size(); ++i)
            if ((i < a || i >= a + n) && !F.areEqual(RR[i], RR0[i])) return "PADBROKEN";
        Poly X(RR.begin() + (ssize_t)a, RR.begin() + (ssize_t)(a + n));
        return sp(X);
    }

    Elt elt(const std::string& t) const { Elt e; F.init(e); Integer v(t.c_str()); F.init(e, v); return e; }
    Poly parse_poly(const std::string& s) const {
        Poly P;
        if (s == "-") return P;
        std::istringstream is(s); std::string t;
        while (std::getline(is, t, ',')) P.push_back(elt(t));
        return P;
    }
    std::string se(const Elt& e) const {
        Integer v; F.convert(v, e); v %= p; if (v < 0) v += p;
        std::ostringstream o; o << v; return o.str();
    }
    std::string sp(const Poly& P) const {
        if (P.empty()) return "-";
        std::ostringstream o;
        for (size_t i = 0; i < P.size(); ++i) { if (i) o << ","; o << se(P[i]); }
        return o.str();
    }
    std::string run(const std::string& vfull, const std::vector<std::string>& a) {
        std::ostringstream o;
        // which domain object performs the call: "@c" = copy-constructed, "@a" = default-constructed then assigned
        std::string v = vfull;
        const PolDom* dsel = &D0;
        if (v.size() > 2 && v.compare(v.size() - 2, 2, "@c") == 0) { dsel = &Dc; v.resize(v.size() - 2); }
        else if (v.size() > 2 && v.compare(v.size() - 2, 2, "@a") == 0) { dsel = &Da; v.resize(v.size() - 2); }
        const PolDom& D = *dsel;
        // destinations start from a non-empty junk value so that every resize branch is exercised
        Poly R, R2, R3; R.assign(3, F.one); R2.assign(5, F.one); R3.assign(2, F.one);
        auto P = [&](size_t i) { return parse_poly(a.at(i)); };
        auto S = [&](size_t i) { return elt(a.at(i)); };
        auto N = [&](size_t i) { return atol(a.at(i).c_str()); };
        Elt e, m; F.init(e); F.init(m);
        // ---- misc
        if (v == "setdegree") { Poly A = P(0); o << sp(D.setdegree(A)); }
        else if (v == "setDegree") { Poly A = P(0); D.setDegree(A); o << sp(A); }
        else if (v == "degree.d") { Poly A = P(0); Degree d; D.degree(d, A); o << d.value(); }
        else if (v == "degree.v") { Poly A = P(0); o << D.degree(A).value(); }
        else if (v == "leadcoef") { Poly A = P(0); o << se(D.leadcoef(e, A)); }
        else if (v == "isZero") { Poly A = P(0); o << (D.isZero(A) ? 1 : 0); }
        else if (v == "areEqual") { Poly A = P(0), B = P(1); o << (D.areEqual(A, B) ? 1 : 0); }
        else if (v == "areNEqual") { Poly A = P(0), B = P(1); o << (D.areNEqual(A, B) ? 0 : 1); }
        else if (v == "assign") { Poly A = P(0); o << sp(D.assign(R, A)); }
        else if (v == "monomial") { o << sp(D.assign(R, Degree(N(0)), S(1))); }
        else if (v == "monomial.init") { o << sp(D.init(R, Degree(N(0)), Integer(a.at(1).c_str()))); }
        else if (v == "eval") { Poly A = P(0); o << se(D.eval(e, A, S(1))); }
        else if (v == "diff") { Poly A = P(0); o << sp(D.diff(R, A)); }
        else if (v == "reverse") { Poly A = P(0); o << sp(D.reverse(R, A)); }
        else if (v == "reversein") { Poly A = P(0); o << sp(D.reversein(A)); }
        else if (v == "getEntry") { Poly A = P(0); o << se(D.getEntry(e, Degree(N(1)), A)); }
        else if (v == "setEntry") { Poly A = P(0); D.setEntry(A, S(1), Degree(N(2))); o << sp(A); }
        else if (v == "val") { Poly A = P(0); Degree d; D.val(d, A); o << d.value(); }
        // ---- add / sub / neg
        else if (v == "add.rpq") { Poly A = P(0), B = P(1); o << sp(D.add(R, A, B)); }
        else if (v == "add.alias") { Poly A = P(0), B = P(1); o << sp(D.add(A, A, B)); }
        else if (v == "addin") { Poly A = P(0), B = P(1); o << sp(D.addin(A, B)); }
        else if (v == "add.rps") { Poly A = P(0); o << sp(D.add(R, A, S(1))); }
        else if (v == "add.rsp") { Poly A = P(0); o << sp(D.add(R, S(1), A)); }
        else if (v == "addin.s") { Poly A = P(0); o << sp(D.addin(A, S(1))); }
        else if (v == "sub.rpq") { Poly A = P(0), B = P(1); o << sp(D.sub(R, A, B)); }
        else if (v == "subin") { Poly A = P(0), B = P(1); o << sp(D.subin(A, B)); }
        else if (v == "sub.rps") { Poly A = P(0); o << sp(D.sub(R, A, S(1))); }
        else if (v == "sub.rsp") { Poly A = P(1); o << sp(D.sub(R, S(0), A)); }
        else if (v == "subin.s") { Poly A = P(0); o << sp(D.subin(A, S(1))); }
        else if (v == "neg") { Poly A = P(0); o << sp(D.neg(R, A)); }
        else if (v == "negin") { Poly A = P(0); o << sp(D.negin(A)); }
        // the domain's own constant `zero` of a fresh domain object as operand (it was the vector [0] until ffae607, now the empty vector); argument 0 is ignored
        else if (v == "add.rps.Dzero") { PolDom D2(F, Indeter("X")); const PolDom& Dz = (dsel == &D0) ? D2 : D; o << sp(Dz.add(R, Dz.zero, S(1))); }
        else if (v == "add.rsp.Dzero") { PolDom D2(F, Indeter("X")); o << sp(D2.add(R, S(1), D2.zero)); }
        else if (v == "sub.rps.Dzero") { PolDom D2(F, Indeter("X")); o << sp(D2.sub(R, D2.zero, S(1))); }
        // ---- products
        else if (v == "mul.rpq") { Poly A = P(0), B = P(1); o << sp(D.mul(R, A, B)); }
        else if (v == "mul.empty") { Poly A = P(0), B = P(1); Poly Z; o << sp(D.mul(Z, A, B)); }
        else if (v == "mulin") { Poly A = P(0), B = P(1); o << sp(D.mulin(A, B)); }
        else if (v == "stdmul") { Poly A = P(0), B = P(1); o << sp(D.stdmul(R, A, B)); }
        else if (v == "karamul") { Poly A = P(0), B = P(1); o << sp(D.karamul(R, A, B)); }
        else if (v == "mul.rps") { Poly A = P(0); o << sp(D.mul(R, A, S(1))); }
        else if (v == "mul.rsp") { Poly A = P(0); o << sp(D.mul(R, S(1), A)); }
        else if (v == "mulin.s") { Poly A = P(0); o << sp(D.mulin(A, S(1))); }
        else if (v == "sqr") { Poly A = P(0); o << sp(D.sqr(R, A)); }
        else if (v == "mul.trunc") { Poly A = P(0), B = P(1); o << sp(D.mul(R, A, B, Degree(N(2)), Degree(N(3)))); }
        else if (v == "midmul") { Poly A = P(0), B = P(1); o << sp(D.midmul(R, A, B)); }
        else if (v == "stdmidmul") { Poly A = P(0), B = P(1); o << sp(D.stdmidmul(R, A, B)); }
        else if (v == "karamidmul") { Poly A = P(0), B = P(1); o << sp(D.karamidmul(R, A, B)); }
        else if (v == "power_compose") { Poly A = P(0); o << sp(D.power_compose(R, A, (uint64_t)N(1))); }
        // ---- division
        else if (v == "div.rps") { Poly A = P(0); o << sp(D.div(R, A, S(1))); }
        else if (v == "divin.s") { Poly A = P(0); o << sp(D.divin(A, S(1))); }
        else if (v == "div.rsp") { Poly A = P(1); o << sp(D.div(R, S(0), A)); }
        else if (v == "mod.rsp") { Poly A = P(1); o << sp(D.mod(R, S(0), A)); }
        else if (v == "mod.rps") { Poly A = P(0); o << sp(D.mod(R, A, S(1))); }
        else if (v == "modin.s") { Poly A = P(0); o << sp(D.modin(A, S(1))); }
        else if (v == "invmodpowx") { Poly A = P(0); o << sp(D.invmodpowx(R, A, Degree(N(1)))); }
        else if (v == "modpowx") { Poly A = P(0); o << sp(D.modpowx(R, A, Degree(N(1)))); }
        else if (v == "modpowxin") { Poly A = P(0); o << sp(D.modpowxin(A, Degree(N(1)))); }
        else if (v == "div.rpq") { Poly A = P(0), B = P(1); o << sp(D.div(R, A, B)); }
        else if (v == "divin") { Poly A = P(0), B = P(1); o << sp(D.divin(A, B)); }
        else if (v == "divmod") { Poly A = P(0), B = P(1); D.divmod(R, R2, A, B); o << sp(R) << " " << sp(R2); }
        else if (v == "divmodin") { Poly A = P(0), B = P(1); D.divmodin(R, A, B); o << sp(R) << " " << sp(A); }
        else if (v == "mod.rpq") { Poly A = P(0), B = P(1); o << sp(D.mod(R, A, B)); }
        else if (v == "modin") { Poly A = P(0), B = P(1); o << sp(D.modin(A, B)); }
        else if (v == "pdivmod") { Poly A = P(0), B = P(1); D.pdivmod(R, R2, m, A, B); o << sp(R) << " " << sp(R2) << " " << se(m); }
        else if (v == "pmod") { Poly A = P(0), B = P(1); D.pmod(R, m, A, B); o << sp(R) << " " << se(m); }
        else if (v == "isDivisor") { Poly A = P(0), B = P(1); o << (D.isDivisor(A, B) ? 1 : 0); }
        // ---- gcd family
        else if (v == "gcd.2") { Poly A = P(0), B = P(1); o << sp(D.gcd(R, A, B)); }
        else if (v == "gcd.5") { Poly A = P(0), B = P(1); D.gcd(R, R2, R3, A, B); o << sp(R) << " " << sp(R2) << " " << sp(R3); }
        else if (v == "invmod") { Poly A = P(0), B = P(1); o << sp(D.invmod(R, A, B)); }
        else if (v == "invmodunit") { Poly A = P(0), B = P(1); o << sp(D.invmodunit(R, A, B)); }
        else if (v == "lcm") { Poly A = P(0), B = P(1); o << sp(D.lcm(R, A, B)); }
        // ---- powers
        else if (v == "pow") { Poly A = P(0); o << sp(D.pow(R, A, (uint64_t)strtoull(a.at(1).c_str(), 0, 10))); }
        else if (v == "powmod") { Poly A = P(0), U = P(2); o << sp(D.powmod(R, A, Integer(a.at(1).c_str()), U)); }
        else if (v == "powmod.u64") { Poly A = P(0), U = P(2); o << sp(D.powmod(R, A, (uint64_t)strtoull(a.at(1).c_str(), 0, 10), U)); }
        else if (v == "powmod.i64") { Poly A = P(0), U = P(2); o << sp(D.powmod(R, A, (int64_t)strtoll(a.at(1).c_str(), 0, 10), U)); }
        else if (v == "powmod.u32") { Poly A = P(0), U = P(2); o << sp(D.powmod(R, A, (uint32_t)strtoul(a.at(1).c_str(), 0, 10), U)); }
        // ---- fused forms
        else if (v == "axpy") { Poly A = P(0), X = P(1), Y = P(2); o << sp(D.axpy(R, A, X, Y)); }
        else if (v == "axpy.s") { Poly X = P(1), Y = P(2); o << sp(D.axpy(R, S(0), X, Y)); }
        else if (v == "axpyin") { Poly Rr = P(0), A = P(1), X = P(2); o << sp(D.axpyin(Rr, A, X)); }
        else if (v == "axpyin.s") { Poly Rr = P(2), X = P(1); o << sp(D.axpyin(Rr, S(0), X)); }
        else if (v == "maxpy") { Poly A = P(0), B = P(1), C = P(2); o << sp(D.maxpy(R, A, B, C)); }
#ifdef C08_HAVE_MAXPY_S
        else if (v == "maxpy.s") { Poly B = P(1), C = P(2); o << sp(D.maxpy(R, S(0), B, C)); }
#endif
#ifdef C08_HAVE_SHIFT
        else if (v == "shift") { Poly A = P(0); o << sp(D.shift(R, A, (int)N(1))); }
#endif
        else if (v == "shiftin") { Poly A = P(0); o << sp(D.shiftin(A, (int)N(1))); }
        else if (v == "maxpyin") { Poly Rr = P(0), A = P(1), B = P(2); o << sp(D.maxpyin(Rr, A, B)); }
        else if (v == "maxpyin.s") { Poly Rr = P(0), B = P(2); o << sp(D.maxpyin(Rr, S(1), B)); }
        else if (v == "axmy") { Poly A = P(0), X = P(1), Y = P(2); o << sp(D.axmy(R, A, X, Y)); }
        else if (v == "axmy.s") { Poly X = P(1), Y = P(2); o << sp(D.axmy(R, S(0), X, Y)); }
        else if (v == "axmyin") { Poly Rr = P(0), A = P(1), X = P(2); o << sp(D.axmyin(Rr, A, X)); }
        else if (v == "axmyin.s") { Poly Rr = P(0), X = P(2); o << sp(D.axmyin(Rr, S(1), X)); }
        // ---- interpolation (givinterp.h): points, values
        else if (v == "interp") {
            Poly X = P(0), Y = P(1);
            Interpolation<Field> I(F, Indeter("X"));
            for (size_t i = 0; i < X.size(); ++i) I(X[i], Y[i]);
            o << sp(I.interpolator());
        }
        // ---- polynomial CRT (givpoly1crt.h): points, polynomial / residues
        else if (v == "crt.torns") {
            Poly X = P(0), A = P(1);
            Poly1CRT<Field> C(F, X, Indeter("X"));
            typename Poly1CRT<Field>::array_T rns; rns.assign(2, F.one);
            C.RingToRns(rns, A); o << sp(rns);
        }
        else if (v == "crt.toring" || v == "crt.toring.copy") {
            Poly X = P(0), Y = P(1);
            Poly1CRT<Field> C(F, X, Indeter("X"));
            if (v == "crt.toring") { C.RnsToRing(R, Y); }
            else { C.RnsToRing(R2, Y); Poly1CRT<Field> C2(C); C2.RnsToRing(R, Y); }   // copy carries the cached reciprocals
            o << sp(R);
        }
        // ================= call forms added in phase 3 =================
        // ---- constructors / init / assign overloads used to obtain polynomials
        else if (v == "init.empty") { o << sp(D.init(R)); }
        else if (v == "init.cst") { o << sp(D.init(R, Integer(a.at(0).c_str()))); }
        else if (v == "init.deg") { o << sp(D.init(R, Degree(N(0)))); }
        else if (v == "init.list") {
            Poly A = P(0); std::vector<Integer> c; for (size_t i = 0; i < A.size(); ++i) { Integer t; F.convert(t, A[i]); c.push_back(t); }
            switch (c.size()) {
                case 0: { std::initializer_list<Integer> l = {}; D.init(R, l); break; }
                case 1: D.init(R, std::initializer_list<Integer>{c[0]}); break;
                case 2: D.init(R, std::initializer_list<Integer>{c[0], c[1]}); break;
                case 3: D.init(R, std::initializer_list<Integer>{c[0], c[1], c[2]}); break;
                case 4: D.init(R, std::initializer_list<Integer>{c[0], c[1], c[2], c[3]}); break;
                default: D.init(R, std::initializer_list<Integer>{c[0], c[1], c[2], c[3], c[4]}); break;
            }
            o << sp(R);
        }
        else if (v == "assign.cst") { o << sp(D.assign(R, S(1))); }
        else if (v == "assign.toval") { Poly A = P(0); o << se(D.assign(e, A)); }
        else if (v == "convert.val") { Poly A = P(0); Integer t; D.convert(t, A); t %= p; if (t < 0) t += p; o << t; }
        else if (v == "assign.self") { Poly A = P(0); o << sp(D.assign(A, A)); }
        else if (v == "isOne") { Poly A = P(0); o << (D.isOne(A) ? 1 : 0); }
        else if (v == "isMOne") { Poly A = P(0); o << (D.isMOne(A) ? 1 : 0); }
        else if (v == "isUnit") { Poly A = P(0); o << (D.isUnit(A) ? 1 : 0); }
        else if (v == "diff.alias") { Poly A = P(0); o << sp(D.diff(A, A)); }
        else if (v == "reverse.alias") { Poly A = P(0); o << sp(D.reverse(A, A)); }
        // ---- add / sub / neg: destination is an operand, both operands the same object
        else if (v == "add.alias2") { Poly A = P(0), B = P(1); o << sp(D.add(B, A, B)); }
        else if (v == "add.self") { Poly A = P(0); o << sp(D.add(R, A, A)); }
        else if (v == "addin.self") { Poly A = P(0); o << sp(D.addin(A, A)); }
        else if (v == "add.rps.alias") { Poly A = P(0); o << sp(D.add(A, A, S(1))); }
        else if (v == "add.rsp.alias") { Poly A = P(0); o << sp(D.add(A, S(1), A)); }
        else if (v == "sub.alias1") { Poly A = P(0), B = P(1); o << sp(D.sub(A, A, B)); }
        else if (v == "sub.alias2") { Poly A = P(0), B = P(1); o << sp(D.sub(B, A, B)); }
        else if (v == "sub.self") { Poly A = P(0); o << sp(D.sub(R, A, A)); }
        else if (v == "subin.self") { Poly A = P(0); o << sp(D.subin(A, A)); }
        else if (v == "sub.rps.alias") { Poly A = P(0); o << sp(D.sub(A, A, S(1))); }
        else if (v == "sub.rsp.alias") { Poly A = P(1); o << sp(D.sub(A, S(0), A)); }
        else if (v == "neg.alias") { Poly A = P(0); o << sp(D.neg(A, A)); }
        // ---- products
        else if (v == "mul.alias1") { Poly A = P(0), B = P(1); o << sp(D.mul(A, A, B)); }
        else if (v == "mul.alias2") { Poly A = P(0), B = P(1); o << sp(D.mul(B, A, B)); }
        else if (v == "mul.self") { Poly A = P(0); o << sp(D.mul(R, A, A)); }
        else if (v == "mul.aliasself") { Poly A = P(0); o << sp(D.mul(A, A, A)); }
        else if (v == "mulin.self") { Poly A = P(0); o << sp(D.mulin(A, A)); }
        else if (v == "stdmul.alias1") { Poly A = P(0), B = P(1); o << sp(D.stdmul(A, A, B)); }
        else if (v == "stdmul.alias2") { Poly A = P(0), B = P(1); o << sp(D.stdmul(B, A, B)); }
        else if (v == "karamul.alias1") { Poly A = P(0), B = P(1); o << sp(D.karamul(A, A, B)); }
        else if (v == "karamul.alias2") { Poly A = P(0), B = P(1); o << sp(D.karamul(B, A, B)); }
        else if (v == "karamul.self") { Poly A = P(0); o << sp(D.karamul(R, A, A)); }
        else if (v == "mul.rps.alias") { Poly A = P(0); o << sp(D.mul(A, A, S(1))); }
        else if (v == "mul.rsp.alias") { Poly A = P(0); o << sp(D.mul(A, S(1), A)); }
        else if (v == "sqr.alias") { Poly A = P(0); o << sp(D.sqr(A, A)); }
        else if (v == "mul.trunc.alias1") { Poly A = P(0), B = P(1); o << sp(D.mul(A, A, B, Degree(N(2)), Degree(N(3)))); }
        else if (v == "mul.trunc.alias2") { Poly A = P(0), B = P(1); o << sp(D.mul(B, A, B, Degree(N(2)), Degree(N(3)))); }
        else if (v == "midmul.alias1") { Poly A = P(0), B = P(1); o << sp(D.midmul(A, A, B)); }
        else if (v == "midmul.alias2") { Poly A = P(0), B = P(1); o << sp(D.midmul(B, A, B)); }
        else if (v == "stdmidmul.alias1") { Poly A = P(0), B = P(1); o << sp(D.stdmidmul(A, A, B)); }
        else if (v == "stdmidmul.alias2") { Poly A = P(0), B = P(1); o << sp(D.stdmidmul(B, A, B)); }
        else if (v == "karamidmul.alias1") { Poly A = P(0), B = P(1); o << sp(D.karamidmul(A, A, B)); }
        else if (v == "karamidmul.alias2") { Poly A = P(0), B = P(1); o << sp(D.karamidmul(B, A, B)); }
        // ---- division
        else if (v == "inv") { Poly A = P(1); o << sp(D.inv(R, A)); }
        else if (v == "invin") { Poly A = P(1); o << sp(D.invin(A)); }
        else if (v == "div.alias1") { Poly A = P(0), B = P(1); o << sp(D.div(A, A, B)); }
        else if (v == "div.alias2") { Poly A = P(0), B = P(1); o << sp(D.div(B, A, B)); }
        else if (v == "div.rps.alias") { Poly A = P(0); o << sp(D.div(A, A, S(1))); }
        else if (v == "mod.alias1") { Poly A = P(0), B = P(1); o << sp(D.mod(A, A, B)); }
        else if (v == "mod.alias2") { Poly A = P(0), B = P(1); o << sp(D.mod(B, A, B)); }
        else if (v == "divmod.aliasQA") { Poly A = P(0), B = P(1); D.divmod(A, R2, A, B); o << sp(A) << " " << sp(R2); }
        else if (v == "divmod.aliasQB") { Poly A = P(0), B = P(1); D.divmod(B, R2, A, B); o << sp(B) << " " << sp(R2); }
        else if (v == "divmod.aliasRA") { Poly A = P(0), B = P(1); D.divmod(R, A, A, B); o << sp(R) << " " << sp(A); }
        else if (v == "divmod.aliasRB") { Poly A = P(0), B = P(1); D.divmod(R, B, A, B); o << sp(R) << " " << sp(B); }
        else if (v == "divmodin.aliasQB") { Poly A = P(0), B = P(1); D.divmodin(B, A, B); o << sp(B) << " " << sp(A); }
        else if (v == "pdivmod.aliasQA") { Poly A = P(0), B = P(1); D.pdivmod(A, R2, m, A, B); o << sp(A) << " " << sp(R2) << " " << se(m); }
        else if (v == "pdivmod.aliasQB") { Poly A = P(0), B = P(1); D.pdivmod(B, R2, m, A, B); o << sp(B) << " " << sp(R2) << " " << se(m); }
        else if (v == "pdivmod.aliasRA") { Poly A = P(0), B = P(1); D.pdivmod(R, A, m, A, B); o << sp(R) << " " << sp(A) << " " << se(m); }
        else if (v == "pdivmod.aliasRB") { Poly A = P(0), B = P(1); D.pdivmod(R, B, m, A, B); o << sp(R) << " " << sp(B) << " " << se(m); }
        else if (v == "pmod.aliasRA") { Poly A = P(0), B = P(1); D.pmod(A, m, A, B); o << sp(A) << " " << se(m); }
        else if (v == "pmod.aliasRB") { Poly A = P(0), B = P(1); D.pmod(B, m, A, B); o << sp(B) << " " << se(m); }
        else if (v == "invmodpowx.alias") { Poly A = P(0); o << sp(D.invmodpowx(A, A, Degree(N(1)))); }
        else if (v == "modpowx.alias") { Poly A = P(0); o << sp(D.modpowx(A, A, Degree(N(1)))); }
        else if (v == "newtoninviter") { Poly G = P(0), A = P(1), S_, Am; S_.assign(2, F.one); Am.assign(7, F.one); o << sp(D.newtoninviter(G, S_, Am, A, Degree(N(2)))); }
        // ---- gcd family
        else if (v == "gcd.2.alias1") { Poly A = P(0), B = P(1); o << sp(D.gcd(A, A, B)); }
        else if (v == "gcd.2.alias2") { Poly A = P(0), B = P(1); o << sp(D.gcd(B, A, B)); }
        else if (v == "gcd.5.aliasFA") { Poly A = P(0), B = P(1); D.gcd(A, R2, R3, A, B); o << sp(A) << " " << sp(R2) << " " << sp(R3); }
        else if (v == "gcd.5.aliasFB") { Poly A = P(0), B = P(1); D.gcd(B, R2, R3, A, B); o << sp(B) << " " << sp(R2) << " " << sp(R3); }
        else if (v == "gcd.5.aliasSA") { Poly A = P(0), B = P(1); D.gcd(R, A, R3, A, B); o << sp(R) << " " << sp(A) << " " << sp(R3); }
        else if (v == "gcd.5.aliasSB") { Poly A = P(0), B = P(1); D.gcd(R, B, R3, A, B); o << sp(R) << " " << sp(B) << " " << sp(R3); }
        else if (v == "gcd.5.aliasTA") { Poly A = P(0), B = P(1); D.gcd(R, R2, A, A, B); o << sp(R) << " " << sp(R2) << " " << sp(A); }
        else if (v == "gcd.5.aliasTB") { Poly A = P(0), B = P(1); D.gcd(R, R2, B, A, B); o << sp(R) << " " << sp(R2) << " " << sp(B); }
        else if (v == "lcm.aliasA") { Poly A = P(0), B = P(1); o << sp(D.lcm(A, A, B)); }
        else if (v == "lcm.aliasB") { Poly A = P(0), B = P(1); o << sp(D.lcm(B, A, B)); }
        else if (v == "invmod.alias1") { Poly A = P(0), B = P(1); o << sp(D.invmod(A, A, B)); }
        else if (v == "invmod.alias2") { Poly A = P(0), B = P(1); o << sp(D.invmod(B, A, B)); }
        else if (v == "invmodunit.alias1") { Poly A = P(0), B = P(1); o << sp(D.invmodunit(A, A, B)); }
        else if (v == "invmodunit.alias2") { Poly A = P(0), B = P(1); o << sp(D.invmodunit(B, A, B)); }
        // ---- powers
        else if (v == "pow.alias") { Poly A = P(0); o << sp(D.pow(A, A, (uint64_t)strtoull(a.at(1).c_str(), 0, 10))); }
        else if (v == "powmod.i32") { Poly A = P(0), U = P(2); o << sp(D.powmod(R, A, (int)strtol(a.at(1).c_str(), 0, 10), U)); }
        else if (v == "powmod.aliasWU") { Poly A = P(0), U = P(2); o << sp(D.powmod(U, A, Integer(a.at(1).c_str()), U)); }
        else if (v == "powmod.aliasWP") { Poly A = P(0), U = P(2); o << sp(D.powmod(A, A, Integer(a.at(1).c_str()), U)); }
        // ---- fused forms: destination is an operand
        else if (v == "axpy.aliasA") { Poly A = P(0), X = P(1), Y = P(2); o << sp(D.axpy(A, A, X, Y)); }
        else if (v == "axpy.aliasX") { Poly A = P(0), X = P(1), Y = P(2); o << sp(D.axpy(X, A, X, Y)); }
        else if (v == "axpy.aliasY") { Poly A = P(0), X = P(1), Y = P(2); o << sp(D.axpy(Y, A, X, Y)); }
        else if (v == "axpy.s.aliasX") { Poly X = P(1), Y = P(2); o << sp(D.axpy(X, S(0), X, Y)); }
        else if (v == "axpy.s.aliasY") { Poly X = P(1), Y = P(2); o << sp(D.axpy(Y, S(0), X, Y)); }
        else if (v == "axpyin.aliasA") { Poly Rr = P(0), X = P(2); o << sp(D.axpyin(Rr, Rr, X)); }
        else if (v == "maxpy.aliasA") { Poly A = P(0), B = P(1), C = P(2); o << sp(D.maxpy(A, A, B, C)); }
        else if (v == "maxpy.aliasC") { Poly A = P(0), B = P(1), C = P(2); o << sp(D.maxpy(C, A, B, C)); }
#ifdef C08_HAVE_MAXPY_S
        else if (v == "maxpy.s.aliasB") { Poly B = P(1), C = P(2); o << sp(D.maxpy(B, S(0), B, C)); }
        else if (v == "maxpy.s.aliasC") { Poly B = P(1), C = P(2); o << sp(D.maxpy(C, S(0), B, C)); }
#endif
        else if (v == "maxpyin.aliasA") { Poly Rr = P(0), B = P(2); o << sp(D.maxpyin(Rr, Rr, B)); }
        else if (v == "axmy.aliasA") { Poly A = P(0), X = P(1), Y = P(2); o << sp(D.axmy(A, A, X, Y)); }
        else if (v == "axmy.aliasY") { Poly A = P(0), X = P(1), Y = P(2); o << sp(D.axmy(Y, A, X, Y)); }
        else if (v == "axmy.s.aliasX") { Poly X = P(1), Y = P(2); o << sp(D.axmy(X, S(0), X, Y)); }
        else if (v == "axmy.s.aliasY") { Poly X = P(1), Y = P(2); o << sp(D.axmy(Y, S(0), X, Y)); }
        else if (v == "axmyin.aliasA") { Poly Rr = P(0), X = P(2); o << sp(D.axmyin(Rr, Rr, X)); }
        // ---- interpolation: copies of the interpolation object, the REDUCE = false instantiation
        else if (v == "interp.copy" || v == "interp.assign" || v == "interp.noreduce") {
            Poly X = P(0), Y = P(1);
            if (v == "interp.noreduce") {
                Interpolation<Field, false> I(F, Indeter("X"));
                for (size_t i = 0; i < X.size(); ++i) I(X[i], Y[i]);
                o << sp(I.interpolator());
            } else {
                Interpolation<Field> I(F, Indeter("X"));
                size_t h = X.size() / 2;
                for (size_t i = 0; i < h; ++i) I(X[i], Y[i]);
                if (v == "interp.copy") {
                    Interpolation<Field> I2(I);                       // implicit copy constructor: state is carried over
                    for (size_t i = h; i < X.size(); ++i) I2(X[i], Y[i]);
                    o << sp(I2.interpolator());
                } else {
                    Interpolation<Field> I2(F, Indeter("Y"));
                    if (X.size() > 1) I2(X[X.size() - 1], Y[0]);      // some other state, overwritten by the assignment
                    I2 = I;
                    for (size_t i = h; i < X.size(); ++i) I2(X[i], Y[i]);
                    o << sp(I2.interpolator());
                }
            }
        }
        // ---- polynomial CRT: copies before / after the reciprocals are cached, repeated use, accessors
        else if (v == "crt.toring.copy0" || v == "crt.toring.twice" || v == "crt.torns.copy") {
            Poly X = P(0), Y = P(1);
            Poly1CRT<Field> C(F, X, Indeter("X"));
            if (v == "crt.toring.copy0") { Poly1CRT<Field> C2(C); C2.RnsToRing(R, Y); o << sp(R); }
            else if (v == "crt.toring.twice") { Poly Y2(Y.rbegin(), Y.rend()); C.RnsToRing(R2, Y2); C.RnsToRing(R, Y); o << sp(R); }
            else { Poly1CRT<Field> C2(C); typename Poly1CRT<Field>::array_T rns; rns.assign(1, F.one); C2.RingToRns(rns, Y); o << sp(rns); }
        }
        else if (v == "crt.recip") {
            Poly X = P(0); size_t k = (size_t)N(1);
            Poly1CRT<Field> C0(F, X, Indeter("X")); const Poly1CRT<Field>& C = C0;   // the const accessors compute the reciprocals on demand
            o << sp(C.reciprocal(k)) << " " << C.size() << " " << se(C.ith(k)) << " " << sp(C.Primes()) << " " << C.Reciprocals().size();
        }
        // ---- the protected range helpers, driven on sub-ranges of padded containers (struct Open)
        else if (v == "r.mul" || v == "r.stdmul" || v == "r.karamul") {
            size_t n = (size_t)N(0); Poly Pp = P(1), Qq = P(2); size_t pa = (size_t)N(3), pb = (size_t)N(4);
            Poly PP = padded(Pp, pa, pb), QQ = padded(Qq, pa, pb), RR = padded(Poly(n, F.one), pa, pb);
            const Poly PP0(PP), QQ0(QQ), RR0(RR);
            typename Poly::iterator rb = RR.begin() + (ssize_t)pa, re = rb + (ssize_t)n;
            typename Poly::const_iterator ib = PP.begin() + (ssize_t)pa, ie = ib + (ssize_t)Pp.size();
            typename Poly::const_iterator jb = QQ.begin() + (ssize_t)pa, je = jb + (ssize_t)Qq.size();
            if (v == "r.mul") O.mul(RR, rb, re, PP, ib, ie, QQ, jb, je);
            else if (v == "r.stdmul") O.stdmul(RR, rb, re, PP, ib, ie, QQ, jb, je);
            else O.karamul(RR, rb, re, PP, ib, ie, QQ, jb, je);
            if (!same(PP, PP0) || !same(QQ, QQ0)) o << "SRCBROKEN"; else o << inner(RR, RR0, pa, n);
        }
        else if (v == "r.sqr" || v == "r.stdsqr" || v == "r.sqrrec") {
            Poly Pp = P(0); size_t pa = (size_t)N(1), pb = (size_t)N(2); size_t n = 2 * Pp.size() - 1;
            Poly PP = padded(Pp, pa, pb), RR = padded(Poly(n, F.one), pa, pb);
            const Poly PP0(PP), RR0(RR);
            typename Poly::iterator rb = RR.begin() + (ssize_t)pa, re = rb + (ssize_t)n;
            typename Poly::const_iterator ib = PP.begin() + (ssize_t)pa, ie = ib + (ssize_t)Pp.size();
            Elt two; F.init(two); F.add(two, F.one, F.one);
            if (v == "r.sqr") O.sqr(RR, rb, re, PP, ib, ie);
            else if (v == "r.stdsqr") O.stdsqr(RR, rb, re, PP, ib, ie, two);
            else O.sqrrec(RR, rb, re, PP, ib, ie, two);
            if (!same(PP, PP0)) o << "SRCBROKEN"; else o << inner(RR, RR0, pa, n);
        }
        else if (v == "r.midmul" || v == "r.stdmidmul" || v == "r.karamidmul") {
            Poly Pp = P(0), Qq = P(1); size_t pa = (size_t)N(2), pb = (size_t)N(3); size_t n = Pp.size() - Qq.size() + 1;
            Poly PP = padded(Pp, pa, pb), QQ = padded(Qq, pa, pb), RR = padded(Poly(n, F.one), pa, pb);
            const Poly PP0(PP), QQ0(QQ), RR0(RR);
            typename Poly::iterator rb = RR.begin() + (ssize_t)pa, re = rb + (ssize_t)n;
            typename Poly::const_iterator ib = PP.begin() + (ssize_t)pa, ie = ib + (ssize_t)Pp.size();
            typename Poly::const_iterator jb = QQ.begin() + (ssize_t)pa, je = jb + (ssize_t)Qq.size();
            if (v == "r.midmul") O.midmul(RR, rb, re, PP, ib, ie, QQ, jb, je);
            else if (v == "r.stdmidmul") O.stdmidmul(RR, rb, re, PP, ib, ie, QQ, jb, je);
            else O.karamidmul(RR, rb, re, PP, ib, ie, QQ, jb, je);
            if (!same(PP, PP0) || !same(QQ, QQ0)) o << "SRCBROKEN"; else o << inner(RR, RR0, pa, n);
        }
        else if (v == "r.subin3" || v == "r.subin2" || v == "r.subin1") {
            Poly Rr = P(0), Pp = P(1);
            size_t off = 0, k = 2;
            if (v == "r.subin1") { off = (size_t)N(2); k = 3; }
            size_t pa = (size_t)N(k), pb = (size_t)N(k + 1);
            Poly PP = padded(Pp, pa, pb); const Poly PP0(PP);
            typename Poly::const_iterator ib = PP.begin() + (ssize_t)pa, ie = ib + (ssize_t)Pp.size();
            if (v == "r.subin3") O.subin(Rr, Rr.begin(), Rr.end(), PP, ib, ie);
            else if (v == "r.subin2") O.subin(Rr, PP, ib, ie);
            else O.subin(Rr, Rr.begin() + (ssize_t)off, PP, ib, ie);
            if (!same(PP, PP0)) o << "SRCBROKEN"; else o << sp(Rr);
        }
        else if (v.compare(0, 6, "padic.") == 0 || v == "interpgeom") o << AnchorDispatch<Field>::run(*this, v, a);
        else o << "UNKNOWN-VARIANT";
        return o.str();
    }
};

struct AnyRunner { virtual std::string run(const std::string&, const std::vector<std::string>&) = 0; virtual ~AnyRunner() {} };
template <class Field> struct RunnerBox : AnyRunner {
    Runner<Field> r;
    RunnerBox(const Field& f, const Integer& p) : r(f, p) {}
    std::string run(const std::string& v, const std::vector<std::string>& a) { return r.run(v, a); }
};

// one binary per field (-DC08_FIELD_<key>) so that the instantiations compile in parallel; no define = all fields
#if !defined(C08_FIELD_mi32) && !defined(C08_FIELD_mi64) && !defined(C08_FIELD_md) && !defined(C08_FIELD_mI) && !defined(C08_FIELD_mb32) && !defined(C08_FIELD_gfq)
#define C08_FIELD_mi32
#define C08_FIELD_mi64
#define C08_FIELD_md
#define C08_FIELD_mI
#define C08_FIELD_mb32
#define C08_FIELD_gfq
#endif

// ---- Poly1PadicDom: eval (digits -> integer, Horner at p) and radix (integer -> digits)
template <class Field>
static std::string padic_run(Runner<Field>& r, const std::string& v, const std::vector<std::string>& a) {
    std::ostringstream o;
    Poly1PadicDom<Field, Dense> PA(r.F, Indeter("X"));
    typename Runner<Field>::Poly R; R.assign(3, r.F.one);
    if (v == "padic.eval") { typename Runner<Field>::Poly A = r.parse_poly(a.at(0)); Integer E(7); PA.eval(E, A); o << E; }
    else if (v == "padic.radix") { Integer E(a.at(0).c_str()); o << r.sp(PA.radix(R, E, (int64_t)atol(a.at(1).c_str()))); }
    else o << "UNKNOWN-VARIANT";
    return o.str();
}
// the uint64_t overload of eval (only for word-size moduli: `E *= _domain.size()` has no meaning for Modular<Integer>)
template <class Field>
static std::string padic_u64(Runner<Field>& r, const std::vector<std::string>& a) {
    std::ostringstream o; Poly1PadicDom<Field, Dense> PA(r.F, Indeter("X"));
    typename Runner<Field>::Poly A = r.parse_poly(a.at(0)); uint64_t E = 7; PA.eval(E, A); o << E; return o.str();
}
// ---- NewtonInterpGeom: interpolation at the geometric points 1, g, g^2, ... of a black box (here: evaluation of a polynomial)
template <class Field>
struct EvalBox {
    const typename Runner<Field>::PolDom& D; const typename Runner<Field>::Poly& P;
    EvalBox(const typename Runner<Field>::PolDom& d, const typename Runner<Field>::Poly& p) : D(d), P(p) {}
    typename Field::Element& operator()(typename Field::Element& v, const typename Field::Element& x) const { return D.eval(v, P, x); }
};
template <class Field>
static std::string geom_run(Runner<Field>& r, const std::string& v, const std::vector<std::string>& a) {
    std::ostringstream o;
    typename Runner<Field>::Poly P = r.parse_poly(a.at(0)), R; R.assign(2, r.F.one);
    long n = atol(a.at(1).c_str());
    NewtonInterpGeom<Field> NI(r.F, Indeter("X"));
    EvalBox<Field> bb(r.D0, P);
    NI.initialize(bb);
    for (long i = 0; i < n; ++i) NI(bb);
    NI.interpolator(R);
    typename Field::Element g; r.F.generator(g);
    o << r.se(g) << " " << r.sp(R);
    return o.str();
}
#ifdef C08_FIELD_mi32
template <> struct AnchorDispatch<Modular<int32_t> > { static std::string run(Runner<Modular<int32_t> >& r, const std::string& v, const std::vector<std::string>& a) { return v == "interpgeom" ? "UNKNOWN-VARIANT" : v == "padic.eval.u64" ? padic_u64(r, a) : padic_run(r, v, a); } };
#endif
#ifdef C08_FIELD_mi64
template <> struct AnchorDispatch<Modular<int64_t> > { static std::string run(Runner<Modular<int64_t> >& r, const std::string& v, const std::vector<std::string>& a) { return v == "interpgeom" ? "UNKNOWN-VARIANT" : v == "padic.eval.u64" ? padic_u64(r, a) : padic_run(r, v, a); } };
#endif
#ifdef C08_FIELD_mI
template <> struct AnchorDispatch<Modular<Integer> > { static std::string run(Runner<Modular<Integer> >& r, const std::string& v, const std::vector<std::string>& a) { return v == "interpgeom" ? "UNKNOWN-VARIANT" : padic_run(r, v, a); } };
#endif
#ifdef C08_FIELD_gfq
template <> struct AnchorDispatch<GFqDom<int32_t> > { static std::string run(Runner<GFqDom<int32_t> >& r, const std::string& v, const std::vector<std::string>& a) { return v == "interpgeom" ? geom_run(r, v, a) : "UNKNOWN-VARIANT"; } };
#endif

static AnyRunner* make(const std::string& key, const std::string& ps) {
    Integer p(ps.c_str());
#ifdef C08_FIELD_mi32
    if (key == "mi32") return new RunnerBox<Modular<int32_t> >(Modular<int32_t>((int32_t)atol(ps.c_str())), p);
#endif
#ifdef C08_FIELD_mi64
    if (key == "mi64") return new RunnerBox<Modular<int64_t> >(Modular<int64_t>((int64_t)atoll(ps.c_str())), p);
#endif
#ifdef C08_FIELD_md
    if (key == "md") return new RunnerBox<Modular<double> >(Modular<double>((double)atol(ps.c_str())), p);
#endif
#ifdef C08_FIELD_mI
    if (key == "mI") return new RunnerBox<Modular<Integer> >(Modular<Integer>(p), p);
#endif
#ifdef C08_FIELD_mb32
    if (key == "mb32") return new RunnerBox<ModularBalanced<int32_t> >(ModularBalanced<int32_t>((int32_t)atol(ps.c_str())), p);
#endif
#ifdef C08_FIELD_gfq
    if (key == "gfq") return new RunnerBox<GFqDom<int32_t> >(GFqDom<int32_t>((uint32_t)atol(ps.c_str()), 1), p);
#endif
    return 0;
}

// per-case CPU-time watchdog (load independent): a call that does not return within the budget (argv[1] seconds of CPU time of
// this process, default 5) ends the process with the line CPU-BUDGET-EXCEEDED in place of the answer and exit code 97; the check
// then re-runs that one case alone with a larger budget before it reports "does not return"
static void on_cpu_budget(int) { const char m[] = "CPU-BUDGET-EXCEEDED\n"; ssize_t w = write(1, m, sizeof(m) - 1); (void)w; _exit(97); }
static void arm_cpu_budget(long secs) {
    struct itimerval it; it.it_interval.tv_sec = 0; it.it_interval.tv_usec = 0; it.it_value.tv_sec = secs; it.it_value.tv_usec = 0;
    setitimer(ITIMER_PROF, &it, 0);
}

int main(int argc, char** argv) {
    long budget = argc > 1 ? atol(argv[1]) : 5; if (budget <= 0) budget = 5;
    signal(SIGPROF, on_cpu_budget);
    std::cout << "#thr " << KARA_THRESHOLD << " " << SQR_THRESHOLD << "\n";
    std::map<std::string, AnyRunner*> doms;
    std::string line;
    while (std::getline(std::cin, line)) {
        std::istringstream is(line);
        std::string v, key, ps; long k, s; is >> v >> key >> ps >> k >> s;
        if (!is) continue;
        std::vector<std::string> a; std::string t;
        while (is >> t) a.push_back(t);
        std::string dk = key + ":" + ps;
        if (!doms.count(dk)) doms[dk] = make(key, ps);
        std::string r;
        arm_cpu_budget(budget);
        if (!doms[dk]) r = "UNKNOWN-FIELD";
        else { try { r = doms[dk]->run(v, a); } catch (...) { r = "EXCEPTION"; } }
        arm_cpu_budget(0);
        std::cout << r << std::endl;
    }
    return 0;
}
