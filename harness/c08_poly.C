// C08 harness: runs Poly1Dom<Field,Dense> (and Interpolation<Field>, Poly1CRT<Field>) operations of /repo's
// current headers on cases from stdin, over several coefficient fields.
// line:   <variant> <field> <p> <kthr> <sthr> <args...>   polynomial arg: c0,c1,..,cn or '-' (empty); scalar: integer
//         field in { mi32 = Modular<int32_t>, mi64 = Modular<int64_t>, md = Modular<double>, mI = Modular<Integer>,
//                    mb32 = ModularBalanced<int32_t>, gfq = GFqDom<int32_t>(p,1) (Zech logarithms) }
// output: result tokens in the same syntax (coefficients printed as canonical residues 0..p-1).
// kthr/sthr are informational: the thresholds are compile-time (KARA_THRESHOLD / SQR_THRESHOLD, possibly overridden
// with -D by the check); they are printed in the "#thr" line.
#include <iostream>
#include <sstream>
#include <string>
#include <vector>
#include <map>
#include <cstdlib>
#include "modular.h"
#include "modular-balanced.h"
#include "gfq.h"
#include "givpoly1.h"
#include "givinterp.h"
#include "givpoly1crt.h"
#include "givpoly1padic.h"

using namespace Givaro;

template <class Field>
struct Runner {
    typedef Poly1Dom<Field, Dense> PolDom;
    typedef typename PolDom::Element Poly;
    typedef typename Field::Element Elt;
    Field F;
    PolDom D;
    Integer p;
    Runner(const Field& f, const Integer& pp) : F(f), D(f, Indeter("X")), p(pp) {}

    Elt elt(const std::string& t) const { Elt e; F.init(e); Integer v(t.c_str()); F.init(e, v); return e; }
    Poly parse_poly(const std::string& s) const {
        Poly P;
        if (s == "-") return P;
        std::istringstream is(s); std::string t;
        while (std::getline(is, t, ',')) P.push_back(elt(t));
        return P;
    }
    std::string se(const Elt& e) const {
        Integer v; F.convert(v, e); v %= p; if (v < 0) v += p;
        std::ostringstream o; o << v; return o.str();
    }
    std::string sp(const Poly& P) const {
        if (P.empty()) return "-";
        std::ostringstream o;
        for (size_t i = 0; i < P.size(); ++i) { if (i) o << ","; o << se(P[i]); }
        return o.str();
    }
    std::string run(const std::string& v, const std::vector<std::string>& a) {
        std::ostringstream o;
        // destinations start from a non-empty junk value so that every resize branch is exercised
        Poly R, R2, R3; R.assign(3, F.one); R2.assign(5, F.one); R3.assign(2, F.one);
        auto P = [&](size_t i) { return parse_poly(a.at(i)); };
        auto S = [&](size_t i) { return elt(a.at(i)); };
        auto N = [&](size_t i) { return atol(a.at(i).c_str()); };
        Elt e, m; F.init(e); F.init(m);
        // ---- misc
        if (v == "setdegree") { Poly A = P(0); o << sp(D.setdegree(A)); }
        else if (v == "setDegree") { Poly A = P(0); D.setDegree(A); o << sp(A); }
        else if (v == "degree.d") { Poly A = P(0); Degree d; D.degree(d, A); o << d.value(); }
        else if (v == "degree.v") { Poly A = P(0); o << D.degree(A).value(); }
        else if (v == "leadcoef") { Poly A = P(0); o << se(D.leadcoef(e, A)); }
        else if (v == "isZero") { Poly A = P(0); o << (D.isZero(A) ? 1 : 0); }
        else if (v == "areEqual") { Poly A = P(0), B = P(1); o << (D.areEqual(A, B) ? 1 : 0); }
        else if (v == "areNEqual") { Poly A = P(0), B = P(1); o << (D.areNEqual(A, B) ? 0 : 1); }
        else if (v == "assign") { Poly A = P(0); o << sp(D.assign(R, A)); }
        else if (v == "monomial") { o << sp(D.assign(R, Degree(N(0)), S(1))); }
        else if (v == "monomial.init") { o << sp(D.init(R, Degree(N(0)), Integer(a.at(1).c_str()))); }
        else if (v == "eval") { Poly A = P(0); o << se(D.eval(e, A, S(1))); }
        else if (v == "diff") { Poly A = P(0); o << sp(D.diff(R, A)); }
        else if (v == "reverse") { Poly A = P(0); o << sp(D.reverse(R, A)); }
        else if (v == "reversein") { Poly A = P(0); o << sp(D.reversein(A)); }
        else if (v == "getEntry") { Poly A = P(0); o << se(D.getEntry(e, Degree(N(1)), A)); }
        else if (v == "setEntry") { Poly A = P(0); D.setEntry(A, S(1), Degree(N(2))); o << sp(A); }
        else if (v == "val") { Poly A = P(0); Degree d; D.val(d, A); o << d.value(); }
        // ---- add / sub / neg
        else if (v == "add.rpq") { Poly A = P(0), B = P(1); o << sp(D.add(R, A, B)); }
        else if (v == "add.alias") { Poly A = P(0), B = P(1); o << sp(D.add(A, A, B)); }
        else if (v == "addin") { Poly A = P(0), B = P(1); o << sp(D.addin(A, B)); }
        else if (v == "add.rps") { Poly A = P(0); o << sp(D.add(R, A, S(1))); }
        else if (v == "add.rsp") { Poly A = P(0); o << sp(D.add(R, S(1), A)); }
        else if (v == "addin.s") { Poly A = P(0); o << sp(D.addin(A, S(1))); }
        else if (v == "sub.rpq") { Poly A = P(0), B = P(1); o << sp(D.sub(R, A, B)); }
        else if (v == "subin") { Poly A = P(0), B = P(1); o << sp(D.subin(A, B)); }
        else if (v == "sub.rps") { Poly A = P(0); o << sp(D.sub(R, A, S(1))); }
        else if (v == "sub.rsp") { Poly A = P(1); o << sp(D.sub(R, S(0), A)); }
        else if (v == "subin.s") { Poly A = P(0); o << sp(D.subin(A, S(1))); }
        else if (v == "neg") { Poly A = P(0); o << sp(D.neg(R, A)); }
        else if (v == "negin") { Poly A = P(0); o << sp(D.negin(A)); }
        // the domain's own constant `zero` of a fresh domain object as operand (it was the vector [0] until ffae607, now the empty vector); argument 0 is ignored
        else if (v == "add.rps.Dzero") { PolDom D2(F, Indeter("X")); o << sp(D2.add(R, D2.zero, S(1))); }
        else if (v == "add.rsp.Dzero") { PolDom D2(F, Indeter("X")); o << sp(D2.add(R, S(1), D2.zero)); }
        else if (v == "sub.rps.Dzero") { PolDom D2(F, Indeter("X")); o << sp(D2.sub(R, D2.zero, S(1))); }
        // ---- products
        else if (v == "mul.rpq") { Poly A = P(0), B = P(1); o << sp(D.mul(R, A, B)); }
        else if (v == "mul.empty") { Poly A = P(0), B = P(1); Poly Z; o << sp(D.mul(Z, A, B)); }
        else if (v == "mulin") { Poly A = P(0), B = P(1); o << sp(D.mulin(A, B)); }
        else if (v == "stdmul") { Poly A = P(0), B = P(1); o << sp(D.stdmul(R, A, B)); }
        else if (v == "karamul") { Poly A = P(0), B = P(1); o << sp(D.karamul(R, A, B)); }
        else if (v == "mul.rps") { Poly A = P(0); o << sp(D.mul(R, A, S(1))); }
        else if (v == "mul.rsp") { Poly A = P(0); o << sp(D.mul(R, S(1), A)); }
        else if (v == "mulin.s") { Poly A = P(0); o << sp(D.mulin(A, S(1))); }
        else if (v == "sqr") { Poly A = P(0); o << sp(D.sqr(R, A)); }
        else if (v == "mul.trunc") { Poly A = P(0), B = P(1); o << sp(D.mul(R, A, B, Degree(N(2)), Degree(N(3)))); }
        else if (v == "midmul") { Poly A = P(0), B = P(1); o << sp(D.midmul(R, A, B)); }
        else if (v == "stdmidmul") { Poly A = P(0), B = P(1); o << sp(D.stdmidmul(R, A, B)); }
        else if (v == "karamidmul") { Poly A = P(0), B = P(1); o << sp(D.karamidmul(R, A, B)); }
        else if (v == "power_compose") { Poly A = P(0); o << sp(D.power_compose(R, A, (uint64_t)N(1))); }
        // ---- division
        else if (v == "div.rps") { Poly A = P(0); o << sp(D.div(R, A, S(1))); }
        else if (v == "divin.s") { Poly A = P(0); o << sp(D.divin(A, S(1))); }
        else if (v == "div.rsp") { Poly A = P(1); o << sp(D.div(R, S(0), A)); }
        else if (v == "mod.rsp") { Poly A = P(1); o << sp(D.mod(R, S(0), A)); }
        else if (v == "mod.rps") { Poly A = P(0); o << sp(D.mod(R, A, S(1))); }
        else if (v == "modin.s") { Poly A = P(0); o << sp(D.modin(A, S(1))); }
        else if (v == "invmodpowx") { Poly A = P(0); o << sp(D.invmodpowx(R, A, Degree(N(1)))); }
        else if (v == "modpowx") { Poly A = P(0); o << sp(D.modpowx(R, A, Degree(N(1)))); }
        else if (v == "modpowxin") { Poly A = P(0); o << sp(D.modpowxin(A, Degree(N(1)))); }
        else if (v == "div.rpq") { Poly A = P(0), B = P(1); o << sp(D.div(R, A, B)); }
        else if (v == "divin") { Poly A = P(0), B = P(1); o << sp(D.divin(A, B)); }
        else if (v == "divmod") { Poly A = P(0), B = P(1); D.divmod(R, R2, A, B); o << sp(R) << " " << sp(R2); }
        else if (v == "divmodin") { Poly A = P(0), B = P(1); D.divmodin(R, A, B); o << sp(R) << " " << sp(A); }
        else if (v == "mod.rpq") { Poly A = P(0), B = P(1); o << sp(D.mod(R, A, B)); }
        else if (v == "modin") { Poly A = P(0), B = P(1); o << sp(D.modin(A, B)); }
        else if (v == "pdivmod") { Poly A = P(0), B = P(1); D.pdivmod(R, R2, m, A, B); o << sp(R) << " " << sp(R2) << " " << se(m); }
        else if (v == "pmod") { Poly A = P(0), B = P(1); D.pmod(R, m, A, B); o << sp(R) << " " << se(m); }
        else if (v == "isDivisor") { Poly A = P(0), B = P(1); o << (D.isDivisor(A, B) ? 1 : 0); }
        // ---- gcd family
        else if (v == "gcd.2") { Poly A = P(0), B = P(1); o << sp(D.gcd(R, A, B)); }
        else if (v == "gcd.5") { Poly A = P(0), B = P(1); D.gcd(R, R2, R3, A, B); o << sp(R) << " " << sp(R2) << " " << sp(R3); }
        else if (v == "invmod") { Poly A = P(0), B = P(1); o << sp(D.invmod(R, A, B)); }
        else if (v == "invmodunit") { Poly A = P(0), B = P(1); o << sp(D.invmodunit(R, A, B)); }
        else if (v == "lcm") { Poly A = P(0), B = P(1); o << sp(D.lcm(R, A, B)); }
        // ---- powers
        else if (v == "pow") { Poly A = P(0); o << sp(D.pow(R, A, (uint64_t)strtoull(a.at(1).c_str(), 0, 10))); }
        else if (v == "powmod") { Poly A = P(0), U = P(2); o << sp(D.powmod(R, A, Integer(a.at(1).c_str()), U)); }
        else if (v == "powmod.u64") { Poly A = P(0), U = P(2); o << sp(D.powmod(R, A, (uint64_t)strtoull(a.at(1).c_str(), 0, 10), U)); }
        else if (v == "powmod.i64") { Poly A = P(0), U = P(2); o << sp(D.powmod(R, A, (int64_t)strtoll(a.at(1).c_str(), 0, 10), U)); }
        else if (v == "powmod.u32") { Poly A = P(0), U = P(2); o << sp(D.powmod(R, A, (uint32_t)strtoul(a.at(1).c_str(), 0, 10), U)); }
        // ---- fused forms
        else if (v == "axpy") { Poly A = P(0), X = P(1), Y = P(2); o << sp(D.axpy(R, A, X, Y)); }
        else if (v == "axpy.s") { Poly X = P(1), Y = P(2); o << sp(D.axpy(R, S(0), X, Y)); }
        else if (v == "axpyin") { Poly Rr = P(0), A = P(1), X = P(2); o << sp(D.axpyin(Rr, A, X)); }
        else if (v == "axpyin.s") { Poly Rr = P(2), X = P(1); o << sp(D.axpyin(Rr, S(0), X)); }
        else if (v == "maxpy") { Poly A = P(0), B = P(1), C = P(2); o << sp(D.maxpy(R, A, B, C)); }
#ifdef C08_HAVE_MAXPY_S
        else if (v == "maxpy.s") { Poly B = P(1), C = P(2); o << sp(D.maxpy(R, S(0), B, C)); }
#endif
#ifdef C08_HAVE_SHIFT
        else if (v == "shift") { Poly A = P(0); o << sp(D.shift(R, A, (int)N(1))); }
#endif
        else if (v == "shiftin") { Poly A = P(0); o << sp(D.shiftin(A, (int)N(1))); }
        else if (v == "maxpyin") { Poly Rr = P(0), A = P(1), B = P(2); o << sp(D.maxpyin(Rr, A, B)); }
        else if (v == "maxpyin.s") { Poly Rr = P(0), B = P(2); o << sp(D.maxpyin(Rr, S(1), B)); }
        else if (v == "axmy") { Poly A = P(0), X = P(1), Y = P(2); o << sp(D.axmy(R, A, X, Y)); }
        else if (v == "axmy.s") { Poly X = P(1), Y = P(2); o << sp(D.axmy(R, S(0), X, Y)); }
        else if (v == "axmyin") { Poly Rr = P(0), A = P(1), X = P(2); o << sp(D.axmyin(Rr, A, X)); }
        else if (v == "axmyin.s") { Poly Rr = P(0), X = P(2); o << sp(D.axmyin(Rr, S(1), X)); }
        // ---- interpolation (givinterp.h): points, values
        else if (v == "interp") {
            Poly X = P(0), Y = P(1);
            Interpolation<Field> I(F, Indeter("X"));
            for (size_t i = 0; i < X.size(); ++i) I(X[i], Y[i]);
            o << sp(I.interpolator());
        }
        // ---- polynomial CRT (givpoly1crt.h): points, polynomial / residues
        else if (v == "crt.torns") {
            Poly X = P(0), A = P(1);
            Poly1CRT<Field> C(F, X, Indeter("X"));
            typename Poly1CRT<Field>::array_T rns; rns.assign(2, F.one);
            C.RingToRns(rns, A); o << sp(rns);
        }
        else if (v == "crt.toring" || v == "crt.toring.copy") {
            Poly X = P(0), Y = P(1);
            Poly1CRT<Field> C(F, X, Indeter("X"));
            if (v == "crt.toring") { C.RnsToRing(R, Y); }
            else { C.RnsToRing(R2, Y); Poly1CRT<Field> C2(C); C2.RnsToRing(R, Y); }   // copy carries the cached reciprocals
            o << sp(R);
        }
        else o << "UNKNOWN-VARIANT";
        return o.str();
    }
};

struct AnyRunner { virtual std::string run(const std::string&, const std::vector<std::string>&) = 0; virtual ~AnyRunner() {} };
template <class Field> struct RunnerBox : AnyRunner {
    Runner<Field> r;
    RunnerBox(const Field& f, const Integer& p) : r(f, p) {}
    std::string run(const std::string& v, const std::vector<std::string>& a) { return r.run(v, a); }
};

// one binary per field (-DC08_FIELD_<key>) so that the instantiations compile in parallel; no define = all fields
#if !defined(C08_FIELD_mi32) && !defined(C08_FIELD_mi64) && !defined(C08_FIELD_md) && !defined(C08_FIELD_mI) && !defined(C08_FIELD_mb32) && !defined(C08_FIELD_gfq)
#define C08_FIELD_mi32
#define C08_FIELD_mi64
#define C08_FIELD_md
#define C08_FIELD_mI
#define C08_FIELD_mb32
#define C08_FIELD_gfq
#endif
static AnyRunner* make(const std::string& key, const std::string& ps) {
    Integer p(ps.c_str());
#ifdef C08_FIELD_mi32
    if (key == "mi32") return new RunnerBox<Modular<int32_t> >(Modular<int32_t>((int32_t)atol(ps.c_str())), p);
#endif
#ifdef C08_FIELD_mi64
    if (key == "mi64") return new RunnerBox<Modular<int64_t> >(Modular<int64_t>((int64_t)atoll(ps.c_str())), p);
#endif
#ifdef C08_FIELD_md
    if (key == "md") return new RunnerBox<Modular<double> >(Modular<double>((double)atol(ps.c_str())), p);
#endif
#ifdef C08_FIELD_mI
    if (key == "mI") return new RunnerBox<Modular<Integer> >(Modular<Integer>(p), p);
#endif
#ifdef C08_FIELD_mb32
    if (key == "mb32") return new RunnerBox<ModularBalanced<int32_t> >(ModularBalanced<int32_t>((int32_t)atol(ps.c_str())), p);
#endif
#ifdef C08_FIELD_gfq
    if (key == "gfq") return new RunnerBox<GFqDom<int32_t> >(GFqDom<int32_t>((uint32_t)atol(ps.c_str()), 1), p);
#endif
    return 0;
}

int main() {
    std::cout << "#thr " << KARA_THRESHOLD << " " << SQR_THRESHOLD << "\n";
    std::map<std::string, AnyRunner*> doms;
    std::string line;
    while (std::getline(std::cin, line)) {
        std::istringstream is(line);
        std::string v, key, ps; long k, s; is >> v >> key >> ps >> k >> s;
        if (!is) continue;
        std::vector<std::string> a; std::string t;
        while (is >> t) a.push_back(t);
        std::string dk = key + ":" + ps;
        if (!doms.count(dk)) doms[dk] = make(key, ps);
        std::string r;
        if (!doms[dk]) r = "UNKNOWN-FIELD";
        else { try { r = doms[dk]->run(v, a); } catch (...) { r = "EXCEPTION"; } }
        std::cout << r << std::endl;
    }
    return 0;
}
