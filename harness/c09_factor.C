// C09 harness: runs Poly1FactorDom / Poly1Dom (sqrfree, cyclotomic) of /repo's current sources.
// One case per line:   <op> <field> <stream> <args...>
//   field  : "p" (prime, Modular<int32_t>)  or  "q:p:k[:m]" (GFqDom<int64_t>(p,k), elements = p-adic integers in [0,q))
//            or "m64:p" (Modular<int64_t>, p <= 2^32), "mu64:p" (Modular<uint64_t,__uint128_t>, p < 2^64),
//            "mI:p" (Modular<Integer>, any p), "md:p" (Modular<double>, p < 94906266)
//   stream : comma separated uint64 values returned one after the other by the random generator the
//            factoring domain is instantiated with ("-" = empty);  an exhausted stream ends the call with EXHAUSTED
//   poly   : c0,c1,...,cn  (low degree first)   "-" = the zero polynomial (size 0)
// Output: one line;  polynomials in the same syntax, lists as  [P Q R]  , exponents as {e1 e2}.
#include <iostream>
#include <sstream>
#include <string>
#include <vector>
#include <list>
#include <map>
#include <stdexcept>
#include <cstdint>
#include <cstdlib>
#include <csignal>
#include <sys/time.h>
#include <unistd.h>
#include "givinteger.h"
#include "modular.h"
#include "gfq.h"
#include "givpoly1factor.h"

using namespace Givaro;

// ---- replay generator: the random iterator the factoring domain draws from
static std::vector<uint64_t> g_stream;
static size_t g_pos = 0;
struct Exhausted {};
struct Replay {
    typedef uint64_t random_t;
    Replay() {}
    Replay(const Replay&) {}
    uint64_t operator()() const {
        if (g_pos >= g_stream.size()) throw Exhausted();
        return g_stream[g_pos++];
    }
    uint64_t seed() const { return 0; }
};

static std::vector<std::string> split(const std::string& s, char c) {
    std::vector<std::string> r; std::string cur;
    for (size_t i = 0; i < s.size(); ++i) { if (s[i] == c) { r.push_back(cur); cur.clear(); } else cur += s[i]; }
    r.push_back(cur); return r;
}

// element text I/O: machine-word domains through int64_t (GFqDom: p-adic integers), the others through Integer
template <class Dom> inline void rd_el(const Dom& F, typename Dom::Element& e, const std::string& s) { F.init(e, (int64_t)strtoll(s.c_str(), 0, 10)); }
template <class Dom> inline std::string wr_el(const Dom& F, const typename Dom::Element& e) { int64_t v; F.convert(v, e); std::ostringstream o; o << v; return o.str(); }
inline void rd_el(const Modular<Integer>& F, Integer& e, const std::string& s) { Integer v(s.c_str()); F.init(e, v); }
inline std::string wr_el(const Modular<Integer>& F, const Integer& e) { Integer v; F.convert(v, e); std::ostringstream o; o << v; return o.str(); }
typedef Modular<uint64_t, __uint128_t> ModU64;
inline void rd_el(const ModU64& F, uint64_t& e, const std::string& s) { F.init(e, (uint64_t)strtoull(s.c_str(), 0, 10)); }
inline std::string wr_el(const ModU64& F, const uint64_t& e) { uint64_t v; F.convert(v, e); std::ostringstream o; o << v; return o.str(); }

template <class Dom> struct Run {
    typedef Poly1FactorDom<Dom, Dense, Replay> FD_t;
    typedef typename FD_t::Element Poly;
    typedef typename Dom::Residu_t Residu_t;
    const Dom& F; FD_t FD;
    // every way of obtaining the factoring domain, in rotation over the cases: (domain, indeterminate, generator) constructor,
    // (Poly1Dom, generator) constructor, copy construction, default construction followed by assignment
    static FD_t make(const Dom& f, int mode) {
        if (mode == 1) { Poly1Dom<Dom, Dense> PD(f, Indeter("X")); return FD_t(PD, Replay()); }
        FD_t A(f, Indeter("X"), Replay());
        if (mode == 2) { FD_t B(A); return B; }
        if (mode == 3) { FD_t B; B = A; return B; }
        return A;
    }
    Run(const Dom& f, int mode = 0) : F(f), FD(make(f, mode)) {}

    Poly rd(const std::string& s) {
        Poly P; if (s == "-") { P.resize(0); return P; }
        std::vector<std::string> t = split(s, ',');
        P.resize(t.size());
        for (size_t i = 0; i < t.size(); ++i) rd_el(F, P[i], t[i]);
        return P;      // deliberately NOT normalised: callers may pass leading zeros
    }
    std::string wr(const Poly& P) {
        if (P.size() == 0) return "-";
        std::ostringstream o;
        for (size_t i = 0; i < P.size(); ++i) { if (i) o << ","; o << wr_el(F, P[i]); }
        return o.str();
    }
    template <class C> std::string wrl(const C& L) {
        std::ostringstream o; o << "["; bool first = true;
        for (typename C::const_iterator i = L.begin(); i != L.end(); ++i) { if (!first) o << " "; first = false; o << wr(*i); }
        o << "]"; return o.str();
    }
    std::string wre(const std::vector<uint64_t>& E) {
        std::ostringstream o; o << "{";
        for (size_t i = 0; i < E.size(); ++i) { if (i) o << " "; o << E[i]; }
        o << "}"; return o.str();
    }

    std::string go(const std::string& op, const std::vector<std::string>& a) {
        std::ostringstream o;
        Residu_t MOD = F.residu();
        if (op == "irr") { o << (FD.is_irreducible(rd(a[0])) ? 1 : 0); }
        else if (op == "irr.mod") { o << (FD.is_irreducible(rd(a[0]), MOD) ? 1 : 0); }
#ifdef C09_PERMISSIVE   /* bodies with unqualified dependent-base names: need -fpermissive on the unchanged tree */
        else if (op == "irr2") { o << (FD.is_irreducible2(rd(a[0])) ? 1 : 0); }
        else if (op == "irr2.mod") { o << (FD.is_irreducible2(rd(a[0]), MOD) ? 1 : 0); }
        else if (op == "order") { Integer r = FD.order(rd(a[0]), rd(a[1])); o << r; }
        else if (op == "ixe2") { Poly P; FD.ixe_irreducible2(P, Degree(atol(a[0].c_str()))); o << wr(P); }
#endif
        else if (op == "sqrfree") {
            Poly P = rd(a[0]); Degree d; FD.degree(d, P);
            size_t nb = (size_t)(d.value() + 1); if (a.size() > 1) nb = (size_t)atol(a[1].c_str());
            std::vector<Poly> g(nb + 2);
            size_t n = nb; FD.sqrfree(n, &g[0], P);
            g.resize(n < nb + 2 ? n : nb + 2);
            o << n << " " << wrl(g);
        }
        else if (op == "ddf") { std::vector<Poly> L; FD.DistinctDegreeFactor(L, rd(a[0])); o << wrl(L); }
        else if (op == "ddf.mod") { std::vector<Poly> L; FD.DistinctDegreeFactor(L, rd(a[0]), MOD); o << wrl(L); }
        else if (op == "ddf.list") { std::list<Poly> L; FD.DistinctDegreeFactor(L, rd(a[0])); o << wrl(L); }
        else if (op == "split") { std::vector<Poly> L; FD.SplitFactor(L, rd(a[0]), Degree(atol(a[1].c_str()))); o << wrl(L); }
        else if (op == "split.mod") { std::vector<Poly> L; FD.SplitFactor(L, rd(a[0]), Degree(atol(a[1].c_str())), MOD); o << wrl(L); }
        else if (op == "split1") { Poly R; FD.SplitFactor(R, rd(a[0]), Degree(atol(a[1].c_str()))); o << wr(R); }
        else if (op == "split1.mod") { Poly R; FD.SplitFactor(R, rd(a[0]), Degree(atol(a[1].c_str())), MOD); o << wr(R); }
        else if (op == "cz") { std::vector<Poly> L; std::vector<uint64_t> E; FD.CZfactor(L, E, rd(a[0])); o << wrl(L) << " " << wre(E); }
        else if (op == "cz.mod") { std::vector<Poly> L; std::vector<uint64_t> E; FD.CZfactor(L, E, rd(a[0]), MOD); o << wrl(L) << " " << wre(E); }
        else if (op == "cz.factor") { std::vector<Poly> L; std::vector<uint64_t> E; FD.factor(L, E, rd(a[0])); o << wrl(L) << " " << wre(E); }
#ifdef C09_FACTOR1      /* Rep& factor(Rep&, const Rep&): uses Rep::copy, which std::vector does not have */
        else if (op == "factor1") { Poly W; FD.factor(W, rd(a[0])); o << wr(W); }
        else if (op == "factor1.mod") { Poly W; FD.factor(W, rd(a[0]), MOD); o << wr(W); }
#endif
        else if (op == "isproot") { o << (FD.is_prim_root(rd(a[0]), rd(a[1])) ? 1 : 0); }
        else if (op == "randirr") { Poly P; FD.random_irreducible(P, Degree(atol(a[0].c_str()))); o << wr(P); }
        else if (op == "creux") { Poly P; FD.creux_random_irreducible(P, Degree(atol(a[0].c_str()))); o << wr(P); }
        else if (op == "ixe") { Poly P; FD.ixe_irreducible(P, Degree(atol(a[0].c_str()))); o << wr(P); }
        else if (op == "giveproot") { Poly R; FD.give_prim_root(R, rd(a[0])); o << wr(R); }
        else if (op == "giverandproot") { Poly R; FD.give_random_prim_root(R, rd(a[0])); o << wr(R); }
        else if (op == "randproot") { Poly P, R; FD.random_prim_root(P, R, Degree(atol(a[0].c_str()))); o << wr(P) << " " << wr(R); }
        else if (op == "cyclo") { Poly P; FD.cyclotomic(P, (uint64_t)atol(a[0].c_str())); o << wr(P); }
        else if (op == "pcomp") { Poly W; FD.power_compose(W, rd(a[0]), (uint64_t)atol(a[1].c_str())); o << wr(W); }
        else if (op == "fieldinfo") { Integer c, q; F.characteristic(c); F.cardinality(q); o << Integer(F.residu()) << " " << c << " " << q; }
        else if (op == "diff") { Poly D; FD.diff(D, rd(a[0])); o << wr(D); }
        else if (op == "diff.in") { Poly D = rd(a[0]); FD.diff(D, D); o << wr(D); }                 // P and Q the same object
        else if (op == "powmod") { Poly W; Integer e(a[1].c_str()); FD.powmod(W, rd(a[0]), e, rd(a[2])); o << wr(W); }
        else if (op == "powmod.in") { Poly W = rd(a[2]); Integer e(a[1].c_str()); FD.powmod(W, rd(a[0]), e, W); o << wr(W); }   // W and U the same object
        else if (op == "gcd") { Poly G; FD.gcd(G, rd(a[0]), rd(a[1])); o << wr(G); }
        else o << "UNKNOWN-OP";
        return o.str();
    }
};

typedef Modular<int32_t> ModP;

// per-case CPU-time watchdog (CPU time does not depend on the load of the machine): C09_CASE_CPU=<seconds> arms ITIMER_PROF
// before every case; a call that does not return within the budget ends the process with the line HANG-CPU and exit status 99
// (the check re-runs that one case alone with a larger budget before it calls it a failing input)
static void on_prof(int) { static const char m[] = "\nHANG-CPU\n"; ssize_t r = write(1, m, sizeof(m) - 1); (void)r; _exit(99); }

int main() {
    std::string line; int mode = -1;
    long budget = getenv("C09_CASE_CPU") ? atol(getenv("C09_CASE_CPU")) : 0;
    if (budget > 0) signal(SIGPROF, on_prof);
    while (std::getline(std::cin, line)) {
        std::istringstream is(line);
        std::string op, fld, st; std::vector<std::string> a; std::string t;
        if (!(is >> op >> fld >> st)) continue;
        while (is >> t) a.push_back(t);
        g_stream.clear(); g_pos = 0; mode = (mode + 1) % 4;
        if (st != "-") { std::vector<std::string> ts = split(st, ','); for (size_t i = 0; i < ts.size(); ++i) g_stream.push_back(strtoull(ts[i].c_str(), 0, 10)); }
        std::string out;
        if (budget > 0) { struct itimerval it; it.it_interval.tv_sec = 0; it.it_interval.tv_usec = 0; it.it_value.tv_sec = budget; it.it_value.tv_usec = 0; setitimer(ITIMER_PROF, &it, 0); }
        try {
            if (fld.size() > 2 && fld[0] == 'q' && fld[1] == ':') {
                std::vector<std::string> f = split(fld, ':');
                uint64_t P = (uint64_t)atol(f[1].c_str()), e = (uint64_t)atol(f[2].c_str());
                if (f.size() > 3) {      // prescribed modulus, given as the integer whose base-P digits are its coefficients
                    static std::map<std::string, GFqDom<int64_t>*> cache;
                    if (!cache.count(fld)) {
                        std::vector<int64_t> mp; uint64_t m = strtoull(f[3].c_str(), 0, 10);
                        for (uint64_t i = 0; i <= e; ++i) { mp.push_back((int64_t)(m % P)); m /= P; }
                        cache[fld] = new GFqDom<int64_t>(P, e, mp);
                    }
                    Run<GFqDom<int64_t> > R(*cache[fld], mode); out = R.go(op, a);
                } else if (e == 1) {     // prime field through GFqDom (Residu_t = uint64_t): one object per process
                    static std::map<std::string, GFqDom<int64_t>*> cache1;
                    if (!cache1.count(fld)) cache1[fld] = new GFqDom<int64_t>(P, e);
                    Run<GFqDom<int64_t> > R(*cache1[fld], mode); out = R.go(op, a);
                } else {
                    GFqDom<int64_t> F(P, e);
                    Run<GFqDom<int64_t> > R(F, mode); out = R.go(op, a);
                }
            } else if (fld.compare(0, 4, "m64:") == 0) {
                Modular<int64_t> F((int64_t)strtoll(fld.c_str() + 4, 0, 10));
                Run<Modular<int64_t> > R(F, mode); out = R.go(op, a);
            } else if (fld.compare(0, 5, "mu64:") == 0) {
                ModU64 F((uint64_t)strtoull(fld.c_str() + 5, 0, 10));
                Run<ModU64> R(F, mode); out = R.go(op, a);
            } else if (fld.compare(0, 3, "mI:") == 0) {
                Modular<Integer> F(Integer(fld.c_str() + 3));
                Run<Modular<Integer> > R(F, mode); out = R.go(op, a);
            } else if (fld.compare(0, 3, "md:") == 0) {
                Modular<double> F((double)atol(fld.c_str() + 3));
                Run<Modular<double> > R(F, mode); out = R.go(op, a);
            } else {
                ModP F((int32_t)atol(fld.c_str()));
                Run<ModP> R(F, mode); out = R.go(op, a);
            }
        } catch (Exhausted&) { out = "EXHAUSTED"; }
        catch (const char* m) { out = std::string("THROW ") + m; }
        catch (std::exception& e) { out = std::string("EXN ") + e.what(); }
        if (budget > 0) { struct itimerval it; it.it_interval.tv_sec = 0; it.it_interval.tv_usec = 0; it.it_value.tv_sec = 0; it.it_value.tv_usec = 0; setitimer(ITIMER_PROF, &it, 0); }
        std::cout << out << " #" << g_pos << std::endl;
    }
    return 0;
}
