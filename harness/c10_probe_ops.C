// C10 compile probe: the six comparison operators on two Rationals (const and non-const) must be usable under
// ISO C++ overload resolution (compiled with -fsyntax-only -pedantic-errors by checks/C10.py).
#include "givrational.h"
#include "qfield.h"
using namespace Givaro;
int probe(Rational& a, Rational& b, const Rational& c, const Rational& d) {
    int s = 0;
    s += (a <  b) + (c <  d) + (a <  d) + (c <  b);
    s += (a >  b) + (c >  d) + (a >  d) + (c >  b);
    s += (a <= b) + (c <= d) + (a <= d) + (c <= b);
    s += (a >= b) + (c >= d) + (a >= d) + (c >= b);
    s += (a == b) + (c == d) + (a == d) + (c == b);
    s += (a != b) + (c != d) + (a != d) + (c != b);
    return s;
}
