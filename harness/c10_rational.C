// C10 harness: runs Givaro::Rational / QField<Rational> operations of /repo's current tree on cases read
// from stdin.   line:  <variant> <red> <args...>     (red: 1 = Rational::SetReduce(), 0 = SetNoReduce())
// output: rationals as "num den" (raw nume()/deno()), a thrown exception as "THROW", ints as decimal.
// Operand rationals are given as two integers n d (d > 0) and built with Rational(n, d, 0) (no reduction).
#include <iostream>
#include <sstream>
#include <string>
#include <vector>
#include <cstring>
#include <cstdint>
#include <cstdlib>
#include <cstdio>
#include <cfloat>
#include <limits>
#include <gmp.h>
#include <signal.h>
#include <unistd.h>
#include <sys/time.h>
#include "gmp++/gmp++.h"
#include "givrational.h"
#include "qfield.h"
#include "givrandom.h"

using namespace Givaro;

static Integer toI(const std::string& s) {
    Integer x; mpz_set_str(x.get_mpz(), s.c_str(), 10); return x;
}
static std::string str(const Integer& x) {
    char* s = mpz_get_str(NULL, 10, x.get_mpz_const()); std::string r(s); free(s); return r;
}
static std::string str(const Rational& r) { return str(r.nume()) + " " + str(r.deno()); }
static int64_t toi64(const std::string& s) { return (int64_t) strtoll(s.c_str(), NULL, 10); }
static uint64_t tou64(const std::string& s) { return (uint64_t) strtoull(s.c_str(), NULL, 10); }

// raw operand: exactly (n, d) for d > 0 (the constructor with red = 0 only normalises the sign of d)
// a zero stored as 0/d with d > 1 (what `x -= y` leaves in NoReduce mode) cannot be built by a constructor: write the members
struct RawRat : public Rational { RawRat(const Integer& n, const Integer& d) { num = n; den = d; } };
static Rational mk(const std::string& n, const std::string& d) {
    if (n == "0" && d != "1") return RawRat(toI(n), toI(d));
    return Rational(toI(n), toI(d), 0);
}


// ------------------------------------------------ generic QField wrapper call with an arbitrary aliasing pattern.
// variant  qw.<op>.<pat> : pat has one digit per parameter of the wrapper (r first), the digit is the index of the
// object passed for that parameter (equal digits = the same object).  The arguments are the VALUES of the input
// parameters in declaration order (for the *in forms r is an input too).  Objects are filled in parameter order;
// an object that receives no input value holds 7/5.  Output: the object passed as r, then a check that every
// object not passed as r still holds the value it was given (the wrappers take their inputs by const reference).
static std::string run_qw(const std::string& op, const std::string& pat, const std::vector<std::string>& a) {
    QField<Rational> Q;
    Rational s[4] = { Rational(7, 5), Rational(7, 5), Rational(7, 5), Rational(7, 5) };
    const bool inpl = (op == "axpyin" || op == "maxpyin" || op == "axmyin" || op == "addin" || op == "subin" || op == "mulin" || op == "divin" || op == "negin" || op == "invin");
    const size_t np = pat.size();
    size_t ai = 0;
    Rational given[4] = { Rational(7, 5), Rational(7, 5), Rational(7, 5), Rational(7, 5) };
    for (size_t i = (inpl ? 0 : 1); i < np; ++i, ai += 2) {
        if (ai + 1 >= a.size()) return "BAD-ARGS";
        s[pat[i] - '0'] = mk(a[ai], a[ai + 1]);
        given[pat[i] - '0'] = mk(a[ai], a[ai + 1]);
    }
#define P(i) s[pat[i] - '0']
    Rational* ret = 0;
    if (op == "add" && np == 3) ret = &Q.add(P(0), P(1), P(2));
    else if (op == "sub" && np == 3) ret = &Q.sub(P(0), P(1), P(2));
    else if (op == "mul" && np == 3) ret = &Q.mul(P(0), P(1), P(2));
    else if (op == "div" && np == 3) ret = &Q.div(P(0), P(1), P(2));
    else if (op == "axpy" && np == 4) ret = &Q.axpy(P(0), P(1), P(2), P(3));
    else if (op == "maxpy" && np == 4) ret = &Q.maxpy(P(0), P(1), P(2), P(3));
    else if (op == "axmy" && np == 4) ret = &Q.axmy(P(0), P(1), P(2), P(3));
    else if (op == "axpyin" && np == 3) ret = &Q.axpyin(P(0), P(1), P(2));
    else if (op == "maxpyin" && np == 3) ret = &Q.maxpyin(P(0), P(1), P(2));
    else if (op == "axmyin" && np == 3) ret = &Q.axmyin(P(0), P(1), P(2));
    else if (op == "addin" && np == 2) ret = &Q.addin(P(0), P(1));
    else if (op == "subin" && np == 2) ret = &Q.subin(P(0), P(1));
    else if (op == "mulin" && np == 2) ret = &Q.mulin(P(0), P(1));
    else if (op == "divin" && np == 2) ret = &Q.divin(P(0), P(1));
    else if (op == "neg" && np == 2) ret = &Q.neg(P(0), P(1));
    else if (op == "inv" && np == 2) ret = &Q.inv(P(0), P(1));
    else if (op == "assign" && np == 2) ret = &Q.assign(P(0), P(1));
    else if (op == "negin" && np == 1) ret = &Q.negin(P(0));
    else if (op == "invin" && np == 1) ret = &Q.invin(P(0));
    else return "UNKNOWN-QW-OP";
    std::string out = str(P(0));
    if (ret != &P(0)) out += " BAD-RETURNED-REFERENCE";
    for (int k = 0; k < 4; ++k) {
        if (k == pat[0] - '0') continue;
        if (str(s[k]) != str(given[k])) out += " BAD-INPUT-MODIFIED";
    }
#undef P
    return out;
}

static std::string run(const std::string& v, const std::vector<std::string>& a) {
    std::ostringstream o;
    QField<Rational> Q;
    if (v.compare(0, 3, "qw.") == 0) {
        size_t dot = v.find('.', 3);
        if (dot == std::string::npos) return "UNKNOWN-VARIANT";
        return run_qw(v.substr(3, dot - 3), v.substr(dot + 1), a);
    }
    // ------------------------------------------------ constructors
    if (v == "ctor.neutral") { Rational r(a[0] == "1" ? Neutral::one : Neutral::zero); return str(r); }
    if (v == "ctor.default") { Rational r; return str(r); }
    if (v == "ctor.int32") { Rational r((int32_t) toi64(a[0])); return str(r); }
    if (v == "ctor.uint32") { Rational r((uint32_t) tou64(a[0])); return str(r); }
    if (v == "ctor.int64") { Rational r((int64_t) toi64(a[0])); return str(r); }
    if (v == "ctor.uint64") { Rational r((uint64_t) tou64(a[0])); return str(r); }
    if (v == "ctor.Integer") { Rational r(toI(a[0])); return str(r); }
    if (v == "ctor.i64pair") { Rational r((int64_t) toi64(a[0]), (int64_t) toi64(a[1])); return str(r); }
    if (v == "ctor.i32pair") { Rational r((int32_t) toi64(a[0]), (int32_t) toi64(a[1])); return str(r); }
    if (v == "ctor.u64pair") { Rational r((uint64_t) tou64(a[0]), (uint64_t) tou64(a[1])); return str(r); }
    if (v == "ctor.u32pair") { Rational r((uint32_t) tou64(a[0]), (uint32_t) tou64(a[1])); return str(r); }
    if (v == "ctor.nd") { Rational r(toI(a[0]), toI(a[1])); return str(r); }
    if (v == "ctor.nd.red") { Rational r(toI(a[0]), toI(a[1]), (int) toi64(a[2])); return str(r); }
    if (v == "ctor.double" || v == "q.init.double") {
        uint64_t bits = strtoull(a[0].c_str(), NULL, 16); double x; memcpy(&x, &bits, 8);
        if (v == "ctor.double") { Rational r(x); return str(r); }
        Rational r(7, 5); Q.init(r, x); return str(r);
    }
    if (v == "ctor.string" || v == "io.read") {
        std::string s = a[0]; for (size_t i = 0; i < s.size(); ++i) if (s[i] == '_') s[i] = ' ';
        if (v == "ctor.string") { Rational r(s.c_str()); return str(r); }
        Rational r(7, 5); std::istringstream in(s); in >> r; return str(r);
    }
    if (v == "rt.double") {   // Rational(x) converted back must be x (every finite double is num/den with both members below 2^53 * 2^k)
        uint64_t bits = strtoull(a[0].c_str(), NULL, 16); double x; memcpy(&x, &bits, 8);
        Rational r(x); double y = (double) r; uint64_t b2; memcpy(&b2, &y, 8);
        char buf[32]; snprintf(buf, sizeof buf, "%016llx", (unsigned long long) b2); return buf;
    }
    if (v == "rt.float") {
        uint32_t bits = (uint32_t) strtoul(a[0].c_str(), NULL, 16); float f; memcpy(&f, &bits, 4);
        Rational r(7, 5); Q.init(r, f); float y = (float) r; uint32_t b2; memcpy(&b2, &y, 4);
        char buf[32]; snprintf(buf, sizeof buf, "%08x", b2); return buf;
    }
    if (v == "q.init.float") {
        uint32_t bits = (uint32_t) strtoul(a[0].c_str(), NULL, 16); float f; memcpy(&f, &bits, 4);
        Rational r(7, 5); Q.init(r, f); return str(r);
    }
    if (v == "q.init.cstr") {
        std::string s = a[0]; for (size_t i = 0; i < s.size(); ++i) if (s[i] == '_') s[i] = ' ';
        const char* cs = s.c_str(); Rational r(7, 5); Q.init(r, cs); return str(r);
    }
    if (v == "consts") {
        return str(Rational::zero) + " " + str(Rational::one) + " " + str(Rational::mOne) + " " + str(Q.zero) + " " + str(Q.one) + " " + str(Q.mOne);
    }
    if (v == "platform") {   // the platform parameters the model hard-codes (limb width, binary64 / binary32 formats, evaluation method)
        o << "limb_bits=" << mp_bits_per_limb << " limb_bytes=" << sizeof(mp_limb_t) << " dbl_mant=" << DBL_MANT_DIG << " dbl_max_exp=" << DBL_MAX_EXP
          << " dbl_min_exp=" << DBL_MIN_EXP << " dbl_bytes=" << sizeof(double) << " flt_mant=" << FLT_MANT_DIG << " flt_max_exp=" << FLT_MAX_EXP
          << " flt_min_exp=" << FLT_MIN_EXP << " flt_bytes=" << sizeof(float) << " flt_eval_method=" << FLT_EVAL_METHOD
          << " dbl_denorm=" << (std::numeric_limits<double>::has_denorm == std::denorm_present) << " gmp=" << gmp_version;
        return o.str();
    }
    if (v == "q.consts2") {   // QField built from an arbitrary object; characteristic / cardinality / domain comparison
        QField<Rational> Q2(5); Integer ch(9), ca(9); Q2.characteristic(ch); Q2.cardinality(ca);
        o << str(Q2.zero) << " " << str(Q2.one) << " " << str(Q2.mOne) << " " << Q2.characteristic() << " " << Q2.cardinality() << " "
          << str(ch) << " " << str(ca) << " " << (Q == Q2) << " " << (Q != Q2);
        return o.str();
    }
    if (v == "q.random") {    // results of the random generators must be canonical whatever their value
        GivRandom gen(12345); Rational r(7, 5), bnd = mk(a[0], a[1]); std::string out;
        for (int i = 0; i < 8; ++i) { Q.random(gen, r, (int64_t) (i + 1)); out += str(r) + " "; }
        for (int i = 0; i < 8; ++i) { Q.nonzerorandom(gen, r, (int64_t) (i + 1)); out += str(r) + " "; if (isZero(r)) out += "BAD-ZERO "; }
        if (!isZero(bnd)) {
            for (int i = 0; i < 4; ++i) { Q.random(gen, r, bnd); out += str(r) + " "; }
            for (int i = 0; i < 4; ++i) { Q.nonzerorandom(gen, r, bnd); out += str(r) + " "; if (isZero(r)) out += "BAD-ZERO "; }
        }
        return out;
    }
    if (v == "q.read") {
        std::string s = a[0]; for (size_t i = 0; i < s.size(); ++i) if (s[i] == '_') s[i] = ' ';
        Rational r(7, 5); std::istringstream in(s); Q.read(in, r); return str(r);
    }
    if (v == "q.init0") { Rational r(7, 5); Q.init(r); return str(r); }   // init(a) leaves a unchanged
    if (v == "q.init.int32") { Rational r(7, 5); Q.init(r, (int32_t) toi64(a[0])); return str(r); }
    if (v == "q.init.uint32") { Rational r(7, 5); Q.init(r, (uint32_t) tou64(a[0])); return str(r); }
    if (v == "q.init.uint64") { Rational r(7, 5); Q.init(r, (uint64_t) tou64(a[0])); return str(r); }
    if (v == "q.init.nd") { Rational r(7, 5); Q.init(r, toI(a[0]), toI(a[1])); return str(r); }
    if (v == "q.init.Integer") { Rational r(7, 5); Q.init(r, toI(a[0])); return str(r); }
    if (v == "q.init.int64") { Rational r(7, 5); Q.init(r, (int64_t) toi64(a[0])); return str(r); }
    // ------------------------------------------------ everything else has a first operand x = a0/a1
    Rational x = mk(a[0], a[1]);
    // ------------------------------------------------ a sequence of in-place operations on one object
    if (v == "seq") {
        for (size_t i = 2; i + 2 < a.size(); i += 3) {
            const std::string& op = a[i]; Rational y = mk(a[i + 1], a[i + 2]);
            if (op == "a") x += y; else if (op == "s") x -= y; else if (op == "m") x *= y; else if (op == "d") x /= y;
            else if (op == "qa") Q.addin(x, y); else if (op == "qs") Q.subin(x, y); else if (op == "qm") Q.mulin(x, y); else if (op == "qd") Q.divin(x, y);
            else if (op == "A") x += x; else if (op == "S") x -= x; else if (op == "M") x *= x; else if (op == "D") x /= x;
            else if (op == "n") Q.negin(x); else if (op == "i") Q.invin(x); else if (op == "N") x = -x;
            else if (op == "t") x = x + y; else if (op == "u") x = x - y; else if (op == "p") x = x * y; else if (op == "q") x = x / y;
            else if (op == "xa") Q.axpyin(x, y, y); else if (op == "xm") Q.maxpyin(x, y, y);
            else return "UNKNOWN-SEQ-OP";
        }
        return str(x);
    }
    // ------------------------------------------------ conversions, printing, residue
    if (v == "conv.int") { o << (int) x; return o.str(); }
    if (v == "conv.int64") { o << (int64_t) x; return o.str(); }
    if (v == "conv.uint64") { o << (uint64_t) x; return o.str(); }
    if (v == "conv.uint32") { o << (uint32_t) x; return o.str(); }
    if (v == "conv.short") { o << (int) (short) x; return o.str(); }
    if (v == "conv.uint16") { o << (unsigned) (uint16_t) x; return o.str(); }
    if (v == "conv.uint8") { o << (unsigned) (uint8_t) x; return o.str(); }
    if (v == "conv.schar") { o << (int) (signed char) x; return o.str(); }
    if (v == "q.convert.int64") { int64_t t = 77; Q.convert(t, x); o << t; return o.str(); }
    if (v == "conv.double" || v == "q.convert.double") {
        double dd = 7.5; if (v == "conv.double") dd = (double) x; else Q.convert(dd, x);
        uint64_t bits; memcpy(&bits, &dd, 8); char buf[32]; snprintf(buf, sizeof buf, "%016llx", (unsigned long long) bits); return buf;
    }
    if (v == "q.convert.float") {
        float ff = 7.5f; Q.convert(ff, x); uint32_t bits; memcpy(&bits, &ff, 4); char buf[32]; snprintf(buf, sizeof buf, "%08x", bits); return buf;
    }
    if (v == "conv.float") {
        float ff = (float) x; uint32_t bits; memcpy(&bits, &ff, 4); char buf[32]; snprintf(buf, sizeof buf, "%08x", bits); return buf;
    }
    if (v == "conv.string") { return (std::string) x; }
    if (v == "print") { x.print(o); return o.str(); }
    if (v == "op<<") { o << x; return o.str(); }
    if (v == "q.write") { Q.write(o, x); return o.str(); }
    if (v == "mod") { return str(x % toI(a[2])); }
    if (v == "ctor.copy") { Rational r(x); return str(r); }
    if (v == "assign") { Rational r(7, 5); r = x; return str(r); }
    if (v == "logcpy") { Rational r(7, 5); r.logcpy(x); return str(r); }
    if (v == "copy") { Rational r(7, 5); r.copy(x); return str(r); }
    if (v == "q.assign") { Rational r(7, 5); Q.assign(r, x); return str(r); }
    if (v == "reduce") { Rational r; return str(r.reduce(x)); }
    if (v == "op-unary") { return str(-x); }
    if (v == "op+unary") { return str(+x); }
    if (v == "abs") { return str(abs(x)); }
    if (v == "q.neg") { Rational r(7, 5); Q.neg(r, x); return str(r); }
    if (v == "q.neg.alias") { Q.neg(x, x); return str(x); }
    if (v == "q.negin") { Q.negin(x); return str(x); }
    if (v == "q.inv") { Rational r(7, 5); Q.inv(r, x); return str(r); }
    if (v == "q.inv.alias") { Q.inv(x, x); return str(x); }
    if (v == "q.invin") { Q.invin(x); return str(x); }
    if (v == "trunc") { return str(trunc(x)); }
    if (v == "floor") { return str(floor(x)); }
    if (v == "ceil") { return str(ceil(x)); }
    if (v == "round") { return str(round(x)); }
    if (v == "nume_deno") { Integer n, d; Q.get_num(n, x); Q.get_den(d, x); return str(n) + " " + str(d); }
    if (v == "misc") {   // length = bytes of the two limb arrays; sign through both interfaces
        o << length(x) << " " << Q.length(x) << " " << sign(x) << " " << Q.sign(x);
        return o.str();
    }
    if (v == "preds") {
        o << (isZero(x) ? 1 : 0) << " " << (isOne(x) ? 1 : 0) << " " << (isMOne(x) ? 1 : 0) << " "
          << (isInteger(x) ? 1 : 0) << " " << sign(x);
        return o.str();
    }
    if (v == "pow.i64") { return str(pow(x, (int64_t) toi64(a[2]))); }
    if (v == "pow.u32") { return str(pow(x, (uint32_t) tou64(a[2]))); }
    if (v == "pow.u64") { return str(pow(x, (uint64_t) tou64(a[2]))); }
    if (v == "q.pow.u64") { Rational r(7, 5); Q.pow(r, x, (uint64_t) tou64(a[2])); return str(r); }
    if (v == "q.pow.u32") { Rational r(7, 5); Q.pow(r, x, (uint32_t) tou64(a[2])); return str(r); }
    // operators with a machine int on one side
    if (v == "op+.int_r") { return str(x + (int) toi64(a[2])); }
    if (v == "op-.int_r") { return str(x - (int) toi64(a[2])); }
    if (v == "op*.int_r") { return str(x * (int) toi64(a[2])); }
    if (v == "op/.int_r") { return str(x / (int) toi64(a[2])); }
    if (v == "op+.int_l") { return str((int) toi64(a[2]) + x); }
    if (v == "op-.int_l") { return str((int) toi64(a[2]) - x); }
    if (v == "op*.int_l") { return str((int) toi64(a[2]) * x); }
    if (v == "op/.int_l") { return str((int) toi64(a[2]) / x); }
    // in-place with the argument being the object itself
    if (v == "op+=.alias") { x += x; return str(x); }
    if (v == "op-=.alias") { x -= x; return str(x); }
    if (v == "op*=.alias") { x *= x; return str(x); }
    if (v == "op/=.alias") { x /= x; return str(x); }
    if (v == "q.addin.alias") { Q.addin(x, x); return str(x); }
    if (v == "q.subin.alias") { Q.subin(x, x); return str(x); }
    if (v == "q.mulin.alias") { Q.mulin(x, x); return str(x); }
    if (v == "q.divin.alias") { Q.divin(x, x); return str(x); }
    // three-address forms with r = a = b
    if (v == "q.mul.alias_rab") { Q.mul(x, x, x); return str(x); }
    if (v == "q.add.alias_rab") { Q.add(x, x, x); return str(x); }
    if (v == "q.sub.alias_rab") { Q.sub(x, x, x); return str(x); }
    if (v == "q.div.alias_rab") { Q.div(x, x, x); return str(x); }
    // ------------------------------------------------ second operand y = a2/a3
    Rational y = mk(a[2], a[3]);
    if (v == "op+") { return str(x + y); }
    if (v == "op-") { return str(x - y); }
    if (v == "op*") { return str(x * y); }
    if (v == "op/") { return str(x / y); }
    if (v == "op+=") { x += y; return str(x); }
    if (v == "op-=") { x -= y; return str(x); }
    if (v == "op*=") { x *= y; return str(x); }
    if (v == "op/=") { x /= y; return str(x); }
    if (v == "q.add") { Rational r(7, 5); Q.add(r, x, y); return str(r); }
    if (v == "q.sub") { Rational r(7, 5); Q.sub(r, x, y); return str(r); }
    if (v == "q.mul") { Rational r(7, 5); Q.mul(r, x, y); return str(r); }
    if (v == "q.div") { Rational r(7, 5); Q.div(r, x, y); return str(r); }
    if (v == "q.add.alias_ra") { Q.add(x, x, y); return str(x); }
    if (v == "q.sub.alias_rb") { Q.sub(y, x, y); return str(y); }
    if (v == "q.mul.alias_ra") { Q.mul(x, x, y); return str(x); }
    if (v == "q.div.alias_rb") { Q.div(y, x, y); return str(y); }
    if (v == "q.addin") { Q.addin(x, y); return str(x); }
    if (v == "q.subin") { Q.subin(x, y); return str(x); }
    if (v == "q.mulin") { Q.mulin(x, y); return str(x); }
    if (v == "q.divin") { Q.divin(x, y); return str(x); }
    if (v == "cmpall") {
        o << compare(x, y) << " " << absCompare(x, y) << " " << ((x == y) ? 1 : 0) << " " << ((x != y) ? 1 : 0) << " "
          << ((x < y) ? 1 : 0) << " " << ((x > y) ? 1 : 0) << " " << ((x <= y) ? 1 : 0) << " " << ((x >= y) ? 1 : 0);
        return o.str();
    }
    if (v == "q.preds") {
        o << (Q.isZero(x) ? 1 : 0) << " " << (Q.isOne(x) ? 1 : 0) << " " << (Q.isMOne(x) ? 1 : 0) << " "
          << (Q.areEqual(x, y) ? 1 : 0);
        // areNEqual, isUnit must be the complements
        if ((Q.areNEqual(x, y) != 0) == Q.areEqual(x, y)) o << " BAD-areNEqual";
        if (Q.isUnit(x) == Q.isZero(x)) o << " BAD-isUnit";
        return o.str();
    }
    // ------------------------------------------------ third operand z = a4/a5
    Rational z = mk(a[4], a[5]);
    if (v == "q.axpy") { Rational r(7, 5); Q.axpy(r, x, y, z); return str(r); }
    if (v == "q.axpy.alias_rc") { Q.axpy(z, x, y, z); return str(z); }
    if (v == "q.axpy.alias_ra") { Q.axpy(x, x, y, z); return str(x); }
    if (v == "q.maxpy") { Rational r(7, 5); Q.maxpy(r, x, y, z); return str(r); }
    if (v == "q.maxpy.alias_rc") { Q.maxpy(z, x, y, z); return str(z); }
    if (v == "q.axmy") { Rational r(7, 5); Q.axmy(r, x, y, z); return str(r); }
    if (v == "q.axmy.alias_rb") { Q.axmy(y, x, y, z); return str(y); }
    // r is the FIRST operand (x) for the in-place forms: r (op)= y * z
    if (v == "q.axpyin") { Q.axpyin(x, y, z); return str(x); }
    if (v == "q.axpyin.alias_ra") { Q.axpyin(x, x, z); return str(x); }
    if (v == "q.maxpyin") { Q.maxpyin(x, y, z); return str(x); }
    if (v == "q.maxpyin.alias_rb") { Q.maxpyin(x, y, x); return str(x); }
    if (v == "q.axmyin") { Q.axmyin(x, y, z); return str(x); }
    if (v == "q.axmyin.alias_ra") { Q.axmyin(x, x, z); return str(x); }
    return "UNKNOWN-VARIANT";
}

// per-case CPU-time watchdog: a call that does not return within the budget (CPU seconds of THIS process, user + system,
// hence independent of the machine load) ends the process with the marker line below; the check then knows the case
// (= number of complete lines before the marker), re-runs it alone with a larger budget and goes on with the rest.
static void on_cpu_budget(int) {
    const char msg[] = "DOES-NOT-RETURN\n";
    ssize_t w = write(1, msg, sizeof msg - 1); (void) w;
    _exit(97);
}

int main(int argc, char** argv) {
    long budget = 20;
    if (argc > 1) budget = atol(argv[1]);
    if (budget < 1) budget = 1;
    signal(SIGPROF, on_cpu_budget);
    std::string line;
    while (std::getline(std::cin, line)) {
        std::istringstream is(line);
        std::string v, red; std::vector<std::string> a;
        if (!(is >> v >> red)) continue;
        std::string t; while (is >> t) a.push_back(t);
        if (red == "1") Rational::SetReduce(); else Rational::SetNoReduce();
        std::string out;
        struct itimerval on = { {0, 0}, {budget, 0} }, off = { {0, 0}, {0, 0} };
        setitimer(ITIMER_PROF, &on, NULL);
        try { out = run(v, a); }
        catch (GivMathDivZero&) { out = "THROW"; }
        catch (GivError&) { out = "THROW-OTHER-GIVERROR"; }
        catch (std::exception& e) { out = std::string("EXN-std ") + e.what(); }
        catch (...) { out = "EXN-unknown"; }
        setitimer(ITIMER_PROF, &off, NULL);
        std::cout << out << "\n" << std::flush;      // flushed per case: the lines before a watchdog marker are complete
    }
    return 0;
}
