// C11 harness: integer rational reconstruction of /repo's current sources, every public call form.
// line:   <variant> <decimal args...>       output: "<ok> <num> <den>"
// variants
//   ratrecon.static f m k fr rc        Rational::ratrecon(num,den,f,m,k,fr,rc)
//   ratrecon.zring  f m k fr rc        ZRing<Integer>::ratrecon(...)
//   ratrecon.dflt   f m k              Rational::ratrecon(num,den,f,m,k)           (fr = true, rc = true)
//   rr7.static / rr7.zring f m k fr rc RationalReconstruction(a,b,f,m,k,fr,rc)
//   rr7.dflt f m k                     RationalReconstruction(a,b,f,m,k)            (fr = true, rc = true)
//   rr4.static / rr4.zring f m         RationalReconstruction(a,b,f,m)
//   rr6.static / rr6.zring f m ab bb   RationalReconstruction(a,b,f,m,a_bound,b_bound)
//   ctor f m k fl rc                   Rational(f,m,k,rc) with Rational::flags = fl      (ok printed as 1)
//   ctor.dflt f m k fl                 Rational(f,m,k)                                   (rc = false)
//   qfk f m k fl rc                    QField<Rational>::ratrecon(r,f,m,k,rc)
//   qfk.dflt f m k fl                  QField<Rational>::ratrecon(r,f,m,k)          (rc = false)
//   qf f m fl rc                       QField<Rational>::ratrecon(r,f,m,rc)
//   qf.dflt f m fl                     QField<Rational>::ratrecon(r,f,m)            (rc = true)
// The library prints diagnostics on std::cerr when a reconstruction fails: stderr goes to /dev/null.
#include <iostream>
#include <sstream>
#include <string>
#include <vector>
#include <cstdio>
#include "gmp++/gmp++.h"
#include "givinteger.h"
#include "givrational.h"
#include "qfield.h"

using namespace Givaro;

static bool B(const Integer& x) { return x != 0; }

int main() {
    if (!freopen("/dev/null", "w", stderr)) return 3;
    std::ios::sync_with_stdio(false);
    std::string line;
    ZRing<Integer> ZZ;
    QField<Rational> QQ;
    while (std::getline(std::cin, line)) {
        std::istringstream is(line);
        std::string v; is >> v;
        if (v.empty()) continue;
        std::vector<Integer> a; std::string t;
        while (is >> t) a.push_back(Integer(t.c_str()));
        Integer num(987654321), den(123456789);   // destinations start from recognisable values
        bool ok = true;
        std::ostringstream o;
        if (v == "ratrecon.static" && a.size() == 5) ok = Rational::ratrecon(num, den, a[0], a[1], a[2], B(a[3]), B(a[4]));
        else if (v == "ratrecon.zring" && a.size() == 5) ok = ZZ.ratrecon(num, den, a[0], a[1], a[2], B(a[3]), B(a[4]));
        else if (v == "ratrecon.dflt" && a.size() == 3) ok = Rational::ratrecon(num, den, a[0], a[1], a[2]);
        else if (v == "rr7.static" && a.size() == 5) ok = Rational::RationalReconstruction(num, den, a[0], a[1], a[2], B(a[3]), B(a[4]));
        else if (v == "rr7.zring" && a.size() == 5) ok = ZZ.RationalReconstruction(num, den, a[0], a[1], a[2], B(a[3]), B(a[4]));
        else if (v == "rr7.dflt" && a.size() == 3) ok = ZZ.RationalReconstruction(num, den, a[0], a[1], a[2]);
        else if (v == "rr4.static" && a.size() == 2) ok = Rational::RationalReconstruction(num, den, a[0], a[1]);
        else if (v == "rr4.zring" && a.size() == 2) ok = ZZ.RationalReconstruction(num, den, a[0], a[1]);
        else if (v == "rr6.static" && a.size() == 4) ok = Rational::RationalReconstruction(num, den, a[0], a[1], a[2], a[3]);
        else if (v == "rr6.zring" && a.size() == 4) ok = ZZ.RationalReconstruction(num, den, a[0], a[1], a[2], a[3]);
        else if (v == "ctor" || v == "ctor.dflt" || v == "qfk" || v == "qfk.dflt" || v == "qf" || v == "qf.dflt") {
            size_t fi = (v == "qf" || v == "qf.dflt") ? 2 : 3;
            if (a.size() <= fi) { std::cout << "BAD-LINE" << std::endl; continue; }
            if (B(a[fi])) Rational::SetReduce(); else Rational::SetNoReduce();
            Rational r(Integer(5), Integer(7));
            if (v == "ctor") r = Rational(a[0], a[1], a[2], B(a[4]));
            else if (v == "ctor.dflt") r = Rational(a[0], a[1], a[2]);
            else if (v == "qfk") QQ.ratrecon(r, a[0], a[1], a[2], B(a[4]));
            else if (v == "qfk.dflt") QQ.ratrecon(r, a[0], a[1], a[2]);
            else if (v == "qf") QQ.ratrecon(r, a[0], a[1], B(a[3]));
            else QQ.ratrecon(r, a[0], a[1]);
            num = r.nume(); den = r.deno();
            Rational::SetReduce();
        }
        else { std::cout << "BAD-LINE" << std::endl; continue; }
        std::cout << (ok ? 1 : 0) << " " << num << " " << den << std::endl;
    }
    return 0;
}
