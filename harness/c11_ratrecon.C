// C11 harness: integer rational reconstruction of /repo's current sources, every public call form.
// line:   <variant> <decimal args...>       output: "<ok> <num> <den>"
// variants
//   ratrecon.static f m k fr rc        Rational::ratrecon(num,den,f,m,k,fr,rc)
//   ratrecon.zring  f m k fr rc        ZRing<Integer>::ratrecon(...)
//   ratrecon.dflt   f m k              Rational::ratrecon(num,den,f,m,k)           (fr = true, rc = true)
//   ratrecon.zdflt  f m k              ZRing<Integer>::ratrecon(num,den,f,m,k)     (fr = true, rc = true)
//   ratrecon.fr1 / ratrecon.zfr1 f m k fr   the same two with forcereduce given, recurs defaulted (true)
//   rr7.sdflt f m k                    Rational::RationalReconstruction(a,b,f,m,k)  (fr = true, rc = true)
//   rr7.fr1 / rr7.zfr1 f m k fr        RationalReconstruction(a,b,f,m,k,fr)         (static / ZRing; rc = true)
//   rr7.static / rr7.zring f m k fr rc RationalReconstruction(a,b,f,m,k,fr,rc)
//   rr7.dflt f m k                     RationalReconstruction(a,b,f,m,k)            (fr = true, rc = true)
//   rr4.static / rr4.zring f m         RationalReconstruction(a,b,f,m)
//   rr6.static / rr6.zring f m ab bb   RationalReconstruction(a,b,f,m,a_bound,b_bound)
//   ctor f m k fl rc                   Rational(f,m,k,rc) with Rational::flags = fl
//       the callers without a success report print "<ok'> <num> <den> <num'> <den'>" where (ok', num', den') is what
//       Rational::ratrecon(num',den',f,m,k,fl,true) answers for the same input (the call they are specified to make first)
//   ctor.dflt f m k fl                 Rational(f,m,k)                                   (rc = false)
//   qfk f m k fl rc                    QField<Rational>::ratrecon(r,f,m,k,rc)
//   qfk.dflt f m k fl                  QField<Rational>::ratrecon(r,f,m,k)          (rc = false)
//   qf f m fl rc                       QField<Rational>::ratrecon(r,f,m,rc)
//   qf.dflt f m fl                     QField<Rational>::ratrecon(r,f,m)            (rc = true)
// polynomial version (Poly1Dom<Modular<int64_t>,Dense> and Poly1Dom<Modular<double>,Dense>):
//   poly.rr5 / poly.check / poly.rr6 / poly.rr5d / poly.checkd / poly.rr6d   p dk fr nP c0 .. c(nP-1) nM c0 .. c(nM-1)
//       rr5 = ratrecon(N,D,P,M,dk), check = ratreconcheck(N,D,P,M,dk), rr6 = ratrecon(N,D,P,M,dk,fr)
//       output: "<ok> N <coeffs low degree first> D <coeffs>"   (leading zeros stripped)
//   <poly variant>.al<j>  (j = 0..3)  the same call with an output being the same object as an input:
//       0: N is P   1: N is M   2: D is P   3: D is M      (the output object starts as a copy of that input)
// aliased integer call forms (an output is the same object as an input; the output object starts as a copy of it):
//   ratrecon.al<j> f m k fr rc   j = 0..5: num is f / m / k, den is f / m / k          Rational::ratrecon, 7 arguments
//   rr7.al<j>      f m k fr rc   j = 0..5: the same for Rational::RationalReconstruction, 7 arguments
//   rr4.al<j>      f m           j = 0..3: a is f / m, b is f / m
//   rr6.al<j>      f m ab bb     j = 0..7: a is f / m / a_bound / b_bound, b is f / m / a_bound / b_bound
//   ctor.init f m k rc / qfk.init f m k rc / qf.init f m rc     the same three callers BEFORE any call of Rational::SetReduce /
//       SetNoReduce in this process: Rational::flags has the value the library initialises it with (documented: Reduce);
//       these lines must come first ("BAD-ORDER" otherwise); the reference call uses forcereduce = true
//   consts                        prints "CONSTS <int Reduce> <int NoReduce> <bool Reduce> <bool NoReduce> <KARA_THRESHOLD> <SQR_THRESHOLD>"
//                                 (the values the compiled code uses: Rational::flags is passed where a bool forcereduce is expected)
// The library prints diagnostics on std::cerr when a reconstruction fails: stderr goes to /dev/null.
#include <iostream>
#include <sstream>
#include <string>
#include <vector>
#include <cstdio>
#include <cstdlib>
#include <csignal>
#include <unistd.h>
#include <sys/time.h>
#include "gmp++/gmp++.h"
#include "givinteger.h"
#include "givrational.h"
#include "qfield.h"
#include "modular.h"
#include "givpoly1.h"

using namespace Givaro;

static bool B(const Integer& x) { return x != 0; }
// per-case CPU-time watchdog (ITIMER_PROF counts the CPU time of this process: independent of the machine load): a call that does
// not return within the budget ends the process with the line DOES-NOT-RETURN (every earlier line is already flushed: std::endl)
// and exit status 42; the check re-runs that case alone with a larger budget before reporting it.  C11_CASE_CPU = seconds (default 10; the confirmation run uses 30).
static long case_budget = 10;
static void on_prof(int) { const char msg[] = "DOES-NOT-RETURN\n"; if (write(1, msg, sizeof(msg) - 1)) {} _exit(42); }
static void arm(long sec) { struct itimerval t; t.it_interval.tv_sec = 0; t.it_interval.tv_usec = 0; t.it_value.tv_sec = sec; t.it_value.tv_usec = 0; setitimer(ITIMER_PROF, &t, 0); }
static bool flags_touched = false;      // has this process called Rational::SetReduce / SetNoReduce yet?

template <class Field>
static void polycase(const std::string& v, const std::vector<Integer>& a) {
    // a = p dk fr nP coeffs nM coeffs
    if (a.size() < 5) { std::cout << "BAD-LINE" << std::endl; return; }
    Field F((typename Field::Residu_t)(int64_t)a[0]);
    typedef Poly1Dom<Field, Dense> PD;
    PD PZ(F, "X");
    int64_t dk = (int64_t)a[1];
    bool fr = a[2] != 0;
    size_t nP = (size_t)(int64_t)a[3];
    if (a.size() < 5 + nP) { std::cout << "BAD-LINE" << std::endl; return; }
    size_t nM = (size_t)(int64_t)a[4 + nP];
    if (a.size() != 5 + nP + nM) { std::cout << "BAD-LINE" << std::endl; return; }
    typename PD::Element P, M, N, D;
    P.resize(nP); M.resize(nM);
    for (size_t i = 0; i < nP; ++i) F.init(P[i], a[4 + i]);
    for (size_t i = 0; i < nM; ++i) F.init(M[i], a[5 + nP + i]);
    PZ.init(N, Degree(2)); PZ.init(D, Degree(1));      // destinations start non-empty
    bool ok;
    int al = -1;
    std::string base = v;
    size_t pa = v.find(".al");
    if (pa != std::string::npos) { al = v[pa + 3] - '0'; base = v.substr(0, pa); }
    if (al >= 0) {
        // an output is the same object as an input
        typename PD::Element& rN = (al == 0) ? P : (al == 1) ? M : N;
        typename PD::Element& rD = (al == 2) ? P : (al == 3) ? M : D;
        if (base == "poly.rr5" || base == "poly.rr5d") ok = PZ.ratrecon(rN, rD, P, M, Degree(dk));
        else if (base == "poly.check" || base == "poly.checkd") ok = PZ.ratreconcheck(rN, rD, P, M, Degree(dk));
        else ok = PZ.ratrecon(rN, rD, P, M, Degree(dk), fr);
        PZ.assign(N, rN); PZ.assign(D, rD);
    }
    else if (v == "poly.rr5" || v == "poly.rr5d") ok = PZ.ratrecon(N, D, P, M, Degree(dk));
    else if (v == "poly.check" || v == "poly.checkd") ok = PZ.ratreconcheck(N, D, P, M, Degree(dk));
    else ok = PZ.ratrecon(N, D, P, M, Degree(dk), fr);
    PZ.setdegree(N); PZ.setdegree(D);
    std::cout << (ok ? 1 : 0) << " N";
    Integer t;
    for (size_t i = 0; i < N.size(); ++i) std::cout << " " << F.convert(t, N[i]);
    std::cout << " D";
    for (size_t i = 0; i < D.size(); ++i) std::cout << " " << F.convert(t, D[i]);
    std::cout << std::endl;
}

int main() {
    if (!freopen("/dev/null", "w", stderr)) return 3;
    if (const char* e = getenv("C11_CASE_CPU")) { long v = atol(e); if (v > 0) case_budget = v; }
    signal(SIGPROF, on_prof);
    std::ios::sync_with_stdio(false);
    std::string line;
    ZRing<Integer> ZZ;
    QField<Rational> QQ;
    while (std::getline(std::cin, line)) {
        std::istringstream is(line);
        std::string v; is >> v;
        if (v.empty()) continue;
        arm(case_budget);        // re-armed for every case; the budget covers parsing + the call + printing
        std::vector<Integer> a; std::string t;
        while (is >> t) a.push_back(Integer(t.c_str()));
        if (v == "consts") {
            std::cout << "CONSTS " << (int)Rational::Reduce << " " << (int)Rational::NoReduce << " "
                      << (bool(Rational::Reduce) ? 1 : 0) << " " << (bool(Rational::NoReduce) ? 1 : 0) << " "
                      << (long)(KARA_THRESHOLD) << " " << (long)(SQR_THRESHOLD) << std::endl;
            continue;
        }
        if (v.compare(0, 5, "poly.") == 0) {
            std::string base = v.substr(0, v.find(".al"));
            if (base == "poly.rr5" || base == "poly.check" || base == "poly.rr6") polycase<Modular<int64_t> >(v, a);
            else if (base == "poly.rr5d" || base == "poly.checkd" || base == "poly.rr6d") polycase<Modular<double> >(v, a);
            else std::cout << "BAD-LINE" << std::endl;
            continue;
        }
        if (v.find(".al") != std::string::npos && v.size() == v.find(".al") + 4) {
            // aliased integer forms: the output object IS one of the inputs
            std::string base = v.substr(0, v.find(".al"));
            int j = v[v.size() - 1] - '0';
            bool ok = true;
            Integer o1(987654321), o2(123456789);     // the output that is not aliased
            if ((base == "ratrecon" || base == "rr7") && a.size() == 5 && j >= 0 && j <= 5) {
                Integer f(a[0]), m(a[1]), k(a[2]);
                Integer* in[3] = { &f, &m, &k };
                Integer& num = (j < 3) ? *in[j] : o1;
                Integer& den = (j >= 3) ? *in[j - 3] : o2;
                if (base == "ratrecon") ok = Rational::ratrecon(num, den, f, m, k, B(a[3]), B(a[4]));
                else ok = Rational::RationalReconstruction(num, den, f, m, k, B(a[3]), B(a[4]));
                std::cout << (ok ? 1 : 0) << " " << num << " " << den << std::endl;
            }
            else if (base == "rr4" && a.size() == 2 && j >= 0 && j <= 3) {
                Integer f(a[0]), m(a[1]);
                Integer* in[2] = { &f, &m };
                Integer& num = (j < 2) ? *in[j] : o1;
                Integer& den = (j >= 2) ? *in[j - 2] : o2;
                ok = Rational::RationalReconstruction(num, den, f, m);
                std::cout << (ok ? 1 : 0) << " " << num << " " << den << std::endl;
            }
            else if (base == "rr6" && a.size() == 4 && j >= 0 && j <= 7) {
                Integer f(a[0]), m(a[1]), ab(a[2]), bb(a[3]);
                Integer* in[4] = { &f, &m, &ab, &bb };
                Integer& num = (j < 4) ? *in[j] : o1;
                Integer& den = (j >= 4) ? *in[j - 4] : o2;
                ok = Rational::RationalReconstruction(num, den, f, m, ab, bb);
                std::cout << (ok ? 1 : 0) << " " << num << " " << den << std::endl;
            }
            else std::cout << "BAD-LINE" << std::endl;
            continue;
        }
        Integer num(987654321), den(123456789);   // destinations start from recognisable values
        bool ok = true;
        std::ostringstream o;
        if (v == "ratrecon.static" && a.size() == 5) ok = Rational::ratrecon(num, den, a[0], a[1], a[2], B(a[3]), B(a[4]));
        else if (v == "ratrecon.zring" && a.size() == 5) ok = ZZ.ratrecon(num, den, a[0], a[1], a[2], B(a[3]), B(a[4]));
        else if (v == "ratrecon.dflt" && a.size() == 3) ok = Rational::ratrecon(num, den, a[0], a[1], a[2]);
        else if (v == "ratrecon.zdflt" && a.size() == 3) ok = ZZ.ratrecon(num, den, a[0], a[1], a[2]);
        else if (v == "ratrecon.fr1" && a.size() == 4) ok = Rational::ratrecon(num, den, a[0], a[1], a[2], B(a[3]));
        else if (v == "ratrecon.zfr1" && a.size() == 4) ok = ZZ.ratrecon(num, den, a[0], a[1], a[2], B(a[3]));
        else if (v == "rr7.sdflt" && a.size() == 3) ok = Rational::RationalReconstruction(num, den, a[0], a[1], a[2]);
        else if (v == "rr7.fr1" && a.size() == 4) ok = Rational::RationalReconstruction(num, den, a[0], a[1], a[2], B(a[3]));
        else if (v == "rr7.zfr1" && a.size() == 4) ok = ZZ.RationalReconstruction(num, den, a[0], a[1], a[2], B(a[3]));
        else if (v == "rr7.static" && a.size() == 5) ok = Rational::RationalReconstruction(num, den, a[0], a[1], a[2], B(a[3]), B(a[4]));
        else if (v == "rr7.zring" && a.size() == 5) ok = ZZ.RationalReconstruction(num, den, a[0], a[1], a[2], B(a[3]), B(a[4]));
        else if (v == "rr7.dflt" && a.size() == 3) ok = ZZ.RationalReconstruction(num, den, a[0], a[1], a[2]);
        else if (v == "rr4.static" && a.size() == 2) ok = Rational::RationalReconstruction(num, den, a[0], a[1]);
        else if (v == "rr4.zring" && a.size() == 2) ok = ZZ.RationalReconstruction(num, den, a[0], a[1]);
        else if (v == "rr6.static" && a.size() == 4) ok = Rational::RationalReconstruction(num, den, a[0], a[1], a[2], a[3]);
        else if (v == "rr6.zring" && a.size() == 4) ok = ZZ.RationalReconstruction(num, den, a[0], a[1], a[2], a[3]);
        else if (v == "ctor.init" || v == "qfk.init" || v == "qf.init") {
            size_t need = (v == "qf.init") ? 3 : 4;
            if (a.size() != need) { std::cout << "BAD-LINE" << std::endl; continue; }
            if (flags_touched) { std::cout << "BAD-ORDER" << std::endl; continue; }
            Rational r(Integer(5), Integer(7));
            if (v == "ctor.init") r = Rational(a[0], a[1], a[2], B(a[3]));
            else if (v == "qfk.init") QQ.ratrecon(r, a[0], a[1], a[2], B(a[3]));
            else QQ.ratrecon(r, a[0], a[1], B(a[2]));
            num = r.nume(); den = r.deno();
            Integer sn(0), sd(0);
            Integer kk = (v == "qf.init") ? Givaro::sqrt(a[1]) : a[2];
            ok = Rational::ratrecon(sn, sd, a[0], a[1], kk, true, true);
            std::cout << (ok ? 1 : 0) << " " << num << " " << den << " " << sn << " " << sd << std::endl;
            continue;
        }
        else if (v == "ctor" || v == "ctor.dflt" || v == "qfk" || v == "qfk.dflt" || v == "qf" || v == "qf.dflt") {
            size_t fi = (v == "qf" || v == "qf.dflt") ? 2 : 3;
            if (a.size() <= fi) { std::cout << "BAD-LINE" << std::endl; continue; }
            flags_touched = true;
            if (B(a[fi])) Rational::SetReduce(); else Rational::SetNoReduce();
            Rational r(Integer(5), Integer(7));
            if (v == "ctor") r = Rational(a[0], a[1], a[2], B(a[4]));
            else if (v == "ctor.dflt") r = Rational(a[0], a[1], a[2]);
            else if (v == "qfk") QQ.ratrecon(r, a[0], a[1], a[2], B(a[4]));
            else if (v == "qfk.dflt") QQ.ratrecon(r, a[0], a[1], a[2]);
            else if (v == "qf") QQ.ratrecon(r, a[0], a[1], B(a[3]));
            else QQ.ratrecon(r, a[0], a[1]);
            num = r.nume(); den = r.deno();
            Rational::SetReduce();
            Integer sn(0), sd(0);
            Integer kk = (fi == 2) ? Givaro::sqrt(a[1]) : a[2];
            ok = Rational::ratrecon(sn, sd, a[0], a[1], kk, B(a[fi]), true);
            std::cout << (ok ? 1 : 0) << " " << num << " " << den << " " << sn << " " << sd << std::endl;
            continue;
        }
        else { std::cout << "BAD-LINE" << std::endl; continue; }
        std::cout << (ok ? 1 : 0) << " " << num << " " << den << std::endl;
    }
    arm(0);
    return 0;
}
