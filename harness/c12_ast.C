// C12: translation unit for the clang AST dump read by checks/C12.py (which data members the domain classes have and what their
// copy constructors / assignment operators do with them).  Never compiled into a binary.
#include "gmp++/gmp++.h"
#include "givinteger.h"
#include "givintprime.h"
#include "givintfactor.h"
using namespace Givaro;
template class Givaro::IntFactorDom<GivRandom>;
void c12_ast_use() { IntPrimeDom P; IntPrimeDom Q(P); IntFactorDom<GivRandom> A; IntFactorDom<GivRandom> B(A); (void)Q; (void)B; }
