// C12 harness: primality tests, next/prev prime, integer factorisation of /repo's current tree.
// One case per line on stdin:  <op> <decimal args...>     one result line on stdout.
// Every public call form of IntPrimeDom / IntFactorDom<> / Protected::{probab_prime,nextprime,prevprime}
// that the property speaks about is reachable through some op.  A watchdog (setitimer + siglongjmp) turns
// a call that does not return within its time budget into the result line "HANG"; SIGFPE/SIGSEGV/SIGABRT
// raised inside a call become "CRASH <signal>".
#include <iostream>
#include <sstream>
#include <string>
#include <vector>
#include <list>
#include <deque>
#include <map>
#include <type_traits>
#include <cstdio>
#include <cstdlib>
#include <csignal>
#include <csetjmp>
#include <unistd.h>
#include <fcntl.h>
#include <sys/time.h>
#include <gmp.h>
#include "gmp++/gmp++.h"
#include "givinteger.h"
#include "givintprime.h"

// ---------------------------------------------------------------------------------------------------------------
// A scripted random source.  IntFactorDom<MyRandIter> and IntPrimeDom::Miller<MyRandIter> obtain every random
// number through the member template IntegerDom::random(MyRandIter&, Rep&, const Rep&) (which ignores the iterator and
// asks GMP's global state).  For the iterator type ScriptRand that member template is specialised here, BEFORE
// givintfactor.h is seen: the numbers come from a script given on the input line, reduced modulo the bound.  With
// this the whole random walk of Pollard's rho (and the witness of Miller) is a function of the input line, the model
// (coq/C12/ModelScript.v) computes the same walk, and the check can choose scripts that drive the rare paths.
// A draw beyond the end of the script falls back to GMP's generator and is counted (printed as "under").
struct ScriptRand {
    typedef ScriptRand random_generator; typedef uint64_t random_t; typedef uint64_t seed_t;
    ScriptRand(uint64_t = 0) {}
    uint64_t seed() const { return 1; }
    uint64_t max_rand() const { return 2147483647; }
    uint64_t operator()() const { return 12345; }
};
static std::vector<Givaro::Integer> SCRIPT; static size_t SPOS = 0, SUNDER = 0;
static Givaro::Integer& script_draw(Givaro::Integer& r, const Givaro::Integer& b, bool nonzero) {
    for (;;) {
        if (SPOS < SCRIPT.size()) { r = SCRIPT[SPOS++]; r %= b; if (r < 0) r += b; }
        else { ++SUNDER; return nonzero ? Givaro::Integer::nonzerorandom(r, b) : Givaro::Integer::random(r, b); }
        if (!nonzero || r != 0) return r;
    }
}
namespace Givaro {
    template<> Integer& IntegerDom::random<const ScriptRand>(const ScriptRand&, Integer& r, const Integer& b) const { return script_draw(r, b, false); }
    template<> Integer& IntegerDom::random<ScriptRand>(ScriptRand&, Integer& r, const Integer& b) const { return script_draw(r, b, false); }
    template<> Integer& IntegerDom::nonzerorandom<const ScriptRand>(const ScriptRand&, Integer& r, const Integer& b) const { return script_draw(r, b, true); }
    template<> Integer& IntegerDom::nonzerorandom<ScriptRand>(ScriptRand&, Integer& r, const Integer& b) const { return script_draw(r, b, true); }
}
#include "givintfactor.h"
#include "givprimes16.h"

using namespace Givaro;
typedef Integer Z;

static sigjmp_buf jb;
static void on_signal(int s) { siglongjmp(jb, s); }
// The budget of a call is CPU time of this process (ITIMER_PROF): a call that loops for ever burns it whatever the load of
// the machine, and a correct call is never cut short because twenty other checks are running.  A wall-clock timer of 30x
// the budget is only a backstop against a call that blocks without using the CPU.
static void arm1(int which, double sec) {
    struct itimerval t; t.it_interval.tv_sec = 0; t.it_interval.tv_usec = 0;
    t.it_value.tv_sec = (long)sec; t.it_value.tv_usec = (long)((sec - (long)sec) * 1e6);
    setitimer(which, &t, 0);
}
static void arm(double sec) { arm1(ITIMER_PROF, sec); arm1(ITIMER_REAL, 30 * sec); }
static void quiet_stderr() { int fd = open("/dev/null", O_WRONLY); if (fd >= 0) { dup2(fd, 2); close(fd); } }
static inline int nz(int x) { return x != 0; }
static const char* GARBAGE = "-123456789012345678901234567890";   // destinations start from a non-trivial value

template <class C> static void put_list(std::ostream& o, const C& L) {
    bool first = true;
    for (typename C::const_iterator it = L.begin(); it != L.end(); ++it) { if (!first) o << " "; first = false; o << *it; }
}
template <class C1, class C2> static void put_pairs(std::ostream& o, const C1& Lf, const C2& Lo) {
    typename C1::const_iterator i = Lf.begin(); typename C2::const_iterator j = Lo.begin();
    for (; i != Lf.end() && j != Lo.end(); ++i, ++j) o << " " << *i << ":" << *j;
    if (i != Lf.end() || j != Lo.end()) o << " LENGTH-MISMATCH";
}
static std::string nospace(const std::string& s) { std::string r; for (size_t i = 0; i < s.size(); ++i) if (s[i] != ' ') r += s[i]; return r; }

// ---------------------------------------------------------------------------------------------------------------
// The domain objects of the property obtained in every way a program can obtain them.  A line "@<way> <op> <args>" runs <op>
// on the objects of that way:  orig (constructed, used), copy (copy-constructed from the used one), copy0 (copy of a fresh,
// unused one), assign (constructed, then assigned from the used one when the class is assignable, else replaced by a copy),
// byvalue (passed by value through a function and returned), heap (new D(orig)), copycopy (copy of a copy whose intermediate
// has been destroyed), srcgone (copy of a heap object that has been deleted since).
template <class D> static D pass_by_value(D d) { return d; }
template <class D> static typename std::enable_if<std::is_copy_assignable<D>::value, void>::type assign_over(D*& dst, const D& src) { *dst = src; }
template <class D> static typename std::enable_if<!std::is_copy_assignable<D>::value, void>::type assign_over(D*& dst, const D& src) { delete dst; dst = new D(src); }
template <class D> static D* obtain(const std::string& way, D& used, const D& fresh_proto) {
    if (way == "copy") return new D(used);
    if (way == "copy0") { D fresh(fresh_proto); return new D(fresh); }
    if (way == "assign") { D* d = new D(fresh_proto); assign_over(d, used); return d; }
    if (way == "byvalue") return new D(pass_by_value<D>(used));
    if (way == "heap") { D* h = new D(used); D* r = new D(*h); delete h; return r; }
    if (way == "copycopy") { D* r; { D mid(used); r = new D(mid); } return r; }
    if (way == "srcgone") { D* src = new D(fresh_proto); D* r = new D(*src); delete src; return r; }
    return 0;
}
struct Doms { IntPrimeDom* ip; IntFactorDom<GivRandom>* fd; IntFactorDom<ScriptRand>* sd; };

int main(int argc, char** argv) {
    quiet_stderr();
    std::ios::sync_with_stdio(false);
    double budget = argc > 1 ? atof(argv[1]) : 20.0;       // seconds per case
    Integer::seeding((uint64_t)20261002);
    GivRandom gen(987654321);
    IntPrimeDom IP0;
    IntFactorDom<GivRandom> FD0(gen);
    ScriptRand sgen;
    IntFactorDom<ScriptRand> SD0(sgen);
    std::map<std::string, Doms> ways;
    {   // the originals are USED before anything is copied from them
        Z t; FD0.factor(t, Z(10403)); FD0.iffactorprime(t, Z(360)); SD0.factor(t, Z(91)); IP0.isprime(Z(65537)); IP0.nextprime(t, Z(100));
        Doms o = { &IP0, &FD0, &SD0 }; ways["orig"] = o;
        const char* names[] = { "copy", "copy0", "assign", "byvalue", "heap", "copycopy", "srcgone" };
        for (size_t i = 0; i < sizeof(names) / sizeof(names[0]); ++i) {
            Doms d = { obtain<IntPrimeDom>(names[i], IP0, IntPrimeDom()), obtain<IntFactorDom<GivRandom> >(names[i], FD0, IntFactorDom<GivRandom>(gen)),
                       obtain<IntFactorDom<ScriptRand> >(names[i], SD0, IntFactorDom<ScriptRand>(sgen)) };
            ways[names[i]] = d;
        }
    }
    {   // handlers run on an alternate stack so that a stack overflow (runaway recursion) is reported as CRASH, too
        static char altstack[1 << 16];
        stack_t ss; ss.ss_sp = altstack; ss.ss_size = sizeof(altstack); ss.ss_flags = 0; sigaltstack(&ss, 0);
        struct sigaction sa; sa.sa_handler = on_signal; sigemptyset(&sa.sa_mask); sa.sa_flags = SA_ONSTACK | SA_NODEFER;
        sigaction(SIGALRM, &sa, 0); sigaction(SIGPROF, &sa, 0); sigaction(SIGFPE, &sa, 0); sigaction(SIGSEGV, &sa, 0); sigaction(SIGABRT, &sa, 0); sigaction(SIGBUS, &sa, 0);
    }
    std::string line;
    while (std::getline(std::cin, line)) {
        std::istringstream in(line);
        std::string op; in >> op;
        if (op.empty()) continue;
        std::string way = "orig";
        if (op[0] == '@') { way = op.substr(1); op.clear(); in >> op; }
        if (!ways.count(way)) { std::cout << "UNKNOWN-WAY" << std::endl; continue; }
        IntPrimeDom& IP = *ways[way].ip; IntFactorDom<GivRandom>& FD = *ways[way].fd; IntFactorDom<ScriptRand>& SD = *ways[way].sd;
        std::vector<Z> a; { std::string t; while (in >> t) a.push_back(Z(t.c_str())); }
        std::ostringstream o;
        int sig = sigsetjmp(jb, 1);
        if (sig != 0) {
            arm(0);
            if (sig == SIGALRM || sig == SIGPROF) std::cout << "HANG" << std::endl; else std::cout << "CRASH " << sig << std::endl;
            // the call was abandoned by a jump out of a signal handler: locks (malloc) and library state may be left behind.
            // Do not go on in this process: the check restarts the harness on the remaining lines.
            std::cout.flush(); _exit(42);
        }
        bool scripted = op.size() > 2 && op[0] == 's' && op[1] == '.';
        bool inplace = op.size() > 3 && op.compare(op.size() - 3, 3, ".ip") == 0;
        Z r(GARBAGE), q(GARBAGE);
        unsigned long thr = 0;
        if (scripted) {          // s.<op> n thr y1 y2 ...
            SCRIPT.clear(); SPOS = 0; SUNDER = 0;
            thr = a.size() > 1 ? (unsigned long)(uint64_t)a[1] : 0;
            for (size_t i = 2; i < a.size(); ++i) SCRIPT.push_back(a[i]);
        }
        double eff = budget;
        arm(inplace && eff > 2.0 ? 2.0 : (way != "orig" && eff > 3.0 ? 3.0 : eff));   // the grid run on copies is made of fast calls   // the unguarded in-place forms do not return: a short budget is enough
        // ------------------------------------------------------------ primality
        if (op == "isprime") o << nz(IP.isprime(a[0]));
        else if (op == "isprime.r") o << nz(IP.isprime(a[0], (int)(int64_t)a[1]));
        else if (op == "isprime.fd") o << nz(FD.isprime(a[0]));                       // through the derived factor domain
        else if (op == "local_prime") o << nz(IP.local_prime(a[0]));
        else if (op == "local_prime.r") o << nz(IP.local_prime(a[0], (int)(int64_t)a[1]));
        else if (op == "probab_prime") o << nz(Protected::probab_prime(a[0]));
        else if (op == "probab_prime.r") o << nz(Protected::probab_prime(a[0], (int32_t)(int64_t)a[1]));
        else if (op == "tab1") o << IP.isprime_Tabule((int)(int64_t)a[0]);
        else if (op == "tab2") o << IP.isprime_Tabule2((int)(int64_t)a[0]);
        else if (op == "range" || op == "range.tab1" || op == "range.tab2") {      // one character per n in [a, b)
            int64_t lo = (int64_t)a[0], hi = (int64_t)a[1]; std::string s; s.reserve((size_t)(hi - lo));
            for (int64_t n = lo; n < hi; ++n) {
                int v = op == "range" ? IP.isprime(Z(n)) : op == "range.tab1" ? IP.isprime_Tabule((int)n) : IP.isprime_Tabule2((int)n);
                s += (v != 0) ? '1' : '0';
            }
            o << s;
        }
        else if (op == "miller") { GivRandom g2(4242); int all = 1; for (int i = 0; i < 8; ++i) all &= nz(IP.Miller(g2, a[0])); o << all; }
        // ------------------------------------------------------------ next / prev prime
        else if (op == "next.na") { IP.nextprime(r, a[0]); o << r; }
        else if (op == "next.na.r") { IP.nextprime(r, a[0], (int)(int64_t)a[1]); o << r; }
        else if (op == "next.ret") { Z& x = IP.nextprime(r, a[0]); o << x << " " << (&x == &r); }
        else if (op == "next.alias") { r = a[0]; IP.nextprime(r, r); o << r; }
        else if (op == "next.in") { r = a[0]; IP.nextprimein(r); o << r; }
        else if (op == "next.in.r") { r = a[0]; IP.nextprimein(r, (int)(int64_t)a[1]); o << r; }
        else if (op == "prev.na") { IP.prevprime(r, a[0]); o << r; }
        else if (op == "prev.na.r") { IP.prevprime(r, a[0], (int)(int64_t)a[1]); o << r; }
        else if (op == "prev.ret") { Z& x = IP.prevprime(r, a[0]); o << x << " " << (&x == &r); }
        else if (op == "prev.alias") { r = a[0]; IP.prevprime(r, r); o << r; }
        else if (op == "prev.in") { r = a[0]; IP.prevprimein(r); o << r; }
        else if (op == "prev.in.r") { r = a[0]; IP.prevprimein(r, (int)(int64_t)a[1]); o << r; }
        else if (op == "pprev") { Protected::prevprime(r, a[0]); o << r; }
        else if (op == "pprev.alias") { r = a[0]; Protected::prevprime(r, r); o << r; }
        else if (op == "pnext") { Protected::nextprime(r, a[0]); o << r; }
        else if (op == "pnext.alias") { r = a[0]; Protected::nextprime(r, r); o << r; }
        else if (op == "nextrange.alias" || op == "prevrange.alias" || op == "pprevrange.alias" || op == "pnextrange" || op == "pnextrange.alias") {
            int64_t lo = (int64_t)a[0], hi = (int64_t)a[1];
            for (int64_t n = lo; n < hi; ++n) {
                Z p(n), x(GARBAGE);
                if (op == "nextrange.alias") { x = p; IP.nextprime(x, x); }
                else if (op == "prevrange.alias") { x = p; IP.prevprime(x, x); }
                else if (op == "pprevrange.alias") { x = p; Protected::prevprime(x, x); }
                else if (op == "pnextrange") Protected::nextprime(x, p);
                else { x = p; Protected::nextprime(x, x); }
                if (n > lo) o << " ";
                o << x;
            }
        }
        else if (op == "nextrange" || op == "prevrange" || op == "nextrange.in" || op == "prevrange.in" || op == "pprevrange") {
            int64_t lo = (int64_t)a[0], hi = (int64_t)a[1];
            for (int64_t n = lo; n < hi; ++n) {
                Z p(n), x(GARBAGE);
                if (op == "nextrange") IP.nextprime(x, p);
                else if (op == "prevrange") IP.prevprime(x, p);
                else if (op == "nextrange.in") { x = p; IP.nextprimein(x); }
                else if (op == "prevrange.in") { x = p; IP.prevprimein(x); }
                else Protected::prevprime(x, p);
                if (n > lo) o << " ";
                o << x;
            }
        }
        // ------------------------------------------------------------ single factors
        else if (op == "factor") { FD.factor(r, a[0]); o << r; }
        else if (op == "factor.loops") { FD.factor(r, a[0], (unsigned long)(uint64_t)a[1]); o << r; }
        else if (op == "iffactorprime") { FD.iffactorprime(r, a[0]); o << r; }
        else if (op == "iffactorprime.loops") { FD.iffactorprime(r, a[0], (unsigned long)(uint64_t)a[1]); o << r; }
        else if (op == "primefactor") { FD.primefactor(r, a[0]); o << r; }
        else if (op == "pollard") { FD.Pollard(gen, r, a[0]); o << r; }
        else if (op == "pollard.loops") { FD.Pollard(gen, r, a[0], (unsigned long)(uint64_t)a[1]); o << r; }
        else if (op == "lenstra") { FD.Lenstra(gen, r, a[0]); o << r; }
        else if (op == "lenstra.b") { FD.Lenstra(gen, r, a[0], a[1], (unsigned long)(uint64_t)a[2]); o << r; }
        // ------------------------------------------------------------ the same with the scripted random source
        else if (op == "s.pollard") { SD.Pollard(sgen, r, a[0], thr); o << r; }
        else if (op == "s.factor") { SD.factor(r, a[0], thr); o << r; }
        else if (op == "s.iffactorprime") { SD.iffactorprime(r, a[0], thr); o << r; }
        else if (op == "s.primefactor") { SD.primefactor(r, a[0]); o << r; }
        else if (op == "s.pollard.ip") { r = a[0]; Z& x = SD.Pollard(sgen, r, r, thr); o << r << " " << (&x == &r); }
        else if (op == "s.lenstra.ip") { r = a[0]; Z& x = SD.Lenstra(sgen, r, r); o << r << " " << (&x == &r); }
        else if (op == "s.factor.ip") { r = a[0]; Z& x = SD.factor(r, r, thr); o << r << " " << (&x == &r); }
        else if (op == "s.iffactorprime.ip") { r = a[0]; Z& x = SD.iffactorprime(r, r, thr); o << r << " " << (&x == &r); }
        else if (op == "s.primefactor.ip") { r = a[0]; Z& x = SD.primefactor(r, r); o << r << " " << (&x == &r); }
        else if (op == "s.set2") { std::vector<Z> Lf; std::vector<unsigned long> Lo; bool f = SD.set(Lf, Lo, a[0], thr); o << f; put_pairs(o, Lf, Lo); }
        else if (op == "s.set2.list") { std::list<Z> Lf; std::list<unsigned long> Lo; bool f = SD.set(Lf, Lo, a[0], thr); o << f; put_pairs(o, Lf, Lo); }
        else if (op == "s.set1") { std::vector<Z> Lf; SD.set(Lf, a[0]); put_list(o, Lf); }
        else if (op == "s.write") { std::ostringstream w; SD.write(w, a[0]); o << "[" << nospace(w.str()) << "]"; }
        else if (op == "s.divisors") { std::list<Z> L; L.push_back(Z(77)); SD.divisors(L, a[0]); put_list(o, L); }
        else if (op == "s.miller") { ScriptRand g2; o << nz(IP.Miller(g2, a[0])); }
        else if (op == "s.lehmann") { ScriptRand g2; o << nz(IP.Lehmann(g2, a[0])); }
        else if (op == "s.test_lehmann") { ScriptRand g2; Z& x = IP.test_Lehmann(g2, r, a[0]); o << r << " " << (&x == &r); }
        else if (op == "fermat") { FermatDom FMD; Z& x = FMD.fermat(r, (size_t)(uint64_t)a[0]); o << r << " " << (&x == &r); }
        else if (op == "pepin") { FermatDom FMD; o << nz(FMD.pepin((size_t)(uint64_t)a[0])); }
        // ------------------------------------------------------------ complete factorisation
        else if (op == "set2.vec") { std::vector<Z> Lf; std::vector<unsigned long> Lo; bool f = FD.set(Lf, Lo, a[0]); o << f; put_pairs(o, Lf, Lo); }
        else if (op == "set2.list") { std::list<Z> Lf; std::list<unsigned long> Lo; bool f = FD.set(Lf, Lo, a[0]); o << f; put_pairs(o, Lf, Lo); }
        else if (op == "set2.deque") { std::deque<Z> Lf; std::vector<uint64_t> Lo; bool f = FD.set(Lf, Lo, a[0]); o << f; put_pairs(o, Lf, Lo); }
        else if (op == "set2.loops") { std::vector<Z> Lf; std::vector<unsigned long> Lo; bool f = FD.set(Lf, Lo, a[0], (unsigned long)(uint64_t)a[1]); o << f; put_pairs(o, Lf, Lo); }
        else if (op == "set1.vec") { std::vector<Z> Lf; FD.set(Lf, a[0]); put_list(o, Lf); }
        else if (op == "set1.list") { std::list<Z> Lf; FD.set(Lf, a[0]); put_list(o, Lf); }
        else if (op == "write") { std::ostringstream w; FD.write(w, a[0]); o << "[" << nospace(w.str()) << "]"; }
        else if (op == "write.L") { std::ostringstream w; std::vector<Z> Lf; FD.write(w, Lf, a[0]); o << "[" << nospace(w.str()) << "] "; put_list(o, Lf); }
        else if (op == "divisors.n") { std::list<Z> L; L.push_back(Z(77)); FD.divisors(L, a[0]); put_list(o, L); }
        else if (op == "divisors.lf") {      // args: p1 e1 p2 e2 ...
            std::vector<Z> Lf; std::vector<unsigned long> Le;
            for (size_t i = 0; i + 1 < a.size(); i += 2) { Lf.push_back(a[i]); Le.push_back((unsigned long)(uint64_t)a[i + 1]); }
            std::list<Z> L; L.push_back(Z(77)); std::list<Z>& x = FD.divisors(L, Lf, Le); put_list(o, x); o << " ; " << (&x == &L);
        }
        else if (op == "divisors.lf.alias") {      // the destination is the list of primes itself
            std::list<Z> L; std::list<unsigned long> Le;
            for (size_t i = 0; i + 1 < a.size(); i += 2) { L.push_back(a[i]); Le.push_back((unsigned long)(uint64_t)a[i + 1]); }
            SD.divisors(L, L, Le); put_list(o, L);
        }
        else if (op == "divisors.lf.list") {
            std::list<Z> Lf; std::list<unsigned long> Le;
            for (size_t i = 0; i + 1 < a.size(); i += 2) { Lf.push_back(a[i]); Le.push_back((unsigned long)(uint64_t)a[i + 1]); }
            std::list<Z> L; FD.divisors(L, Lf, Le); put_list(o, L);
        }
        else if (op == "erat") { std::vector<Z> Lf; FD.Erathostene(Lf, a[0]); put_list(o, Lf); }
        // ------------------------------------------------------------ prime powers
        else if (op == "ipp") { unsigned int e = IP.isprimepower(q, a[0]); o << e << " " << q; }
        else if (op == "ipp.alias") { q = a[0]; unsigned int e = IP.isprimepower(q, q); o << e << " " << q; }
        else if (op == "primes16") { size_t c = Primes16::count(); o << c; for (size_t i = 0; i < c; ++i) o << " " << Primes16::ith(i); }
        else o << "UNKNOWN-OP";
        arm(0);
        if (scripted) o << " | " << SPOS << " " << SUNDER;
        std::cout << o.str() << "\n";
    }
    std::cout.flush();
    return 0;
}
