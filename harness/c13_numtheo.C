// C13 harness: number-theoretic functions and modular square roots of /repo's current tree.
// One case per line on stdin:  <op> <decimal args...>     one result line on stdout (decimal tokens).
// Every public call form of givintnumtheo.h / givintsqrootmod.h / the gmp++_int_misc.C functions of the
// property is reachable through some op; protected lifting steps are exposed through a derived class.
#include <iostream>
#include <sstream>
#include <string>
#include <vector>
#include <list>
#include <cstdio>
#include <cmath>
#include <unistd.h>
#include <fcntl.h>
#include <gmp.h>
#include <signal.h>
#include <sys/time.h>
#include <cstring>
#include <cstdlib>
#include "gmp++/gmp++.h"
#include "givinteger.h"
#include "givintnumtheo.h"
#include "givintsqrootmod.h"

using namespace Givaro;
typedef Integer Z;

struct SqrtOpen : public IntSqrtModDom<GivRandom> {
    SqrtOpen(GivRandom g) : IntSqrtModDom<GivRandom>(g) {}
    Rep& linear(Rep& x, const Rep& a, const Rep& p, uint64_t k) const { return this->sqrootlinear(x, a, p, k); }
    Rep& twolinear(Rep& x, const Rep& a, uint64_t k) const { return this->sqroottwolinear(x, a, k); }
    Rep& hensel(Rep& x, const Rep& a, const Rep& p, uint64_t k, const Rep& pk) const { return this->sqroothensellift(x, a, p, k, pk); }
    Rep& onemore(Rep& x, const Rep& a, const Rep& p, uint64_t k, const Rep& pk) const { return this->sqrootonemorelift(x, a, p, k, pk); }
    Rep& twolift(Rep& x, const Rep& a, uint64_t k, const Rep& pk) const { return this->sqrootmodtwolift(x, a, k, pk); }
};

static Z zpow(const Z& p, uint64_t k) { Z r(1); for (uint64_t i = 0; i < k; ++i) r *= p; return r; }

// the library prints diagnostics ("... is not a quadratic residue ...") on std::cerr: silence fd 2
static void quiet_stderr() { int fd = open("/dev/null", O_WRONLY); if (fd >= 0) { dup2(fd, 2); close(fd); } }

// Every random choice of the anchored code comes from Integer's global GMP state (IntegerDom::random ignores the
// generator object).  It is re-seeded from the text of the case before every call, so a single line replays
// identically, and the draws the code consumed first can be re-produced afterwards (the model takes them as input).
static uint64_t line_seed(const std::string& s) { uint64_t h = 1469598103934665603ULL; for (size_t i = 0; i < s.size(); ++i) { h ^= (unsigned char)s[i]; h *= 1099511628211ULL; } return h; }
// the draws  Rep::nonzerorandom(d, l), l = ceil(logtwo(p) - 1)  of sqrootmodprime (Mueller / Tonelli-Shanks branches)
static void print_draws(std::ostream& o, uint64_t seed, const Z& p, int n) {
    Integer::seeding(seed);
    size_t l = (size_t) ceil(logtwo(p) - 1);
    o << " ;";
    for (int i = 0; i < n; ++i) { Z d; Z::nonzerorandom(d, l); o << " " << d; }
}

// the draws nonzerorandom(s, p.bitsize()) of sumofsquaresmodprimeMonteCarlo / nonzerorandom(alea, p) of probable_prim_root
static void print_draws_bits(std::ostream& o, uint64_t seed, const Z& p, int n) {
    Integer::seeding(seed); o << " ;";
    for (int i = 0; i < n; ++i) { Z d; Z::nonzerorandom(d, p.bitsize()); o << " " << d; }
}
// probable_prim_root first factors p-1 (IntFactorDom::set(Lq, e, p-1, L)), which may itself consume random numbers (Pollard /
// Lenstra starting points) from the same global state: the factorisation is replayed from the same seed before the draws
template<class NTD> static void print_draws_below(std::ostream& o, const NTD& NT, uint64_t seed, const Z& p, uint64_t L, int n) {
    Integer::seeding(seed); o << " ;";
    { std::vector<Z> Lq; std::vector<uint64_t> e; Z pm(p); --pm; NT.set(Lq, e, pm, L); }
    for (int i = 0; i < n; ++i) { Z d; Z::nonzerorandom(d, p); o << " " << d; }
}

// the factor set of p-1 exactly as IntFactorDom::set(Lq, e, p-1, L) delivers it (the order matters to probable_prim_root)
template<class NTD> static void print_set(std::ostream& o, const NTD& NT, const Z& p, uint64_t L) {
    std::vector<Z> Lq; std::vector<uint64_t> e; Z pm(p); --pm; NT.set(Lq, e, pm, L);
    o << " ;"; for (size_t i = 0; i < Lq.size(); ++i) o << " " << Lq[i] << " " << e[i];
}

// Per-case CPU-time watchdog (ITIMER_PROF counts user + system time of this process: independent of the machine load).
// A call that has not returned after the budget is answered `DOES-NOT-RETURN cpu>Ns` for THAT case and the process ends;
// the check restarts the harness on the remaining lines and re-runs the case alone with a larger budget before reporting it.
static char wd_msg[64]; static size_t wd_len = 0;
static void wd_fire(int) { ssize_t w = write(1, wd_msg, wd_len); (void)w; _exit(97); }
static void wd_arm(long sec) { struct itimerval it; memset(&it, 0, sizeof it); it.it_value.tv_sec = sec; setitimer(ITIMER_PROF, &it, 0); }

int main() {
    long budget = 20; { const char* e = getenv("C13_CPU_BUDGET"); if (e && atol(e) > 0) budget = atol(e); }
    wd_len = (size_t) snprintf(wd_msg, sizeof wd_msg, "DOES-NOT-RETURN cpu>%lds\n", budget);
    { struct sigaction sa; memset(&sa, 0, sizeof sa); sa.sa_handler = wd_fire; sigaction(SIGPROF, &sa, 0); }
    quiet_stderr();
    std::ios::sync_with_stdio(false);
    Integer::seeding((uint64_t)20261001);
    GivRandom gen(12345);
    IntNumTheoDom<GivRandom> NT(gen);
    SqrtOpen SQ(gen);
    std::string line;
    while (std::getline(std::cin, line)) {
        std::istringstream in(line);
        std::string op; in >> op;
        if (op.empty()) continue;
        // in-place call forms:  op@i   the (first) output IS the object passed as input i;   op@@i  the second output;
        //                       op@i@@j both.  i = 9 stands for the modulus object pk of the prime-power functions.
        int al1 = -1, al2 = -1;
        { size_t q2 = op.find("@@"); if (q2 != std::string::npos) { al2 = atoi(op.c_str() + q2 + 2); op.erase(q2); }
          size_t q1 = op.find('@');  if (q1 != std::string::npos) { al1 = atoi(op.c_str() + q1 + 1); op.erase(q1); } }
        std::vector<Z> a; { std::string t; while (in >> t) a.push_back(Z(t.c_str())); }
        const std::vector<Z> a0(a);                       // the values of the arguments before the call
        std::ostringstream o;
        Z r_, r2_, r3, pk_;
        if ((al1 >= 0 && al1 != 9 && (size_t)al1 >= a.size()) || (al2 >= 0 && al2 != 9 && (size_t)al2 >= a.size())) { std::cout << "BAD-ALIAS" << std::endl; continue; }
        Z& r  = (al1 == 9) ? pk_ : (al1 >= 0 ? a[al1] : r_);
        Z& r2 = (al2 == 9) ? pk_ : (al2 >= 0 ? a[al2] : r2_);
        Z& pk = pk_;
        // re-seeding costs ~0.6 ms (Mersenne twister): done only for the calls that can reach a random choice
        // (for the sqrt-mod-prime family: only when p = 1 mod 8, the Mueller / Tonelli-Shanks classes)
        const uint64_t seed = line_seed(line);
        bool pdraws = false;
        if (op == "sqrootmodprime" || op == "sqrootmodprimepower" || op == "sqrootlinear") pdraws = a.size() > 1 && ((a[1] & 7U) == 1U);
        bool rnd = pdraws || op == "sqrootmod" || op == "brillhart" || op.compare(0, 12, "sumofsquares") == 0
                   || op.compare(0, 9, "prim_root") == 0 || op.compare(0, 8, "probable") == 0 || op == "prim_elem" || op == "prim_inv";
        if (rnd) Integer::seeding(seed);
        wd_arm(budget);
        // ------------------------------------------------------------ numtheo
        if (op == "phi") { NT.phi(r, a[0]); o << r; }
        else if (op == "phiL.list") { std::list<Z> L(a.begin() + 1, a.end()); NT.phi(r, L, a[0]); o << r; }
        else if (op == "phiL.vector") { std::vector<Z> L(a.begin() + 1, a.end()); NT.phi(r, L, a[0]); o << r; }
#ifdef C13_HAVE_MOBIUS_INT
        else if (op == "mobius") { o << NT.mobius(a[0]); }
#else   // mobius(const Rep&) does not compile in this tree: same steps through the list overload
        else if (op == "mobius") { std::list<Z> lr; std::list<uint64_t> lp; NT.set(lr, lp, a[0]);
                                   std::list<Z> lpz(lp.begin(), lp.end()); o << NT.mobius(lpz); }
#endif
        else if (op == "mobiusL.list") { std::list<Z> L(a.begin(), a.end()); o << NT.mobius(L); }
        else if (op == "mobiusL.vector") { std::vector<Z> L(a.begin(), a.end()); o << NT.mobius(L); }
        else if (op == "order") { NT.order(r, a[0], a[1]); o << r; }
        else if (op == "isorder") { o << (NT.isorder(a[0], a[1], a[2]) ? 1 : 0); }
        else if (op == "is_prim_root") { o << (NT.is_prim_root(a[0], a[1]) ? 1 : 0); }
        else if (op == "prim_root") { NT.prim_root(r, a[0]); o << r; }
        else if (op == "prim_root.runs") { uint64_t runs = 0; NT.prim_root(r, runs, a[0]); o << r << " " << runs; }
        else if (op == "prim_root_of_prime") { NT.prim_root_of_prime(r, a[0]); o << r; }
        else if (op == "prim_root_of_prime.L") {
            std::vector<Z> L(a.begin() + 1, a.end()); Z phin(a[0]); phin -= 1;
            NT.prim_root_of_prime(r, L, phin, a[0]); o << r; }
        else if (op == "lowest_prim_root") { NT.lowest_prim_root(r, a[0]); o << r; }
        else if (op == "probable_prim_root.L") { double e = -1; NT.probable_prim_root(r, e, a[0], (uint64_t)a0[1]); o << r << " " << (e == 0.0 ? 0 : 1); print_draws_below(o, NT, seed, a0[0], (uint64_t)a0[1], 80); print_set(o, NT, a0[0], (uint64_t)a0[1]); }
        else if (op == "probable_prim_root.default") { double e = -1; NT.probable_prim_root(r, e, a[0]); o << r << " " << (e == 0.0 ? 0 : 1); print_draws_below(o, NT, seed, a0[0], 10000000UL, 80); print_set(o, NT, a0[0], 10000000UL); }
        else if (op == "probable_prim_root.eps") { double e = -1; NT.probable_prim_root(r, e, a[0], 1e-9); o << r << " " << ((e >= 0.0 && e < 1e-3) ? 0 : 1); print_draws_below(o, NT, seed, a0[0], 10000000UL, 80); print_set(o, NT, a0[0], 10000000UL); }
#ifdef C13_HAVE_PRIM_INV
        else if (op == "prim_inv") { NT.prim_inv(r, a[0]); o << r; }
#else
        else if (op == "prim_inv") { o << "NA"; }
#endif
        else if (op == "prim_elem") { NT.prim_elem(r, a[0]); o << r; }
        else if (op == "lambda") { NT.lambda(r, a[0]); o << r; }
        else if (op == "lambda_inv") { NT.lambda_inv(r, a[0]); o << r; }
#ifdef C13_HAVE_LAMBDA_PRIMPOW
        else if (op == "lambda_primpow") { NT.lambda_primpow(r, a[0], (uint64_t)a[1]); o << r; }
#else
        else if (op == "lambda_primpow") { o << "NA"; }
#endif
        else if (op == "lambda_inv_primpow") { NT.lambda_inv_primpow(r, a[0], (uint64_t)a[1]); o << r; }
        // ------------------------------------------------------------ square roots
        else if (op == "sqrootmod") { SQ.sqrootmod(r, a[0], a[1]); o << r; }
        else if (op == "sqrootmodprime") { SQ.sqrootmodprime(r, a[0], a[1]); o << r; if (pdraws) print_draws(o, seed, a0[1], 40); }
        else if (op == "sqrootmodprimepower") { pk = zpow(a[1], (uint64_t)a[2]); SQ.sqrootmodprimepower(r, a[0], a[1], (uint64_t)a[2], pk); o << r; if (pdraws) print_draws(o, seed, a0[1], 40); }
        else if (op == "sqrootmodpoweroftwo") { pk = zpow(Z(2), (uint64_t)a[1]); SQ.sqrootmodpoweroftwo(r, a[0], (uint64_t)a[1], pk); o << r; }
        else if (op == "sqrootlinear") { SQ.linear(r, a[0], a[1], (uint64_t)a[2]); o << r; if (pdraws) print_draws(o, seed, a0[1], 40); }
        else if (op == "sqroottwolinear") { SQ.twolinear(r, a[0], (uint64_t)a[1]); o << r; }
        else if (op == "sqroothensellift") { r = a[0]; Z pk = zpow(a[2], (uint64_t)a[3]); SQ.hensel(r, a[1], a[2], (uint64_t)a[3], pk); o << r; }
        else if (op == "sqrootonemorelift") { r = a[0]; Z pk = zpow(a[2], (uint64_t)a[3]); SQ.onemore(r, a[1], a[2], (uint64_t)a[3], pk); o << r; }
        else if (op == "sqrootmodtwolift") { r = a[0]; Z pk = zpow(Z(2), (uint64_t)a[2]); SQ.twolift(r, a[1], (uint64_t)a[2], pk); o << r; }
        else if (op == "brillhart") { SQ.Brillhart(r, r2, a[0]); o << r << " " << r2; }
        else if (op == "sumofsquares") { SQ.sumofsquaresmodprime(r, r2, a[0], a[1]); o << r << " " << r2; }
        else if (op == "sumofsquares.det") { SQ.sumofsquaresmodprimeDeterministic(r, r2, a[0], a[1]); o << r << " " << r2; }
        else if (op == "sumofsquares.mc") { SQ.sumofsquaresmodprimeMonteCarlo(r, r2, a[0], a[1]); o << r << " " << r2; print_draws_bits(o, seed, a0[1], 40); }
        else if (op == "sumofsquares.noerh") { SQ.sumofsquaresmodprimeNoERH(r, r2, a[0], a[1]); o << r << " " << r2; }
        else if (op == "sumofsquares.nonres") { SQ.sumofsquaresmodprimewithnonresidue(r, r2, a[0], a[1], a[2]); o << r << " " << r2; }
        // ------------------------------------------------------------ gmp++_int_misc.C
        else if (op == "jacobi") { o << jacobi(a[0], a[1]); }
        else if (op == "legendre") { o << legendre(a[0], a[1]); }
        else if (op == "kronecker") { o << kronecker(a[0], a[1]); }
        else if (op == "logp") { o << logp(a[0], a[1]); }
        else if (op == "sqrt.ra") { if (al1 < 0) r = 77; sqrt(r, a[0]); o << r; }
        else if (op == "sqrt.a") { o << sqrt(a[0]); }
        else if (op == "sqrtrem.rar") { if (al1 < 0) r = 77; if (al2 < 0) r2 = 78; sqrtrem(r, a[0], r2); o << r << " " << r2; }
        else if (op == "sqrtrem.ar") { if (al2 < 0) r2 = 78; r_ = sqrtrem(a[0], r2); o << r_ << " " << r2; }
        else if (op == "root") { if (al1 < 0) r = 77; bool ex = root(r, a[0], (uint32_t)(uint64_t)a0[1]); o << r << " " << (ex ? 1 : 0); }
        // ------------------------------------------------------------ Integer helpers the anchored code calls (size, logarithms)
        else if (op == "logtwo") { char bf[64]; snprintf(bf, sizeof bf, "%.17g", logtwo(a[0])); o << bf; }
        else if (op == "naturallog") { char bf[64]; snprintf(bf, sizeof bf, "%.17g", naturallog(a[0])); o << bf; }
        else if (op == "length") { o << length(a[0]); }
        else if (op == "bitsize") { o << a[0].bitsize(); }
        else if (op == "size") { o << a[0].size(); }
        else if (op == "isperfectpower") { o << (isperfectpower(a[0]) ? 1 : 0); }
        else if (op == "nonzerorandom.bits") { Z d; uint64_t mx = 0; for (int i = 0; i < 8; ++i) { Z::nonzerorandom(d, (uint64_t)a[0]); if (d.bitsize() > mx) mx = d.bitsize(); o << (d > 0 ? 1 : 0); } o << " " << mx; }
        // ------------------------------------------------------------ helpers of the domain with an output parameter
        else if (op == "gcd") { NT.gcd(r, a[0], a[1]); o << r; }
        else if (op == "powmod") { NT.powmod(r, a[0], a[1], a[2]); o << r; }
        else if (op == "inv") { Givaro::inv(r, a[0], a[1]); o << r; }
        else if (op == "invin") { r_ = a[0]; NT.invin(al1 >= 0 ? r : r_, a[1]); o << (al1 >= 0 ? r : r_); }
        else if (op == "mod") { NT.mod(r, a[0], a[1]); o << r; }
        else o << "UNKNOWN-OP";
        wd_arm(0);
        std::cout << o.str() << std::endl;
    }
    std::cout.flush();
    return 0;
}
