// C14: translation unit for the clang AST dump read by checks/C14.py: which data members IntRNSsystem / RNSsystem / RNSsystemFixed
// have and what their copy constructors and assignment operators (implicit or hand-written) do with each of them.  Never compiled
// into a binary.
#include <vector>
#include "gmp++/gmp++.h"
#include "givinteger.h"
#include "modular.h"
#include "modular-integer.h"
#include "givintrns.h"
#include "givrns.h"
#include "givrnsfixed.h"
using namespace Givaro;
typedef IntRNSsystem<std::vector, std::allocator> C14_IRNS;
typedef RNSsystem<Integer, Modular<int64_t> > C14_RNS;
typedef RNSsystemFixed<Integer> C14_FX;
void c14_ast_use() {
    C14_IRNS a; C14_IRNS b(a); a = b;
    C14_RNS c; C14_RNS d(c); c = d;
    C14_FX e; C14_FX f(e); e = f;
}
