// C14 probe: ASSIGNMENT of the two-modulus functor ChineseRemainder<Ring,Domain,REDUCE> (implicit operator=).
// Kept separate from c14_rns.C: a functor whose members are not assignable (e.g. a reference member) makes this unit
// fail to compile, which is reported as this site only, while c14_rns.C keeps producing concrete failing inputs.
//   line "<dom> <reduce 1|0> M D A e"  ->  res(original) res(assigned over a functor built for other arguments) res(self-assigned)
#include <iostream>
#include <sstream>
#include <string>
#include "gmp++/gmp++.h"
#include "givinteger.h"
#include "modular.h"
#include "modular-integer.h"
#include "chineseremainder.h"
#include "c14_watchdog.h"
using namespace Givaro;

template <class Dom, bool RED>
static std::string run(const Integer& M, const Integer& Dm, const Integer& A, const Integer& e) {
    typedef ChineseRemainder<IntegerDom, Dom, RED> CRA_t;
    IntegerDom ID; Dom Dref(Dm);
    typename Dom::Element ee; Dref.init(ee, e);
    Integer* Mvar = new Integer(M);
    Dom* Dvar = new Dom(Dm);
    CRA_t* CRA = new CRA_t(ID, *Mvar, *Dvar);
    *Mvar += 5; *Dvar = Dom(Integer(3));
    Integer res(-1); (*CRA)(res, A, ee);
    // a functor built for other arguments and used, then assigned; the source is destroyed before the target is applied
    Integer M2(M + 2); Dom D2(Integer(7));
    CRA_t asg(ID, M2, D2);
    typename Dom::Element e7; D2.init(e7, Integer(3)); Integer d7; asg(d7, Integer(1), e7);
    asg = *CRA;
    delete CRA; delete Mvar; delete Dvar;
    Integer res2(17); asg(res2, A, ee);
    CRA_t& alias = asg; asg = alias;                  // self-assignment
    Integer res3(-9); asg(res3, A, ee);
    std::ostringstream o; o << res << " " << res2 << " " << res3;
    return o.str();
}

int main() {
    std::string line;
    while (std::getline(std::cin, line)) {
        c14_arm();
        std::istringstream in(line);
        std::string dom, sM, sD, sA, se; int red;
        in >> dom >> red >> sM >> sD >> sA >> se;
        Integer M(sM.c_str()), D(sD.c_str()), A(sA.c_str()), e(se.c_str());
        std::string out = "BAD-DOM";
        try {
            if (dom == "mi64") out = red ? run<Modular<int64_t>, true>(M, D, A, e) : run<Modular<int64_t>, false>(M, D, A, e);
            else if (dom == "mint") out = red ? run<Modular<Integer>, true>(M, D, A, e) : run<Modular<Integer>, false>(M, D, A, e);
            else if (dom == "mdouble") out = red ? run<Modular<double>, true>(M, D, A, e) : run<Modular<double>, false>(M, D, A, e);
        } catch (...) { out = "EXCEPTION"; }
        std::cout << out << std::endl;
    }
    return 0;
}
