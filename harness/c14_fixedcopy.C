// C14 probe: copy construction of RNSsystemFixed<Integer>.  Before commit 380857a this translation unit did
// not compile (the copy constructor initialised a std::vector with (R._primes, givWithCopy()) and never copied
// _RNS); it is kept separate from c14_rns.C so that such a regression is reported as this site only.
//   line "<hist> n p1..pn r1..rn"  ->  RnsToRing through a COPY;  hist = copycold | copywarm | copy2 | copyassign
#include <iostream>
#include <sstream>
#include <string>
#include <vector>
#include "gmp++/gmp++.h"
#include "givinteger.h"
#include "givrnsfixed.h"
#include "c14_watchdog.h"
using namespace Givaro;
typedef RNSsystemFixed<Integer> FX;
int main() {
    std::string line;
    while (std::getline(std::cin, line)) {
        c14_arm();
        std::istringstream in(line);
        std::string hist; size_t n; in >> hist >> n;
        std::vector<Integer> P(n), R(n), ones(n, Integer(1));
        for (size_t i = 0; i < n; ++i) { std::string s; in >> s; P[i] = Integer(s.c_str()); }
        for (size_t i = 0; i < n; ++i) { std::string s; in >> s; R[i] = Integer(s.c_str()); }
        Integer V("987654321987654321987654321"), dump;
        std::vector<Integer>* tmp = new std::vector<Integer>(P);
        FX* A = new FX(*tmp);
        for (size_t i = 0; i < n; ++i) (*tmp)[i] = Integer(1);
        delete tmp;
        if (hist == "copycold") { FX B(*A); delete A; B.RnsToRing(V, R); }
        else if (hist == "copywarm") { A->RnsToRing(dump, ones); FX B(*A); delete A; B.RnsToRing(V, R); }
        else if (hist == "copy2") { A->RnsToRing(dump, ones); FX* B = new FX(*A); delete A; FX C(*B); delete B; C.RnsToRing(V, R); }
        else if (hist == "copyassign") { FX B(*A); FX C; C = B; delete A; C.RnsToRing(V, R); B.RnsToRing(dump, R); if (dump != V) V = -1; }
        else { delete A; std::cout << "BAD-HIST" << std::endl; continue; }
        std::cout << V << std::endl;
    }
    return 0;
}
