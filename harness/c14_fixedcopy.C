// C14 probe: copy construction of RNSsystemFixed<Integer>.  On the unchanged tree this translation unit does
// not compile (the copy constructor initialises a std::vector with (R._primes, givWithCopy())); the check records
// that as a known finding.  Once it compiles:  line "fixed n p1..pn r1..rn"  ->  RnsToRing through a COPY.
#include <iostream>
#include <sstream>
#include <string>
#include <vector>
#include "gmp++/gmp++.h"
#include "givinteger.h"
#include "givrnsfixed.h"
using namespace Givaro;
int main() {
    std::string line;
    while (std::getline(std::cin, line)) {
        std::istringstream in(line);
        std::string kind; size_t n; in >> kind >> n;
        std::vector<Integer> P(n), R(n);
        for (size_t i = 0; i < n; ++i) { std::string s; in >> s; P[i] = Integer(s.c_str()); }
        for (size_t i = 0; i < n; ++i) { std::string s; in >> s; R[i] = Integer(s.c_str()); }
        RNSsystemFixed<Integer>* A = new RNSsystemFixed<Integer>(P);
        RNSsystemFixed<Integer> B(*A);
        delete A;
        Integer V; B.RnsToRing(V, R);
        std::cout << V << "\n";
    }
    return 0;
}
