// C14 harness: Chinese remaindering / residue number systems of /repo's current tree.
// One case per line on stdin, one result line on stdout (decimal integers, '|' separates groups).
//
//   maxcard <dom>                                    -> maxCardinality of the residue domain (-1: none)
//   int <hist> <ctor> <tt> <order> n p1..pn r1..rn na a1..a_na      IntRNSsystem<std::vector,std::allocator>
//        ctor  = element type of the container handed to the constructor (Integer: the plain constructor; int32|uint32|int64|uint64:
//                the templated converting constructor); EVERY object of the history that stands for the primes is built this way
//        tt    = element type of the residue container handed to RnsToMixedRadix / RnsToRing (Integer|int32|uint32|int64|uint64)
//        order = the entry point called FIRST on the object obtained (mix|ring|recip|recipi|prod|rns); its answer is the last group
//        -> m0..m(n-1) | V | P | a_j mod p_i (all j) | RnsToRing(RingToRns(a_j)) (all j) | ck_k mod p_k (k=1..n-1) | V2 | accessors .. | V3
//           | P2 (product() again) | RingToRns(a_last) into an EMPTY destination | answer of the first call
//           (V = RnsToRing(r), P = product(), V2 = second RnsToRing on the same object)
//   rns <hist> <dom> <order> n p1..pn r1..rn na a1..a_na     RNSsystem<Integer, Dom>
//        -> m0..m(n-1) | V | a_j mod p_i (all j) | RnsToRing(RingToRns(a_j)) | ck_k (k=1..n-1) | V2 | accessors .. | V3
//           | digits into an exact-size garbage destination | digits into an oversized destination (first n) | RingToRns(a_last) into an
//           empty destination | answer of the first call
//   rnsexc <dom> n p1..pn m d1..dm                   RNSsystem::MixedRadixToRing with m digits on n primes (n = 0: default-constructed)  -> value | EXCEPTION
//   fixed <hist> <tt> n p1..pn r1..rn                RNSsystemFixed<Integer>, residues in a vector<tt> (or Array0<Integer>: tt = array0)  -> V V2 | levels (size entries)*
//   cra <dom> <reduce 1|0> M D A e                   ChineseRemainder<IntegerDom,Dom,reduce>  -> res res(copy) res(in place: destination == A)   (constructor arguments changed before use; assignment: c14_craassign.C)
//   lift <dom> <atonce|prepared|copies> n p.. r..    incremental lifting x_1..x_n by the functor | RNSsystem::RnsToRing
//   poly <hist> <dom> p n a1..an r1..rn d c0..cd     Poly1CRT<dom> over GF(p)
//        -> coefficients of RnsToRing(r) (low degree first, degree-stripped) | evaluations of the polynomial c at a_i
//           | size points | ck_k as "deg coeffs" for k = 1..n-1 | 1 iff a second RnsToRing gives the same polynomial
//
// hist (how the system object was obtained):
//   fresh       constructed from the primes
//   assigncc    a never-used system assigned over a USED system with the same number of moduli; the source is changed afterwards
//   dfltcopyset (rns only) default-constructed, copied while still empty, the copy filled by setPrimes
//   copycold    copy-constructed from a fresh system that was never used
//   copywarm    copy-constructed from a system that already converted something (cache filled)
//   copy2       copy of a copy (warm original)
//   assigncold / assignwarm   default-constructed (int: built on other primes and used), then assigned
//   setcold     (rns only) default-constructed, then setPrimes
//   setwarm     (rns only) constructed on OTHER primes, used (cache filled), then setPrimes(primes)
//   reuse       fresh; a first conversion with other residues is done before the reported one
#include <iostream>
#include <sstream>
#include <string>
#include <vector>
#include <cstdint>
#include <gmp.h>
#include "gmp++/gmp++.h"
#include "givinteger.h"
#include "modular.h"
#include "modular-integer.h"
#include "givintrns.h"
#include "givrns.h"
#include "givrnsfixed.h"
#include "chineseremainder.h"
#include "givpoly1crt.h"
#include "modular-balanced.h"
#include "montgomery.h"
#include <recint/recint.h>
#include "modular-ruint.h"
#include "modular-log16.h"
#include "c14_watchdog.h"

using namespace Givaro;
typedef std::vector<Integer> IV;

static Integer parseI(const std::string& s) { return Integer(s.c_str()); }
static std::string str(const Integer& x) { std::ostringstream o; o << x; return o.str(); }
static Integer nnmod(const Integer& a, const Integer& p) { Integer r; Integer::mod(r, a, p); return r; }

// ------------------------------------------------------------------ IntRNSsystem
typedef IntRNSsystem<std::vector, std::allocator> IRNS;

template <class TT> static std::vector<TT> castvec(const IV& v) {
    std::vector<TT> w(v.size());
    for (size_t i = 0; i < v.size(); ++i) w[i] = (TT)v[i];
    return w;
}
template <> std::vector<Integer> castvec<Integer>(const IV& v) { return v; }

static IV other_primes(size_t n) {   // a different coprime system (first n of the table), to warm caches with
    static const int sp[] = {101, 103, 107, 109, 113, 127, 131, 137, 139, 149, 151, 157, 163, 167, 173, 179, 181, 191, 193, 197, 199, 211, 223, 227, 229, 233, 239, 241, 251, 257, 263, 269,
        271, 277, 281, 283, 293, 307, 311, 313, 317, 331, 337, 347, 349, 353, 359, 367, 373, 379, 383, 389, 397, 401, 409, 419, 421, 431, 433, 439, 443, 449, 457, 461, 463, 467, 479, 487, 491, 499, 503, 509};
    IV v; for (size_t i = 0; i < n && i < 72; ++i) v.push_back(Integer(sp[i])); return v;
}

// The constructor argument lives on the heap; right after construction it is overwritten and freed, so an object that kept a
// reference / shared storage instead of its own copy computes with garbage.  CT = Integer selects the plain constructor
// IntRNSsystem(const array&), any other CT the templated converting constructor.
template <class CT> static IRNS* make_int_ct(const IV& P) {
    std::vector<CT>* tmp = new std::vector<CT>(castvec<CT>(P));
    IRNS* S = new IRNS(*tmp);
    for (size_t i = 0; i < tmp->size(); ++i) (*tmp)[i] = CT(1);
    delete tmp;
    return S;
}
static IRNS* make_int(const IV& P) { return make_int_ct<Integer>(P); }
typedef IRNS* (*IntMaker)(const IV&);
static IntMaker int_maker(const std::string& ct) {
    if (ct == "Integer") return &make_int_ct<Integer>;
    if (ct == "int32") return &make_int_ct<int32_t>;
    if (ct == "uint32") return &make_int_ct<uint32_t>;
    if (ct == "int64") return &make_int_ct<int64_t>;
    if (ct == "uint64") return &make_int_ct<uint64_t>;
    return 0;
}

template <class TT>
static std::string run_int(const std::string& hist, IntMaker mk, const std::string& order, const IV& P, const IV& R, const IV& As) {
    const size_t n = P.size();
    std::vector<TT> res = castvec<TT>(R);
    IV zeros(n, Integer(0)), ones(n, Integer(1));
    IRNS* S = 0; IRNS* aux = 0; IRNS* aux2 = 0;
    Integer dump;
    IV O = other_primes(hist == "assignsame" ? n : n + 2); IV oo(O.size(), Integer(1));
    if (hist == "fresh") S = mk(P);
    else if (hist == "reuse") { S = mk(P); S->RnsToRing(dump, ones); }
    else if (hist == "copycold") { aux = mk(P); S = new IRNS(*aux); }
    else if (hist == "copywarm") { aux = mk(P); aux->RnsToRing(dump, ones); dump = aux->product(); S = new IRNS(*aux); }
    else if (hist == "copy2") { aux = mk(P); aux->RnsToRing(dump, ones); aux2 = new IRNS(*aux); S = new IRNS(*aux2); }
    else if (hist == "copymod") {      // the source stays alive, is re-assigned to another system and used, after the copy was taken
        aux = mk(P); aux->RnsToRing(dump, ones); dump = aux->product(); S = new IRNS(*aux);
        IRNS* o2 = make_int(O); *aux = *o2; delete o2; aux->RnsToRing(dump, oo); dump = aux->product();
    }
    else if (hist == "assigncold") { aux = mk(P); S = new IRNS(); *S = *aux; }
    else if (hist == "assignwarm" || hist == "assignsame") {
        aux = mk(P); aux->RnsToRing(dump, ones); dump = aux->product();
        S = make_int(O); S->RnsToRing(dump, oo); dump = S->product();
        *S = *aux;
    }
    else if (hist == "assigncc") {     // cold source assigned over a used system of the same length, then the source is changed
        aux = mk(P);
        { IV O1 = other_primes(n); IV o1(O1.size(), Integer(1)); S = make_int(O1); S->RnsToRing(dump, o1); dump = S->product(); S->Reciprocals(); }
        *S = *aux;
        IRNS* o2 = make_int(O); *aux = *o2; delete o2;
    }
    else return "BAD-HIST";
    if (aux && hist != "copy2" && hist != "copymod" && hist != "assigncc") { delete aux; aux = 0; }    // the source object is gone before the copy is used
    // ---- the first call on the object just obtained
    std::ostringstream first;
    if (order == "mix") { IRNS::array m; S->RnsToMixedRadix(m, res); for (size_t i = 0; i < m.size(); ++i) first << m[i] << " "; }
    else if (order == "ring") { Integer W(-11); S->RnsToRing(W, res); first << W << " "; }
    else if (order == "recip") { const IRNS::array& c = S->Reciprocals(); for (size_t k = 1; k < c.size() && k < n; ++k) first << nnmod(c[k], P[k]) << " "; }
    else if (order == "recipi") { if (n >= 2) first << nnmod(S->reciprocal(n - 1), P[n - 1]) << " "; }
    else if (order == "prod") { first << S->product() << " "; }
    else if (order == "rns") { IRNS::array q(1, Integer(3)); if (!As.empty()) { S->RingToRns(q, As[0]); for (size_t i = 0; i < q.size(); ++i) first << q[i] << " "; } }
    else return "BAD-ORDER";
    std::ostringstream o;
    IRNS::array mix;
    S->RnsToMixedRadix(mix, res);
    for (size_t i = 0; i < mix.size(); ++i) o << mix[i] << " ";
    o << "| ";
    Integer V("987654321987654321987654321"); S->RnsToRing(V, res); o << V << " | ";
    o << S->product() << " | ";
    // RingToRns of every integer of the list, into ONE destination (wrong size on entry: must be resized), then back
    IRNS::array rr(n + 2, Integer(77));
    std::ostringstream back;
    for (size_t j = 0; j < As.size(); ++j) {
        S->RingToRns(rr, As[j]);
        for (size_t i = 0; i < rr.size(); ++i) o << rr[i] << " ";
        Integer W(-7); S->RnsToRing(W, rr); back << W << " ";
    }
    o << "| " << back.str() << "| ";
    const IRNS::array& ck = S->Reciprocals();
    for (size_t k = 1; k < ck.size() && k < n; ++k) o << nnmod(ck[k], P[k]) << " ";
    o << "| ";
    Integer V2; S->RnsToRing(V2, res); o << V2;
    // accessors, and MixedRadixToRing called directly on digits held in a larger array
    o << " | " << S->NumOfPrimes() << " ";
    for (size_t i = 0; i < n; ++i) o << S->ith(i) << " ";
    const IRNS::array& pr = S->Primes();
    o << "| ";
    for (size_t i = 0; i < pr.size(); ++i) o << pr[i] << " ";
    o << "| ";
    for (size_t k = 1; k < n; ++k) o << nnmod(S->reciprocal(k), P[k]) << " ";
    o << "| ";
    IRNS::array mix2(n + 3, Integer(5)); S->RnsToMixedRadix(mix2, res);
    Integer V3(-4); S->MixedRadixToRing(V3, mix2); o << V3;
    o << " | " << S->product() << " | ";
    if (!As.empty()) { IRNS::array r0; S->RingToRns(r0, As.back()); for (size_t i = 0; i < r0.size(); ++i) o << r0[i] << " "; }
    o << "| " << first.str();
    delete S; delete aux; delete aux2;
    return o.str();
}

// ------------------------------------------------------------------ RNSsystem<Integer, Domain>
template <class Dom>
static std::string run_rns(const std::string& hist, const std::string& order, const IV& P, const IV& R, const IV& As) {
    typedef RNSsystem<Integer, Dom> RNS;
    typedef typename RNS::domains Domains;
    typedef typename RNS::array Elements;
    const size_t n = P.size();
    Domains D(n); Elements E(n), Ones(n);
    for (size_t i = 0; i < n; ++i) { D[i] = Dom(P[i]); D[i].init(E[i], R[i]); D[i].init(Ones[i], Integer(1)); }
    const bool same = (hist == "setsame" || hist == "setback" || hist == "assignsame");
    IV O = other_primes(same ? n : n + 2);
    Domains OD(O.size()); Elements OE(O.size());
    for (size_t i = 0; i < O.size(); ++i) { OD[i] = Dom(O[i]); OD[i].init(OE[i], Integer(1)); }
    // constructor / setPrimes arguments: separate arrays (element-wise copies of D / OD: a domain object such as Modular<Log16>
    // picks its own generator, so elements are only exchanged between COPIES of one domain object) that are overwritten with
    // other domains and freed right after the call
    struct Arg {
        static Domains* make(const Domains& Q) { Domains* a = new Domains(Q.size()); for (size_t i = 0; i < Q.size(); ++i) (*a)[i] = Q[i]; return a; }
        static void scribble(Domains* a) { for (size_t i = 0; i < a->size(); ++i) (*a)[i] = Dom(Integer(i % 2 ? 5 : 3)); delete a; }
    };
    struct Mk {
        static RNS* mk(const Domains& Q) { Domains* a = Arg::make(Q); RNS* S = new RNS(*a); Arg::scribble(a); return S; }
        static void set(RNS* S, const Domains& Q) { Domains* a = Arg::make(Q); S->setPrimes(*a); Arg::scribble(a); }
    };
    RNS* S = 0; RNS* aux = 0; RNS* aux2 = 0; Integer dump;
    if (hist == "fresh") S = Mk::mk(D);
    else if (hist == "reuse") { S = Mk::mk(D); S->RnsToRing(dump, Ones); }
    else if (hist == "copycold") { aux = Mk::mk(D); S = new RNS(*aux); }
    else if (hist == "copywarm") { aux = Mk::mk(D); aux->RnsToRing(dump, Ones); S = new RNS(*aux); }
    else if (hist == "copy2") { aux = Mk::mk(D); aux->RnsToRing(dump, Ones); aux2 = new RNS(*aux); S = new RNS(*aux2); }
    else if (hist == "copymod") {      // the source stays alive, gets other primes and is used, after the copy was taken
        aux = Mk::mk(D); aux->RnsToRing(dump, Ones); S = new RNS(*aux);
        Mk::set(aux, OD); aux->RnsToRing(dump, OE);
    }
    else if (hist == "assigncold") { aux = Mk::mk(D); S = new RNS(); *S = *aux; }
    else if (hist == "assignwarm" || hist == "assignsame") { aux = Mk::mk(D); aux->RnsToRing(dump, Ones); S = Mk::mk(OD); S->RnsToRing(dump, OE); *S = *aux; }
    else if (hist == "setcold") { S = new RNS(); Mk::set(S, D); }
    else if (hist == "setwarm" || hist == "setsame") { S = Mk::mk(OD); S->RnsToRing(dump, OE); Mk::set(S, D); }
    else if (hist == "setback") {      // primes -> use -> other primes of the same length -> use -> primes again
        S = Mk::mk(D); S->RnsToRing(dump, Ones); Mk::set(S, OD); S->RnsToRing(dump, OE); S->Reciprocals(); Mk::set(S, D);
    }
    else if (hist == "dfltcopyset") {  // default-constructed, copied while empty, the copy filled by setPrimes
        aux = new RNS(); S = new RNS(*aux); Mk::set(S, D);
    }
    else if (hist == "assigncc") {     // cold source assigned over a used system of the same length; the source gets other primes afterwards
        aux = Mk::mk(D);
        IV O1 = other_primes(n); Domains OD1(O1.size()); Elements OE1(O1.size());
        for (size_t i = 0; i < O1.size(); ++i) { OD1[i] = Dom(O1[i]); OD1[i].init(OE1[i], Integer(1)); }
        S = Mk::mk(OD1); S->RnsToRing(dump, OE1); S->Reciprocals();
        *S = *aux;
        Mk::set(aux, OD);
    }
    else return "BAD-HIST";
    if (aux && hist != "copy2" && hist != "copymod" && hist != "assigncc") { delete aux; aux = 0; }
    Integer t;
    // ---- the first call on the object just obtained
    std::ostringstream first;
    if (order == "mix" || order == "prod") { Elements m; S->RnsToMixedRadix(m, E); for (size_t i = 0; i < m.size(); ++i) first << D[i].convert(t, m[i]) << " "; }
    else if (order == "ring") { Integer W(-11); S->RnsToRing(W, E); first << W << " "; }
    else if (order == "recip") { const Elements& c = S->Reciprocals(); for (size_t k = 1; k < c.size() && k < n; ++k) first << D[k].convert(t, c[k]) << " "; }
    else if (order == "recipi") { if (n >= 2) first << D[n - 1].convert(t, S->reciprocal(n - 1)) << " "; }
    else if (order == "rns") { Elements q(1); if (!As.empty()) { S->RingToRns(q, As[0]); for (size_t i = 0; i < q.size(); ++i) first << D[i < n ? i : 0].convert(t, q[i]) << " "; } }
    else return "BAD-ORDER";
    std::ostringstream o;
    Elements mix;
    S->RnsToMixedRadix(mix, E);
    for (size_t i = 0; i < mix.size(); ++i) o << D[i].convert(t, mix[i]) << " ";
    o << "| ";
    Integer V("987654321987654321987654321"); S->RnsToRing(V, E); o << V << " | ";
    Elements rr(n + 2);                                              // wrong size on entry: must be resized
    std::ostringstream back;
    for (size_t j = 0; j < As.size(); ++j) {
        S->RingToRns(rr, As[j]);
        for (size_t i = 0; i < rr.size(); ++i) o << D[i < n ? i : 0].convert(t, rr[i]) << " ";
        Integer W(-7); S->RnsToRing(W, rr); back << W << " ";
    }
    o << "| " << back.str() << "| ";
    const Elements& ck = S->Reciprocals();
    for (size_t k = 1; k < ck.size() && k < n; ++k) o << D[k].convert(t, ck[k]) << " ";
    o << "| ";
    Integer V2; S->RnsToRing(V2, E); o << V2;
    // accessors, and MixedRadixToRing called directly
    o << " | " << S->size() << " ";
    for (size_t i = 0; i < n; ++i) o << Integer(S->ith(i).characteristic()) << " ";
    const Domains& pr = S->Primes();
    o << "| ";
    for (size_t i = 0; i < pr.size(); ++i) o << Integer(pr[i].characteristic()) << " ";
    o << "| ";
    for (size_t k = 1; k < n; ++k) o << D[k].convert(t, S->reciprocal(k)) << " ";
    o << "| ";
    Integer V3(-4); S->MixedRadixToRing(V3, mix); o << V3;
    // RnsToMixedRadix into a destination of exactly the right size holding other values, and into an oversized one
    o << " | ";
    { Elements me(n); for (size_t i = 0; i < n; ++i) D[i].init(me[i], Integer(1)); S->RnsToMixedRadix(me, E);
      for (size_t i = 0; i < n && i < me.size(); ++i) o << D[i].convert(t, me[i]) << " "; if (me.size() != n) o << "SIZE "; }
    o << "| ";
    { Elements mo(n + 2); for (size_t i = 0; i < n + 2; ++i) D[i < n ? i : 0].init(mo[i], Integer(1)); S->RnsToMixedRadix(mo, E);
      for (size_t i = 0; i < n && i < mo.size(); ++i) o << D[i].convert(t, mo[i]) << " "; }
    o << "| ";
    if (!As.empty()) { Elements r0; S->RingToRns(r0, As.back()); for (size_t i = 0; i < r0.size(); ++i) o << D[i < n ? i : 0].convert(t, r0[i]) << " "; }
    o << "| " << first.str();
    delete S; delete aux; delete aux2;
    return o.str();
}

// RNSsystem<RING, Domain> with RING other than Integer (int64_t / double; the product of the moduli stays below 2^50)
//   ringrns <i64|dbl> <fresh|copywarm|setwarm|assigncc> n p1..pn r1..rn a   -> digits | V | residues of a | RnsToRing(RingToRns(a))
template <class RING, class Dom>
static std::string run_ring(const std::string& hist, const IV& P, const IV& R, const Integer& a) {
    typedef RNSsystem<RING, Dom> RNS;
    typedef typename RNS::domains Domains;
    typedef typename RNS::array Elements;
    const size_t n = P.size();
    Domains D(n); Elements E(n), Ones(n);
    for (size_t i = 0; i < n; ++i) { D[i] = Dom(P[i]); D[i].init(E[i], R[i]); D[i].init(Ones[i], Integer(1)); }
    IV O = other_primes(n); Domains OD(O.size()); Elements OE(O.size());
    for (size_t i = 0; i < O.size(); ++i) { OD[i] = Dom(O[i]); OD[i].init(OE[i], Integer(1)); }
    RING dump; RNS* S = 0; RNS* aux = 0;
    if (hist == "fresh") S = new RNS(D);
    else if (hist == "copywarm") { aux = new RNS(D); aux->RnsToRing(dump, Ones); S = new RNS(*aux); delete aux; aux = 0; }
    else if (hist == "setwarm") { S = new RNS(OD); S->RnsToRing(dump, OE); S->setPrimes(D); }
    else if (hist == "assigncc") { aux = new RNS(D); S = new RNS(OD); S->RnsToRing(dump, OE); *S = *aux; delete aux; aux = 0; }
    else return "BAD-HIST";
    std::ostringstream o; Integer t;
    Elements mix; S->RnsToMixedRadix(mix, E);
    for (size_t i = 0; i < mix.size(); ++i) o << D[i].convert(t, mix[i]) << " ";
    RING V = RING(-1); S->RnsToRing(V, E); o << "| " << Integer(V) << " | ";
    Elements rr(1); S->RingToRns(rr, (RING)(int64_t)a);
    for (size_t i = 0; i < rr.size(); ++i) o << D[i < n ? i : 0].convert(t, rr[i]) << " ";
    RING W = RING(-7); S->RnsToRing(W, rr); o << "| " << Integer(W);
    delete S;
    return o.str();
}

// MixedRadixToRing where the code raises GivError: a system without primes, a digit array of another size than the system
template <class Dom>
static std::string run_rnsexc(const IV& P, const IV& Dg) {
    typedef RNSsystem<Integer, Dom> RNS;
    typename RNS::domains D(P.size());
    for (size_t i = 0; i < P.size(); ++i) D[i] = Dom(P[i]);
    RNS* S = P.empty() ? new RNS() : new RNS(D);
    typename RNS::array mix(Dg.size());
    Dom any(P.empty() ? Integer(7) : P[0]);
    for (size_t i = 0; i < Dg.size(); ++i) (i < P.size() ? D[i] : any).init(mix[i], Dg[i]);
    Integer V(-3);
    std::string out;
    try { S->MixedRadixToRing(V, mix); out = str(V); }
    catch (GivError&) { out = "EXCEPTION"; }
    delete S;
    return out;
}

// ------------------------------------------------------------------ RNSsystemFixed<Integer>
typedef RNSsystemFixed<Integer> FX;
static FX* make_fixed(const IV& P) {     // constructor argument overwritten and freed right after construction
    IV* tmp = new IV(P);
    FX* S = new FX(*tmp);
    for (size_t i = 0; i < tmp->size(); ++i) (*tmp)[i] = Integer(1);
    delete tmp;
    return S;
}
template <class TT> struct FixRes {
    typedef std::vector<TT> type;
    static void fill(type& R, const IV& R0) { R = castvec<TT>(R0); }
};
struct UseArray0 {};
template <> struct FixRes<UseArray0> {
    typedef Array0<Integer> type;
    static void fill(type& R, const IV& R0) { R.allocate(R0.size()); for (size_t i = 0; i < R0.size(); ++i) R[i] = R0[i]; }
};
template <class TT>
static std::string run_fixed(const std::string& hist, const IV& P, const IV& R0) {
    typename FixRes<TT>::type R; FixRes<TT>::fill(R, R0);      // RnsToRing is a template over the residue container
    std::ostringstream o;
    Integer V("987654321987654321987654321"), dump;
    IV ones(P.size(), Integer(1));
    IV O = other_primes(hist == "assignsame" ? P.size() : P.size() + 2); IV oo(O.size(), Integer(1));
    FX* S = 0; FX* A = 0;
    if (hist == "fresh") S = make_fixed(P);
    else if (hist == "reuse") { S = make_fixed(P); S->RnsToRing(dump, ones); }
    else if (hist == "assignwarm" || hist == "assignsame") {
        A = make_fixed(P); A->RnsToRing(dump, ones);
        S = make_fixed(O); S->RnsToRing(dump, oo);
        *S = *A; delete A; A = 0;
    }
    else if (hist == "assigncold") { A = make_fixed(P); S = new FX(); *S = *A; delete A; A = 0; }
    else if (hist == "assigncc") {     // never-used source over a used system with the same number of primes
        A = make_fixed(P); IV O1 = other_primes(P.size()); IV o1(O1.size(), Integer(1));
        S = make_fixed(O1); S->RnsToRing(dump, o1); *S = *A; delete A; A = 0;
    }
    else return "BAD-HIST";
    if (S->Primes().empty() || S->Primes().front().size() != P.size()) return "BAD-SIZE";   // (size() is the number of tree levels)
    S->RnsToRing(V, R);
    Integer V2(-3); S->RnsToRing(V2, R);            // a second conversion on the same object
    o << V << " " << V2;
    // the stored product tree (Primes()): per level its size and its entries
    const FX::tree& T = S->Primes();
    o << " | " << T.size() << " ";
    for (size_t l = 0; l < T.size(); ++l) { o << T[l].size() << " "; for (size_t c = 0; c < T[l].size(); ++c) o << T[l][c] << " "; }
    delete S;
    return o.str();
}

// ------------------------------------------------------------------ ChineseRemainder
// The functor is built from VARIABLES (M, the domain) that are changed right after construction, applied to a decoy first,
// copied, and the copy is applied as well: value semantics means none of this may matter.
template <class Dom, bool RED>
static std::string run_cra(const Integer& M, const Integer& Dm, const Integer& A, const Integer& e) {
    typedef ChineseRemainder<IntegerDom, Dom, RED> CRA_t;
    IntegerDom ID; Dom Dref(Dm);
    typename Dom::Element ee; Dref.init(ee, e);
    Integer* Mvar = new Integer(M);
    Dom* Dvar = new Dom(Dm);
    CRA_t* CRA = new CRA_t(ID, *Mvar, *Dvar);
    *Mvar *= Dm; *Mvar += 1;                         // the caller goes on to the next partial product
    *Dvar = Dom(Integer(3));                          // ... and to another modulus
    Integer res("123456789012345678901234567890");    // destination starts non-zero
    typename Dom::Element dec; Dref.init(dec, Integer(1));
    Integer decoy; (*CRA)(decoy, A + 1, dec);         // an earlier, unrelated application
    (*CRA)(res, A, ee);
    CRA_t copy(*CRA);
    delete CRA; delete Mvar; delete Dvar;
    Integer res2(-5); copy(res2, A, ee);
    // in-place call form: the destination is the same object as A
    Integer res3(A); copy(res3, res3, ee);
    return str(res) + " " + str(res2) + " " + str(res3);       // (assignment of functors: harness/c14_craassign.C)
}

// incremental lifting over a list of moduli:  x_1 = r_1,  x_{i+1} = lift(x_i, r_{i+1})  with M_i = p_1 ... p_i
//   mode atonce   : functor i is built when needed and applied at once
//   mode prepared : all functors are built first (the variable holding the partial product keeps growing), then applied
//   mode copies   : as prepared, but the functors used are copies and the originals are destroyed first
//   mode inplace  : as prepared, every step applied in place  L(x, x, e)  (the destination is the same object as A)
template <class Dom>
static std::string run_lift(const std::string& mode, const IV& P, const IV& R) {
    typedef ChineseRemainder<IntegerDom, Dom, true> CRA_t;
    IntegerDom ID;
    const size_t n = P.size();
    std::vector<Dom> F; std::vector<typename Dom::Element> E(n);
    for (size_t i = 0; i < n; ++i) { F.push_back(Dom(P[i])); F[i].init(E[i], R[i]); }
    std::ostringstream o;
    Integer x; F[0].convert(x, E[0]);
    o << x << " ";
    if (mode == "atonce") {
        Integer M(P[0]);
        for (size_t i = 1; i < n; ++i) { CRA_t L(ID, M, F[i]); Integer y(-1); L(y, x, E[i]); x = y; o << x << " "; M *= P[i]; }
    } else {
        std::vector<CRA_t*> Ls;
        Integer M(P[0]);
        for (size_t i = 1; i < n; ++i) { Ls.push_back(new CRA_t(ID, M, F[i])); M *= P[i]; }
        if (mode == "copies") for (size_t i = 0; i < Ls.size(); ++i) { CRA_t* c = new CRA_t(*Ls[i]); delete Ls[i]; Ls[i] = c; }
        M = Integer(1);
        for (size_t i = 1; i < n; ++i) {
            if (mode == "inplace") (*Ls[i - 1])(x, x, E[i]);
            else { Integer y(-1); (*Ls[i - 1])(y, x, E[i]); x = y; }
            o << x << " ";
        }
        for (size_t i = 0; i < Ls.size(); ++i) delete Ls[i];
    }
    // the same residues through RNSsystem
    typedef RNSsystem<Integer, Dom> RNS;
    typename RNS::domains Ds(n); typename RNS::array Es(n);
    for (size_t i = 0; i < n; ++i) { Ds[i] = F[i]; Es[i] = E[i]; }
    RNS S(Ds); Integer V; S.RnsToRing(V, Es);
    o << "| " << V;
    return o.str();
}

// ------------------------------------------------------------------ Poly1CRT
template <class F_t>
static std::string run_poly(const std::string& hist, const Integer& p, const IV& A, const IV& R, const IV& C) {
    typedef Poly1CRT<F_t> CRT;
    F_t F(p);
    typename CRT::array_T pts(A.size()), rs(R.size());
    for (size_t i = 0; i < A.size(); ++i) { F.init(pts[i], A[i]); F.init(rs[i], R[i]); }
    CRT* S = 0; CRT* aux = 0; CRT* aux2 = 0;
    typename CRT::Element dumpP;
    typename CRT::array_T ones(A.size(), F.one);
    if (hist == "fresh") S = new CRT(F, pts, Indeter("X"));
    else if (hist == "reuse") { S = new CRT(F, pts, Indeter("X")); S->RnsToRing(dumpP, ones); }
    else if (hist == "copycold") { aux = new CRT(F, pts, Indeter("X")); S = new CRT(*aux); }
    else if (hist == "copywarm") { aux = new CRT(F, pts, Indeter("X")); aux->RnsToRing(dumpP, ones); S = new CRT(*aux); }
    else if (hist == "copy2") { aux = new CRT(F, pts); aux->Reciprocals(); aux2 = new CRT(*aux); delete aux; aux = 0; S = new CRT(*aux2); }
    else return "BAD-HIST";
    delete aux; aux = 0; delete aux2; aux2 = 0;
    std::ostringstream o;
    typename CRT::Element I;
    S->RnsToRing(I, rs);
    // strip leading zeros for a canonical print
    long d = (long)I.size() - 1;
    while (d >= 0 && F.isZero(I[(size_t)d])) --d;
    Integer t;
    for (long i = 0; i <= d; ++i) o << F.convert(t, I[(size_t)i]) << " ";
    o << "| ";
    typename CRT::Element Q(C.size());
    for (size_t i = 0; i < C.size(); ++i) F.init(Q[i], C[i]);
    { long dq = (long)Q.size() - 1; while (dq >= 0 && F.isZero(Q[(size_t)dq])) --dq; Q.resize((size_t)(dq + 1)); }
    typename CRT::array_T ev(A.size() + 2, F.one);                   // wrong size on entry: must be resized
    S->RingToRns(ev, Q);
    for (size_t i = 0; i < ev.size(); ++i) o << F.convert(t, ev[i]) << " ";
    // accessors: size, points, and the reciprocal polynomials ck_k, k = 1..n-1, each as "deg c_0 .. c_deg"
    o << "| " << S->size() << " ";
    for (size_t i = 0; i < A.size(); ++i) o << F.convert(t, (i & 1) ? S->Primes()[i] : S->ith(i)) << " ";
    o << "| ";
    const typename CRT::array_E& ck = S->Reciprocals();
    for (size_t k = 1; k < A.size() && k < ck.size(); ++k) {
        const typename CRT::Element& c = (k & 1) ? ck[k] : S->reciprocal(k);
        long dc = (long)c.size() - 1;
        while (dc >= 0 && F.isZero(c[(size_t)dc])) --dc;
        o << dc << " ";
        for (long i = 0; i <= dc; ++i) o << F.convert(t, c[(size_t)i]) << " ";
    }
    o << "| ";
    typename CRT::Element I2(A.size() + 3, F.one);                    // the destination holds another polynomial of higher degree
    S->RnsToRing(I2, rs);
    o << (S->getpolydom().areEqual(I, I2) ? 1 : 0);
    delete S;
    return o.str();
}

// ------------------------------------------------------------------ main loop
int main() {
    std::string line;
    while (std::getline(std::cin, line)) {
        std::istringstream in(line);
        std::vector<std::string> t; std::string w;
        while (in >> w) t.push_back(w);
        if (t.empty()) continue;
        std::string out = "BAD-LINE";
        c14_arm();                               // CPU-time budget for this case (c14_watchdog.h)
        try {
            if (t[0] == "others") { IV o = other_primes(1000); std::ostringstream q; for (size_t i = 0; i < o.size(); ++i) q << o[i] << " "; out = q.str(); }
            else if (t[0] == "spin") { volatile unsigned long x = 0; for (;;) ++x; }        // self-test of the watchdog (never generated by the check)
            if (t[0] == "maxcard") {
                std::ostringstream o;
                if (t[1] == "mdouble") o << Integer(Modular<double>::maxCardinality());
                else if (t[1] == "mi64") o << Integer(Modular<int64_t>::maxCardinality());
                else if (t[1] == "mu64") o << Integer(Modular<uint64_t>::maxCardinality());
                else if (t[1] == "mi32") o << Integer(Modular<int32_t>::maxCardinality());
                else if (t[1] == "mint") o << -1;
                else if (t[1] == "mfloat") o << Integer(Modular<float>::maxCardinality());
                else if (t[1] == "mu32") o << Integer(Modular<uint32_t>::maxCardinality());
                else if (t[1] == "mont32") o << Integer(Montgomery<int32_t>::maxCardinality());
                else if (t[1] == "mru7") o << Integer(Modular<RecInt::ruint<7> >::maxCardinality());
                else if (t[1] == "mlog16") o << Integer(Modular<Log16>::maxCardinality());
                else if (t[1] == "mb64") o << Integer(ModularBalanced<int64_t>::maxCardinality());
                else if (t[1] == "mbd") o << Integer(ModularBalanced<double>::maxCardinality());
                out = o.str();
            } else if (t[0] == "int" || t[0] == "rns") {
                const std::string hist = t[1];
                size_t k = 2;
                std::string ctor, sub, order;
                if (t[0] == "int") { ctor = t[k++]; sub = t[k++]; order = t[k++]; }
                else { sub = t[k++]; order = t[k++]; }
                size_t n = (size_t)atol(t[k++].c_str());
                IV P, R;
                for (size_t i = 0; i < n; ++i) P.push_back(parseI(t[k++]));
                for (size_t i = 0; i < n; ++i) R.push_back(parseI(t[k++]));
                size_t na = (size_t)atol(t[k++].c_str());
                IV a; for (size_t i = 0; i < na; ++i) a.push_back(parseI(t[k++]));
                if (t[0] == "int") {
                    IntMaker mk = int_maker(ctor);
                    if (!mk) out = "BAD-CTOR";
                    else if (sub == "Integer") out = run_int<Integer>(hist, mk, order, P, R, a);
                    else if (sub == "int32") out = run_int<int32_t>(hist, mk, order, P, R, a);
                    else if (sub == "uint32") out = run_int<uint32_t>(hist, mk, order, P, R, a);
                    else if (sub == "int64") out = run_int<int64_t>(hist, mk, order, P, R, a);
                    else if (sub == "uint64") out = run_int<uint64_t>(hist, mk, order, P, R, a);
                    else out = "BAD-TT";
                } else {
                    if (sub == "mdouble") out = run_rns<Modular<double> >(hist, order, P, R, a);
                    else if (sub == "mi64") out = run_rns<Modular<int64_t> >(hist, order, P, R, a);
                    else if (sub == "mu64") out = run_rns<Modular<uint64_t> >(hist, order, P, R, a);
                    else if (sub == "mi32") out = run_rns<Modular<int32_t> >(hist, order, P, R, a);
                    else if (sub == "mint") out = run_rns<Modular<Integer> >(hist, order, P, R, a);
                    else if (sub == "mfloat") out = run_rns<Modular<float> >(hist, order, P, R, a);
                    else if (sub == "mu32") out = run_rns<Modular<uint32_t> >(hist, order, P, R, a);
                    else if (sub == "mont32") out = run_rns<Montgomery<int32_t> >(hist, order, P, R, a);
                    else if (sub == "mru7") out = run_rns<Modular<RecInt::ruint<7> > >(hist, order, P, R, a);
                    else if (sub == "mlog16") out = run_rns<Modular<Log16> >(hist, order, P, R, a);
                    else if (sub == "mb64") out = run_rns<ModularBalanced<int64_t> >(hist, order, P, R, a);
                    else if (sub == "mbd") out = run_rns<ModularBalanced<double> >(hist, order, P, R, a);
                    else out = "BAD-DOM";
                }
            } else if (t[0] == "ringrns") {
                const std::string ring = t[1], hist = t[2]; size_t k = 3;
                size_t n = (size_t)atol(t[k++].c_str());
                IV P, R;
                for (size_t i = 0; i < n; ++i) P.push_back(parseI(t[k++]));
                for (size_t i = 0; i < n; ++i) R.push_back(parseI(t[k++]));
                Integer a = parseI(t[k++]);
                if (ring == "i64") out = run_ring<int64_t, Modular<int32_t> >(hist, P, R, a);
                else if (ring == "dbl") out = run_ring<double, Modular<double> >(hist, P, R, a);
                else out = "BAD-RING";
            } else if (t[0] == "rnsexc") {
                // rnsexc <dom> n p1..pn m d1..dm : MixedRadixToRing of m digits on a system with n primes (n = 0: default-constructed)
                const std::string sub = t[1]; size_t k = 2;
                size_t n = (size_t)atol(t[k++].c_str());
                IV P; for (size_t i = 0; i < n; ++i) P.push_back(parseI(t[k++]));
                size_t m = (size_t)atol(t[k++].c_str());
                IV Dg; for (size_t i = 0; i < m; ++i) Dg.push_back(parseI(t[k++]));
                if (sub == "mi64") out = run_rnsexc<Modular<int64_t> >(P, Dg);
                else if (sub == "mint") out = run_rnsexc<Modular<Integer> >(P, Dg);
                else if (sub == "mdouble") out = run_rnsexc<Modular<double> >(P, Dg);
                else out = "BAD-DOM";
            } else if (t[0] == "fixed") {
                const std::string hist = t[1], sub = t[2];
                size_t n = (size_t)atol(t[3].c_str());
                IV P, R; size_t k = 4;
                for (size_t i = 0; i < n; ++i) P.push_back(parseI(t[k++]));
                for (size_t i = 0; i < n; ++i) R.push_back(parseI(t[k++]));
                if (sub == "Integer") out = run_fixed<Integer>(hist, P, R);
                else if (sub == "int64") out = run_fixed<int64_t>(hist, P, R);
                else if (sub == "uint64") out = run_fixed<uint64_t>(hist, P, R);
                else if (sub == "int32") out = run_fixed<int32_t>(hist, P, R);
                else if (sub == "uint32") out = run_fixed<uint32_t>(hist, P, R);
                else if (sub == "array0") out = run_fixed<UseArray0>(hist, P, R);
                else out = "BAD-TT";
            } else if (t[0] == "cra") {
                const std::string dom = t[1]; bool red = t[2] == "1";
                Integer M = parseI(t[3]), D = parseI(t[4]), A = parseI(t[5]), e = parseI(t[6]);
                if (dom == "mdouble") out = red ? run_cra<Modular<double>, true>(M, D, A, e) : run_cra<Modular<double>, false>(M, D, A, e);
                else if (dom == "mi64") out = red ? run_cra<Modular<int64_t>, true>(M, D, A, e) : run_cra<Modular<int64_t>, false>(M, D, A, e);
                else if (dom == "mu64") out = red ? run_cra<Modular<uint64_t>, true>(M, D, A, e) : run_cra<Modular<uint64_t>, false>(M, D, A, e);
                else if (dom == "mint") out = red ? run_cra<Modular<Integer>, true>(M, D, A, e) : run_cra<Modular<Integer>, false>(M, D, A, e);
                else if (dom == "mi32") out = red ? run_cra<Modular<int32_t>, true>(M, D, A, e) : run_cra<Modular<int32_t>, false>(M, D, A, e);
                else if (dom == "mu32") out = red ? run_cra<Modular<uint32_t>, true>(M, D, A, e) : run_cra<Modular<uint32_t>, false>(M, D, A, e);
                else if (dom == "mfloat") out = red ? run_cra<Modular<float>, true>(M, D, A, e) : run_cra<Modular<float>, false>(M, D, A, e);
                else out = "BAD-DOM";
            } else if (t[0] == "lift") {
                const std::string dom = t[1], mode = t[2];
                size_t n = (size_t)atol(t[3].c_str());
                IV P, R; size_t k = 4;
                for (size_t i = 0; i < n; ++i) P.push_back(parseI(t[k++]));
                for (size_t i = 0; i < n; ++i) R.push_back(parseI(t[k++]));
                if (dom == "mdouble") out = run_lift<Modular<double> >(mode, P, R);
                else if (dom == "mi64") out = run_lift<Modular<int64_t> >(mode, P, R);
                else if (dom == "mu64") out = run_lift<Modular<uint64_t> >(mode, P, R);
                else if (dom == "mint") out = run_lift<Modular<Integer> >(mode, P, R);
                else out = "BAD-DOM";
            } else if (t[0] == "poly") {
                const std::string hist = t[1], sub = t[2];
                Integer p = parseI(t[3]);
                size_t n = (size_t)atol(t[4].c_str());
                IV A, R, C; size_t k = 5;
                for (size_t i = 0; i < n; ++i) A.push_back(parseI(t[k++]));
                for (size_t i = 0; i < n; ++i) R.push_back(parseI(t[k++]));
                long d = atol(t[k++].c_str());
                for (long i = 0; i <= d; ++i) C.push_back(parseI(t[k++]));
                if (sub == "mi64") out = run_poly<Modular<int64_t> >(hist, p, A, R, C);
                else if (sub == "mdouble") out = run_poly<Modular<double> >(hist, p, A, R, C);
                else if (sub == "mi32") out = run_poly<Modular<int32_t> >(hist, p, A, R, C);
                else if (sub == "mu32") out = run_poly<Modular<uint32_t> >(hist, p, A, R, C);
                else out = "BAD-DOM";
            }
        } catch (...) { out = "EXCEPTION"; }
        c14_disarm();
        std::cout << out << std::endl;      // flushed per line: a crash loses nothing
    }
    return 0;
}
