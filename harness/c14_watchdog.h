// C14 harnesses: per-case CPU-time watchdog.  Before each case the process arms ITIMER_PROF (CPU time of the process, user + system:
// independent of the load of the machine); a case that is still running when the budget is used up makes the process print HANG
// and leave with status 42.  The check then re-runs that one case alone with a larger budget before it reports "does not return".
// Budget in seconds: environment variable C14_CPU_BUDGET (set by the check: 20 in a stream, 100 alone; default 60).
#ifndef C14_WATCHDOG_H
#define C14_WATCHDOG_H
#include <csignal>
#include <cstdlib>
#include <sys/time.h>
#include <unistd.h>
static void c14_on_prof(int) { static const char m[] = "HANG\n"; ssize_t w = write(1, m, sizeof(m) - 1); (void)w; _exit(42); }
static long c14_budget() { const char* e = getenv("C14_CPU_BUDGET"); long b = e ? atol(e) : 60; return b > 0 ? b : 60; }
static void c14_arm() {
    static bool installed = false;
    if (!installed) { signal(SIGPROF, c14_on_prof); installed = true; }
    struct itimerval t; t.it_interval.tv_sec = 0; t.it_interval.tv_usec = 0; t.it_value.tv_sec = c14_budget(); t.it_value.tv_usec = 0;
    setitimer(ITIMER_PROF, &t, 0);
}
static void c14_disarm() { struct itimerval t; t.it_interval.tv_sec = 0; t.it_interval.tv_usec = 0; t.it_value.tv_sec = 0; t.it_value.tv_usec = 0; setitimer(ITIMER_PROF, &t, 0); }
#endif
