// C15 alias harness, common part.
// One case per line:   <dom> <param> <op> <n> <class index * n> <value * n> <extra...>
//   positions 0..n-1 of the operation (destination(s) first); equal class index = the SAME object is passed.
// Each case is run twice on the implementation of /repo's current tree:
//   F: every position is a distinct object holding the given value (the "fresh destination" call)
//   A: positions of one class are the same object (the aliased call); "~v" marks the arbitrary initial content of a
//      pure destination (used for F, and for A only if no read operand shares the object)
// Output:  F <value * n> [R <returned value>] | A <value * n> [R <returned value>]
// The python side compares A with F (destinations) and with the initial values (frame).
#ifndef C15_COMMON_H
#define C15_COMMON_H
#include <iostream>
#include <sstream>
#include <string>
#include <vector>
#include <map>
#include <memory>
#include <cstdlib>
#include <cstdio>
#include <cmath>
#include <cstdint>
#include <unistd.h>
#include <sys/wait.h>
#include <sys/resource.h>

// fork mode (set by harnesses whose operations may corrupt memory or trap when objects alias: polynomials resize
// the destination vector while iterating over the aliased operand; RecInt divides by a clobbered modulus): every
// case runs in a child process; a child killed by a signal yields "... CRASH <signal>" instead of killing the run.
static bool g_fork = false;
static int g_fd = -1;
static void emit_partial(std::ostringstream& out) {
    if (g_fd >= 0) { std::string s = out.str(); if (write(g_fd, s.data(), s.size()) < 0) {} out.str(""); }
}

typedef std::vector<std::string> Args;

struct Case {
    std::string dom, param, op;
    int n;
    std::vector<int> idx;
    Args vals, extra;
};

static bool parse_case(const std::string& line, Case& c) {
    std::istringstream is(line);
    if (!(is >> c.dom >> c.param >> c.op >> c.n)) return false;
    c.idx.assign(c.n, 0); c.vals.assign(c.n, "");
    for (int i = 0; i < c.n; ++i) if (!(is >> c.idx[i])) return false;
    for (int i = 0; i < c.n; ++i) if (!(is >> c.vals[i])) return false;
    std::string t; c.extra.clear();
    while (is >> t) c.extra.push_back(t);
    return true;
}

// Op: a functor  bool operator()(std::vector<E*>& o, std::string& ret)  performing the call on the objects.
template <class E, class IOE, class Op>
static std::string run_two(const Case& c, Op& op) {
    std::ostringstream out;
    {   // fresh: all distinct
        std::vector<E> f(c.n);
        for (int k = 0; k < c.n; ++k) f[k] = IOE::parse(c.vals[k][0] == '~' ? c.vals[k].substr(1) : c.vals[k]);
        std::vector<E*> o(c.n);
        for (int k = 0; k < c.n; ++k) o[k] = &f[k];
        std::string ret;
        if (!op(o, ret)) return "UNKNOWN-OP";
        out << "F";
        for (int k = 0; k < c.n; ++k) out << " " << IOE::show(*o[k]);
        if (!ret.empty()) out << " R " << ret;
        emit_partial(out);
    }
    {   // aliased: one object per class
        int nc = 0;
        for (int k = 0; k < c.n; ++k) if (c.idx[k] + 1 > nc) nc = c.idx[k] + 1;
        std::vector<E> q(nc);
        // a value written "~v" is the arbitrary content of a pure destination: it gives the class its value only
        // when no operand that is read shares the object
        for (int k = 0; k < c.n; ++k) if (c.vals[k][0] == '~') q[c.idx[k]] = IOE::parse(c.vals[k].substr(1));
        for (int k = 0; k < c.n; ++k) if (c.vals[k][0] != '~') q[c.idx[k]] = IOE::parse(c.vals[k]);
        std::vector<E*> o(c.n);
        for (int k = 0; k < c.n; ++k) o[k] = &q[c.idx[k]];
        std::string ret;
        if (!op(o, ret)) return "UNKNOWN-OP";
        out << " | A";
        for (int k = 0; k < c.n; ++k) out << " " << IOE::show(*o[k]);
        if (!ret.empty()) out << " R " << ret;
    }
    return out.str();
}

// ---------------------------------------------------------------- the ring interface (ring-interface.h names)
// basic: every domain;  DIV: domains with inv/div
template <class D> struct RingOp {
    typedef typename D::Element E;
    const D& F; std::string op;
    RingOp(const D& f, const std::string& o) : F(f), op(o) {}
    bool operator()(std::vector<E*>& o, std::string&) {
        if (op == "add") F.add(*o[0], *o[1], *o[2]);
        else if (op == "sub") F.sub(*o[0], *o[1], *o[2]);
        else if (op == "mul") F.mul(*o[0], *o[1], *o[2]);
        else if (op == "neg") F.neg(*o[0], *o[1]);
        else if (op == "axpy") F.axpy(*o[0], *o[1], *o[2], *o[3]);
        else if (op == "axmy") F.axmy(*o[0], *o[1], *o[2], *o[3]);
        else if (op == "maxpy") F.maxpy(*o[0], *o[1], *o[2], *o[3]);
        else if (op == "axpyin") F.axpyin(*o[0], *o[1], *o[2]);
        else if (op == "axmyin") F.axmyin(*o[0], *o[1], *o[2]);
        else if (op == "maxpyin") F.maxpyin(*o[0], *o[1], *o[2]);
        else if (op == "addin") F.addin(*o[0], *o[1]);
        else if (op == "subin") F.subin(*o[0], *o[1]);
        else if (op == "mulin") F.mulin(*o[0], *o[1]);
        else if (op == "negin") F.negin(*o[0]);
        else if (op == "assign") F.assign(*o[0], *o[1]);
        else return false;
        return true;
    }
};
template <class D> struct RingDivOp {
    typedef typename D::Element E;
    const D& F; std::string op;
    RingDivOp(const D& f, const std::string& o) : F(f), op(o) {}
    bool operator()(std::vector<E*>& o, std::string&) {
        if (op == "div") F.div(*o[0], *o[1], *o[2]);
        else if (op == "inv") F.inv(*o[0], *o[1]);
        else if (op == "divin") F.divin(*o[0], *o[1]);
        else if (op == "invin") F.invin(*o[0]);
        else return false;
        return true;
    }
};
static inline bool is_div_op(const std::string& op) { return op == "div" || op == "inv" || op == "divin" || op == "invin"; }

typedef std::string (*DomFn)(const Case&);
static std::map<std::string, DomFn>& dom_table() { static std::map<std::string, DomFn> t; return t; }

// CPU-time watchdog (load independent): a child that uses more than the budget gets SIGXCPU (24) and its case is reported as
// "... CRASH 24"; the python side re-runs that single case with a larger budget (C15_CPU_BUDGET) before calling it a hang.
static void cpu_budget(long per_case, long ncases) {
    const char* e = getenv("C15_CPU_BUDGET");
    long b = e ? atol(e) : 10;
    if (b < 1) b = 10;
    (void) per_case;
    struct rlimit rl; rl.rlim_cur = (rlim_t) (b + ncases / 50); rl.rlim_max = rl.rlim_cur + 5;
    setrlimit(RLIMIT_CPU, &rl);
}
static std::string run_one_forked(DomFn fn, const Case& c) {
    { Case prep = c; prep.op = "__prepare__"; fn(prep); }     // build the domain object in the parent
    int fds[2];
    if (pipe(fds) != 0) return "PIPE-ERROR";
    std::cout.flush();
    pid_t pid = fork();
    if (pid == 0) {
        close(fds[0]); g_fd = fds[1]; cpu_budget(0, 1);
        std::string r = fn(c);
        if (write(g_fd, r.data(), r.size()) < 0) {}
        _exit(0);
    }
    close(fds[1]);
    std::string got; char buf[4096]; ssize_t k;
    while ((k = read(fds[0], buf, sizeof buf)) > 0) got.append(buf, (size_t) k);
    close(fds[0]);
    int st = 0; waitpid(pid, &st, 0);
    if (WIFSIGNALED(st)) got += " CRASH " + std::to_string(WTERMSIG(st));
    for (size_t i = 0; i < got.size(); ++i) if (got[i] == '\n') got[i] = ' ';
    return got;
}
// an operation whose cases exhausted their CPU budget three times is not run again in this process (each further hang would cost
// a full budget): its remaining cases are answered "NOT-RUN-AFTER-TIMEOUTS", which the python side reports with the three
static std::map<std::string, int>& timeouts() { static std::map<std::string, int> t; return t; }
static std::string answer(const std::string& line, bool forked) {
    Case c;
    if (!parse_case(line, c)) return line.empty() ? "" : "BAD-LINE";
    std::map<std::string, DomFn>::iterator it = dom_table().find(c.dom);
    if (it == dom_table().end()) return "UNKNOWN-DOM";
    if (!forked) return it->second(c);
    std::string key = c.dom + " " + c.op;
    if (timeouts()[key] >= 3) return "NOT-RUN-AFTER-TIMEOUTS";
    std::string r = run_one_forked(it->second, c);
    if (r.size() >= 9 && r.compare(r.size() - 9, 9, " CRASH 24") == 0) ++timeouts()[key];
    return r;
}
static int main_loop() {
    std::string line;
    if (g_fork) {
        while (std::getline(std::cin, line)) { if (line.empty()) continue; std::cout << answer(line, true) << "\n"; }
        return 0;
    }
    // families whose cases cannot corrupt memory run in BATCHES inside one forked child (cheap); when a batch dies or exceeds its
    // CPU budget, the unanswered cases of that batch are re-run one by one, each in its own child: a crash or a hang is then the
    // failing input of one case, not a dead run
    std::vector<std::string> batch;
    bool more = true;
    while (more) {
        batch.clear();
        while (batch.size() < 400 && (more = (bool) std::getline(std::cin, line))) if (!line.empty()) batch.push_back(line);
        if (batch.empty()) continue;
        int fds[2];
        if (pipe(fds) != 0) return 3;
        std::cout.flush();
        pid_t pid = fork();
        if (pid == 0) {
            close(fds[0]); cpu_budget(0, (long) batch.size());
            FILE* f = fdopen(fds[1], "w");
            for (size_t i = 0; i < batch.size(); ++i) { std::string r = answer(batch[i], false); fprintf(f, "%s\n", r.c_str()); fflush(f); }
            fclose(f);
            _exit(0);
        }
        close(fds[1]);
        std::string got; char buf[65536]; ssize_t k;
        while ((k = read(fds[0], buf, sizeof buf)) > 0) got.append(buf, (size_t) k);
        close(fds[0]);
        int st = 0; waitpid(pid, &st, 0);
        size_t done = 0, pos = 0;
        while (done < batch.size()) {
            size_t nl = got.find('\n', pos);
            if (nl == std::string::npos) break;
            std::cout << got.substr(pos, nl - pos) << "\n";
            pos = nl + 1; ++done;
        }
        for (size_t i = done; i < batch.size(); ++i) std::cout << answer(batch[i], true) << "\n";
    }
    return 0;
}
#endif
