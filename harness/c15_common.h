// C15 alias harness, common part.
// One case per line:   <dom> <param> <op> <n> <class index * n> <value * n> <extra...>
//   positions 0..n-1 of the operation (destination(s) first); equal class index = the SAME object is passed.
// Each case is run twice on the implementation of /repo's current tree:
//   F: every position is a distinct object holding the given value (the "fresh destination" call)
//   A: positions of one class are the same object (the aliased call); "~v" marks the arbitrary initial content of a
//      pure destination (used for F, and for A only if no read operand shares the object)
// Output:  F <value * n> [R <returned value>] | A <value * n> [R <returned value>]
// The python side compares A with F (destinations) and with the initial values (frame).
#ifndef C15_COMMON_H
#define C15_COMMON_H
#include <iostream>
#include <sstream>
#include <string>
#include <vector>
#include <map>
#include <memory>
#include <cstdlib>
#include <cstring>
#include <cstdio>
#include <cmath>
#include <cstdint>
#include <unistd.h>
#include <sys/wait.h>
#include <sys/resource.h>

// fork mode (set by harnesses whose operations may corrupt memory or trap when objects alias: polynomials resize
// the destination vector while iterating over the aliased operand; RecInt divides by a clobbered modulus): every
// case runs in a child process; a child killed by a signal yields "... CRASH <signal>" instead of killing the run.
static bool g_fork = false;
static int g_fd = -1;
static void emit_partial(std::ostringstream& out) {
    if (g_fd >= 0) { std::string s = out.str(); if (write(g_fd, s.data(), s.size()) < 0) {} out.str(""); }
}

typedef std::vector<std::string> Args;

struct Case {
    std::string dom, param, op;
    int n;
    std::vector<int> idx;
    Args vals, extra;
};

static bool parse_case(const std::string& line, Case& c) {
    std::istringstream is(line);
    if (!(is >> c.dom >> c.param >> c.op >> c.n)) return false;
    c.idx.assign(c.n, 0); c.vals.assign(c.n, "");
    for (int i = 0; i < c.n; ++i) if (!(is >> c.idx[i])) return false;
    for (int i = 0; i < c.n; ++i) if (!(is >> c.vals[i])) return false;
    std::string t; c.extra.clear();
    while (is >> t) c.extra.push_back(t);
    return true;
}

// Op: a functor  bool operator()(std::vector<E*>& o, std::string& ret)  performing the call on the objects.
template <class E, class IOE, class Op>
static std::string run_two(const Case& c, Op& op) {
    std::ostringstream out;
    {   // fresh: all distinct
        std::vector<E> f(c.n);
        for (int k = 0; k < c.n; ++k) f[k] = IOE::parse(c.vals[k][0] == '~' ? c.vals[k].substr(1) : c.vals[k]);
        std::vector<E*> o(c.n);
        for (int k = 0; k < c.n; ++k) o[k] = &f[k];
        std::string ret;
        if (!op(o, ret)) return "UNKNOWN-OP";
        out << "F";
        for (int k = 0; k < c.n; ++k) out << " " << IOE::show(*o[k]);
        if (!ret.empty()) out << " R " << ret;
        emit_partial(out);
    }
    {   // aliased: one object per class
        int nc = 0;
        for (int k = 0; k < c.n; ++k) if (c.idx[k] + 1 > nc) nc = c.idx[k] + 1;
        std::vector<E> q(nc);
        // a value written "~v" is the arbitrary content of a pure destination: it gives the class its value only
        // when no operand that is read shares the object
        for (int k = 0; k < c.n; ++k) if (c.vals[k][0] == '~') q[c.idx[k]] = IOE::parse(c.vals[k].substr(1));
        for (int k = 0; k < c.n; ++k) if (c.vals[k][0] != '~') q[c.idx[k]] = IOE::parse(c.vals[k]);
        std::vector<E*> o(c.n);
        for (int k = 0; k < c.n; ++k) o[k] = &q[c.idx[k]];
        std::string ret;
        if (!op(o, ret)) return "UNKNOWN-OP";
        out << " | A";
        for (int k = 0; k < c.n; ++k) out << " " << IOE::show(*o[k]);
        if (!ret.empty()) out << " R " << ret;
    }
    return out.str();
}

// ---------------------------------------------------------------- the ring interface (ring-interface.h names)
// basic: every domain;  DIV: domains with inv/div
template <class D> struct RingOp {
    typedef typename D::Element E;
    const D& F; std::string op;
    RingOp(const D& f, const std::string& o) : F(f), op(o) {}
    bool operator()(std::vector<E*>& o, std::string&) {
        if (op == "add") F.add(*o[0], *o[1], *o[2]);
        else if (op == "sub") F.sub(*o[0], *o[1], *o[2]);
        else if (op == "mul") F.mul(*o[0], *o[1], *o[2]);
        else if (op == "neg") F.neg(*o[0], *o[1]);
        else if (op == "axpy") F.axpy(*o[0], *o[1], *o[2], *o[3]);
        else if (op == "axmy") F.axmy(*o[0], *o[1], *o[2], *o[3]);
        else if (op == "maxpy") F.maxpy(*o[0], *o[1], *o[2], *o[3]);
        else if (op == "axpyin") F.axpyin(*o[0], *o[1], *o[2]);
        else if (op == "axmyin") F.axmyin(*o[0], *o[1], *o[2]);
        else if (op == "maxpyin") F.maxpyin(*o[0], *o[1], *o[2]);
        else if (op == "addin") F.addin(*o[0], *o[1]);
        else if (op == "subin") F.subin(*o[0], *o[1]);
        else if (op == "mulin") F.mulin(*o[0], *o[1]);
        else if (op == "negin") F.negin(*o[0]);
        else if (op == "assign") F.assign(*o[0], *o[1]);
        else return false;
        return true;
    }
};
template <class D> struct RingDivOp {
    typedef typename D::Element E;
    const D& F; std::string op;
    RingDivOp(const D& f, const std::string& o) : F(f), op(o) {}
    bool operator()(std::vector<E*>& o, std::string&) {
        if (op == "div") F.div(*o[0], *o[1], *o[2]);
        else if (op == "inv") F.inv(*o[0], *o[1]);
        else if (op == "divin") F.divin(*o[0], *o[1]);
        else if (op == "invin") F.invin(*o[0]);
        else return false;
        return true;
    }
};
static inline bool is_div_op(const std::string& op) { return op == "div" || op == "inv" || op == "divin" || op == "invin"; }

typedef std::string (*DomFn)(const Case&);
static std::map<std::string, DomFn>& dom_table() { static std::map<std::string, DomFn> t; return t; }

// ---------------------------------------------------------------- hang / crash handling with a cost bounded for the whole check run
// CPU-time watchdog (RLIMIT_CPU, load independent).  First stage: 10 s CPU per call (per batch of calls that normally take
// microseconds); a call that overruns is re-run alone with 30 s ("confirmation").  The counters are SHARED by all harness processes of
// one check run through the append-only file $C15_HANG_STATE (one short line per event):
//   O <form>  first-stage overrun      H <form>  confirmed "does not return"      C <form>  crash (signal other than SIGXCPU)
// rules: a form with an H line is not driven any more by any process; a form with 4 C lines likewise; after 6 O lines or 3 H lines
// in total every stream stops (remaining cases are answered STREAM-STOPPED).
#include <fcntl.h>
#include <sys/file.h>
struct HangState { int o, h, s; std::map<std::string, int> hf, cf; };
static HangState hang_state() {
    HangState st; st.o = st.h = st.s = 0;
    const char* p = getenv("C15_HANG_STATE");
    if (!p) return st;
    FILE* f = fopen(p, "r");
    if (!f) return st;
    char buf[512];
    while (fgets(buf, sizeof buf, f)) {
        std::string l(buf); while (!l.empty() && (l[l.size() - 1] == '\n' || l[l.size() - 1] == '\r')) l.erase(l.size() - 1);
        if (l.size() < 3) continue;
        std::string form = l.substr(2);
        if (l[0] == 'O') ++st.o; else if (l[0] == 'H') { ++st.h; ++st.hf[form]; } else if (l[0] == 'C') ++st.cf[form]; else if (l[0] == 'S') ++st.s;
    }
    fclose(f);
    return st;
}
static std::map<std::string, int>& local_events() { static std::map<std::string, int> t; return t; }    // when no state file is given
static void hang_event(char kind, const std::string& form) {
    const char* p = getenv("C15_HANG_STATE");
    std::string l = std::string(1, kind) + " " + form + "\n";
    if (!p) { ++local_events()[l]; return; }
    int fd = open(p, O_WRONLY | O_APPEND | O_CREAT, 0644);
    if (fd >= 0) { if (write(fd, l.data(), l.size()) < 0) {} close(fd); }
}
static void cpu_budget(long seconds) {
    struct rlimit rl; rl.rlim_cur = (rlim_t) seconds; rl.rlim_max = rl.rlim_cur + 2;
    setrlimit(RLIMIT_CPU, &rl);
}
static long first_budget() { const char* e = getenv("C15_CPU_BUDGET"); long b = e ? atol(e) : 10; return b < 1 ? 10 : b; }
static long confirm_budget() { const char* e = getenv("C15_CPU_CONFIRM"); long b = e ? atol(e) : 30; return b < 1 ? 30 : b; }
static std::string run_one_forked(DomFn fn, const Case& c, long budget) {
    { Case prep = c; prep.op = "__prepare__"; fn(prep); }     // build the domain object in the parent
    int fds[2];
    if (pipe(fds) != 0) return "PIPE-ERROR";
    std::cout.flush();
    pid_t pid = fork();
    if (pid == 0) {
        close(fds[0]); g_fd = fds[1]; cpu_budget(budget);
        std::string r = fn(c);
        if (write(g_fd, r.data(), r.size()) < 0) {}
        _exit(0);
    }
    close(fds[1]);
    std::string got; char buf[4096]; ssize_t k;
    while ((k = read(fds[0], buf, sizeof buf)) > 0) got.append(buf, (size_t) k);
    close(fds[0]);
    int st = 0; waitpid(pid, &st, 0);
    if (WIFSIGNALED(st)) got += " CRASH " + std::to_string(WTERMSIG(st));
    for (size_t i = 0; i < got.size(); ++i) if (got[i] == '\n') got[i] = ' ';
    return got;
}
static bool ends_with(const std::string& r, const char* t) { size_t n = strlen(t); return r.size() >= n && r.compare(r.size() - n, n, t) == 0; }
// one case in its own child, under the shared caps.  confirm_first: the case is the one a batch died on (its first stage is spent)
static std::string answer_guarded(DomFn fn, const Case& c, bool confirm_first) {
    std::string form = c.dom + " " + c.op;
    HangState st = hang_state();
    if (st.hf.count(form) || st.cf[form] >= 4) return "FORM-DISABLED";
    if (st.o >= 6 || st.h >= 3 || st.s >= 3) return "STREAM-STOPPED";
    std::string r;
    if (!confirm_first) {
        r = run_one_forked(fn, c, first_budget());
        if (!ends_with(r, " CRASH 24")) {
            if (r.find(" CRASH ") != std::string::npos) hang_event('C', form);
            return r;
        }
        hang_event('O', form);
    }
    {   // at most three confirmations per check run, whichever process asks: check-and-register under a file lock ('S' = started)
        const char* p = getenv("C15_HANG_STATE");
        int lfd = p ? open(p, O_RDWR | O_APPEND | O_CREAT, 0644) : -1;
        if (lfd >= 0) flock(lfd, LOCK_EX);
        HangState s2 = hang_state();
        bool go = s2.s + (p ? 0 : local_events()["S\n"]) < 3 && !s2.hf.count(form);
        if (go) hang_event('S', p ? form : std::string());
        if (lfd >= 0) { flock(lfd, LOCK_UN); close(lfd); }
        if (!go) return s2.hf.count(form) ? "FORM-DISABLED" : "STREAM-STOPPED";
    }
    r = run_one_forked(fn, c, confirm_budget());           // confirmation: alone, three times the budget
    if (ends_with(r, " CRASH 24")) { hang_event('H', form); return r + " CONFIRMED"; }
    if (r.find(" CRASH ") != std::string::npos) hang_event('C', form);
    return r;
}
static std::string answer(const std::string& line, int mode) {      // mode 0: in-process, 1: guarded child, 2: guarded, confirmation first
    Case c;
    if (!parse_case(line, c)) return line.empty() ? "" : "BAD-LINE";
    std::map<std::string, DomFn>::iterator it = dom_table().find(c.dom);
    if (it == dom_table().end()) return "UNKNOWN-DOM";
    if (mode == 0) return it->second(c);
    return answer_guarded(it->second, c, mode == 2);
}
static int main_loop() {
    std::string line;
    if (g_fork) {
        while (std::getline(std::cin, line)) { if (line.empty()) continue; std::cout << answer(line, 1) << "\n"; }
        return 0;
    }
    // families whose cases cannot corrupt memory run in BATCHES inside one forked child (cheap); when a batch dies or exceeds its
    // CPU budget, the case it died on is confirmed alone and the unanswered rest of the batch is run case by case
    std::vector<std::string> batch;
    bool more = true;
    while (more) {
        batch.clear();
        while (batch.size() < 400 && (more = (bool) std::getline(std::cin, line))) if (!line.empty()) batch.push_back(line);
        if (batch.empty()) continue;
        HangState st = hang_state();
        bool stop = st.o >= 6 || st.h >= 3 || (st.s >= 3 && st.h >= 1);
        // forms already disabled are not sent into the batch child
        std::vector<int> skip(batch.size(), 0);
        for (size_t i = 0; i < batch.size(); ++i) {
            Case c; if (!parse_case(batch[i], c)) continue;
            std::string form = c.dom + " " + c.op;
            if (st.hf.count(form) || st.cf[form] >= 4) skip[i] = 1;
        }
        if (stop) { for (size_t i = 0; i < batch.size(); ++i) std::cout << "STREAM-STOPPED\n"; continue; }
        int fds[2];
        if (pipe(fds) != 0) return 3;
        std::cout.flush();
        pid_t pid = fork();
        if (pid == 0) {
            close(fds[0]); cpu_budget(first_budget());
            FILE* f = fdopen(fds[1], "w");
            for (size_t i = 0; i < batch.size(); ++i) { std::string r = skip[i] ? std::string("FORM-DISABLED") : answer(batch[i], 0); fprintf(f, "%s\n", r.c_str()); fflush(f); }
            fclose(f);
            _exit(0);
        }
        close(fds[1]);
        std::string got; char buf[65536]; ssize_t k;
        while ((k = read(fds[0], buf, sizeof buf)) > 0) got.append(buf, (size_t) k);
        close(fds[0]);
        int wst = 0; waitpid(pid, &wst, 0);
        size_t done = 0, pos = 0;
        while (done < batch.size()) {
            size_t nl = got.find('\n', pos);
            if (nl == std::string::npos) break;
            std::cout << got.substr(pos, nl - pos) << "\n";
            pos = nl + 1; ++done;
        }
        if (done < batch.size()) {
            bool xcpu = WIFSIGNALED(wst) && WTERMSIG(wst) == 24;
            if (xcpu) { Case c; if (parse_case(batch[done], c)) hang_event('O', c.dom + " " + c.op); }
            for (size_t i = done; i < batch.size(); ++i)
                std::cout << (skip[i] ? std::string("FORM-DISABLED") : answer(batch[i], i == done && xcpu ? 2 : 1)) << "\n";
        }
    }
    return 0;
}
#endif
