// C15 alias harness: GFqDom<int32_t>/<int64_t> (Zech logarithms), Extension<Modular<int32_t>> and the dense
// polynomial domain Poly1Dom<Modular<int32_t>,Dense>: every three-address operation in every alias pattern.
// dom "gfq32"/"gfq64": param "p,k", elements are the internal representatives (0 .. q-1)
// dom "ext": param "p,k", elements are coefficient lists "c0,c1,.." (degree < k; "z" = zero)
// dom "poly": param "p", elements are coefficient lists (any degree)
// See c15_common.h for the line protocol.
#include "givinteger.h"
#include "modular.h"
#include "gfq.h"
#include "extension.h"
#include "givpoly1.h"
#include "c15_common.h"

using namespace Givaro;

typedef Modular<int32_t> Base;
typedef Poly1Dom<Base, Dense> PolDom;
typedef Extension<Base> Ext;

static const Base* g_base = 0;

static void split_param(const std::string& s, long& p, long& k) {
    size_t c = s.find(',');
    p = atol(s.substr(0, c).c_str());
    k = c == std::string::npos ? 1 : atol(s.substr(c + 1).c_str());
}

template <class T> struct IOW {
    static T parse(const std::string& s) { return (T) strtoll(s.c_str(), 0, 10); }
    static std::string show(const T& x) { return std::to_string((long long) x); }
};
struct IOP {
    typedef PolDom::Element E;
    static E parse(const std::string& s) {
        E r;
        if (s == "z") return r;
        std::vector<long> cs; std::istringstream is(s); std::string t;
        while (std::getline(is, t, ',')) cs.push_back(atol(t.c_str()));
        r.resize(cs.size());
        for (size_t i = 0; i < cs.size(); ++i) g_base->init(r[i], cs[i]);
        return r;
    }
    static std::string show(const E& x) {
        // the VALUE of the polynomial: trailing zero coefficients are not shown (whether a result is stored in
        // normal form is C08's subject; several three-address forms return sub() results that are not)
        size_t n = x.size();
        while (n > 0 && g_base->isZero(x[n - 1])) --n;
        if (n == 0) return "z";
        std::ostringstream o;
        for (size_t i = 0; i < n; ++i) { long v; g_base->convert(v, x[i]); o << (i ? "," : "") << v; }
        return o.str();
    }
};

struct PolyOp {
    const PolDom& P; std::string op; const Args& x; int calls;
    PolyOp(const PolDom& p, const std::string& o, const Args& e) : P(p), op(o), x(e), calls(0) {}
    bool operator()(std::vector<PolDom::Element*>& o, std::string& ret) {
#define A(k) (*o[k])
        long s = x.empty() ? 0 : atol(x[0].c_str());
        Base::Element cl; g_base->init(cl, s);
        const Base::Element* cp = &cl;
        // "<scalar form>@": SUB-OBJECT aliasing -- the scalar operand is coefficient i of the object at position k (extra: k i).
        // First call (distinct objects): a separate copy of that coefficient; second call (aliased run): a reference INTO the object.
        std::string op = this->op;
        if (!op.empty() && op[op.size() - 1] == '@') {
            op.erase(op.size() - 1);
            size_t k = (size_t) s, i = x.size() > 1 ? (size_t) atol(x[1].c_str()) : 0;
            if (k < o.size() && o[k]->size() > 0) {
                if (i >= o[k]->size()) i = o[k]->size() - 1;
                if (calls == 0) cl = (*o[k])[i]; else cp = &(*o[k])[i];
            }
        }
        ++calls;
#define c (*cp)
        if (op == "add") P.add(A(0), A(1), A(2));
        else if (op == "sub") P.sub(A(0), A(1), A(2));
        else if (op == "mul") P.mul(A(0), A(1), A(2));
        else if (op == "stdmul") P.stdmul(A(0), A(1), A(2));
        else if (op == "sqr") P.sqr(A(0), A(1));
        else if (op == "div") P.div(A(0), A(1), A(2));
        else if (op == "mod") P.mod(A(0), A(1), A(2));
        else if (op == "divmod") P.divmod(A(0), A(1), A(2), A(3));       // (q, r, a, b)
        else if (op == "gcd") P.gcd(A(0), A(1), A(2));
        else if (op == "gcd5") P.gcd(A(0), A(1), A(2), A(3), A(4));      // (d, u, v, p, q)
        else if (op == "lcm") P.lcm(A(0), A(1), A(2));
        else if (op == "invmod") P.invmod(A(0), A(1), A(2));
        else if (op == "neg") P.neg(A(0), A(1));
        else if (op == "assign") P.assign(A(0), A(1));
        else if (op == "diff") P.diff(A(0), A(1));
        else if (op == "reverse") P.reverse(A(0), A(1));
        else if (op == "pow") P.pow(A(0), A(1), (uint64_t) s);
        else if (op == "powmod") P.powmod(A(0), A(1), (uint64_t) s, A(2));
        else if (op == "modpowx") P.modpowx(A(0), A(1), Degree(s));
        else if (op == "karamul") P.karamul(A(0), A(1), A(2));
        else if (op == "midmul") P.midmul(A(0), A(1), A(2));
        else if (op == "stdmidmul") P.stdmidmul(A(0), A(1), A(2));
        else if (op == "karamidmul") P.karamidmul(A(0), A(1), A(2));
        else if (op == "mul.trunc") P.mul(A(0), A(1), A(2), Degree(s), Degree(x.size() > 1 ? atol(x[1].c_str()) : s));
        else if (op == "divmodin") P.divmodin(A(0), A(1), A(2));                  // (q, r, b)
        else if (op == "pdivmod") { Base::Element m; g_base->init(m); P.pdivmod(A(0), A(1), m, A(2), A(3)); long v; g_base->convert(v, m); ret = std::to_string(v); }
        else if (op == "pmod") { Base::Element m; g_base->init(m); P.pmod(A(0), m, A(1), A(2)); long v; g_base->convert(v, m); ret = std::to_string(v); }
        else if (op == "invmodunit") P.invmodunit(A(0), A(1), A(2));
        else if (op == "invmodpowx") P.invmodpowx(A(0), A(1), Degree(s));
        else if (op == "power_compose") P.power_compose(A(0), A(1), (uint64_t) s);
        else if (op == "ratrecon") { bool b = P.ratrecon(A(0), A(1), A(2), A(3), Degree(s)); ret = b ? "1" : "0"; }   // (n, d, p, m)
        else if (op == "ratreconcheck") { bool b = P.ratreconcheck(A(0), A(1), A(2), A(3), Degree(s)); ret = b ? "1" : "0"; }
        else if (op == "ratrecon.f") { bool b = P.ratrecon(A(0), A(1), A(2), A(3), Degree(s), x.size() > 1 && x[1] == "1"); ret = b ? "1" : "0"; }
        else if (op == "inv") P.inv(A(0), A(1));
        else if (op == "shift") P.shift(A(0), A(1), (int) s);
        else if (op == "maxpy.s") P.maxpy(A(0), c, A(1), A(2));
        else if (op == "mod.s") P.mod(A(0), A(1), c);
        else if (op == "addin") P.addin(A(0), A(1));
        else if (op == "subin") P.subin(A(0), A(1));
        else if (op == "mulin") P.mulin(A(0), A(1));
        else if (op == "divin") P.divin(A(0), A(1));
        else if (op == "modin") P.modin(A(0), A(1));
        else if (op == "negin") P.negin(A(0));
        else if (op == "axpy") P.axpy(A(0), A(1), A(2), A(3));
        else if (op == "maxpy") P.maxpy(A(0), A(1), A(2), A(3));
        else if (op == "axmy") P.axmy(A(0), A(1), A(2), A(3));
        else if (op == "axpyin") P.axpyin(A(0), A(1), A(2));
        else if (op == "maxpyin") P.maxpyin(A(0), A(1), A(2));
        else if (op == "axmyin") P.axmyin(A(0), A(1), A(2));
        // scalar forms: (res, u) + scalar c
        else if (op == "add.sl") P.add(A(0), c, A(1));
        else if (op == "sub.sl") P.sub(A(0), c, A(1));
        else if (op == "mul.sl") P.mul(A(0), c, A(1));
        else if (op == "div.sl") P.div(A(0), c, A(1));
        else if (op == "mod.sl") P.mod(A(0), c, A(1));
        else if (op == "addin.s") P.addin(A(0), c);
        else if (op == "subin.s") P.subin(A(0), c);
        else if (op == "mulin.s") P.mulin(A(0), c);
        else if (op == "divin.s") P.divin(A(0), c);
        else if (op == "modin.s") P.modin(A(0), c);
        else if (op == "assign.s") P.assign(A(0), c);
        else if (op == "assign.ds") P.assign(A(0), Degree(x.size() > 2 ? atol(x[2].c_str()) : 2), c);
        else if (op == "add.s") P.add(A(0), A(1), c);
        else if (op == "sub.s") P.sub(A(0), A(1), c);
        else if (op == "mul.s") P.mul(A(0), A(1), c);
        else if (op == "div.s") P.div(A(0), A(1), c);
        else if (op == "axpy.s") P.axpy(A(0), c, A(1), A(2));
        else if (op == "axmy.s") P.axmy(A(0), c, A(1), A(2));
        else if (op == "axpyin.s") P.axpyin(A(0), c, A(1));
        else if (op == "maxpyin.s") P.maxpyin(A(0), c, A(1));
        else if (op == "axmyin.s") P.axmyin(A(0), c, A(1));
        else return false;
#undef c
#undef A
        return true;
    }
};

// GFqDom ARRAY forms  op(sz, r, a, b ...): positions are arrays (std::vector<Rep> "c0,c1,.."), the scalars come in the extra tokens
template <class GF> struct IOArr {
    typedef std::vector<typename GF::Element> E;
    static E parse(const std::string& s) { E r; std::istringstream is(s); std::string t; while (std::getline(is, t, ',')) r.push_back((typename GF::Element) atol(t.c_str())); return r; }
    static std::string show(const E& x) { std::ostringstream o; for (size_t i = 0; i < x.size(); ++i) o << (i ? "," : "") << (long long) x[i]; return x.empty() ? "e" : o.str(); }
};
template <class GF> struct ArrOp {
    typedef std::vector<typename GF::Element> E; typedef typename GF::Element Rep;
    const GF& F; std::string op; const Args& x;
    ArrOp(const GF& f, const std::string& o, const Args& e) : F(f), op(o), x(e) {}
    bool operator()(std::vector<E*>& o, std::string&) {
        size_t sz = o[0]->size();
        for (size_t k = 1; k < o.size(); ++k) if (o[k]->size() < sz) sz = o[k]->size();
        Rep s0 = x.size() > 0 ? (Rep) atol(x[0].c_str()) : 0, s1 = x.size() > 1 ? (Rep) atol(x[1].c_str()) : 0;
#define D(k) (&(*o[k])[0])
        if (op == "assign") F.assign(sz, D(0), D(1));
        else if (op == "mul") F.mul(sz, D(0), D(1), D(2));
        else if (op == "mul.s") F.mul(sz, D(0), D(1), s0);
        else if (op == "div") F.div(sz, D(0), D(1), D(2));
        else if (op == "div.s") F.div(sz, D(0), D(1), s0);
        else if (op == "add") F.add(sz, D(0), D(1), D(2));
        else if (op == "add.s") F.add(sz, D(0), D(1), s0);
        else if (op == "sub") F.sub(sz, D(0), D(1), D(2));
        else if (op == "sub.s") F.sub(sz, D(0), D(1), s0);
        else if (op == "neg") F.neg(sz, D(0), D(1));
        else if (op == "inv") F.inv(sz, D(0), D(1));
        else if (op == "axpy") F.axpy(sz, D(0), s0, D(1), D(2));
        else if (op == "axpy.c") F.axpy(sz, D(0), s0, D(1), s1);
        else if (op == "axpyin") F.axpyin(sz, D(0), s0, D(1));
        else if (op == "axmy") F.axmy(sz, D(0), s0, D(1), D(2));
        else if (op == "axmy.c") F.axmy(sz, D(0), s0, D(1), s1);
        else if (op == "maxpyin") F.maxpyin(sz, D(0), s0, D(1));
        else return false;
#undef D
        return true;
    }
};
template <class GF> static std::string goGFArr(const Case& c) {
    static std::unique_ptr<GF> cur; static std::string curp;
    if (!cur || curp != c.param) { long p, k; split_param(c.param, p, k); cur.reset(new GF((typename GF::Residu_t) p, (typename GF::Residu_t) k)); curp = c.param; }
    ArrOp<GF> op(*cur, c.op, c.extra);
    return run_two<typename IOArr<GF>::E, IOArr<GF> >(c, op);
}
template <class GF> static std::string goGF(const Case& c) {
    static std::unique_ptr<GF> cur; static std::string curp;
    if (!cur || curp != c.param) { long p, k; split_param(c.param, p, k); cur.reset(new GF((typename GF::Residu_t) p, (typename GF::Residu_t) k)); curp = c.param; }
    typedef typename GF::Element E;
    if (is_div_op(c.op)) { RingDivOp<GF> op(*cur, c.op); return run_two<E, IOW<E> >(c, op); }
    RingOp<GF> op(*cur, c.op);
    return run_two<E, IOW<E> >(c, op);
}
static std::string goExt(const Case& c) {
    // one Extension per parameter for the whole run (its irreducible polynomial is drawn at random at construction and
    // is reported once through "info": it must not change afterwards)
    static std::map<std::string, std::pair<std::shared_ptr<Base>, std::shared_ptr<Ext> > > doms;
    if (!doms.count(c.param)) {
        long p, k; split_param(c.param, p, k);
        std::shared_ptr<Base> b(new Base((int32_t) p));
        doms[c.param] = std::make_pair(b, std::shared_ptr<Ext>(new Ext(*b, (Ext::Residu_t) k)));
    }
    std::shared_ptr<Base> bas = doms[c.param].first; std::shared_ptr<Ext> cur = doms[c.param].second;
    g_base = bas.get();
    if (c.op == "info") return "INFO " + IOP::show(cur->irreducible());      // the modulus polynomial the model needs
    if (is_div_op(c.op)) { RingDivOp<Ext> op(*cur, c.op); return run_two<Ext::Element, IOP>(c, op); }
    RingOp<Ext> op(*cur, c.op);
    return run_two<Ext::Element, IOP>(c, op);
}
static std::string goPoly(const Case& c) {
    static std::unique_ptr<Base> bas; static std::unique_ptr<PolDom> cur; static std::string curp;
    if (!cur || curp != c.param) {
        cur.reset(); bas.reset(new Base((int32_t) atol(c.param.c_str()))); cur.reset(new PolDom(*bas, Indeter("X"))); curp = c.param;
    }
    g_base = bas.get();
    PolyOp op(*cur, c.op, c.extra);
    return run_two<PolDom::Element, IOP>(c, op);
}

int main() {
    dom_table()["gfq32"] = &goGF<GFqDom<int32_t> >;
    dom_table()["gfq64"] = &goGF<GFqDom<int64_t> >;
    dom_table()["gfqarr32"] = &goGFArr<GFqDom<int32_t> >;
    dom_table()["gfqarr64"] = &goGFArr<GFqDom<int64_t> >;
    dom_table()["ext"] = &goExt;
    dom_table()["poly"] = &goPoly;
    g_fork = true;
    return main_loop();
}
