# C15: the table that ties every public three-address declaration of /repo's headers (harness/c15_scan.py, clang AST)
# to the harness operations that drive it in every alias pattern.
#   FORMS[(scope, name, shape)] = "FAM:op[,op...]"   driven directly: FAM is an operation table of checks/C15.py
#                                                     (RING, Z, Q, RU, RI, RM, POLY, GFQ, EXT) and op a key of it
#                               = "~FAM:op[,..] why"  driven indirectly: the declaration is a helper / base-class / forwarding
#                                                     layer reached through the named harness operations
#                               = "!reason"           not driven, with the reason (outside the interfaces the property
#                                                     names, random output, native-word operands only, ...)
# A declaration found in the headers that has no entry here, an entry whose declaration is gone, or an entry naming an
# operation the tables do not have BREAKS the check (completeness obligation): a new or re-signed three-address
# operation cannot enter the library without entering the alias harness.
FORMS = {}


def put(scope, name, shape, target):
    FORMS[(scope, name, shape)] = target


# ------------------------------------------------------------------ the ring interface (ring-interface.h names)
RING_SHAPES = {"add": "DCC", "sub": "DCC", "mul": "DCC", "div": "DCC", "neg": "DC", "inv": "DC", "assign": "DC",
               "axpy": "DCCC", "axmy": "DCCC", "maxpy": "DCCC", "axpyin": "DCC", "axmyin": "DCC", "maxpyin": "DCC",
               "addin": "DC", "subin": "DC", "mulin": "DC", "divin": "DC", "reduce": "DC"}


def ring_scope(scope, fam, types, names=None, byvalue=(), skip=(), indirect=None):
    for nm, sh in RING_SHAPES.items():
        if names is not None and nm not in names or nm in skip:
            continue
        for t in types:
            s = sh if nm not in byvalue else sh.replace("C", "V")
            put(scope, nm, s + ":" + t, ("~%s:%s %s" % (fam, nm, indirect)) if indirect else "%s:%s" % (fam, nm))


NODIV = ("div", "inv", "divin")
# Modular<...>: every specialisation declares the 18 operations on Element (modular-integral/-floating/-ruint/-integer/
# -inttype) or Rep (modular-log16); dom tables: the 32 integral instantiations, float/double, Integer, ruint, rint, Log16
ring_scope("Givaro::Modular", "RING", ["Element", "Rep"], skip=())
FORMS.pop(("Givaro::Modular", "reduce", "DC:Rep"), None)          # Modular<Log16> has no reduce(r, a)
FORMS.pop(("Givaro::Modular", "assign", "DC:Element"), None)       # assign lives in Modular_implem (Element) / Modular<Log16> (Rep)
put("Givaro::Modular_implem", "assign", "DC:Element", "RING:assign")
for nm, sh in (("mul_precomp_b", "DCCx"), ("mul_precomp_b_without_reduction", "DCCx"), ("mul_precomp_p", "DCCxx")):
    put("Givaro::Modular", nm, sh + ":Element", "RING:" + nm)
put("Givaro::Modular", "precomp_b", "DxC:Compute_t", "!native Compute_t words; the destination is a by-product of mul_precomp_b's set-up, driven there")
for sc in ("Givaro::ModularBalanced", "Givaro::ModularExtended", "Givaro::Montgomery"):
    ring_scope(sc, "RING", ["Element"])
ring_scope("Givaro::GF2", "RING", ["Element"], skip=("reduce",))
ring_scope("Givaro::GFqDom", "GFQ", ["Rep"], byvalue=tuple(RING_SHAPES), skip=("reduce",))        # Rep operands are passed by value
put("Givaro::GFqDom", "reduce", "DV:Rep", "!the operand is passed by value (an integer): cannot alias; a one-line table look-up")
for nm, sh, op in (("assign", "xDC", "assign"), ("mul", "xDCC", "mul"), ("mul", "xDCx", "mul.s"), ("div", "xDCC", "div"), ("div", "xDCx", "div.s"),
                   ("add", "xDCC", "add"), ("add", "xDCx", "add.s"), ("sub", "xDCC", "sub"), ("sub", "xDCx", "sub.s"), ("neg", "xDC", "neg"), ("inv", "xDC", "inv"),
                   ("axpy", "xDxCC", "axpy"), ("axpy", "xDxCx", "axpy.c"), ("axpyin", "xDxC", "axpyin"), ("axmy", "xDxCC", "axmy"), ("axmy", "xDxCx", "axmy.c"),
                   ("maxpyin", "xDxC", "maxpyin")):
    put("Givaro::GFqDom", nm, sh + ":Array", "GFQA:" + op)      # array forms op(sz, r, a, b): the arrays may be the same array
ring_scope("Givaro::Extension", "EXT", ["Extension::PolElement"], byvalue=("maxpy", "maxpyin", "axmy", "axmyin"), skip=("reduce",))
for nm in ("random", "nonzerorandom"):
    put("Givaro::Extension", nm, "xDC:Element", "!random output (the const operand is a size hint)")
ring_scope("Givaro::QField", "Q", ["Rep"], skip=("reduce",))
put("Givaro::QField", "pow", "DCx:Rep", "Q:pow.u64,pow.u32")
for nm in ("random", "nonzerorandom"):
    put("Givaro::QField", nm, "xDC:Rep", "!random output")
ring_scope("Givaro::RingInterface", "RING", ["Element"], skip=("div", "inv", "divin", "reduce"),
           indirect="pure virtual declarations; every implementing domain is driven")
for t in ("Rational", "_Element"):
    for nm, sh in (("div", "DCC"), ("divin", "DC"), ("inv", "DC")):
        put("Givaro::FieldInterface", nm, sh + ":" + t, "~RING:%s pure virtual declarations; every implementing domain is driven" % nm)
ring_scope("Givaro::UnparametricOperations", "RING", ["Element"], skip=("reduce",), indirect="base class of ZRing<T>: driven through zring_I / zring_d / zring_i64")
put("Givaro::UnparametricOperations", "mod", "DCC:Element", "~ZR:mod base class of ZRing<T>: driven through ZRing<Integer>")
put("Givaro::UnparametricOperations", "modin", "DC:Element", "~ZR:modin base class of ZRing<T>: driven through ZRing<Integer>")
for nm in ("abs", "assign", "reduce"):
    put("Givaro::UnparametricZRing", nm, "DC:Element", "ZR:" + nm)

# ------------------------------------------------------------------ ZRing<Integer> (zring.h): Integer-specific operations
ring_scope("Givaro::ZRing", "RING", ["Rep"], skip=("sub", "neg", "assign", "reduce", "axmyin_", ), names=("add", "addin", "mul", "mulin", "sub", "subin", "neg",
           "axpy", "axpyin", "axmy", "axmyin", "maxpy", "maxpyin", "div", "divin", "inv", "invin"))
for nm, sh, op in (("sub", "DCC", "RING:sub"), ("neg", "DC", "RING:neg"),
                   ("divexact", "DCC", "ZR:divexact"), ("divmod", "DDCC", "ZR:divmod"), ("gcd", "DCC", "ZR:gcd"), ("gcd", "DDDCC", "ZR:gcd5"),
                   ("gcdin", "DC", "ZR:gcdin"), ("inv", "DCC", "ZR:inv3"), ("invin", "DC", "ZR:invin2"), ("invmod", "DCC", "ZR:invmod"), ("invmodin", "DC", "ZR:invmodin"),
                   ("lcm", "DCC", "ZR:lcm"), ("lcmin", "DC", "ZR:lcmin"), ("mod", "DCC", "ZR:mod"), ("modin", "DC", "ZR:modin"),
                   ("pow", "DCx", "ZR:pow"), ("powmod", "DCCC", "ZR:powmod"), ("powmod", "DCxC", "ZR:powmod.w"),
                   ("sqrt", "DC", "ZR:sqrt"), ("sqrt", "DDC", "ZR:sqrtrem")):
    put("Givaro::ZRing", nm, sh + ":Rep", op)
for nm, sh, op in (("abs", "DC", "ZR:abs"), ("logtwo", "DC", "ZR:logtwo"), ("quo", "DCC", "ZR:quo"), ("rem", "DCC", "ZR:rem"), ("quoin", "DC", "ZR:quoin"),
                   ("remin", "DC", "ZR:remin"), ("quoRem", "DDCC", "ZR:quoRem"), ("dxgcd", "DDDDDCC", "ZR:dxgcd")):
    put("Givaro::ZRing", nm, sh + ":Element", op)
for nm in ("random", "nonzerorandom"):
    put("Givaro::ZRing", nm, "xDC:Rep", "!random output (the const operand is a size hint)")
for nm, sh in (("RationalReconstruction", "DDCC"), ("RationalReconstruction", "DDCCCC"), ("RationalReconstruction", "DDCCCxx"), ("ratrecon", "DDCCCxx")):
    put("Givaro::ZRing", nm, sh + ":Rep", "ZR:%s%d" % (nm, len(sh)))
    put("Givaro::Rational", nm, sh + ":Integer", "~ZR:%s%d worker called by ZRing<Integer> / the Rational constructor" % (nm, len(sh)))

# ------------------------------------------------------------------ Integer (gmp++_int.h) and its free functions
for nm in ("add", "sub", "mul", "div", "divexact", "mod", "trem", "crem", "frem", "ceil", "floor", "trunc"):
    put("Givaro::Integer", nm, "DCC:Integer", "Z:" + nm)
for nm, ws in (("add", "i64 u64 i32 u32"), ("sub", "i64 u64 i32 u32"), ("mul", "i64 u64 i32 u32"), ("div", "i64 i32 u64"), ("divexact", "i64 u64"),
               ("mod", "i64 u64 i32 u32"), ("trem", "u64"), ("crem", "u64"), ("frem", "u64")):
    put("Givaro::Integer", nm, "DCx:Integer", "Z:" + ",".join("%s.%s" % (nm, w) for w in ws.split()))
for nm in ("addin", "subin", "mulin", "divin", "modin"):
    put("Givaro::Integer", nm, "DC:Integer", "Z:" + nm)
put("Givaro::Integer", "neg", "DC:Integer", "Z:neg")
for nm in ("axpy", "axmy", "maxpy"):
    put("Givaro::Integer", nm, "DCCC:Integer", "Z:" + nm)
    put("Givaro::Integer", nm, "DCxC:Integer", "Z:%s.u64" % nm)
    put("Givaro::Integer", nm + "in", "DCC:Integer", "Z:%sin" % nm)
    put("Givaro::Integer", nm + "in", "DCx:Integer", "Z:%sin.u64" % nm)
put("Givaro::Integer", "divmod", "DDCC:Integer", "Z:divmod")
put("Givaro::Integer", "divmod", "DxCx:Integer", "Z:divmod.i64,divmod.u64")
for nm, sh in (("random_between", "DCC"), ("random_exact", "DC"), ("random_lessthan", "DC")):
    put("Givaro::Integer", nm, sh + ":Integer", "!random output")
for nm, sh, op in (("gcd", "DCC", "Z:gcd"), ("gcd", "DDCC", "Z:gcd4"), ("gcd", "DDDCC", "Z:gcd5"), ("lcm", "DCC", "Z:lcm"), ("inv", "DCC", "Z:inv"),
                   ("invin", "DC", "Z:invin"), ("pow", "DCx", "Z:pow.i64,pow.u64,pow.i32,pow.u32"), ("powmod", "DCCC", "Z:powmod"),
                   ("powmod", "DCxC", "Z:powmod.i64,powmod.u64,powmod.i32,powmod.u32"), ("root", "DCx", "Z:root"), ("sqrt", "DC", "Z:sqrt"),
                   ("sqrtrem", "DCD", "Z:sqrtrem"), ("sqrtrem", "CD", "Z:sqrtrem.val")):
    put("Givaro", nm, sh + ":Integer", op)
put("Givaro", "ppin", "DC:Integer", "!in-place helper of IntNumTheoDom::order (removes a prime factor from res); its second operand is an element of a "
    "factor list, a different object by construction (ppin(x, x) does not terminate by definition: x / x = 1 divides everything)")
for nm in ("nextprime", "prevprime"):
    put("Givaro::Protected", nm, "DC:Integer", "ZR:" + nm)
    put("Givaro::IntPrimeDom", nm, "DCx:Rep", "ZR:%s.dom" % nm)
put("Givaro::IntPrimeDom", "isprimepower", "DC:Rep", "ZR:isprimepower")
put("Givaro::IntPrimeDom", "test_Lehmann", "xDC:Rep", "!returns a boolean through a native reference; the Integer operands are const")
for t in ("Integer", "long"):
    put("Givaro", "Caster", "DC:" + t, "!conversion helper between two values of one type: an assignment")
for t in ("_Element", "double", "float"):
    put("Givaro", "Moderin", "DC:" + t, "~ZR:modin helper of UnparametricOperations::modin")
put("Givaro", "GenericAdd", "DCCx:TElem", "~RING:add helper of Modular<unsigned integral>::add / sub / axpy (modular-integral.inl)")
put("Givaro", "GenericAddIN", "DCx:TElem", "~RING:addin helper of Modular<unsigned integral>::addin (modular-integral.inl)")
put("Givaro", "_reduce", "DCx:E", "~RING:reduce helper of Modular<integral>::reduce / init")
for nm, sh in (("_axpy", "DCCCC"), ("_axpyin", "DCCC"), ("_maxpyin", "DCCC"), ("_mul", "DCCC"), ("_mulin", "DCCC"), ("_mulin", "DCCx")):
    put("Givaro", nm, sh + ":E", "~RING:%s helper of Modular<ruint<K>,..> (modular-ruint.inl), modelled in coq/C15/Model.v" % nm.strip("_"))
for t in ("Storage_t", "double", "float", "int", "long", "unsignedint"):
    put("Givaro", "extended_euclid", "DDVV:" + t, "!outputs are native words, inputs by value: nothing can alias")
    put("Givaro", "invext", "DDVV:" + t, "!outputs are native words, inputs by value: nothing can alias")
    put("Givaro", "invext", "DVV:" + t, "!outputs are native words, inputs by value: nothing can alias")
put("Givaro", "gcdext", "DDDVV:Storage_t", "!outputs are native words, inputs by value: nothing can alias")
put("Givaro", "dom_power", "DCxx:TT", "!generic helper (givpower.h) used with a local result by every caller; not part of the named interfaces")
for nm, sh in (("Add_Curve", "CVCCDD"), ("Mul_Curve", "CDCCCDD"), ("one_Mul_Curve", "CVCCCCDD"), ("one_Mul_Curve2", "CVCCCCDD")):
    put("Givaro", nm, sh + ":Integer", "!internal steps of the elliptic-curve factorisation (givintfactor.inl), called with fixed locals")

# ------------------------------------------------------------------ functors over a domain (givops.h), CRT / RNS
for f, op2, op3 in (("AddOp", "addin", "add"), ("SubOp", "subin", "sub"), ("MulOp", "mulin", "mul"), ("DivOp", "divin", "div"), ("ModOp", "modin", "mod")):
    put("Givaro::" + f, "operator()", "DC:Type_t", "~RING:%s one-line forward to the domain's %s" % (op2 if op2 in RING_SHAPES else "addin", op2))
    put("Givaro::" + f, "operator()", "DCC:Type_t", "~RING:%s one-line forward to the domain's %s" % (op3 if op3 in RING_SHAPES else "add", op3))
put("Givaro::MulAddOp", "operator()", "DCC:Type_t", "~RING:axpyin one-line forward to the domain's axpyin")
put("Givaro::MulAddOp", "operator()", "DCCC:Type_t", "~RING:axpy one-line forward to the domain's axpy")
put("Givaro::NegOp", "operator()", "DC:Type_t", "~RING:neg one-line forward to the domain's neg")
put("Givaro::CopyOp", "operator()", "DC:Type_t", "~RING:assign one-line forward to the domain's assign")
put("Givaro::Curried1", "operator()", "DC:Type_t", "~RING:add forwards to a binary functor with a bound first operand")
put("Givaro::Curried2", "operator()", "DC:Type_t", "~RING:add forwards to a binary functor with a bound second operand")
put("Givaro::ChineseRemainder", "operator()", "DCx:ChineseRemainder::RingElement", "CRT:crt")
put("Givaro::ChineseRemainder", "operator()", "DCx:ChineseRemainder<type-parameter-0-0,type-parameter-0-1,false>::RingElement", "CRT:crt.nf")
put("Givaro::RNSsystem", "RnsToMixedRadix", "DC:array", "!operands are Array0 containers of residues (reference counted vectors), not elements of a ring interface")

# ------------------------------------------------------------------ RecInt: ruint<K>, rint<K>, rmint<K,MG>
U = "ruint<K>"
for nm, sh, op in (
        ("add", "DC", "addin"), ("add", "DCC", "add"), ("add", "DCx", "add.w"), ("add", "xDC", "addin.c"), ("add", "xDCC", "add.c"), ("add", "xDCx", "add.cw"),
        ("add_1", "DC", "add_1"), ("add_1", "xDC", "add_1.c"), ("add_wc", "DCCx", "add_wc"), ("add_wc", "DCx", "add_wcin"), ("add_wc", "xDCCx", "add_wc.c"),
        ("sub", "DC", "subin"), ("sub", "DCC", "sub"), ("sub", "DCx", "sub.w"), ("sub", "xDC", "subin.c"), ("sub", "xDCC", "sub.c"), ("sub", "xDCx", "sub.cw"),
        ("sub_1", "DC", "sub_1"), ("sub_1", "xDC", "sub_1.c"), ("sub_wc", "DCCx", "sub_wc"), ("sub_wc", "DCx", "sub_wcin"), ("sub_wc", "xDCCx", "sub_wc.c"),
        ("addmul", "DCC", "addmul"), ("addmul", "DCx", "addmul.w"), ("arazi_qi", "DC", "arazi_qi"), ("bezout_mod", "DDCC", "bezout_mod"), ("copy", "DC", "copy"),
        ("div", "DDCC", "div"), ("div", "DxCx", "div.w"), ("div_q", "DCC", "div_q"), ("div_q", "DCx", "div_q.w"), ("div_r", "DCC", "div_r"),
        ("exp_mod", "DCCC", "exp_mod"), ("exp_mod", "DCxC", "exp_mod.w"), ("gcd", "DCC", "gcd"), ("inv_mod", "DCC", "inv_mod"),
        ("laddmul", "DDCCC", "laddmul"), ("laddmul", "xDDCCC", "laddmul.c"),
        ("left_shift", "DCx", "left_shift"), ("right_shift", "DCx", "right_shift"), ("left_shift_1", "DC", "left_shift_1"), ("left_shift_1", "xDC", "left_shift_1.c"),
        ("right_shift_1", "DC", "right_shift_1"), ("right_shift_1", "xDC", "right_shift_1.c"),
        ("lmul", "DDCC", "lmul"), ("lmul_naive", "DDCC", "lmul_naive"), ("mod_n", "DC", "mod_nin"), ("mod_n", "DCC", "mod_n"),
        ("mul", "DC", "mulin"), ("mul", "DCC", "mul"), ("mul", "DCx", "mul.w"), ("neg", "DC", "neg"), ("square", "DC", "square"),
        ("operator+=", "DC", "op+="), ("operator-=", "DC", "op-="), ("operator*=", "DC", "op*="), ("operator/=", "DC", "op/="), ("operator%=", "DC", "op%="),
        ("operator&=", "DC", "op&="), ("operator|=", "DC", "op|="), ("operator^=", "DC", "op^=")):
    put("RecInt", nm, sh + ":" + U, "RU:" + op)
put("RecInt", "div_r", "DxC:T", "RU:div_r.w")
put("RecInt", "mod_n", "DxC:" + U, "RU:mod_n.l")
put("RecInt", "lmul_kara", "DDCC:" + U, "~RU:mul,mulin,op*= documented 'NOT safe' for outputs that are inputs (rumul.h); reached through mul / lmul at K >= 11, "
    "where the callers pass locals; the half-sum order is checked through RecInt::mul (seeded change C15-m3)")
put("RecInt", "lmul", "xDCx:" + U, "~RU:mul.w word form lmul(limb& ah, ruint& al, b, T c): the body of mul(a, b, T c), driven there")
put("RecInt", "laddmul", "xDDCCx:" + U, "~RM:mul,reduction,inv wide addend ruint<K+1>: the Montgomery reduction of rmint<K,MG_ACTIVE> and Montgomery<ruint<K>> "
    "calls it with the destination being the addend's source (documented safe in rmgreduc.h); driven through those")
put("RecInt", "laddmul", "xDxxC:ruint<K+1>", "~RM:mul,reduction wide destination and wide addend; the callers pass locals")
for nm, sh in (("div_2_1", "DDCCC"), ("div_3_2", "DDDCCCCC")):
    put("RecInt", nm, sh + ":" + U, "~RU:div,div_q,div_r internal steps of div(q,r,a,b) on normalised local copies (rudiv.h); driven through div")
put("RecInt", "udiv_qrnd", "DDCC:limb", "~RU:div the one-limb body of div(q,r,a,b) (K = 6): driven through div, div.w (seeded change C15-m5)")
for nm in ("add_wc", "sub_wc"):
    put("RecInt", nm, "DxxC:bool", "!one-limb carry primitive on native words (limb) with bool carries; reached through every K = 6 addition")
I = "rint<K>"
for nm, sh, op in (
        ("add", "DC", "addin"), ("add", "DCC", "add"), ("add", "DCx", "add.w"), ("add", "xDC", "addin.c"), ("add", "xDCC", "add.c"), ("add", "xDCx", "add.cw"),
        ("add_1", "DC", "add_1"), ("add_1", "xDC", "add_1.c"),
        ("sub", "DC", "subin"), ("sub", "DCC", "sub"), ("sub", "DCx", "sub.w"), ("sub", "xDC", "subin.c"), ("sub", "xDCC", "sub.c"), ("sub", "xDCx", "sub.cw"),
        ("sub_1", "DC", "sub_1"), ("sub_1", "xDC", "sub_1.c"), ("addmul", "DCC", "addmul"), ("copy", "DC", "copy"),
        ("div_q", "DCC", "div_q"), ("div_q", "DCx", "div_q.w"), ("div_r", "DCC", "div_r"), ("inv_mod", "DCC", "inv_mod"),
        ("mod_n", "DC", "mod_nin"), ("mod_n", "DxC", "mod_n"), ("mul", "DC", "mulin"), ("mul", "DCC", "mul"), ("mul", "DCx", "mul.w"), ("neg", "DC", "neg"),
        ("operator+=", "DC", "op+="), ("operator-=", "DC", "op-="), ("operator*=", "DC", "op*="), ("operator/=", "DC", "op/="), ("operator%=", "DC", "op%="),
        ("operator&=", "DC", "op&="), ("operator|=", "DC", "op|="), ("operator^=", "DC", "op^=")):
    put("RecInt", nm, sh + ":" + I, "RI:" + op)
M = "rmint<K,MG>"
for nm, sh, op in (
        ("add", "DC", "addin"), ("add", "DCC", "add"), ("add", "DCx", "add.u64,add.i64"), ("sub", "DC", "subin"), ("sub", "DCC", "sub"), ("sub", "DCx", "sub.u64,sub.i64"),
        ("mul", "DC", "mulin"), ("mul", "DCC", "mul"), ("div", "DC", "divin"), ("div", "DCC", "div"), ("div", "DCx", "div.u64,div.i64"),
        ("mod", "DC", "modin"), ("mod", "DCC", "mod"), ("mod", "DCx", "mod.u64,mod.i64"), ("neg", "DC", "neg"), ("square", "DC", "square"), ("copy", "DC", "copy"),
        ("square_root", "DC", "square_root"),
        ("operator+=", "DC", "op+="), ("operator-=", "DC", "op-="), ("operator*=", "DC", "op*="), ("operator/=", "DC", "op/="), ("operator%=", "DC", "op%=")):
    put("RecInt", nm, sh + ":" + M, "RM:" + op)
for mg in ("MG_ACTIVE", "MG_INACTIVE"):
    T = "rmint<K,%s>" % mg
    for nm, sh, op in (("addmul", "DCC", "addmul"), ("addmul", "DCx", "addmul.u64,addmul.i64"), ("mul", "DCx", "mul.u64,mul.i64"), ("inv", "DC", "inv"),
                       ("exp", "DCx", "exp.u64,exp.ru"), ("reduction", "DC", "reduction")):
        put("RecInt", nm, sh + ":" + T, "RM:" + op)
put("RecInt", "to_mg", "DC:rmint<K,MG_ACTIVE>", "RM:to_mg")

# ------------------------------------------------------------------ Poly1Dom<Domain,Dense>
P = "Givaro::Poly1Dom"
for nm, sh, op in (
        ("add", "DCC", "add"), ("add", "DCx", "add.s"), ("add", "DxC", "add.sl"), ("addin", "DC", "addin"), ("assign", "DC", "assign"),
        ("sub", "DCC", "sub"), ("sub", "DCx", "sub.s"), ("sub", "DxC", "sub.sl"), ("subin", "DC", "subin"), ("neg", "DC", "neg"),
        ("mul", "DCC", "mul"), ("mul", "DCx", "mul.s"), ("mul", "DxC", "mul.sl"), ("mul", "DCCxx", "mul.trunc"), ("mulin", "DC", "mulin"), ("sqr", "DC", "sqr"),
        ("stdmul", "DCC", "stdmul"), ("karamul", "DCC", "karamul"), ("midmul", "DCC", "midmul"), ("stdmidmul", "DCC", "stdmidmul"), ("karamidmul", "DCC", "karamidmul"),
        ("div", "DCC", "div"), ("div", "DCx", "div.s"), ("div", "DxC", "div.sl"), ("divin", "DC", "divin"), ("mod", "DCC", "mod"), ("mod", "DCx", "mod.s"),
        ("mod", "DxC", "mod.sl"), ("modin", "DC", "modin"), ("divmod", "DDCC", "divmod"), ("divmodin", "DDC", "divmodin"),
        ("pdivmod", "DDxCC", "pdivmod"), ("pmod", "DCC", "pmod"),
        ("axpy", "DCCC", "axpy"), ("axpy", "DxCC", "axpy.s"), ("axpyin", "DCC", "axpyin"), ("axpyin", "DxC", "axpyin.s"),
        ("axmy", "DCCC", "axmy"), ("axmy", "DxCC", "axmy.s"), ("axmyin", "DCC", "axmyin"), ("axmyin", "DxC", "axmyin.s"),
        ("maxpy", "DCCC", "maxpy"), ("maxpy", "DxCC", "maxpy.s"), ("maxpyin", "DCC", "maxpyin"), ("maxpyin", "DxC", "maxpyin.s"),
        ("gcd", "DCC", "gcd"), ("gcd", "DDDCC", "gcd5"), ("lcm", "DCC", "lcm"), ("inv", "DC", "inv"), ("invmod", "DCC", "invmod"), ("invmodunit", "DCC", "invmodunit"),
        ("invmodpowx", "DCx", "invmodpowx"), ("modpowx", "DCx", "modpowx"), ("pow", "DCx", "pow"), ("powmod", "DCxC", "powmod"), ("power_compose", "DCx", "power_compose"),
        ("diff", "DC", "diff"), ("reverse", "DC", "reverse"), ("shift", "DCx", "shift"), ("ratrecon", "DDCCx", "ratrecon"), ("ratrecon", "DDCCxx", "ratrecon.f"),
        ("ratreconcheck", "DDCCx", "ratreconcheck")):
    put(P, nm, sh + ":Rep", "POLY:" + op)
for nm, sh in (("pdiv", "DCC"), ("pdiv", "DxCC"), ("pmod", "DxCC")):
    put(P, nm, sh + ":Rep", "!declared in givpoly1.h but defined nowhere (not callable)")
put(P, "newtoninviter", "DDDCx:Rep", "~POLY:invmodpowx the iteration step of invmodpowx, called with its own locals")
put(P, "eval", "DxC:Type_t", "!the destination is a coefficient, the const operand of the same type the evaluation point: scalars of the base ring")
for nm in ("random", "nonzerorandom"):
    put(P, nm, "xDC:Rep", "!random output (the const operand is a size hint)")

# ------------------------------------------------------------------ not part of the interfaces the property names
OUTSIDE = {
    "Givaro::FracDom": "fractions of polynomials (givfractiondomain.h): built on Poly1Dom operations with local temporaries; not one of the integer / rational / ring / field / polynomial interfaces",
    "Givaro::TruncDom": "truncated power series (givtruncdomain.h): built on Poly1Dom operations; not one of the named interfaces",
    "Givaro::QuotientDom": "quotient of a polynomial domain (givquotientdomain.h): one-line forwards to Poly1Dom operations followed by modin, as Extension",
    "Givaro::VectorDom": "vector domain (givvector.h): element-wise loops over std::vector; not one of the named interfaces",
    "Givaro::HighOrder": "high-order lifting (givhighorder.h): algorithms on truncated series with fixed locals",
    "Givaro::IntFactorDom": "integer factorisation: randomised algorithms, outputs assigned last",
    "Givaro::Poly1FactorDom": "polynomial factorisation: randomised algorithms",
}
for _nm, _sh in (("lambda", "DC"), ("lambda_inv", "DC"), ("lambda_inv_primpow", "DCx"), ("lambda_primpow", "DCx"), ("lowest_prim_root", "DC"), ("order", "DCC"),
                 ("phi", "DC"), ("prim_elem", "DC"), ("prim_inv", "DC"), ("prim_root", "DC"), ("prim_root_of_prime", "DC"), ("probable_prim_root", "DxCx")):
    put("Givaro::IntNumTheoDom", _nm, _sh + ":Rep", "NT:" + _nm)
put("Givaro::IntNumTheoDom", "prim_root", "DxC:Rep", "NT:prim_root.w")
put("Givaro::IntNumTheoDom", "phi", "DxC:Rep", "~NT:phi the form taking the factor list: the body of phi(r, n)")
put("Givaro::IntNumTheoDom", "prim_root_of_prime", "DxCC:Rep", "~NT:prim_root_of_prime the form taking the factor list: the body of prim_root_of_prime(r, p)")
for _nm, _sh in (("Brillhart", "DDC"), ("sqrootmod", "DCC"), ("sqrootmodpoweroftwo", "DCxC"), ("sqrootmodprime", "DCC"), ("sqrootmodprimepower", "DCCxC"),
                 ("sumofsquaresmodprime", "DDCC"), ("sumofsquaresmodprimeDeterministic", "DDCC"), ("sumofsquaresmodprimeMonteCarlo", "DDCC"),
                 ("sumofsquaresmodprimeNoERH", "DDCC"), ("sumofsquaresmodprimewithnonresidue", "DDCCC")):
    put("Givaro::IntSqrtModDom", _nm, _sh + ":Rep", "NT:" + _nm)
OUTSIDE_FREE = {("Givaro", "Lenstra"): "IntFactorDom", ("Givaro", "Pollard"): "IntFactorDom",
                ("Givaro", "SplitFactor"): "Poly1FactorDom"}


# ------------------------------------------------------------------ SUB-OBJECT aliasing (c15_scan.SUBDECLS): the destination `A&` and a
# const operand `const B&` where B is the type of a member / half / coefficient of A (shape letter S) or the converse
SUBFORMS = {}
_P = "Givaro::Poly1Dom"
for nm, sh, op in (("add", "DCS", "add.s@"), ("add", "DSC", "add.sl@"), ("addin", "DS", "addin.s@"), ("sub", "DCS", "sub.s@"), ("sub", "DSC", "sub.sl@"),
                   ("subin", "DS", "subin.s@"), ("mul", "DCS", "mul.s@"), ("mul", "DSC", "mul.sl@"), ("mulin", "DS", "mulin.s@"), ("div", "DCS", "div.s@"),
                   ("div", "DSC", "div.sl@"), ("divin", "DS", "divin.s@"), ("mod", "DCS", "mod.s@"), ("mod", "DSC", "mod.sl@"), ("modin", "DS", "modin.s@"),
                   ("axpy", "DSCC", "axpy.s@"), ("axmy", "DSCC", "axmy.s@"), ("maxpy", "DSCC", "maxpy.s@"), ("axpyin", "DSC", "axpyin.s@"),
                   ("axmyin", "DSC", "axmyin.s@"), ("maxpyin", "DSC", "maxpyin.s@"), ("assign", "DS", "assign.s@"), ("assign", "DxS", "assign.ds@")):
    SUBFORMS[(_P, nm, "sub:%s:Rep>Type_t" % sh)] = "POLY:" + op
_why = "!the destination is a scalar and the polynomial operand is const: the scalar can only live inside the operand through a second, non-const access path"
for nm, sh in (("assign", "DS"), ("eval", "DSC"), ("getEntry", "DxS"), ("leadcoef", "DS"), ("pdiv", "xDSS"), ("pdivmod", "xxDSS"), ("pmod", "xDSS")):
    SUBFORMS[(_P, nm, "sub:%s:Type_t<Rep" % sh)] = _why
SUBFORMS[(_P, "setEntry", "sub:DSx:Rep>Type_t")] = "!a single coefficient assignment"
for sh in ("DS", "DxS"):
    SUBFORMS[("Givaro::TruncDom", "assign", "sub:%s:Rep>Type_t" % sh)] = "!truncated power series (givtruncdomain.h): not one of the named interfaces"
for mg in ("MG_ACTIVE", "MG_INACTIVE"):
    SUBFORMS[("RecInt", "exp", "sub:DCS:rmint<K,%s>>ruint<K>" % mg)] = "RM:exp.val"
    SUBFORMS[("RecInt", "reduction", "sub:DS:rmint<K,%s>>ruint<K>" % mg)] = "RM:reduction.val"
SUBFORMS[("RecInt", "lmul", "sub:DSS:ruint<K+1>>ruint<K>")] = "RU:lmul.sub"
SUBFORMS[("RecInt", "lmul_naive", "sub:DSS:ruint<K+1>>ruint<K>")] = "~RU:lmul.sub the body of lmul below the Karatsuba threshold"
SUBFORMS[("RecInt", "lmul_kara", "sub:DSS:ruint<K+1>>ruint<K>")] = "~RU:lmul.sub documented 'NOT safe' for outputs that are inputs (rumul.h); above the threshold only"
SUBFORMS[("RecInt", "lmul", "sub:DSx:ruint<K+1>>ruint<K>")] = "~RU:lmul.sub word form of lmul, the same limb loop"
SUBFORMS[("RecInt", "lsquare", "sub:DS:ruint<K+1>>ruint<K>")] = "RU:lsquare.sub"
SUBFORMS[("RecInt", "laddmul", "sub:DSSS:ruint<K+1>>ruint<K>")] = "RU:laddmul.sub"
SUBFORMS[("RecInt", "laddmul", "sub:xDSSS:ruint<K+1>>ruint<K>")] = "~RU:laddmul.sub the same body returning the carry"
SUBFORMS[("RecInt", "laddmul", "sub:xDSSC:ruint<K+1>>ruint<K>")] = "~RU:laddmul.sub,RM:mul wide addend; the callers pass locals"
SUBFORMS[("RecInt", "laddmul", "sub:xDDCCS:ruint<K><ruint<K+1>")] = "~RM:reduction.val,reduction,mul the Montgomery reduction passes the destination as the wide addend's source (documented safe in rmgreduc.h)"
SUBFORMS[("RecInt", "left_shift", "sub:DSx:ruint<K+1>>ruint<K>")] = ("!declared 'Internal use' in rushift.h (b = a << d into a double-width b): its callers (rudiv.h div, "
    "normalisation) pass a local destination; with a being b.High the result is wrong, outside its documented use")
SUBFORMS[("RecInt", "mod_n", "sub:DSC:ruint<K><ruint<K+1>")] = "RU:mod_n.sub"


def lookup_sub(key):
    return SUBFORMS.get(key)


def lookup(key):
    """target string for a declaration key, or None"""
    if key in FORMS:
        return FORMS[key]
    if key[0] in OUTSIDE:
        return "!" + OUTSIDE[key[0]]
    if (key[0], key[1]) in OUTSIDE_FREE and OUTSIDE_FREE[(key[0], key[1])]:
        return "!" + OUTSIDE["Givaro::" + OUTSIDE_FREE[(key[0], key[1])]]
    return None
