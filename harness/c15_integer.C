// C15 alias harness: every three-address / multi-output operation of Givaro::Integer (static members and
// friends), the Rational compound operators and every QField<Rational> operation.
// dom "Z": positions are Integer objects;  dom "Q": positions are Rational objects "n/d".
// Scalars (int64_t/uint64_t operands and exponents) come in the extra tokens.   See c15_common.h.
#include "givinteger.h"
#include "givrational.h"
#include "qfield.h"
#include "c15_common.h"

using namespace Givaro;

struct IOZ {
    static Integer parse(const std::string& s) { return Integer(s.c_str()); }
    static std::string show(const Integer& x) { std::ostringstream o; o << x; return o.str(); }
};
struct IOQ {
    static Rational parse(const std::string& s) {
        size_t k = s.find('/');
        Integer n(s.substr(0, k).c_str()), d(k == std::string::npos ? "1" : s.substr(k + 1).c_str());
        return Rational(n, d, 0);           // taken as given: the python side supplies canonical fractions
    }
    static std::string show(const Rational& x) { std::ostringstream o; o << x.nume() << "/" << x.deno(); return o.str(); }
};
static int64_t  si(const std::string& s) { return (int64_t) strtoll(s.c_str(), 0, 10); }
static uint64_t ui(const std::string& s) { return (uint64_t) strtoull(s.c_str(), 0, 10); }
static std::string str(int64_t x) { return std::to_string((long long) x); }
static std::string stu(uint64_t x) { return std::to_string((unsigned long long) x); }

struct ZOp {
    std::string op; const Args& x;
    ZOp(const std::string& o, const Args& e) : op(o), x(e) {}
    bool operator()(std::vector<Integer*>& o, std::string& ret) {
        typedef Integer I;
#define P(k) (*o[k])
        // ---- two operands, Integer forms
        if (op == "add") I::add(P(0), P(1), P(2));
        else if (op == "sub") I::sub(P(0), P(1), P(2));
        else if (op == "mul") I::mul(P(0), P(1), P(2));
        else if (op == "div") I::div(P(0), P(1), P(2));
        else if (op == "divexact") I::divexact(P(0), P(1), P(2));
        else if (op == "mod") I::mod(P(0), P(1), P(2));
        else if (op == "trem") I::trem(P(0), P(1), P(2));
        else if (op == "crem") I::crem(P(0), P(1), P(2));
        else if (op == "frem") I::frem(P(0), P(1), P(2));
        else if (op == "ceil") I::ceil(P(0), P(1), P(2));
        else if (op == "floor") I::floor(P(0), P(1), P(2));
        else if (op == "trunc") I::trunc(P(0), P(1), P(2));
        else if (op == "gcd") gcd(P(0), P(1), P(2));
        else if (op == "lcm") lcm(P(0), P(1), P(2));
        else if (op == "inv") inv(P(0), P(1), P(2));
        // ---- in-place, Integer forms
        else if (op == "addin") I::addin(P(0), P(1));
        else if (op == "subin") I::subin(P(0), P(1));
        else if (op == "mulin") I::mulin(P(0), P(1));
        else if (op == "divin") I::divin(P(0), P(1));
        else if (op == "modin") I::modin(P(0), P(1));
        else if (op == "invin") invin(P(0), P(1));
        else if (op == "op+=") P(0) += P(1);
        else if (op == "op-=") P(0) -= P(1);
        else if (op == "op*=") P(0) *= P(1);
        else if (op == "op/=") P(0) /= P(1);
        else if (op == "op%=") P(0) %= P(1);
        else if (op == "op=") P(0) = P(1);
        else if (op == "op=+") P(0) = P(1) + P(2);
        else if (op == "op=-") P(0) = P(1) - P(2);
        else if (op == "op=*") P(0) = P(1) * P(2);
        else if (op == "op=/") P(0) = P(1) / P(2);
        else if (op == "op=%") P(0) = P(1) % P(2);
        else if (op == "neg") I::neg(P(0), P(1));
        else if (op == "negin") I::negin(P(0));
        else if (op == "sqrt") sqrt(P(0), P(1));
        else if (op == "sqrtrem") sqrtrem(P(0), P(1), P(2));            // (q, a, rem)
        else if (op == "sqrtrem.val") { Integer q = sqrtrem(P(1), P(0)); ret = IOZ::show(q); }   // positions (rem, a)
        else if (op == "swap") swap(P(0), P(1));
        // ---- scalar second operand: positions (res, n1), scalar x[0]
        else if (op == "add.i64") I::add(P(0), P(1), si(x[0]));
        else if (op == "add.u64") I::add(P(0), P(1), ui(x[0]));
        else if (op == "add.i32") I::add(P(0), P(1), (int32_t) si(x[0]));
        else if (op == "add.u32") I::add(P(0), P(1), (uint32_t) ui(x[0]));
        else if (op == "sub.i64") I::sub(P(0), P(1), si(x[0]));
        else if (op == "sub.u64") I::sub(P(0), P(1), ui(x[0]));
        else if (op == "sub.i32") I::sub(P(0), P(1), (int32_t) si(x[0]));
        else if (op == "sub.u32") I::sub(P(0), P(1), (uint32_t) ui(x[0]));
        else if (op == "mul.i64") I::mul(P(0), P(1), si(x[0]));
        else if (op == "mul.u64") I::mul(P(0), P(1), ui(x[0]));
        else if (op == "mul.i32") I::mul(P(0), P(1), (int32_t) si(x[0]));
        else if (op == "mul.u32") I::mul(P(0), P(1), (uint32_t) ui(x[0]));
        else if (op == "div.i64") I::div(P(0), P(1), si(x[0]));
        else if (op == "div.i32") I::div(P(0), P(1), (int32_t) si(x[0]));
        else if (op == "div.u64") I::div(P(0), P(1), ui(x[0]));
        else if (op == "divexact.i64") { int64_t d = si(x[0]); I::divexact(P(0), P(1), d); }
        else if (op == "divexact.u64") { uint64_t d = ui(x[0]); I::divexact(P(0), P(1), d); }
        else if (op == "mod.i64") I::mod(P(0), P(1), si(x[0]));
        else if (op == "mod.u64") I::mod(P(0), P(1), ui(x[0]));
        else if (op == "mod.i32") I::mod(P(0), P(1), (int32_t) si(x[0]));
        else if (op == "mod.u32") I::mod(P(0), P(1), (uint32_t) ui(x[0]));
        else if (op == "trem.u64") { uint64_t d = ui(x[0]); I::trem(P(0), P(1), d); }
        else if (op == "crem.u64") { uint64_t d = ui(x[0]); I::crem(P(0), P(1), d); }
        else if (op == "frem.u64") { uint64_t d = ui(x[0]); I::frem(P(0), P(1), d); }
        else if (op == "pow.i64") pow(P(0), P(1), si(x[0]));
        else if (op == "pow.u64") pow(P(0), P(1), ui(x[0]));
        else if (op == "pow.i32") pow(P(0), P(1), (int32_t) si(x[0]));
        else if (op == "pow.u32") pow(P(0), P(1), (uint32_t) ui(x[0]));
        else if (op == "root") { bool e = root(P(0), P(1), (uint32_t) ui(x[0])); ret = e ? "1" : "0"; }
        // ---- divmod
        else if (op == "divmod") I::divmod(P(0), P(1), P(2), P(3));      // (q, r, a, b)
        else if (op == "divmod.i64") { int64_t r = 12345; I::divmod(P(0), r, P(1), si(x[0])); ret = str(r); }   // (q, a)
        else if (op == "divmod.u64") { uint64_t r = 12345; I::divmod(P(0), r, P(1), ui(x[0])); ret = stu(r); }
        // ---- fused: (res, a, x, b) / (res, a, x); uint64_t x forms: (res, a, b) / (res, a)
        else if (op == "axpy") I::axpy(P(0), P(1), P(2), P(3));
        else if (op == "maxpy") I::maxpy(P(0), P(1), P(2), P(3));
        else if (op == "axmy") I::axmy(P(0), P(1), P(2), P(3));
        else if (op == "axpyin") I::axpyin(P(0), P(1), P(2));
        else if (op == "maxpyin") I::maxpyin(P(0), P(1), P(2));
        else if (op == "axmyin") I::axmyin(P(0), P(1), P(2));
        else if (op == "axpy.u64") I::axpy(P(0), P(1), ui(x[0]), P(2));
        else if (op == "maxpy.u64") I::maxpy(P(0), P(1), ui(x[0]), P(2));
        else if (op == "axmy.u64") I::axmy(P(0), P(1), ui(x[0]), P(2));
        else if (op == "axpyin.u64") I::axpyin(P(0), P(1), ui(x[0]));
        else if (op == "maxpyin.u64") I::maxpyin(P(0), P(1), ui(x[0]));
        else if (op == "axmyin.u64") I::axmyin(P(0), P(1), ui(x[0]));
        // ---- extended gcd
        else if (op == "gcd5") gcd(P(0), P(1), P(2), P(3), P(4));       // (g, u, v, a, b)
        else if (op == "gcd4") { Integer g = gcd(P(0), P(1), P(2), P(3)); ret = IOZ::show(g); }   // (u, v, a, b)
        // ---- powmod: (Res, n, m) with scalar exponent; (Res, n, e, m) with Integer exponent
        else if (op == "powmod.i64") powmod(P(0), P(1), si(x[0]), P(2));
        else if (op == "powmod.u64") powmod(P(0), P(1), ui(x[0]), P(2));
        else if (op == "powmod.i32") powmod(P(0), P(1), (int32_t) si(x[0]), P(2));
        else if (op == "powmod.u32") powmod(P(0), P(1), (uint32_t) ui(x[0]), P(2));
        else if (op == "powmod") powmod(P(0), P(1), P(2), P(3));
        else return false;
#undef P
        return true;
    }
};

struct QOp {
    std::string op; const Args& x;
    QOp(const std::string& o, const Args& e) : op(o), x(e) {}
    bool operator()(std::vector<Rational*>& o, std::string& ret) {
        static QField<Rational> F;
#define P(k) (*o[k])
        if (op == "add") F.add(P(0), P(1), P(2));
        else if (op == "sub") F.sub(P(0), P(1), P(2));
        else if (op == "mul") F.mul(P(0), P(1), P(2));
        else if (op == "div") F.div(P(0), P(1), P(2));
        else if (op == "addin") F.addin(P(0), P(1));
        else if (op == "subin") F.subin(P(0), P(1));
        else if (op == "mulin") F.mulin(P(0), P(1));
        else if (op == "divin") F.divin(P(0), P(1));
        else if (op == "axpy") F.axpy(P(0), P(1), P(2), P(3));
        else if (op == "maxpy") F.maxpy(P(0), P(1), P(2), P(3));
        else if (op == "axmy") F.axmy(P(0), P(1), P(2), P(3));
        else if (op == "axpyin") F.axpyin(P(0), P(1), P(2));
        else if (op == "maxpyin") F.maxpyin(P(0), P(1), P(2));
        else if (op == "axmyin") F.axmyin(P(0), P(1), P(2));
        else if (op == "neg") F.neg(P(0), P(1));
        else if (op == "negin") F.negin(P(0));
        else if (op == "inv") F.inv(P(0), P(1));
        else if (op == "invin") F.invin(P(0));
        else if (op == "assign") F.assign(P(0), P(1));
        else if (op == "pow.u64") F.pow(P(0), P(1), ui(x[0]));
        else if (op == "pow.u32") F.pow(P(0), P(1), (uint32_t) ui(x[0]));
        else if (op == "op+=") P(0) += P(1);
        else if (op == "op-=") P(0) -= P(1);
        else if (op == "op*=") P(0) *= P(1);
        else if (op == "op/=") P(0) /= P(1);
        else if (op == "op=") P(0) = P(1);
        else if (op == "op=+") P(0) = P(1) + P(2);
        else if (op == "op=-") P(0) = P(1) - P(2);
        else if (op == "op=*") P(0) = P(1) * P(2);
        else if (op == "op=/") P(0) = P(1) / P(2);
        else if (op == "op=neg") P(0) = -P(1);
        else return false;
#undef P
        return true;
    }
};

static std::string goZ(const Case& c) { ZOp op(c.op, c.extra); return run_two<Integer, IOZ>(c, op); }
static std::string goQ(const Case& c) { QOp op(c.op, c.extra); return run_two<Rational, IOQ>(c, op); }
// dom "QN": the same operations with the process-wide mode Rational::SetNoReduce() (results are not reduced: the python
// side compares VALUES).  The flag is set for the case and restored; these cases also run in a harness process of their own.
static std::string goQN(const Case& c) {
    Rational::SetNoReduce();
    QOp op(c.op, c.extra);
    std::string r = run_two<Rational, IOQ>(c, op);
    Rational::SetReduce();
    return r;
}

int main() {
    dom_table()["Z"] = &goZ;
    dom_table()["Q"] = &goQ;
    dom_table()["QN"] = &goQN;
    return main_loop();
}
