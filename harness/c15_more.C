// C15 alias harness, further families:
//   dom "ZR"   the Integer-specific operations of ZRing<Integer> (givinteger.h: gcd / lcm / quo / rem / divmod / divexact /
//              invmod / pow / powmod / sqrt / dxgcd / rational reconstruction ...), Protected::nextprime / prevprime and
//              IntPrimeDom::nextprime / prevprime / isprimepower.  Positions are Integer objects.
//   dom "CRT"  ChineseRemainder<ZRing<Integer>, Modular<Integer>, fast / not fast>::operator()(res, A, e): positions are
//              Integers (RingElement and DomainElement are both Integer); param = "M,p" (M the product so far, p the new
//              modulus, coprime)
//   dom "gf2"  GF2 (Element = bool "0"/"1"): the ring interface
//   dom "log16" Modular<Log16>(p): the ring interface on Rep (discrete logarithms; raw representatives 0 .. p-1,
//              supplied through init of a value so that they are valid)
// See c15_common.h for the line protocol.
#include "givinteger.h"
#include "givintprime.h"
#include "givintnumtheo.h"
#include "givintsqrootmod.h"
#include "modular.h"
#include "modular-log16.h"
#include "gf2.h"
#include "chineseremainder.h"
#include "c15_common.h"

using namespace Givaro;

struct IOZ {
    static Integer parse(const std::string& s) { return Integer(s.c_str()); }
    static std::string show(const Integer& x) { std::ostringstream o; o << x; return o.str(); }
};
static int64_t  si(const std::string& s) { return (int64_t) strtoll(s.c_str(), 0, 10); }
static uint64_t ui(const std::string& s) { return (uint64_t) strtoull(s.c_str(), 0, 10); }

struct ZROp {
    std::string op; const Args& x;
    ZROp(const std::string& o, const Args& e) : op(o), x(e) {}
    bool operator()(std::vector<Integer*>& o, std::string& ret) {
        static ZRing<Integer> Z; static IntPrimeDom IP;
#define P(k) (*o[k])
        if (op == "abs") Z.abs(P(0), P(1));
        else if (op == "assign") Z.assign(P(0), P(1));
        else if (op == "reduce") Z.reduce(P(0), P(1));
        else if (op == "mod") Z.mod(P(0), P(1), P(2));
        else if (op == "modin") Z.modin(P(0), P(1));
        else if (op == "divexact") Z.divexact(P(0), P(1), P(2));
        else if (op == "divmod") Z.divmod(P(0), P(1), P(2), P(3));
        else if (op == "gcd") Z.gcd(P(0), P(1), P(2));
        else if (op == "gcd5") Z.gcd(P(0), P(1), P(2), P(3), P(4));
        else if (op == "gcdin") Z.gcdin(P(0), P(1));
        else if (op == "lcm") Z.lcm(P(0), P(1), P(2));
        else if (op == "lcmin") Z.lcmin(P(0), P(1));
        else if (op == "inv3") Z.inv(P(0), P(1), P(2));
        else if (op == "invin2") Z.invin(P(0), P(1));
        else if (op == "invmod") Z.invmod(P(0), P(1), P(2));
        else if (op == "invmodin") Z.invmodin(P(0), P(1));
        else if (op == "pow") Z.pow(P(0), P(1), (uint64_t) ui(x[0]));
        else if (op == "pow.i64") Z.pow(P(0), P(1), (int64_t) si(x[0]));
        else if (op == "pow.i32") Z.pow(P(0), P(1), (int32_t) si(x[0]));
        else if (op == "pow.u32") Z.pow(P(0), P(1), (uint32_t) ui(x[0]));
        else if (op == "powmod") Z.powmod(P(0), P(1), P(2), P(3));
        else if (op == "powmod.w") Z.powmod(P(0), P(1), (int64_t) si(x[0]), P(2));
        else if (op == "sqrt") Z.sqrt(P(0), P(1));
        else if (op == "sqrtrem") Z.sqrt(P(0), P(1), P(2));                 // (s, r, n)
        else if (op == "logtwo") Z.logtwo(P(0), P(1));
        else if (op == "quo") Z.quo(P(0), P(1), P(2));
        else if (op == "rem") Z.rem(P(0), P(1), P(2));
        else if (op == "quoin") Z.quoin(P(0), P(1));
        else if (op == "remin") Z.remin(P(0), P(1));
        else if (op == "quoRem") Z.quoRem(P(0), P(1), P(2), P(3));
        else if (op == "dxgcd") Z.dxgcd(P(0), P(1), P(2), P(3), P(4), P(5), P(6));   // (g, s, t, u, v, a, b)
        else if (op == "RationalReconstruction4") { bool r = Z.RationalReconstruction(P(0), P(1), P(2), P(3)); ret = r ? "1" : "0"; }
        else if (op == "RationalReconstruction7") { bool r = Z.RationalReconstruction(P(0), P(1), P(2), P(3), P(4), x[0] == "1", x[1] == "1"); ret = r ? "1" : "0"; }
        else if (op == "RationalReconstruction6") { bool r = Z.RationalReconstruction(P(0), P(1), P(2), P(3), P(4), P(5)); ret = r ? "1" : "0"; }
        else if (op == "ratrecon7") { bool r = Z.ratrecon(P(0), P(1), P(2), P(3), P(4), x[0] == "1", x[1] == "1"); ret = r ? "1" : "0"; }
        else if (op == "nextprime") Protected::nextprime(P(0), P(1));
        else if (op == "prevprime") Protected::prevprime(P(0), P(1));
        else if (op == "nextprime.dom") IP.nextprime(P(0), P(1));
        else if (op == "prevprime.dom") IP.prevprime(P(0), P(1));
        else if (op == "isprimepower") {        // r is specified only when the answer is not 0
            unsigned int k = IP.isprimepower(P(0), P(1)); ret = std::to_string(k);
            if (k == 0) P(0) = Integer(P(1));
        }
        else return false;
#undef P
        return true;
    }
};
// ---------------------------------------------------------------- number theory: IntNumTheoDom, IntSqrtModDom (Integer outputs)
struct NTOp {
    std::string op; const Args& x;
    NTOp(const std::string& o, const Args& e) : op(o), x(e) {}
    bool operator()(std::vector<Integer*>& o, std::string& ret) {
        static IntNumTheoDom<> N; static IntSqrtModDom<> S;
        uint64_t k = x.empty() ? 0 : ui(x[0]);
#define P(k) (*o[k])
        if (op == "phi") N.phi(P(0), P(1));
        else if (op == "lambda") N.lambda(P(0), P(1));
        else if (op == "lambda_inv") N.lambda_inv(P(0), P(1));
        else if (op == "lambda_primpow") N.lambda_primpow(P(0), P(1), k);
        else if (op == "lambda_inv_primpow") N.lambda_inv_primpow(P(0), P(1), k);
        else if (op == "order") N.order(P(0), P(1), P(2));                       // (r, g, p)
        else if (op == "lowest_prim_root") N.lowest_prim_root(P(0), P(1));
        else if (op == "prim_root") N.prim_root(P(0), P(1));
        else if (op == "prim_root.w") { uint64_t runs = 0; N.prim_root(P(0), runs, P(1)); }
        else if (op == "prim_root_of_prime") N.prim_root_of_prime(P(0), P(1));
        else if (op == "probable_prim_root") { double e = 0; N.probable_prim_root(P(0), e, P(1), (uint64_t) 1000); }
        else if (op == "prim_inv") N.prim_inv(P(0), P(1));
        else if (op == "prim_elem") N.prim_elem(P(0), P(1));
        else if (op == "sqrootmod") S.sqrootmod(P(0), P(1), P(2));               // (x, a, n)
        else if (op == "sqrootmodprime") S.sqrootmodprime(P(0), P(1), P(2));
        else if (op == "sqrootmodprimepower") S.sqrootmodprimepower(P(0), P(1), P(2), k, P(3));   // (x, a, p, pk) + k
        else if (op == "sqrootmodpoweroftwo") S.sqrootmodpoweroftwo(P(0), P(1), k, P(2));         // (x, a, pk) + k
        else if (op == "Brillhart") S.Brillhart(P(0), P(1), P(2));               // (a, b, p)
        else if (op == "sumofsquaresmodprime") S.sumofsquaresmodprime(P(0), P(1), P(2), P(3));    // (a, b, k, p)
        else if (op == "sumofsquaresmodprimeDeterministic") S.sumofsquaresmodprimeDeterministic(P(0), P(1), P(2), P(3));
        else if (op == "sumofsquaresmodprimeMonteCarlo") S.sumofsquaresmodprimeMonteCarlo(P(0), P(1), P(2), P(3));
        else if (op == "sumofsquaresmodprimeNoERH") S.sumofsquaresmodprimeNoERH(P(0), P(1), P(2), P(3));
        else if (op == "sumofsquaresmodprimewithnonresidue") S.sumofsquaresmodprimewithnonresidue(P(0), P(1), P(2), P(3), P(4));
        else return false;
#undef P
        (void) ret;
        return true;
    }
};
static std::string goNT(const Case& c) {
    if (c.op == "__prepare__") return "";
    NTOp op(c.op, c.extra);
    try { return run_two<Integer, IOZ>(c, op); } catch (...) { return "EXCEPTION"; }
}

static std::string goZR(const Case& c) {
    if (c.op == "__prepare__") return "";
    ZROp op(c.op, c.extra);
    try { return run_two<Integer, IOZ>(c, op); } catch (...) { return "EXCEPTION"; }
}

// ---------------------------------------------------------------- Chinese remaindering
struct CRTOp {
    std::string op; Integer M, p;
    CRTOp(const std::string& o, const Integer& m, const Integer& q) : op(o), M(m), p(q) {}
    bool operator()(std::vector<Integer*>& o, std::string&) {
        ZRing<Integer> Z; Modular<Integer> D(p);
        if (op == "crt") { ChineseRemainder<ZRing<Integer>, Modular<Integer>, true> C(Z, M, D); C(*o[0], *o[1], *o[2]); }
        else if (op == "crt.nf") { ChineseRemainder<ZRing<Integer>, Modular<Integer>, false> C(Z, M, D); C(*o[0], *o[1], *o[2]); }
        else return false;
        return true;
    }
};
static std::string goCRT(const Case& c) {
    if (c.op == "__prepare__") return "";
    size_t k = c.param.find(',');
    CRTOp op(c.op, Integer(c.param.substr(0, k).c_str()), Integer(c.param.substr(k + 1).c_str()));
    try { return run_two<Integer, IOZ>(c, op); } catch (...) { return "EXCEPTION"; }
}

// ---------------------------------------------------------------- GF2 and Modular<Log16>
struct IOB {
    static bool parse(const std::string& s) { return s != "0"; }
    static std::string show(const bool& x) { return x ? "1" : "0"; }
};
// std::vector<bool> has no addressable elements: a plain array of bool objects
template <class E, class IOE, class Op>
static std::string run_two_plain(const Case& c, Op& op) {
    std::ostringstream out;
    {
        E f[8];
        for (int k = 0; k < c.n; ++k) f[k] = IOE::parse(c.vals[k][0] == '~' ? c.vals[k].substr(1) : c.vals[k]);
        std::vector<E*> o(c.n);
        for (int k = 0; k < c.n; ++k) o[k] = &f[k];
        std::string ret;
        if (!op(o, ret)) return "UNKNOWN-OP";
        out << "F";
        for (int k = 0; k < c.n; ++k) out << " " << IOE::show(*o[k]);
        emit_partial(out);
    }
    {
        E q[8];
        for (int k = 0; k < c.n; ++k) if (c.vals[k][0] == '~') q[c.idx[k]] = IOE::parse(c.vals[k].substr(1));
        for (int k = 0; k < c.n; ++k) if (c.vals[k][0] != '~') q[c.idx[k]] = IOE::parse(c.vals[k]);
        std::vector<E*> o(c.n);
        for (int k = 0; k < c.n; ++k) o[k] = &q[c.idx[k]];
        std::string ret;
        if (!op(o, ret)) return "UNKNOWN-OP";
        out << " | A";
        for (int k = 0; k < c.n; ++k) out << " " << IOE::show(*o[k]);
    }
    return out.str();
}
static std::string goGF2(const Case& c) {
    if (c.op == "__prepare__") return "";
    static GF2 F;
    if (is_div_op(c.op)) { RingDivOp<GF2> op(F, c.op); return run_two_plain<bool, IOB>(c, op); }
    RingOp<GF2> op(F, c.op);
    return run_two_plain<bool, IOB>(c, op);
}
typedef Modular<Log16> L16;
static const L16* g_l16 = 0;
struct IOL {      // text = the residue; the object holds its discrete logarithm (Rep)
    static L16::Rep parse(const std::string& s) { L16::Rep r; g_l16->init(r, (int64_t) atol(s.c_str())); return r; }
    static std::string show(const L16::Rep& x) { int64_t v; g_l16->convert(v, x); return std::to_string((long long) v); }
};
static std::string goL16(const Case& c) {
    static std::unique_ptr<L16> cur; static std::string curp;
    if (!cur || curp != c.param) { cur.reset(new L16((L16::Residu_t) atoi(c.param.c_str()))); curp = c.param; }
    g_l16 = cur.get();
    if (c.op == "__prepare__") return "";
    if (is_div_op(c.op)) { RingDivOp<L16> op(*cur, c.op); return run_two<L16::Rep, IOL>(c, op); }
    RingOp<L16> op(*cur, c.op);
    return run_two<L16::Rep, IOL>(c, op);
}

int main() {
    dom_table()["ZR"] = &goZR;
    dom_table()["CRT"] = &goCRT;
    dom_table()["NT"] = &goNT;
    dom_table()["gf2"] = &goGF2;
    dom_table()["log16"] = &goL16;
    g_fork = true;
    return main_loop();
}
