// C15 probe: does RecInt::neg(rint<K>&, const rint<K>&) (rfiddling.h) compile when instantiated?  In the tree as
// found its body returns `neg(r.Value, c.Value)` (a ruint<K>&) from a function returning rint<K>&: an error at
// instantiation.  The alias harness drives rint neg only when this probe builds (-DC15_RINT_NEG).
#include <recint/recint.h>
int main() { RecInt::rint<6> a(5), b(7); RecInt::neg(a, b); return a == -7 ? 0 : 1; }
