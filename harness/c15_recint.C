// C15 alias harness: the three-address free functions of RecInt::ruint<K> (K = param), the primitives the
// RecInt-backed rings are built from (and whose "read the operands, then write" behaviour coq/C15/Model.v assumes).
// dom "RU", param = K.  Scalars (shift counts, carries) in the extra tokens.   See c15_common.h.
#include "givinteger.h"
#include <recint/recint.h>
#include "c15_common.h"

using namespace Givaro;
using namespace RecInt;

template <size_t K> struct IOR {
    static ruint<K> parse(const std::string& s) { Integer z(s.c_str()); ruint<K> r(z); return r; }
    static std::string show(const ruint<K>& x) { Integer z(x); std::ostringstream o; o << z; return o.str(); }
};

template <size_t K> struct ROp {
    typedef ruint<K> E;
    std::string op; const Args& x;
    ROp(const std::string& o, const Args& e) : op(o), x(e) {}
    bool operator()(std::vector<E*>& o, std::string& ret) {
#define P(k) (*o[k])
        unsigned long s = x.empty() ? 0 : strtoul(x[0].c_str(), 0, 10);
        if (op == "add") add(P(0), P(1), P(2));
        else if (op == "add.c") { bool r; add(r, P(0), P(1), P(2)); ret = r ? "1" : "0"; }
        else if (op == "addin") add(P(0), P(1));
        else if (op == "addin.c") { bool r; add(r, P(0), P(1)); ret = r ? "1" : "0"; }
        else if (op == "add_1") add_1(P(0), P(1));
        else if (op == "add_wc") add_wc(P(0), P(1), P(2), s != 0);
        else if (op == "add_wcin") add_wc(P(0), P(1), s != 0);
        else if (op == "add.w") add(P(0), P(1), (uint64_t) s);
        else if (op == "sub") sub(P(0), P(1), P(2));
        else if (op == "sub.c") { bool r; sub(r, P(0), P(1), P(2)); ret = r ? "1" : "0"; }
        else if (op == "subin") sub(P(0), P(1));
        else if (op == "sub_1") sub_1(P(0), P(1));
        else if (op == "sub_wc") sub_wc(P(0), P(1), P(2), s != 0);
        else if (op == "sub.w") sub(P(0), P(1), (uint64_t) s);
        else if (op == "neg") neg(P(0), P(1));
        else if (op == "mul") mul(P(0), P(1), P(2));
        else if (op == "mulin") mul(P(0), P(1));
        else if (op == "mul.w") mul(P(0), P(1), (uint64_t) s);
        else if (op == "square") square(P(0), P(1));
        else if (op == "addmul") addmul(P(0), P(1), P(2));
        else if (op == "addmul.w") addmul(P(0), P(1), (uint64_t) s);
        else if (op == "lmul") lmul(P(0), P(1), P(2), P(3));                  // (ah, al, b, c)
        else if (op == "lmul_naive") lmul_naive(P(0), P(1), P(2), P(3));
        else if (op == "laddmul") laddmul(P(0), P(1), P(2), P(3), P(4));      // (ah, al, b, c, d)
        else if (op == "div") div(P(0), P(1), P(2), P(3));                    // (q, r, a, b)
        else if (op == "div_q") div_q(P(0), P(1), P(2));
        else if (op == "div_r") div_r(P(0), P(1), P(2));
        else if (op == "div_q.w") div_q(P(0), P(1), (uint64_t) s);
        else if (op == "mod_n") mod_n(P(0), P(1), P(2));
        else if (op == "mod_nin") mod_n(P(0), P(1));
        else if (op == "gcd") gcd(P(0), P(1), P(2));
        else if (op == "inv_mod") inv_mod(P(0), P(1), P(2));
        else if (op == "exp_mod") exp_mod(P(0), P(1), P(2), P(3));
        else if (op == "bezout_mod") bezout_mod(P(0), P(1), P(2), P(3));      // (x, y, c, d)
        else if (op == "left_shift") left_shift(P(0), P(1), (unsigned int) s);
        else if (op == "right_shift") right_shift(P(0), P(1), (unsigned int) s);
        else if (op == "left_shift_1") left_shift_1(P(0), P(1));
        else if (op == "right_shift_1") right_shift_1(P(0), P(1));
        else if (op == "copy") copy(P(0), P(1));
        // forms with a carry / borrow / shifted-out bit returned through a bool&, native-word operands, Arazi-Qi inverse
        else if (op == "add.cw") { bool r; add(r, P(0), P(1), (uint64_t) s); ret = r ? "1" : "0"; }
        else if (op == "addin.cw") { bool r; add(r, P(0), (uint64_t) s); ret = r ? "1" : "0"; }
        else if (op == "addin.w") add(P(0), (uint64_t) s);
        else if (op == "sub.cw") { bool r; sub(r, P(0), P(1), (uint64_t) s); ret = r ? "1" : "0"; }
        else if (op == "subin.cw") { bool r; sub(r, P(0), (uint64_t) s); ret = r ? "1" : "0"; }
        else if (op == "subin.w") sub(P(0), (uint64_t) s);
        else if (op == "subin.c") { bool r; sub(r, P(0), P(1)); ret = r ? "1" : "0"; }
        else if (op == "add_1.c") { bool r; add_1(r, P(0), P(1)); ret = r ? "1" : "0"; }
        else if (op == "sub_1.c") { bool r; sub_1(r, P(0), P(1)); ret = r ? "1" : "0"; }
        else if (op == "add_wc.c") { bool r; add_wc(r, P(0), P(1), P(2), s != 0); ret = r ? "1" : "0"; }
        else if (op == "add_wcin.c") { bool r; add_wc(r, P(0), P(1), s != 0); ret = r ? "1" : "0"; }
        else if (op == "sub_wc.c") { bool r; sub_wc(r, P(0), P(1), P(2), s != 0); ret = r ? "1" : "0"; }
        else if (op == "sub_wcin.c") { bool r; sub_wc(r, P(0), P(1), s != 0); ret = r ? "1" : "0"; }
        else if (op == "sub_wcin") sub_wc(P(0), P(1), s != 0);
        else if (op == "left_shift_1.c") { bool z; left_shift_1(z, P(0), P(1)); ret = z ? "1" : "0"; }
        else if (op == "right_shift_1.c") { bool z; right_shift_1(z, P(0), P(1)); ret = z ? "1" : "0"; }
        else if (op == "arazi_qi") arazi_qi(P(0), P(1));
        else if (op == "mod_n.l") { Integer z(x[0].c_str()); ruint<K + 1> b(z); mod_n(P(0), b, P(1)); }     // (a, wide b, n)
        else if (op == "mulin.w") mul(P(0), (uint64_t) s);
        else if (op == "laddmul.c") { bool r; laddmul(r, P(0), P(1), P(2), P(3), P(4)); ret = r ? "1" : "0"; }
        else if (op == "exp_mod.w") exp_mod(P(0), P(1), (uint64_t) s, P(2));
        else if (op == "div.w") {          // div(q, T& r, a, const T& b); extra: b, then 1 if r and b are the same word
            uint64_t b = (uint64_t) s, r = 0; bool same = x.size() > 1 && x[1] == "1";
            if (same) { div(P(0), b, P(1), b); r = b; } else div(P(0), r, P(1), b);
            ret = std::to_string((unsigned long long) r);
        }
        else if (op == "div_r.w") {        // div_r(T& r, a, const T& b)
            uint64_t b = (uint64_t) s, r = 0; bool same = x.size() > 1 && x[1] == "1";
            if (same) { div_r(b, P(0), b); r = b; } else div_r(r, P(0), b);
            ret = std::to_string((unsigned long long) r);
        }
        else if (op == "op+=") P(0) += P(1);
        else if (op == "op-=") P(0) -= P(1);
        else if (op == "op*=") P(0) *= P(1);
        else if (op == "op/=") P(0) /= P(1);
        else if (op == "op%=") P(0) %= P(1);
        else if (op == "op&=") P(0) &= P(1);
        else if (op == "op|=") P(0) |= P(1);
        else if (op == "op^=") P(0) ^= P(1);
        else if (op == "op<<=") P(0) <<= (unsigned int) s;
        else if (op == "op>>=") P(0) >>= (unsigned int) s;
        else if (op == "op=+") P(0) = P(1) + P(2);
        else if (op == "op=-") P(0) = P(1) - P(2);
        else if (op == "op=*") P(0) = P(1) * P(2);
        else if (op == "op=/") P(0) = P(1) / P(2);
        else if (op == "op=%") P(0) = P(1) % P(2);
        else return false;
#undef P
        return true;
    }
};

// SUB-OBJECT aliasing: a ruint<K> operand that is the Low / High half of the double-width object the call also takes.
//   lmul.sub (wl, wh, b, c)  lsquare.sub (wl, wh, b)  laddmul.sub (wl, wh, b, c, d)  left_shift.sub (wl, wh, a) + count:
//        W = (wh|wl) is the ruint<K+1> destination; an operand whose class index equals that of wl (wh) IS W.Low (W.High)
//   mod_n.sub (a, bl, bh, n): mod_n(a, B, n) with the ruint<K+1> dividend B = (bh|bl); a destination a whose class index
//        equals that of bl (bh) IS B.Low (B.High)
template <size_t K> static std::string run_wide(const Case& c) {
    typedef ruint<K> E; typedef ruint<K + 1> WE;
    std::ostringstream out;
    unsigned long s = c.extra.empty() ? 0 : strtoul(c.extra[0].c_str(), 0, 10);
    for (int pass = 0; pass < 2; ++pass) {
        std::vector<E> own(c.n);
        for (int k = 0; k < c.n; ++k) own[k] = IOR<K>::parse(c.vals[k][0] == '~' ? c.vals[k].substr(1) : c.vals[k]);
        std::vector<int> idx(c.n);
        for (int k = 0; k < c.n; ++k) idx[k] = pass == 0 ? k : c.idx[k];
        if (pass == 1) {      // class values: a read operand gives its class the value
            std::map<int, E> cv;
            for (int k = 0; k < c.n; ++k) if (c.vals[k][0] == '~') cv[idx[k]] = own[k];
            for (int k = 0; k < c.n; ++k) if (c.vals[k][0] != '~') cv[idx[k]] = own[k];
            for (int k = 0; k < c.n; ++k) own[k] = cv[idx[k]];
        }
        WE W; std::vector<E*> o(c.n);
        int lo = c.op == "mod_n.sub" ? 1 : 0, hi = lo + 1;
        W.Low = own[lo]; W.High = own[hi];
        for (int k = 0; k < c.n; ++k) {
            int j = k;
            for (int m = 0; m < k; ++m) if (idx[m] == idx[k]) { j = m; break; }      // first position of the class
            o[k] = j == lo ? &W.Low : j == hi ? &W.High : &own[j];
        }
        if (c.op == "lmul.sub") lmul(W, *o[2], *o[3]);
        else if (c.op == "lsquare.sub") lsquare(W, *o[2]);
        else if (c.op == "laddmul.sub") laddmul(W, *o[2], *o[3], *o[4]);
        else if (c.op == "left_shift.sub") left_shift(W, *o[2], (unsigned int) s);
        else if (c.op == "mod_n.sub") mod_n(*o[0], W, *o[3]);
        else return "UNKNOWN-OP";
        out << (pass ? " | A" : "F");
        for (int k = 0; k < c.n; ++k) out << " " << IOR<K>::show(*o[k]);
        if (pass == 0) emit_partial(out);
    }
    return out.str();
}
template <size_t K> static std::string goK(const Case& c) {
    if (c.op.size() > 4 && c.op.compare(c.op.size() - 4, 4, ".sub") == 0) return run_wide<K>(c);
    ROp<K> op(c.op, c.extra); return run_two<ruint<K>, IOR<K> >(c, op);
}
static std::string goR(const Case& c) {
    int K = atoi(c.param.c_str());
    switch (K) {
    case 6: return goK<6>(c);
    case 7: return goK<7>(c);
    case 8: return goK<8>(c);
    case 9: return goK<9>(c);
    case 10: return goK<10>(c);
    case 11: return goK<11>(c);
    }
    return "UNSUPPORTED";
}

int main() {
    dom_table()["RU"] = &goR;
    g_fork = true;
    return main_loop();
}
