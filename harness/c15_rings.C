// C15 alias harness: every three-address operation of every Modular / ModularBalanced / ModularExtended /
// Montgomery / ZRing domain, raw elements (canonical representatives supplied by the python side).
// param = the modulus.   See c15_common.h for the line protocol.
#include "givinteger.h"
#include "modular.h"
#include "modular-balanced.h"
#include "modular-extended.h"
#include "montgomery.h"
#include "zring.h"
#include <recint/recint.h>
#include "c15_common.h"

using namespace Givaro;

// ---------------------------------------------------------------- text <-> element
template <class T, class En = void> struct IO;
template <class T> struct IO<T, typename std::enable_if<std::is_integral<T>::value && std::is_signed<T>::value>::type> {
    static T parse(const std::string& s) { return (T) strtoll(s.c_str(), 0, 10); }
    static std::string show(const T& x) { return std::to_string((long long) x); }
};
template <class T> struct IO<T, typename std::enable_if<std::is_integral<T>::value && std::is_unsigned<T>::value>::type> {
    static T parse(const std::string& s) { return (T) strtoull(s.c_str(), 0, 10); }
    static std::string show(const T& x) { return std::to_string((unsigned long long) x); }
};
template <class T> struct IO<T, typename std::enable_if<std::is_floating_point<T>::value>::type> {
    static T parse(const std::string& s) { return (T) strtod(s.c_str(), 0); }
    static std::string show(const T& x) {
        char b[64]; double d = (double) x;
        if (d != std::floor(d)) { snprintf(b, 64, "NONINT(%.17g)", d); return b; }
        snprintf(b, 64, "%.0f", d); std::string r(b); if (r == "-0") r = "0"; return r;
    }
};
template <> struct IO<Integer> {
    static Integer parse(const std::string& s) { return Integer(s.c_str()); }
    static std::string show(const Integer& x) { std::ostringstream o; o << x; return o.str(); }
};
template <size_t K> struct IO<RecInt::ruint<K> > {
    static RecInt::ruint<K> parse(const std::string& s) { Integer z(s.c_str()); RecInt::ruint<K> r(z); return r; }
    static std::string show(const RecInt::ruint<K>& x) { Integer z(x); std::ostringstream o; o << z; return o.str(); }
};
template <size_t K> struct IO<RecInt::rint<K> > {
    static RecInt::rint<K> parse(const std::string& s) { Integer z(s.c_str()); RecInt::rint<K> r(z); return r; }
    static std::string show(const RecInt::rint<K>& x) { Integer z(x); std::ostringstream o; o << z; return o.str(); }
};

template <class Ring> struct ReduceOp {        // reduce(r, a): r <- a mod p, two-address form
    typedef typename Ring::Element E;
    const Ring& F;
    ReduceOp(const Ring& f) : F(f) {}
    bool operator()(std::vector<E*>& o, std::string&) { F.reduce(*o[0], *o[1]); return true; }
};
// Modular<integral S, integral C> with sizeof(S) == sizeof(C): the multiplications with a precomputed quotient
// (modular-mulprecomp.inl); the python side only sends moduli of at most 4 sizeof(C) - 2 bits
template <class Ring, class En = void> struct Precomp {
    static std::string go(const Ring&, const Case&) { return "UNSUPPORTED"; }
};
template <class S, class C> struct Precomp<Modular<S, C>, typename std::enable_if<std::is_integral<S>::value && std::is_integral<C>::value && sizeof(S) == sizeof(C)>::type> {
    typedef Modular<S, C> Ring; typedef typename Ring::Element E;
    struct Op {
        const Ring& F; std::string op;
        Op(const Ring& f, const std::string& o) : F(f), op(o) {}
        bool operator()(std::vector<E*>& o, std::string& ret) {
            typename Ring::Compute_t inv; size_t bits;
            if (op == "mul_precomp_p") { F.precomp_p(inv, bits); F.mul_precomp_p(*o[0], *o[1], *o[2], inv, bits); }
            else if (op == "mul_precomp_b") { F.precomp_b(inv, *o[2]); F.mul_precomp_b(*o[0], *o[1], *o[2], inv); }
            else if (op == "mul_precomp_b_without_reduction") {
                F.precomp_b(inv, *o[2]);
                typename Ring::Residu_t rr = F.mul_precomp_b_without_reduction(*o[0], *o[1], *o[2], inv);
                ret = IO<typename Ring::Residu_t>::show(rr);
            }
            else return false;
            return true;
        }
    };
    static std::string go(const Ring& F, const Case& c) { Op op(F, c.op); return run_two<E, IO<E> >(c, op); }
};

template <class Ring, bool HASDIV> struct Run {
    typedef typename Ring::Element E;
    typedef typename Ring::Residu_t R;
    static std::string go(const Case& c) {
        static std::unique_ptr<Ring> cur; static std::string curp;
        if (c.op == "info") return "INFO " + IO<R>::show(Ring::minCardinality()) + " " + IO<R>::show(Ring::maxCardinality());
        if (!cur || curp != c.param) { cur.reset(new Ring(IO<R>::parse(c.param))); curp = c.param; }
        const Ring& F = *cur;
        if (is_div_op(c.op)) {
            if (!HASDIV) return "UNSUPPORTED";
            return div(F, c, std::integral_constant<bool, HASDIV>());
        }
        if (c.op.compare(0, 11, "mul_precomp") == 0) return Precomp<Ring>::go(F, c);
        if (c.op == "reduce") { ReduceOp<Ring> op(F); return run_two<E, IO<E> >(c, op); }
        RingOp<Ring> op(F, c.op);
        return run_two<E, IO<E> >(c, op);
    }
    static std::string div(const Ring& F, const Case& c, std::true_type) {
        RingDivOp<Ring> op(F, c.op);
        return run_two<E, IO<E> >(c, op);
    }
    static std::string div(const Ring&, const Case&, std::false_type) { return "UNSUPPORTED"; }
};
// ZRing<T>: no modulus
template <class Ring> struct RunZ {
    typedef typename Ring::Element E;
    static std::string go(const Case& c) {
        static Ring F;
        if (c.op == "reduce") { ReduceOp<Ring> op(F); return run_two<E, IO<E> >(c, op); }
        if (is_div_op(c.op)) { RingDivOp<Ring> op(F, c.op); return run_two<E, IO<E> >(c, op); }
        RingOp<Ring> op(F, c.op);
        return run_two<E, IO<E> >(c, op);
    }
};

#define REG(name, ...) dom_table()[name] = &Run<__VA_ARGS__, true>::go

// compiled in three parts (-DC15_PART=1,2,3) so that the parts build in parallel
#ifndef C15_PART
#define C15_PART 0
#endif
int main() {
    typedef __int128_t i128; typedef __uint128_t u128;
#if C15_PART == 0 || C15_PART == 1
    REG("i8_i8", Modular<int8_t, int8_t>);     REG("i8_u8", Modular<int8_t, uint8_t>);
    REG("i8_i16", Modular<int8_t, int16_t>);   REG("i8_u16", Modular<int8_t, uint16_t>);
    REG("u8_i8", Modular<uint8_t, int8_t>);    REG("u8_u8", Modular<uint8_t, uint8_t>);
    REG("u8_i16", Modular<uint8_t, int16_t>);  REG("u8_u16", Modular<uint8_t, uint16_t>);
    REG("i16_i16", Modular<int16_t, int16_t>); REG("i16_u16", Modular<int16_t, uint16_t>);
    REG("i16_i32", Modular<int16_t, int32_t>); REG("i16_u32", Modular<int16_t, uint32_t>);
    REG("u16_i16", Modular<uint16_t, int16_t>); REG("u16_u16", Modular<uint16_t, uint16_t>);
    REG("u16_i32", Modular<uint16_t, int32_t>); REG("u16_u32", Modular<uint16_t, uint32_t>);
    REG("i32_i32", Modular<int32_t, int32_t>); REG("i32_u32", Modular<int32_t, uint32_t>);
    REG("i32_i64", Modular<int32_t, int64_t>); REG("i32_u64", Modular<int32_t, uint64_t>);
    REG("u32_i32", Modular<uint32_t, int32_t>); REG("u32_u32", Modular<uint32_t, uint32_t>);
    REG("u32_i64", Modular<uint32_t, int64_t>); REG("u32_u64", Modular<uint32_t, uint64_t>);
#endif
#if C15_PART == 0 || C15_PART == 2
    REG("i64_i64", Modular<int64_t, int64_t>); REG("i64_u64", Modular<int64_t, uint64_t>);
    REG("i64_i128", Modular<int64_t, i128>);   REG("i64_u128", Modular<int64_t, u128>);
    REG("u64_i64", Modular<uint64_t, int64_t>); REG("u64_u64", Modular<uint64_t, uint64_t>);
    REG("u64_i128", Modular<uint64_t, i128>);  REG("u64_u128", Modular<uint64_t, u128>);
    REG("f_f", Modular<float, float>); REG("f_d", Modular<float, double>); REG("d_d", Modular<double, double>);
    REG("bi32", ModularBalanced<int32_t>); REG("bi64", ModularBalanced<int64_t>);
    REG("bf", ModularBalanced<float>); REG("bd", ModularBalanced<double>);
    REG("ef", ModularExtended<float>); REG("ed", ModularExtended<double>);
    REG("zz", Modular<Integer>);
    REG("mgi32", Montgomery<int32_t>);
    dom_table()["zring_I"] = &RunZ<ZRing<Integer> >::go;
    dom_table()["zring_d"] = &RunZ<ZRing<double> >::go;
    dom_table()["zring_i64"] = &RunZ<ZRing<int64_t> >::go;
#endif
#if C15_PART == 0 || C15_PART == 3
    REG("ru6_6", Modular<RecInt::ruint<6>, RecInt::ruint<6> >); REG("ru6_7", Modular<RecInt::ruint<6>, RecInt::ruint<7> >);
    REG("ru7_7", Modular<RecInt::ruint<7>, RecInt::ruint<7> >); REG("ru7_8", Modular<RecInt::ruint<7>, RecInt::ruint<8> >);
    REG("ru8_8", Modular<RecInt::ruint<8>, RecInt::ruint<8> >); REG("ru8_9", Modular<RecInt::ruint<8>, RecInt::ruint<9> >);
    REG("ri7_7", Modular<RecInt::rint<7>, RecInt::rint<7> >); REG("ri7_8", Modular<RecInt::rint<7>, RecInt::rint<8> >);
    REG("mg6", Montgomery<RecInt::ruint<6> >); REG("mg7", Montgomery<RecInt::ruint<7> >); REG("mg8", Montgomery<RecInt::ruint<8> >);
#endif
    return main_loop();
}
