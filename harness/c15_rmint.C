// C15 alias harness: the whole interface of RecInt::rmint<K,MG> (recursive modular integers, src/kernel/recint/rm*.h),
// MG = MG_INACTIVE ("0") and MG_ACTIVE ("1", Montgomery representation), K = 6, 7, 8: every three-address and
// two-address free function, the native-word operand overloads, the compound and by-value operators, ++/--, exp,
// square_root -- and the signed integers RecInt::rint<K> (dom "RI").
// dom "RM", param "K,mg,p": the module p is a static member of rmint<K,MG>, set with init_module when it changes.
// Elements are the RAW representatives (the member Value: in [0,p); for MG_ACTIVE the Montgomery image), so that a
// non-canonical or non-reduced result is visible.   Scalars (native word, ruint exponent) in the extra tokens.
// dom "RI", param K: elements are signed decimal values.               See c15_common.h for the line protocol.
#include "givinteger.h"
#include <recint/recint.h>
#include "c15_common.h"

using namespace Givaro;
using namespace RecInt;

template <size_t K, size_t MG> struct IOM {
    typedef rmint<K, MG> E;
    static E parse(const std::string& s) { Integer z(s.c_str()); E r; r.Value = ruint<K>(z); return r; }
    static std::string show(const E& x) { Integer z(x.Value); std::ostringstream o; o << z; return o.str(); }
};

template <size_t K> static void call_to_mg(rmint<K, MG_ACTIVE>& a, const rmint<K, MG_ACTIVE>& b) { to_mg(a, b); }
template <size_t K> static void call_to_mg(rmint<K, MG_INACTIVE>& a, const rmint<K, MG_INACTIVE>& b) { copy(a, b); }
template <size_t K, size_t MG> struct MOp {
    typedef rmint<K, MG> E;
    std::string op; const Args& x;
    MOp(const std::string& o, const Args& e) : op(o), x(e) {}
    // native word operands: T = uint64_t (".u64") or int64_t (".i64")
    template <class T> bool word(std::vector<E*>& o, std::string& ret, const std::string& b, T w) {
#define P(k) (*o[k])
        if (b == "add") add(P(0), P(1), w);
        else if (b == "addin") add(P(0), w);
        else if (b == "sub") sub(P(0), P(1), w);
        else if (b == "subin") sub(P(0), w);
        else if (b == "mul") mul(P(0), P(1), w);
        else if (b == "mulin") mul(P(0), w);
        else if (b == "div") div(P(0), P(1), w);
        else if (b == "divin") div(P(0), w);
        else if (b == "mod") mod(P(0), P(1), w);
        else if (b == "modin") mod(P(0), w);
        else if (b == "inv") inv(P(0), w);
        else if (b == "addmul") addmul(P(0), P(1), w);
        else if (b == "op+=") P(0) += w;
        else if (b == "op-=") P(0) -= w;
        else if (b == "op*=") P(0) *= w;
        else if (b == "op/=") P(0) /= w;
        else if (b == "op%=") P(0) %= w;
        else if (b == "op=+") P(0) = P(1) + w;
        else if (b == "op=w+") P(0) = w + P(1);
        else if (b == "op=-") P(0) = P(1) - w;
        else if (b == "op=w-") P(0) = w - P(1);
        else if (b == "op=*") P(0) = P(1) * w;
        else if (b == "op=w*") P(0) = w * P(1);
        else if (b == "op=/") P(0) = P(1) / w;
        else if (b == "op=%") P(0) = P(1) % w;
        else return false;
        (void) ret;
        return true;
    }
    bool operator()(std::vector<E*>& o, std::string& ret) {
        size_t dot = op.rfind('.');
        if (dot != std::string::npos && op != "exp.val" && op != "reduction.val") {
            std::string b = op.substr(0, dot), t = op.substr(dot + 1);
            if (t == "u64" && b == "exp") { exp(P(0), P(1), (uint64_t) strtoull(x[0].c_str(), 0, 10)); return true; }
            if (t == "ru" && b == "exp") { Integer z(x[0].c_str()); ruint<K> e(z); exp(P(0), P(1), e); return true; }
            if (t == "u64") return word<uint64_t>(o, ret, b, (uint64_t) strtoull(x[0].c_str(), 0, 10));
            if (t == "i64") return word<int64_t>(o, ret, b, (int64_t) strtoll(x[0].c_str(), 0, 10));
            return false;
        }
        // sub-object aliasing: a ruint<K> operand that is the member Value of an rmint position (possibly of the destination)
        if (op == "exp.val") exp(P(0), P(1), P(2).Value);                 // (a, b, e): exponent = e.Value
        else if (op == "reduction.val") reduction(P(0), P(1).Value);
        else if (op == "add") add(P(0), P(1), P(2));
        else if (op == "addin") add(P(0), P(1));
        else if (op == "sub") sub(P(0), P(1), P(2));
        else if (op == "subin") sub(P(0), P(1));
        else if (op == "neg") neg(P(0), P(1));
        else if (op == "negin") neg(P(0));
        else if (op == "mul") mul(P(0), P(1), P(2));
        else if (op == "mulin") mul(P(0), P(1));
        else if (op == "square") square(P(0), P(1));
        else if (op == "squarein") square(P(0));
        else if (op == "div") div(P(0), P(1), P(2));
        else if (op == "divin") div(P(0), P(1));
        else if (op == "mod") mod(P(0), P(1), P(2));
        else if (op == "modin") mod(P(0), P(1));
        else if (op == "inv") inv(P(0), P(1));
        else if (op == "invin") inv(P(0));
        else if (op == "addmul") addmul(P(0), P(1), P(2));
        else if (op == "copy") copy(P(0), P(1));
        else if (op == "reduction") reduction(P(0), P(1));
        else if (op == "to_mg") call_to_mg(P(0), P(1));
        else if (op == "square_root") square_root(P(0), P(1));
        else if (op == "op+=") P(0) += P(1);
        else if (op == "op-=") P(0) -= P(1);
        else if (op == "op*=") P(0) *= P(1);
        else if (op == "op/=") P(0) /= P(1);
        else if (op == "op%=") P(0) %= P(1);
        else if (op == "op=+") P(0) = P(1) + P(2);
        else if (op == "op=-") P(0) = P(1) - P(2);
        else if (op == "op=*") P(0) = P(1) * P(2);
        else if (op == "op=/") P(0) = P(1) / P(2);
        else if (op == "op=%") P(0) = P(1) % P(2);
        else if (op == "op=neg") P(0) = -P(1);
        else if (op == "op=") P(0) = P(1);
        else if (op == "op++") ++P(0);
        else if (op == "op--") --P(0);
        else if (op == "op++post") { E old = P(0)++; ret = IOM<K, MG>::show(old); }
        else if (op == "op--post") { E old = P(0)--; ret = IOM<K, MG>::show(old); }
        else return false;
#undef P
        return true;
    }
};

template <size_t K, size_t MG> static std::string goM(const Case& c, const std::string& p) {
    static std::string cur;
    if (cur != p) { Integer z(p.c_str()); ruint<K> m(z); rmint<K, MG>::init_module(m); cur = p; }
    if (c.op == "__prepare__") return "";
    if (c.op == "info") {       // the constants the Coq model takes as parameters, as the implementation computed them
        std::ostringstream o; ruint<K> m; rmint<K, MG>::get_module(m);
        o << "INFO " << Integer(m);
        return o.str();
    }
    MOp<K, MG> op(c.op, c.extra);
    return run_two<rmint<K, MG>, IOM<K, MG> >(c, op);
}
template <size_t K> static std::string goMK(const Case& c, int mg, const std::string& p) {
    return mg ? goM<K, MG_ACTIVE>(c, p) : goM<K, MG_INACTIVE>(c, p);
}
static std::string goRM(const Case& c) {
    size_t a = c.param.find(','), b = c.param.find(',', a + 1);
    int K = atoi(c.param.substr(0, a).c_str()), mg = atoi(c.param.substr(a + 1, b - a - 1).c_str());
    std::string p = c.param.substr(b + 1);
    switch (K) {
    case 6: return goMK<6>(c, mg, p);
    case 7: return goMK<7>(c, mg, p);
    case 8: return goMK<8>(c, mg, p);
    }
    return "UNSUPPORTED";
}

// ---------------------------------------------------------------- RecInt::rint<K>: signed recursive integers
template <size_t K> struct IOI {
    // through sign and magnitude (two's complement image in the ruint<K> member Value)
    static RecInt::rint<K> parse(const std::string& s) {
        bool ng = !s.empty() && s[0] == '-';
        Integer z((ng ? s.substr(1) : s).c_str()); ruint<K> m(z); RecInt::rint<K> r; r.Value = m;
        if (ng) r.Value = -r.Value;
        return r;
    }
    static std::string show(const RecInt::rint<K>& x) {
        std::ostringstream o;
        if (x.isNegative()) { ruint<K> m = -x.Value; o << "-" << Integer(m); } else o << Integer(x.Value);
        return o.str();
    }
};
template <size_t K> struct IOp {
    typedef RecInt::rint<K> E;
    std::string op; const Args& x;
    IOp(const std::string& o, const Args& e) : op(o), x(e) {}
    bool operator()(std::vector<E*>& o, std::string& ret) {
#define P(k) (*o[k])
        long long s = x.empty() ? 0 : strtoll(x[0].c_str(), 0, 10);
        if (op == "add") add(P(0), P(1), P(2));
        else if (op == "add.c") { bool r; add(r, P(0), P(1), P(2)); ret = r ? "1" : "0"; }
        else if (op == "addin") add(P(0), P(1));
        else if (op == "addin.c") { bool r; add(r, P(0), P(1)); ret = r ? "1" : "0"; }
        else if (op == "add.w") add(P(0), P(1), (int64_t) s);
        else if (op == "add.cw") { bool r; add(r, P(0), P(1), (int64_t) s); ret = r ? "1" : "0"; }
        else if (op == "add_1") add_1(P(0), P(1));
        else if (op == "add_1.c") { bool r; add_1(r, P(0), P(1)); ret = r ? "1" : "0"; }
        else if (op == "sub") sub(P(0), P(1), P(2));
        else if (op == "sub.c") { bool r; sub(r, P(0), P(1), P(2)); ret = r ? "1" : "0"; }
        else if (op == "subin") sub(P(0), P(1));
        else if (op == "subin.c") { bool r; sub(r, P(0), P(1)); ret = r ? "1" : "0"; }
        else if (op == "sub.w") sub(P(0), P(1), (int64_t) s);
        else if (op == "sub.cw") { bool r; sub(r, P(0), P(1), (int64_t) s); ret = r ? "1" : "0"; }
        else if (op == "sub_1") sub_1(P(0), P(1));
        else if (op == "sub_1.c") { bool r; sub_1(r, P(0), P(1)); ret = r ? "1" : "0"; }
#ifdef C15_RINT_NEG
        else if (op == "neg") neg(P(0), P(1));
#endif
        else if (op == "copy") copy(P(0), P(1));
        else if (op == "mul") mul(P(0), P(1), P(2));
        else if (op == "mulin") mul(P(0), P(1));
        else if (op == "mul.w") mul(P(0), P(1), (int64_t) s);
        else if (op == "addmul") addmul(P(0), P(1), P(2));
        else if (op == "div_q") div_q(P(0), P(1), P(2));
        else if (op == "div_q.w") div_q(P(0), P(1), (int64_t) s);
        else if (op == "div_r") div_r(P(0), P(1), P(2));
        else if (op == "mod_nin") mod_n(P(0), P(1));
        else if (op == "mod_n") mod_n(P(0), P(1), P(2));
        else if (op == "inv_mod") inv_mod(P(0), P(1), P(2));
        else if (op == "op+=") P(0) += P(1);
        else if (op == "op-=") P(0) -= P(1);
        else if (op == "op*=") P(0) *= P(1);
        else if (op == "op/=") P(0) /= P(1);
        else if (op == "op%=") P(0) %= P(1);
        else if (op == "op&=") P(0) &= P(1);
        else if (op == "op|=") P(0) |= P(1);
        else if (op == "op^=") P(0) ^= P(1);
        else if (op == "op=+") P(0) = P(1) + P(2);
        else if (op == "op=-") P(0) = P(1) - P(2);
        else if (op == "op=*") P(0) = P(1) * P(2);
        else if (op == "op=/") P(0) = P(1) / P(2);
        else if (op == "op=%") P(0) = P(1) % P(2);
        else return false;
#undef P
        return true;
    }
};
template <size_t K> static std::string goIK(const Case& c) {
    if (c.op == "__prepare__") return "";
    IOp<K> op(c.op, c.extra); return run_two<RecInt::rint<K>, IOI<K> >(c, op);
}
static std::string goRI(const Case& c) {
    int K = atoi(c.param.c_str());
    switch (K) {
    case 6: return goIK<6>(c);
    case 7: return goIK<7>(c);
    case 8: return goIK<8>(c);
    }
    return "UNSUPPORTED";
}

int main() {
    dom_table()["RM"] = &goRM;
    dom_table()["RI"] = &goRI;
    g_fork = true;
    return main_loop();
}
