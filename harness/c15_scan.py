# C15: completeness of the alias harness.  Every PUBLIC function / method of /repo's CURRENT headers that has the
# three-address shape -- some parameter `T&` (non-const reference: a destination) and another parameter `const T&`
# of the same type T (an operand that the destination may alias) -- is read from the clang AST on every run.
# Each such declaration must be mapped to harness operations (checks/C15.py: COVERED) or to an exclusion with a reason
# (EXCLUDED); a declaration in neither table breaks the check's completeness obligation.
#
# key of a declaration = (scope, name, shape):
#   scope  the enclosing namespace / class path, template arguments dropped (RecInt, Givaro::Integer,
#          Givaro::Modular, Givaro::Poly1Dom, ...)
#   shape  one letter per parameter:  D = `T&` destination, C = `const T&` of the same T, V = T by value,
#          x = any other parameter;  followed by ":" and the type T as clang prints it (spaces removed)
import os, re, subprocess
import vf

TU = "".join('#include %s\n' % h for h in [
    '"gmp++/gmp++.h"', '"givinteger.h"', '"givrational.h"', '"qfield.h"', '"modular.h"', '"modular-balanced.h"',
    '"modular-extended.h"', '"modular-log16.h"', '"montgomery.h"', '"zring.h"', '"gfq.h"', '"gfqext.h"',
    '"gf2.h"', '"extension.h"', '"givpoly1.h"', '"givpoly1padic.h"', '"givpoly1factor.h"', '"givpoly1crt.h"',
    '"chineseremainder.h"', '"givrns.h"', '"givrnsfixed.h"', '"givintrns.h"', '"givintnumtheo.h"', '"givintfactor.h"',
    '"givintsqrootmod.h"', '"givarray0.h"', '"givvector.h"', '"givquotientdomain.h"', '"givfractiondomain.h"',
    '"givtruncdomain.h"', '"givhighorder.h"', '"givinterp.h"', '"givinterpgeom.h"', '<recint/recint.h>'])

_DECL = re.compile(r"^([ |`-]*)(\w+Decl) 0x[0-9a-f]+ (.*)$")
_FN = re.compile(r" (operator\S+|operator\(\)|~?\w+) '([^']*)'(?::'[^']*')?(.*)$")


def dump(flt, timeout):
    cmd = ["clang++", "-std=gnu++11", "-DHAVE_CONFIG_H", "-DNDEBUG", "-x", "c++"] + vf.inc_flags() + \
          ["-fsyntax-only", "-Xclang", "-ast-dump", "-Xclang", "-ast-dump-filter=" + flt, "-"]
    p = subprocess.run(cmd, input=TU, stdout=subprocess.PIPE, stderr=subprocess.PIPE, universal_newlines=True, timeout=timeout)
    return p.returncode, p.stdout, p.stderr


def split_params(sig):
    """'ret (p1, p2, ...) quals' -> [p1, p2, ...] (top-level commas only)"""
    # the parameter list is the LAST balanced (...) group that is not followed by more than qualifiers
    depth, end = 0, None
    i = len(sig) - 1
    # skip trailing qualifiers
    while i >= 0 and sig[i] != ")":
        i -= 1
    if i < 0:
        return None
    end = i
    depth = 0
    while i >= 0:
        if sig[i] == ")":
            depth += 1
        elif sig[i] == "(":
            depth -= 1
            if depth == 0:
                break
        i -= 1
    if i < 0:
        return None
    inner = sig[i + 1:end]
    out, cur, d = [], "", 0
    for ch in inner:
        if ch in "<([":
            d += 1
        elif ch in ">)]":
            d -= 1
        if ch == "," and d == 0:
            out.append(cur.strip()); cur = ""
        else:
            cur += ch
    if cur.strip():
        out.append(cur.strip())
    return [p for p in out if p != "void"]


def norm_type(t):
    t = t.strip()
    for a, b in (("Givaro::", ""), ("RecInt::", ""), ("typename ", ""), ("struct ", ""), ("class ", "")):
        t = t.replace(a, b)
    t = t.replace(" ", "")
    t = re.sub(r"ruint<6(\+1|UL)?>", "ruint<K>", t)          # the one-limb / two-limb specialisations: K = 6, 7 of the runs
    m = re.match(r"^[\w:]+(<.*>)?::(Element|Rep|Type_t|Storage_t|Compute_t|array|Residu_t|Array|constArray)$", t)
    if m:
        t = m.group(2)            # a member typedef of the enclosing domain class (the scope names the class)
    return t


def shape_of(params):
    """(shape, T) or None if the declaration is not three-address"""
    dests = {}
    arr_d = [k for k, p in enumerate(params) if norm_type(p) == "Array"]
    arr_c = [k for k, p in enumerate(params) if norm_type(p) == "constArray"]
    if arr_d and arr_c:       # pointer-to-elements forms op(sz, Array r, constArray a, ...): the arrays may be the same array
        return "".join("D" if k in arr_d else "C" if k in arr_c else "x" for k in range(len(params))), "Array"
    for k, p in enumerate(params):
        p = p.strip()
        if p.endswith("&") and not p.endswith("&&") and not p.startswith("const "):
            dests.setdefault(norm_type(p[:-1]), []).append(k)
    best = None
    for T, ks in dests.items():
        cs = [k for k, p in enumerate(params) if p.strip().startswith("const ") and p.strip().endswith("&")
              and norm_type(p.strip()[6:-1]) == T]
        vs = [k for k, p in enumerate(params) if norm_type(p) == T or norm_type(p) == "const" + T]
        if cs or vs:
            cand = (len(cs) + len(ks), T, ks, cs, vs)
            if best is None or cand[0] > best[0]:
                best = cand
    if best is None:
        return None
    _, T, ks, cs, vs = best
    s = "".join("D" if k in ks else "C" if k in cs else "V" if k in vs else "x" for k in range(len(params)))
    return s, T


# SUB-OBJECT aliasing: a destination `A&` and a const operand `const B&` where B is the type of a public member / half /
# coefficient of A (or A of B): the operand can live INSIDE the destination (a.Value, W.Low, R[i], r.num) or the
# destination inside the operand.
SUBOBJECT = [("rmint<K,MG>", "ruint<K>"), ("rmint<K,MG_ACTIVE>", "ruint<K>"), ("rmint<K,MG_INACTIVE>", "ruint<K>"),
             ("ruint<K+1>", "ruint<K>"), ("rint<K>", "ruint<K>"), ("Rep", "Type_t"), ("Rational", "Integer"), ("Element", "BFElement")]


def subshape_of(params):
    """(shape, 'A>B') for a declaration with a destination A& and a const operand B& (or the converse) related by SUBOBJECT"""
    ty = []
    for p in params:
        p = p.strip()
        if p.endswith("&") and not p.endswith("&&") and not p.startswith("const "):
            ty.append(("D", norm_type(p[:-1])))
        elif p.startswith("const ") and p.endswith("&"):
            ty.append(("C", norm_type(p[6:-1])))
        else:
            ty.append(("x", norm_type(p)))
    for A, B in SUBOBJECT:
        for big, small, tag in ((A, B, A + ">" + B), (B, A, B + "<" + A)):
            ds = [k for k, (m, t) in enumerate(ty) if m == "D" and t == big]
            cs = [k for k, (m, t) in enumerate(ty) if m == "C" and t == small]
            if ds and cs:
                return "".join("D" if k in ds else "S" if k in cs else "C" if ty[k][0] == "C" and ty[k][1] == big else "x" for k in range(len(ty))), tag
    return None


SUBDECLS = {}


def scope_hint(stack, kind="FunctionDecl"):
    ns = [s[2] for s in stack[:-1] if s[1] == "NamespaceDecl" and s[2]]
    recs = [s for s in stack[:-1] if s[1] in ("CXXRecordDecl", "ClassTemplateSpecializationDecl", "ClassTemplatePartialSpecializationDecl")]
    return "::".join(ns + ([recs[-1][2]] if recs and kind == "CXXMethodDecl" else []))


def declarations(timeout=600):
    """{key: [locations]} of the public three-address declarations; also the number of function declarations seen.
    Side result: SUBDECLS = the declarations whose destination and a const operand are related by SUBOBJECT."""
    out, nseen = {}, 0
    SUBDECLS.clear()
    errs = ""
    for flt in ("Givaro", "RecInt"):
        rc, txt, err = dump(flt, timeout)
        errs += err[-500:]
        if rc != 0 or not txt:
            raise RuntimeError("clang AST dump (%s) failed: rc=%s %s" % (flt, rc, err[-1500:]))
        stack = []          # (depth, kind, name, access)
        curfile = ""
        for line in txt.split("\n"):
            if line.startswith("Dumping "):
                stack = []
                continue
            m = _DECL.match(line)
            if not m:
                continue
            depth = len(m.group(1)) // 2
            kind, rest = m.group(2), m.group(3)
            while stack and stack[-1][0] >= depth:
                stack.pop()
            fm = re.search(r"<(/[^:>]+):\d+", rest)
            if fm:
                curfile = fm.group(1)
            if kind == "AccessSpecDecl":
                acc = rest.split()[-1]
                # applies to the enclosing record
                for i in range(len(stack) - 1, -1, -1):
                    if stack[i][1] in ("CXXRecordDecl", "ClassTemplateSpecializationDecl", "ClassTemplatePartialSpecializationDecl"):
                        stack[i][3] = acc
                        break
                continue
            if kind == "NamespaceDecl":
                name = rest.split()[-1] if not rest.rstrip().endswith(">") else ""
                name = re.sub(r".* ", "", rest.strip())
                stack.append([depth, kind, name, "public"])
                continue
            if kind in ("CXXRecordDecl", "ClassTemplateSpecializationDecl", "ClassTemplatePartialSpecializationDecl"):
                rm = re.search(r" (class|struct|union) (\w+)( definition)?", rest)
                if rm:
                    stack.append([depth, kind, rm.group(2), "private" if rm.group(1) == "class" else "public"])
                else:
                    stack.append([depth, kind, "?", "public"])
                continue
            if kind in ("ClassTemplateDecl", "FunctionTemplateDecl", "FriendDecl", "LinkageSpecDecl"):
                stack.append([depth, kind, "", None])
                continue
            if kind not in ("FunctionDecl", "CXXMethodDecl"):
                stack.append([depth, kind, "", None])
                continue
            fm2 = _FN.search(" " + rest)
            if not fm2:
                stack.append([depth, kind, "", None])
                continue
            name, sig = fm2.group(1), fm2.group(2)
            if "ruint<6 + 1>" in sig and re.search(r"ruint<6(UL)?>", sig):
                sig = sig.replace("ruint<6 + 1>", "ruint<K+1>")       # a one-limb specialisation with a double-width operand
            stack.append([depth, kind, name, None])
            head = " " + rest.split("'")[0]
            if " implicit" in head or " parent 0x" in head:
                continue          # compiler generated / out-of-line definition of a method declared in its class
            # enclosing scope: an enclosing function (local class / lambda) is not an interface
            if any(s[1] in ("FunctionDecl", "CXXMethodDecl") for s in stack[:-1]):
                continue
            recs = [s for s in stack[:-1] if s[1] in ("CXXRecordDecl", "ClassTemplateSpecializationDecl", "ClassTemplatePartialSpecializationDecl")]
            friend = any(s[1] == "FriendDecl" for s in stack[:-1])
            if kind == "CXXMethodDecl" and recs and recs[-1][3] != "public":
                continue
            if kind == "FunctionDecl" and recs and not friend:
                continue
            params = split_params(sig)
            if params is None:
                continue
            nseen += 1
            ssh = subshape_of(params)
            if ssh is not None and not (scope_hint(stack).startswith("std")):
                SUBDECLS.setdefault((scope_hint(stack, kind), name, "sub:" + ssh[0] + ":" + ssh[1]), set()).add(os.path.basename(curfile))
            sh = shape_of(params)
            if sh is None:
                continue
            ns = [s[2] for s in stack[:-1] if s[1] == "NamespaceDecl" and s[2]]
            if not ns:
                ns = [flt]
            scope = "::".join(ns + ([recs[-1][2]] if recs and kind == "CXXMethodDecl" else []))
            if scope.startswith("std") or "::std" in scope:
                continue
            key = (scope, name, sh[0] + ":" + sh[1])
            lm = re.search(r"(?:line|col):(\d+)", rest)
            out.setdefault(key, set()).add(os.path.basename(curfile))
    return {k: sorted(v) for k, v in out.items()}, nseen, errs


if __name__ == "__main__":
    d, n, e = declarations()
    for k in sorted(d):
        print("%-40s %-22s %-40s %s" % (k[0], k[1], k[2], ",".join(d[k])))
    print(len(d), "three-address declarations among", n, "function declarations")
    for k in sorted(SUBDECLS):
        print("SUB %-36s %-18s %-44s %s" % (k[0], k[1], k[2], ",".join(sorted(SUBDECLS[k]))))
    print(len(SUBDECLS), "sub-object declarations")
