// C16 — history harness.  One request per input line:
//     <class> <event> <event> ...            events:  cN:P  construct object N with parameter set P
//     (<class> may be A&B&C: several classes alive in ONE process; slot N then holds an object of the (N mod k)-th class; copies,
//      assignments, swaps and moves stay inside a class: N = M mod k)
//                                                     wN:M  std::swap(N, M)
//                                                     mN:M  N = std::move(M)   (M stays alive with an unspecified value: it is not compared any more)
//                                                     kN:M  N := copy-constructed from M
//                                                     aN:M  N = M   (N == M: self-assignment)
//                                                     sN:P  re-parameterise N in place to parameter set P (setPrimes / read(istream&))
//                                                     uN    use N (one more probe; matters for caches / statics)
//                                                     dN    destroy N
// Every request runs in a fork()ed child (a crash is an observation, not the end of the run).  The child has a WATCHDOG: a CPU-time
// limit (RLIMIT_CPU, default 10 s; the slowest history of the quick tier needs about 0.3 s; CPU time does not depend on the load of
// the machine) and a wall-clock alarm (default 900 s).  Its expiry
// is printed as "X watchdog-cpu" / "X watchdog-wall": that is a statement about the tooling, the python side treats it as
// INCONCLUSIVE (it re-runs the history alone with much larger limits before concluding anything).  Limits: environment variables
// C16_CPU_LIMIT / C16_WALL_LIMIT (seconds).  After EVERY event the
// probe (a fixed set of operations with fixed operands, results converted to integers / text) is evaluated on every live
// object.  Output, one line per request:
//     <class> | e0 N=part:hash,part:hash N=... | e1 ... | ... | end        or  ... | X <signal or status>  after a crash
// With the environment variable C16_VERBOSE=1 the full probe text is printed instead of its hash.
// The python side knows the lineage of every object and compares its hash with (a) the hash the lineage's root had right
// after construction and (b) for deterministic constructions the hash of the same parameters in an otherwise empty process.
#include "c16_probes.h"
#include <unistd.h>
#include <sys/wait.h>
#include <signal.h>
#include <sys/resource.h>

#include <dirent.h>
#include <fcntl.h>
// ---- caps SHARED by all dispatcher processes of one run (directory C16_SHARED, one empty file per event): a hang must not cost
// (number of parallel workers) x budget.  "x-<class>-.." = a child of that class overran the CPU budget, "c-<class>-.." = crashed.
//   * after the FIRST overrun of a class no dispatcher drives that class any more in this run (python confirms that one history alone);
//   * after 6 overruns in total every dispatcher stops (the rest of the stream is printed as skipped);
//   * after 4 crashes of a class it is not driven any more.
static std::string g_shared;
static std::string cls_key(const std::string& c) { char b[32]; snprintf(b, sizeof b, "%016llx", (unsigned long long)fnv(c)); return b; }
static int shared_count(const std::string& prefix) {
    if (g_shared.empty()) return -1;
    DIR* d = opendir(g_shared.c_str()); if (!d) return -1;
    int n = 0; while (struct dirent* e = readdir(d)) if (strncmp(e->d_name, prefix.c_str(), prefix.size()) == 0) ++n;
    closedir(d); return n;
}
static void shared_mark(const std::string& prefix) {
    if (g_shared.empty()) return;
    static int seq = 0; char b[64]; snprintf(b, sizeof b, "%d-%d", (int)getpid(), seq++);
    int fd = open((g_shared + "/" + prefix + b).c_str(), O_CREAT | O_WRONLY, 0644); if (fd >= 0) close(fd);
}
static std::vector<std::string> members_of(const std::string& spec) {
    std::vector<std::string> v; size_t a = 0; for (;;) { size_t b = spec.find('&', a); v.push_back(spec.substr(a, b == std::string::npos ? b : b - a)); if (b == std::string::npos) break; a = b + 1; }
    if (v.size() > 1) v.push_back(spec);
    return v;
}

static int env_int(const char* name, int dflt) { const char* v = getenv(name); return v && atoi(v) > 0 ? atoi(v) : dflt; }

static void run_history(const std::string& line, bool verbose, FILE* out) {
    std::istringstream is(line);
    std::string cls, ev;
    is >> cls;
    fprintf(out, "%s", cls.c_str()); fflush(out);
    Any* obj[8]; for (int i = 0; i < 8; ++i) obj[i] = 0;
    std::vector<std::string> cl; { size_t a = 0; for (;;) { size_t b = cls.find('&', a); cl.push_back(cls.substr(a, b == std::string::npos ? b : b - a)); if (b == std::string::npos) break; a = b + 1; } }
    for (size_t i = 0; i < cl.size(); ++i)
        if (!known_class(cl[i])) { fprintf(out, " | X unknown-class\n"); return; }      // (no object is built here: the history decides which construction is the first of the process)
    while (is >> ev) {
        char k = ev[0]; int n = ev[1] - '0'; int m = ev.size() > 3 ? atoi(ev.c_str() + 3) : 0;
        const std::string& ocl = cl[(size_t)n % cl.size()];
        if (k == 'c') { obj[n] = make(ocl, m & 3, m >> 2); if (!obj[n]) { fprintf(out, " | X no-such-constructor\n"); fflush(out); return; } }
        else if (k == 'k') obj[n] = obj[m]->copy();
        else if (k == 'a') obj[n]->assign(*obj[m]);
        else if (k == 'w') obj[n]->swap_with(*obj[m]);
        else if (k == 'm') obj[n]->move_from(*obj[m]);
        else if (k == 'f') { if (!mutate_bad(ocl, obj[n], m)) { fprintf(out, " | X no-mutator\n"); return; } }
        else if (k == 's') { if (!mutate(ocl, obj[n], m)) { fprintf(out, " | X no-mutator\n"); return; } }
        else if (k == 'u') { }          // one more round of probes (below): matters for caches / statics
        else if (k == 'd') { g_args_note.erase(obj[n]); delete obj[n]; obj[n] = 0; }
        fprintf(out, " | %s", ev.c_str());
        for (int i = 0; i < 8; ++i) if (obj[i]) {
            fprintf(out, " %d=", i); Sink sk(out, verbose); obj[i]->probe(sk);
            std::map<const Any*, std::string>::const_iterator nt = g_args_note.find(obj[i]);
            if (nt != g_args_note.end()) { sk.text("args"); sk.o << nt->second; }          // built from caller-owned arguments that were recycled afterwards
            sk.close();
        }
        fflush(out);
    }
    for (int i = 0; i < 8; ++i) if (obj[i]) { delete obj[i]; obj[i] = 0; }      // destructors are part of the history
    fprintf(out, " | end\n"); fflush(out);
}

int main(int argc, char** argv) {
    bool verbose = getenv("C16_VERBOSE") != 0;
    bool nofork = getenv("C16_NOFORK") != 0;
    std::string line;
    if (getenv("C16_SHARED")) g_shared = getenv("C16_SHARED");
    int total_expired = 0;
    std::map<std::string, int> abnormal;        // per class: children that crashed; after 4 the class is skipped (time)
    std::map<std::string, int> expired;         // per class: children stopped by the watchdog; every history still gets a fresh child until 4 of a class have expired in this dispatcher (then the rest is skipped, inconclusive: a real hang would otherwise cost 20 s of CPU per history)
    int cpu_limit = env_int("C16_CPU_LIMIT", 10), wall_limit = env_int("C16_WALL_LIMIT", 900);
    while (std::getline(std::cin, line)) {
        if (line.empty()) continue;
        if (nofork) { run_history(line, verbose, stdout); continue; }
        std::string cls = line.substr(0, line.find(' '));
        {   std::vector<std::string> mem = members_of(cls);
            bool crashed = abnormal[cls] >= 4, over = expired[cls] >= 1, stop = total_expired >= 6;
            if (!g_shared.empty()) {          // one pass over the (normally empty) directory
                DIR* dd = opendir(g_shared.c_str());
                if (dd) {
                    int nx = 0; std::map<std::string, int> nc;
                    std::vector<std::string> keys; for (size_t i = 0; i < mem.size(); ++i) keys.push_back(cls_key(mem[i]));
                    while (struct dirent* e = readdir(dd)) {
                        const char* nm = e->d_name;
                        if (nm[0] == 'x' && nm[1] == '-') { ++nx; for (size_t i = 0; i < keys.size(); ++i) if (strncmp(nm + 2, keys[i].c_str(), 16) == 0) over = true; }
                        else if (nm[0] == 'c' && nm[1] == '-') { for (size_t i = 0; i < keys.size(); ++i) if (strncmp(nm + 2, keys[i].c_str(), 16) == 0 && ++nc[keys[i]] >= 4) crashed = true; }
                    }
                    closedir(dd);
                    stop = stop || nx >= 6;
                }
            }
            if (crashed) { printf("%s | X skipped-after-repeated-crashes\n", cls.c_str()); fflush(stdout); continue; }
            if (over || stop) { printf("%s | X skipped-after-watchdog\n", cls.c_str()); fflush(stdout); continue; }
        }
        fflush(stdout);
        pid_t pid = fork();
        if (pid == 0) {
            struct rlimit rl; rl.rlim_cur = (rlim_t)cpu_limit; rl.rlim_max = (rlim_t)cpu_limit + 5; setrlimit(RLIMIT_CPU, &rl);
            alarm((unsigned)wall_limit);
            FILE* devnull = freopen("/dev/null", "w", stderr); (void)devnull;
            run_history(line, verbose, stdout);
            fflush(stdout);
            _exit(0);
        }
        int st = 0; waitpid(pid, &st, 0);
        if (WIFSIGNALED(st) && WTERMSIG(st) == SIGXCPU) { printf(" | X watchdog-cpu\n"); ++expired[cls]; ++total_expired; shared_mark("x-" + cls_key(cls) + "-"); }
        else if (WIFSIGNALED(st) && WTERMSIG(st) == SIGKILL) { printf(" | X watchdog-kill\n"); ++expired[cls]; ++total_expired; shared_mark("x-" + cls_key(cls) + "-"); }   // killed by the system (memory): never a "does not return"
        else if (WIFSIGNALED(st) && WTERMSIG(st) == SIGALRM) { printf(" | X watchdog-wall\n"); ++expired[cls]; ++total_expired; shared_mark("x-" + cls_key(cls) + "-"); }
        else if (WIFSIGNALED(st)) { printf(" | X signal-%d\n", WTERMSIG(st)); ++abnormal[cls]; shared_mark("c-" + cls_key(cls) + "-"); }
        else if (WEXITSTATUS(st) != 0) { printf(" | X exit-%d\n", WEXITSTATUS(st)); ++abnormal[cls]; shared_mark("c-" + cls_key(cls) + "-"); }
        fflush(stdout);
    }
    return 0;
}
