// C16/C18 — instantiation unit for the object-model translator (harness/c16_objmodel.py).
// It is never linked: clang reads it with -fsyntax-only -Xclang -ast-dump=json.  Its only job is to make
// clang instantiate, for every domain class in scope, the copy constructor, operator=, the destructor and
// the const operations (explicit instantiation where the class allows it, plain uses otherwise, plus the
// member templates that explicit instantiation does not reach).
#include <vector>
#include <deque>
#include <iostream>
#include <sstream>
#include "givinteger.h"
#include "givrational.h"
#include "modular.h"
#include "modular-balanced.h"
#include "modular-log16.h"
#include "modular-extended.h"
#include "montgomery.h"
#include "gfq.h"
#include "gfqext.h"
// gfqkronecker.h does not compile in the current tree (it includes givaro/givzpz.h, which no longer exists, and
// uses ModularRandIter with two arguments): GFqKronecker is described by a source scan (see c16_objmodel.py).
#include "extension.h"
#include "StaticElement.h"
#include "qfield.h"
#include "givpoly1.h"
#include "givpoly1factor.h"
#include "givpoly1padic.h"
#include "givintrns.h"
#include "givrns.h"
#include "givrandom.h"

namespace Givaro {
    // explicit instantiations: every non-template member gets a body in the AST
    // (GFqDom, Poly1Dom, Poly1FactorDom, Poly1PadicDom contain members that do not compile when instantiated
    //  -- init(Rep&, istream&), shift, maxpy, factor, is_irreducible2 -- so they are instantiated by use below)
    template class Modular<int32_t>;
    template class Modular<uint32_t>;
    template class Modular<int64_t>;
    template class Modular<uint64_t>;
    template class Modular<float>;
    template class Modular<double>;
    template class Modular<int8_t>;
    template class Modular<uint8_t>;
    template class Modular<int16_t>;
    template class Modular<uint16_t>;
    template class ModularExtended<double>;
    template class ModularExtended<float>;
    template class Modular<Integer>;
    template class Modular<RecInt::ruint<7> >;
    template class Extension<GFqDom<int64_t> >;
    template class IntRNSsystem<std::vector, std::allocator>;
    template class RNSsystem<Integer, Modular<double> >;
    template struct StaticElement<Modular<double> >;
}

using namespace Givaro;

// copy / assign / destroy of every class (forces the implicit special members to be defined)
template<class D> void c16_special(const D& a, D& b) { D c(a); b = a; b = c; }

template<class D, class E> void c16_ring_ops(const D& F, E& r, const E& a, const E& b) {
    F.init(r); F.init(r, (int64_t)5); F.init(r, (uint64_t)5); F.init(r, Integer(5)); F.init(r, 5.0);
    F.assign(r, a); F.add(r, a, b); F.sub(r, a, b); F.mul(r, a, b); F.div(r, a, b); F.neg(r, a); F.inv(r, a);
    F.addin(r, a); F.subin(r, a); F.mulin(r, a); F.divin(r, a); F.negin(r); F.invin(r);
    F.axpy(r, a, b, a); F.axpyin(r, a, b); F.axmy(r, a, b, a); F.axmyin(r, a, b); F.maxpy(r, a, b, a); F.maxpyin(r, a, b);
    F.isZero(a); F.isOne(a); F.isMOne(a); F.areEqual(a, b); F.isUnit(a);
    Integer i; F.convert(i, a); int64_t l; F.convert(l, a); double d; F.convert(d, a);
    F.characteristic(); F.cardinality(); F.write(std::cout, a); F.write(std::cout);
}

// in-place re-parameterisation members (instantiated only when used)
template<class D> void c16_mutators(D& F) { std::istringstream is("(z, 7)"); F.read(is); }

// Extension<Modular<double>> cannot be instantiated explicitly (its (p, e) constructor builds BaseField_t(p, k)): by use
template<class X> void c16_ext_ops(const X& a) {
    typename X::Element r, s, t; Integer i; int64_t l = 0;
    a.init(r); a.init(r, 5); a.init(r, Integer(5)); a.assign(r, s); a.mul(r, s, t); a.add(r, s, t); a.sub(r, s, t); a.neg(r, s); a.inv(r, s); a.div(r, s, t);
    a.axpy(r, s, t, s); a.maxpy(r, s, t, s); a.axmy(r, s, t, s); a.addin(r, s); a.subin(r, s); a.mulin(r, s); a.divin(r, s); a.negin(r); a.invin(r); a.axpyin(r, s, t); a.maxpyin(r, s, t); a.axmyin(r, s, t);
    a.convert(i, r); a.isZero(r); a.isOne(r); a.isMOne(r); a.isUnit(r); a.areEqual(r, s); a.write(std::cout, r); a.write(std::cout);
    a.characteristic(); a.characteristic(i); a.characteristic(l); a.cardinality(); a.cardinality(i); a.residu(); a.exponent(); a.order(); a.extension_type();
    a.irreducible(); a.irreducible(r); a.base_field(); a.polynomial_domain();
}

void c16_uses() {
    { Modular<int32_t> a(7); c16_mutators(a); } { Modular<uint32_t> a(7); c16_mutators(a); } { Modular<int64_t> a(7); c16_mutators(a); }
    { Modular<uint64_t> a(7); c16_mutators(a); } { Modular<float> a(7); c16_mutators(a); } { Modular<double> a(7); c16_mutators(a); }
    { Modular<Integer> a(7); c16_mutators(a); } { Modular<Log16> a(7); c16_mutators(a); } { GFqDom<int64_t> a(3, 2); c16_mutators(a); } { GFqDom<int32_t> a(3, 2); c16_mutators(a); }
    { Modular<int8_t> a(7); c16_mutators(a); } { Modular<uint8_t> a(7); c16_mutators(a); } { Modular<int16_t> a(7); c16_mutators(a); } { Modular<uint16_t> a(7); c16_mutators(a); }
    { Modular<int8_t> a(7), b(11); c16_special(a, b); int8_t r = 0; c16_ring_ops(a, r, r, r); }
    { Modular<uint8_t> a(7), b(11); c16_special(a, b); uint8_t r = 0; c16_ring_ops(a, r, r, r); }
    { Modular<int16_t> a(7), b(11); c16_special(a, b); int16_t r = 0; c16_ring_ops(a, r, r, r); }
    { Modular<uint16_t> a(7), b(11); c16_special(a, b); uint16_t r = 0; c16_ring_ops(a, r, r, r); }
    { ModularExtended<double> a(7), b(11); c16_special(a, b); double r = 0; c16_ring_ops(a, r, r, r); }
    { ModularExtended<float> a(7), b(11); c16_special(a, b); float r = 0; c16_ring_ops(a, r, r, r); }
    { Modular<int32_t> a(7), b(11); c16_special(a, b); int32_t r = 0; c16_ring_ops(a, r, r, r); }
    { Modular<uint32_t> a(7), b(11); c16_special(a, b); uint32_t r = 0; c16_ring_ops(a, r, r, r); }
    { Modular<int64_t> a(7), b(11); c16_special(a, b); int64_t r = 0; c16_ring_ops(a, r, r, r); }
    { Modular<uint64_t> a(7), b(11); c16_special(a, b); uint64_t r = 0; c16_ring_ops(a, r, r, r); }
    { Modular<float> a(7), b(11); c16_special(a, b); float r = 0; c16_ring_ops(a, r, r, r); }
    { Modular<double> a(7), b(11); c16_special(a, b); double r = 0; c16_ring_ops(a, r, r, r); }
    { Modular<Integer> a(7), b(11); c16_special(a, b); Integer r = 0; c16_ring_ops(a, r, r, r); }
    { Modular<RecInt::ruint<7> > a(7), b(11); c16_special(a, b); RecInt::ruint<7> r = 0; c16_ring_ops(a, r, r, r); }
    { ModularBalanced<int32_t> a(7), b(11); c16_special(a, b); int32_t r = 0; c16_ring_ops(a, r, r, r); }
    { ModularBalanced<int64_t> a(7), b(11); c16_special(a, b); int64_t r = 0; c16_ring_ops(a, r, r, r); }
    { ModularBalanced<float> a(7), b(11); c16_special(a, b); float r = 0; c16_ring_ops(a, r, r, r); }
    { ModularBalanced<double> a(7), b(11); c16_special(a, b); double r = 0; c16_ring_ops(a, r, r, r); }
    { Montgomery<int32_t> a(7), b(11); c16_special(a, b); uint32_t r = 0; c16_ring_ops(a, r, r, r); }
    { Montgomery<RecInt::ruint<7> > a(7), b(11); c16_special(a, b); RecInt::ruint<7> r = 0; c16_ring_ops(a, r, r, r); }
    { Modular<Log16> a(7), b(11); c16_special(a, b); Modular<Log16>::Element r = 0; c16_ring_ops(a, r, r, r); }
    { GFqDom<int64_t> a(3, 2), b(5, 2); c16_special(a, b); int64_t r = 0; c16_ring_ops(a, r, r, r);
      std::vector<int64_t> v(3, 1); a.init(r, v); GFqDom<int64_t> c(3, 2, v); GFqDom<int64_t> d(3, 2, v, v);
      GivRandom g; a.random(g, r); a.nonzerorandom(g, r); }
    { GFqDom<int32_t> a(3, 2), b(5, 2); c16_special(a, b); int32_t r = 0; c16_ring_ops(a, r, r, r);
      std::vector<int32_t> v(3, 1); a.init(r, v); }
    { GFqExtFast<int64_t> a(3, 2), b(5, 2); c16_special(a, b); int64_t r = 0; c16_ring_ops(a, r, r, r);
      a.init(r, 5.0); a.init(r, 5.0f); double d; a.convert(d, r); float f; a.convert(f, r); GivRandom g; a.random(g, r); }
    { GFqExt<int64_t> a(3, 2), b(5, 2); c16_special(a, b); int64_t r = 0; c16_ring_ops(a, r, r, r); a.init(r, 5.0); }
    { Extension<GFqDom<int64_t> > a(3, 8), b(5, 8); c16_special(a, b); Extension<GFqDom<int64_t> >::Element r, s, t;
      a.init(r, 5); a.init(r, Integer(5)); a.mul(r, s, t); a.add(r, s, t); a.inv(r, s); a.div(r, s, t); a.axpy(r, s, t, s);
      Integer i; a.convert(i, r); a.isZero(r); a.areEqual(r, s); a.write(std::cout, r); GivRandom g; a.random(g, r); }
    { Extension<Modular<double> > a(Modular<double>(7), 2), b(Modular<double>(11), 2); c16_special(a, b); c16_ext_ops(a); }
    { Modular<double> F(7); Poly1Dom<Modular<double>, Dense> a(F, "X"), b(F, "Y"); c16_special(a, b);
      Poly1Dom<Modular<double>, Dense>::Element P, Q, R; a.init(P, Degree(2), 1.0); a.mul(R, P, Q); a.add(R, P, Q);
      a.divmod(Q, R, P, P); a.gcd(R, P, Q); Degree d; a.degree(d, P); a.write(std::cout, P); GivRandom g; a.random(g, P, Degree(3)); }
    { GFqDom<int64_t> F(3, 2); Poly1FactorDom<GFqDom<int64_t>, Dense> a(F, "X"), b(F, "Y"); c16_special(a, b);
      Poly1FactorDom<GFqDom<int64_t>, Dense>::Element P, Q; std::vector<Poly1FactorDom<GFqDom<int64_t>, Dense>::Element> L; std::vector<uint64_t> e;
      a.CZfactor(L, e, P); a.is_irreducible(P); a.random_irreducible(Q, Degree(3)); a.creux_random_irreducible(Q, Degree(3));
      a.is_prim_root(Q, P); a.random_prim_root(P, Q, Degree(2)); a.ixe_irreducible(Q, Degree(3)); a.give_prim_root(P, Q);
      a.SplitFactor(L, P, Degree(1)); a.DistinctDegreeFactor(L, P); }
    { Modular<double> F(7); Poly1FactorDom<Modular<double>, Dense> a(F, "X"), b(F, "Y"); c16_special(a, b);
      Poly1FactorDom<Modular<double>, Dense>::Element P, Q; a.is_irreducible(P); a.random_irreducible(Q, Degree(3)); }
    { GFqDom<int64_t> F(3, 1); Poly1Dom<GFqDom<int64_t>, Dense> PD(F, "X"); Poly1PadicDom<GFqDom<int64_t>, Dense> a(PD), b(PD); c16_special(a, b);
      Poly1PadicDom<GFqDom<int64_t>, Dense>::Element P; Integer i; a.radix(P, i); a.eval(i, P); int64_t l; a.eval(l, P); }
    { std::vector<Integer> p(3, Integer(7)); IntRNSsystem<std::vector, std::allocator> a(p), b(p); c16_special(a, b);
      Integer x; std::vector<Integer> r; a.RingToRns(r, x); a.RnsToRing(x, r); a.RnsToMixedRadix(r, r); a.MixedRadixToRing(x, r);
      a.Reciprocals(); a.reciprocal(1); a.product(); a.Primes(); a.ith(0); }
    { typedef RNSsystem<Integer, Modular<double> > R; R::domains p(3); R a(p), b(p); c16_special(a, b);
      Integer x; R::array r; a.RingToRns(r, x); a.RnsToRing(x, r); a.MixedRadixToRing(x, r); a.Reciprocals(); a.reciprocal(1); a.Primes(); a.ith(0); }
    { QField<Rational> a, b; QField<Rational> c(a); (void)b; /* operator= is implicitly deleted (const members) */ Rational r, s, t; a.init(r, Integer(3), Integer(4)); a.add(r, s, t); a.mul(r, s, t); a.inv(r, s);
      a.div(r, s, t); a.axpy(r, s, t, s); a.isZero(r); a.areEqual(r, s); a.write(std::cout, r); }
    { typedef StaticElement<Modular<double> > S; S::setDomain(Modular<double>(7)); S x(3), y(4), z; z = x; z = x + y; z = x * y; z = x - y; z = x / y;
      z += x; z -= x; z *= x; z /= y; (void)(x == y); x.isZero(); double d = (double)x; (void)d; S w(x); (void)w; }
}

// every constructor overload of every class: the constructors are analysed like the operations (a function-local static or a
// mutable global they touch is hidden cross-object state).  Overloads that do not compile (GFqExtFast(const GFqDom&) and
// GFqExt(const GFqDom&) read members GFqDom does not have) stay uninstantiated: the translator still scans their template
// patterns for function-local statics and lists them as not analysed.
template<class M> void c16_ctors_modular() { M a; M b((typename M::Residu_t)7); M c(Integer(7)); M d(7.0); M e((int64_t)7); M f((uint64_t)7); (void)a; }
void c16_ctor_uses() {
    c16_ctors_modular<Modular<int32_t> >(); c16_ctors_modular<Modular<uint32_t> >(); c16_ctors_modular<Modular<int64_t> >(); c16_ctors_modular<Modular<uint64_t> >();
    c16_ctors_modular<Modular<float> >(); c16_ctors_modular<Modular<double> >();
    c16_ctors_modular<Modular<int8_t> >(); c16_ctors_modular<Modular<uint8_t> >(); c16_ctors_modular<Modular<int16_t> >(); c16_ctors_modular<Modular<uint16_t> >();
    { ModularExtended<double> a; ModularExtended<double> b(7.0); ModularExtended<double> c((uint64_t)7); ModularExtended<double> d(Integer(7)); ModularExtended<float> e; ModularExtended<float> f(7.0f); ModularExtended<float> g((uint64_t)7); (void)a; (void)e; }
    { Modular<Integer> a; Modular<Integer> b(Integer(7)); Modular<Integer> c((int64_t)7); Modular<Integer> d((uint64_t)7); (void)a; }
    { Modular<RecInt::ruint<7> > a; Modular<RecInt::ruint<7> > b(RecInt::ruint<7>(7)); Modular<RecInt::ruint<7> > c(Integer(7)); (void)a; }
    { ModularBalanced<int32_t> a; ModularBalanced<int64_t> b; ModularBalanced<float> c; ModularBalanced<double> d; Montgomery<int32_t> e; Montgomery<int32_t> f(7, 1); Montgomery<RecInt::ruint<7> > g; Modular<Log16> h; (void)a; }
    { std::vector<int32_t> v(3, 1); std::vector<int64_t> vl(3, 1); std::vector<int> w(3, 1); std::deque<long> q(3, 1);
      GFqDom<int32_t> a; GFqDom<int32_t> c(3, 2, v); GFqDom<int32_t> d(3, 2, v, v); GFqDom<int32_t> g(3, 2, q); GFqDom<int32_t> h(3, 2, q, q);
      GFqDom<int64_t> e(3, 2, w, w); GFqDom<int64_t> f(3, 2, q); GFqDom<int64_t> i(3, 2, w); GFqDom<int64_t> j(3, 2, q, q); GFqDom<int64_t> k;
      GFqExtFast<int64_t> l; GFqExtFast<int64_t> m(3, 2, vl); GFqExtFast<int64_t> n(3, 2, q); GFqExt<int64_t> o; (void)a; }
    { Extension<GFqDom<int64_t> > a; Extension<GFqDom<int64_t> > b((uint64_t)3, (uint64_t)8, Indeter("Y")); GFqDom<int64_t> F(3, 1); Extension<GFqDom<int64_t> > c(F, 2, Indeter("Y"));
      Poly1Dom<GFqDom<int64_t>, Dense> PD(F, "Y"); Poly1Dom<GFqDom<int64_t>, Dense>::Element P; Extension<GFqDom<int64_t> > d(PD, P); (void)a; }
    { Modular<double> F(7); Extension<Modular<double> > a; Poly1Dom<Modular<double>, Dense> PD(F, "Y"); Poly1Dom<Modular<double>, Dense>::Element P; Extension<Modular<double> > d(PD, P); (void)a; }
    { Modular<double> F(7); Poly1Dom<Modular<double>, Dense> a; Poly1Dom<Modular<double>, Dense> a2(F, "X"); Poly1FactorDom<Modular<double>, Dense> b; Poly1FactorDom<Modular<double>, Dense> c(a2, GivRandom());
      GFqDom<int64_t> G(3, 2); Poly1Dom<GFqDom<int64_t>, Dense> e; Poly1Dom<GFqDom<int64_t>, Dense> e2(G, "X"); Poly1FactorDom<GFqDom<int64_t>, Dense> f; Poly1FactorDom<GFqDom<int64_t>, Dense> g(e2, GivRandom()); (void)a; (void)e; }
    { GFqDom<int64_t> F(3, 1); Poly1PadicDom<GFqDom<int64_t>, Dense> a(F, "X"); Poly1Dom<GFqDom<int64_t>, Dense> PD(F, "X"); IntegerDom Z; Poly1PadicDom<GFqDom<int64_t>, Dense> b(PD, Z); }
    { std::vector<int64_t> p(3, 7); IntRNSsystem<std::vector, std::allocator> a(p); IntRNSsystem<std::vector, std::allocator> b; RNSsystem<Integer, Modular<double> > c; (void)b; }
    { QField<Rational> a(5); }
}
