// C16/C18 — second unit for the object-model translator: the COMPILED sources of the library whose functions the domain classes call
// (Integer arithmetic, Rational, prime tests, timer, memory manager, bit arrays).  Dumped like c16_inst.C (never linked) so that their
// bodies are in the AST and a call into them is analysed instead of being assumed effect-free.  harness/c16_objmodel.py prefixes the node
// ids of this dump with "L" and links declarations of the first unit to definitions of this one by (owner class, name, type).
#include "gmp++_int.C"
#include "gmp++_int_lib.C"
#include "givinteger.C"
#include "givintprime.C"
#include "givrataddsub.C"
#include "givratcompare.C"
#include "givratcpy.C"
#include "givratcstor.C"
#include "givratio.C"
#include "givratmisc.C"
#include "givratmuldiv.C"
#include "givratreconstruct.C"
#include "givtimer.C"
#include "givbasictype.C"
#include "giverror.C"
#include "givaromm.C"
#include "givbits.C"
#include "givindeter.C"
#include "givdegree.C"
#include "givops.C"
