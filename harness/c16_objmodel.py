# C16/C18 — object-model translator (the "T" tie of DESIGN 5/C16, 5/C18).
#
# Input : clang++ -std=gnu++11 <vf.inc_flags> -fsyntax-only -Xclang -ast-dump=json -Xclang -ast-dump-filter=Givaro
#         on harness/c16_inst.C (a small instantiation unit), compiled against /repo's CURRENT headers.
# Output: for every domain class in scope a description
#           members / copy-constructor map / operator= map / members read by methods /
#           per const method: what it writes other than its operands (own members through mutable, const_cast or
#           C-style casts, function-local statics, namespace/class statics, heap reached through a pointer member) /
#           reference-count protocol of shared heap parts
#         as JSON and as the Coq file coq/C16/gen/Desc.v (records of strings/enums consumed by SelfContained.v/RaceFree.v).
#         GFqKronecker (gfqkronecker.h does not compile in this tree) is described by a SOURCE SCAN, flagged as such.
#
# Rules (const methods).  `this` is const there, so the type system already forbids writes to own members except
# through (1) `mutable` members, (2) casts that drop const from `this` or a member, (3) pointer members (shallow
# const: the pointee is writable), and it never protects (4) function-local statics and (5) non-const namespace /
# class statics.  The analysis therefore classifies every access path rooted at `this` or at a static:
#   read   : the path is consumed by an lvalue-to-rvalue conversion, bound to a const reference / const object
#            argument, or its lvalue type is const-qualified;
#   write  : anything else (assignment target, ++/--, non-const reference argument, non-const member call, ...).
# Effects of callees whose bodies are in the dump are propagated (receiver rooted at `this` -> own write with the
# receiver path as prefix; statics always).  Callees without a body in the dump (std::, GMP, RecInt, dependent
# code) are summarised by their signature, i.e. assumed const-correct.
import json, os, re, sys, time, hashlib, pickle

HERE = os.path.dirname(os.path.abspath(__file__))
ROOT = os.path.dirname(HERE)
sys.path.insert(0, os.path.join(ROOT, "lib"))
import vf

INST = os.path.join(HERE, "c16_inst.C")
LIB = os.path.join(HERE, "c16_lib.C")          # the compiled sources of the library (Integer, Rational, ...): bodies of what the classes call

# (display name, class name, leading template arguments as clang prints them)
TARGETS = [
    ("Modular<int32_t>", "Modular", ["int"]),
    ("Modular<uint32_t>", "Modular", ["unsigned int"]),
    ("Modular<int64_t>", "Modular", ["long"]),
    ("Modular<uint64_t>", "Modular", ["unsigned long"]),
    ("Modular<float>", "Modular", ["float"]),
    ("Modular<double>", "Modular", ["double"]),
    ("Modular<int8_t>", "Modular", ["signed char"]),
    ("Modular<uint8_t>", "Modular", ["unsigned char"]),
    ("Modular<int16_t>", "Modular", ["short"]),
    ("Modular<uint16_t>", "Modular", ["unsigned short"]),
    ("ModularExtended<double>", "ModularExtended", ["double"]),
    ("ModularExtended<float>", "ModularExtended", ["float"]),
    ("Modular<Integer>", "Modular", ["Givaro::Integer"]),
    ("Modular<ruint<7>>", "Modular", ["RecInt::ruint<7>"]),
    ("ModularBalanced<int32_t>", "ModularBalanced", ["int"]),
    ("ModularBalanced<int64_t>", "ModularBalanced", ["long"]),
    ("ModularBalanced<float>", "ModularBalanced", ["float"]),
    ("ModularBalanced<double>", "ModularBalanced", ["double"]),
    ("Montgomery<int32_t>", "Montgomery", ["int"]),
    ("Montgomery<ruint<7>>", "Montgomery", ["RecInt::ruint<7>"]),
    ("Modular<Log16>", "Modular", ["Givaro::Log16"]),
    ("GFqDom<int64_t>", "GFqDom", ["long"]),
    ("GFqDom<int32_t>", "GFqDom", ["int"]),
    ("GFqExtFast<int64_t>", "GFqExtFast", ["long"]),
    ("GFqExt<int64_t>", "GFqExt", ["long"]),
    ("Extension<GFqDom<int64_t>>", "Extension", ["Givaro::GFqDom<long>"]),
    ("Extension<Modular<double>>", "Extension", ["Givaro::Modular<double>"]),
    ("Poly1Dom<Modular<double>,Dense>", "Poly1Dom", ["Givaro::Modular<double>", "Givaro::Dense"]),
    ("Poly1Dom<GFqDom<int64_t>,Dense>", "Poly1Dom", ["Givaro::GFqDom<long>", "Givaro::Dense"]),
    ("Poly1FactorDom<Modular<double>,Dense>", "Poly1FactorDom", ["Givaro::Modular<double>", "Givaro::Dense"]),
    ("Poly1FactorDom<GFqDom<int64_t>,Dense>", "Poly1FactorDom", ["Givaro::GFqDom<long>", "Givaro::Dense"]),
    ("Poly1PadicDom<GFqDom<int64_t>,Dense>", "Poly1PadicDom", ["Givaro::GFqDom<long>", "Givaro::Dense"]),
    ("IntRNSsystem<vector>", "IntRNSsystem", []),
    ("RNSsystem<Integer,Modular<double>>", "RNSsystem", ["Givaro::Integer", "Givaro::Modular<double>"]),
    ("QField<Rational>", "QField", ["Givaro::Rational"]),
    ("StaticElement<Modular<double>>", "StaticElement", ["Givaro::Modular<double>"]),
]

# classes that are described but carry NO verdict, with the reason; emitted into gen/Decide.v (sc_exceptions) so that the Coq statement
# C16_decided_self_contained says what is decided and what is set aside
NO_VERDICT = {
    "StaticElement<Modular<double>>": "element wrapper whose domain is a documented class static (setDomain): not a domain object",
    "GFqKronecker<TT,Ints>": "gfqkronecker.h does not compile in this tree (missing givzpz.h): described by a source scan only",
}

IGNORED_GLOBALS = {"cout", "cerr", "cin", "clog", "endl"}     # I/O streams are not domain state
# documented process-wide state excluded by the property texts (C16: Rational::flags; C18: allocator free lists,
# GMP random state).  They are still listed in the description, as `excluded`.
# documented globals whose VALUE an operation may depend on (excluded by C16's text) -- a const operation WRITING one is still a
# write to process-wide state (race for C18, history dependence for C16): only reads are excluded
READ_EXCLUDED_GLOBALS = {"flags": "Rational::flags (documented global reduction switch: results may depend on it; writing it is not excluded)"}
EXCLUDED_GLOBALS = {"tabphy": "GivMMFreeList free lists (process-wide allocator state, excluded by C18/C16 texts)", "TabFree": "GivMMFreeList free lists (process-wide allocator state, excluded by C18/C16 texts)",
                    "logalloc": "allocator statistics of the free lists (process-wide allocator state)",
                    "tablog": "allocator statistics of the free lists (process-wide allocator state)",
                    "physalloc": "allocator statistics of the free lists (process-wide allocator state)",
                    "TabSize": "size table of the free lists (process-wide allocator state)"}
# random-generator state: a method that advances a generator is a randomised algorithm, outside both claims
RANDOM_STATICS = {"randstate": "GMP random state behind Integer::random (process-wide, excluded by the property texts)"}
RANDOM_TYPES = ("GivRandom", "RandomIterator", "RandIter")
ASSIGN_OPS = {"=", "+=", "-=", "*=", "/=", "%=", "<<=", ">>=", "&=", "|=", "^="}
FUNC_KINDS = ("CXXMethodDecl", "CXXConstructorDecl", "CXXDestructorDecl", "FunctionDecl", "CXXConversionDecl")
CLASS_KINDS = ("ClassTemplateSpecializationDecl", "CXXRecordDecl", "ClassTemplatePartialSpecializationDecl")


def norm(t):
    t = t.replace("Givaro::", "").replace("class ", "").replace("struct ", "")
    return re.sub(r"\s+", "", t)


def has_body(n):
    return any(isinstance(c, dict) and c.get("kind") == "CompoundStmt" for c in n.get("inner", []))


def kids(n):
    return [c for c in n.get("inner", []) if isinstance(c, dict) and c]


def qt(n):
    t = n.get("type", {})
    return t.get("desugaredQualType") or t.get("qualType") or ""


def is_const_lvalue_type(t):
    """is an lvalue of this (printed) type non-modifiable?"""
    t = t.strip()
    depth = 0
    last_star = -1
    for i, ch in enumerate(t):
        if ch in "<(":
            depth += 1
        elif ch in ">)":
            depth -= 1
        elif ch == "*" and depth == 0:
            last_star = i
    if last_star >= 0:
        return "const" in t[last_star:]
    return t.startswith("const ") or t.endswith(" const")


def split_params(ftype):
    """'R (A, B) const' -> (['A','B'], is_const)"""
    depth = 0
    start = None
    end = None
    for i, ch in enumerate(ftype):
        if ch == "(":
            if depth == 0 and start is None:
                start = i
            depth += 1
        elif ch == ")":
            depth -= 1
            if depth == 0 and start is not None and end is None:
                end = i
        elif ch == "<":
            pass
    if start is None or end is None:
        return [], False
    # template angle brackets: split on commas at depth 0 of <> and ()
    inner = ftype[start + 1:end]
    ps, cur, d = [], "", 0
    for ch in inner:
        if ch in "<(":
            d += 1
        elif ch in ">)":
            d -= 1
        if ch == "," and d == 0:
            ps.append(cur.strip()); cur = ""
        else:
            cur += ch
    if cur.strip():
        ps.append(cur.strip())
    tail = ftype[end + 1:]
    return ps, bool(re.match(r"\s*const\b", tail))


# ------------------------------------------------------------------------------------------------ AST loading

def ast_cache_key():
    srcs = vf.repo_sources() + [INST, LIB, os.path.abspath(__file__)]
    return vf.file_hash(srcs, "c16-objmodel-v16")


def _clang_dump(unit, prefix=""):
    """one clang run; returns (list of JSON objects, error text or None).  `prefix` is put in front of every node address of the
    dump, so that the ids of two translation units cannot collide"""
    import subprocess
    cmd = ["clang++", "-std=gnu++11"] + vf.inc_flags() + ["-I" + HERE, "-DNDEBUG", "-DHAVE_CONFIG_H", "-D" + vf.GUARD,
           "-fsyntax-only", "-Xclang", "-ast-dump=json", "-Xclang", "-ast-dump-filter=Givaro", unit]
    try:
        p = subprocess.run(cmd, stdout=subprocess.PIPE, stderr=subprocess.PIPE, universal_newlines=True, errors="replace", timeout=2400)
    except subprocess.TimeoutExpired:
        return None, "clang on %s: [timeout after 2400s]" % os.path.basename(unit)
    if p.returncode < 0:
        return None, "clang on %s: Killed by signal %d (memory / system limits)\n%s" % (os.path.basename(unit), -p.returncode, p.stderr[-1000:])
    if p.returncode != 0:
        return None, "clang failed on %s:\n%s" % (os.path.basename(unit), p.stderr[-4000:])
    txt = p.stdout
    if prefix:
        txt = txt.replace('"0x', '"' + prefix + '0x')
    dec = json.JSONDecoder()
    i, n, objs = 0, len(txt), []
    while i < n:
        while i < n and txt[i] in " \n\r\t":
            i += 1
        if i >= n:
            break
        o, i = dec.raw_decode(txt, i)
        objs.append(o)
    return objs, None


def dump_ast():
    """run clang on the instantiation unit and on the library unit, parse the concatenated JSON objects.  returns (objs, log)"""
    dbg = os.environ.get("C16_AST_PICKLE")          # development aid only (never set by the checks)
    if dbg and os.path.exists(dbg):
        return pickle.load(open(dbg, "rb")), "from pickle"
    objs, err = _clang_dump(INST)
    if objs is None:
        return None, err
    lib, err = _clang_dump(LIB, "L")
    if lib is None:
        return None, err
    return objs + lib, ""


# ------------------------------------------------------------------------------------------------ index

class Index:
    def __init__(self, objs):
        self.decl = {}          # id -> node
        self.cls_of = {}        # id of method/field/var -> class node
        self.defn = {}          # id -> node that has the body
        self.classes = []       # complete class nodes
        self.enclosing_fn = {}
        self._ctor_cache = {}
        self._census = None
        self._defs_by = None
        for o in objs:
            self._walk(o, None)
        # out-of-line definitions: previousDecl chains
        for i, n in list(self.decl.items()):
            if n.get("kind") in FUNC_KINDS and has_body(n):
                self.defn.setdefault(i, n)
                p = n.get("previousDecl")
                seen = 0
                while p and seen < 8:
                    self.defn.setdefault(p, n)
                    p = self.decl.get(p, {}).get("previousDecl")
                    seen += 1
                pc = n.get("parentDeclContextId")
                if pc and pc in self.decl and i not in self.cls_of:
                    self.cls_of[i] = self.decl[pc]
        # declarations of the first unit -> definitions in the library unit (ids differ between the two dumps): by owner, name, type
        strip = lambda t: re.sub(r"\s*noexcept(\(.*\))?\s*$", "", t or "")
        libdef = {}
        for i, n in self.decl.items():
            if str(i).startswith("L") and n.get("kind") in FUNC_KINDS and has_body(n):
                own = self.cls_of.get(i) if n.get("kind") != "FunctionDecl" else None          # (friend functions are declared inside the class)
                libdef.setdefault(((own or {}).get("name") or "", n.get("name"), norm(strip(qt(n)))), n)
        self.linked_to_library = 0
        for i, n in list(self.decl.items()):
            if not str(i).startswith("L") and n.get("kind") in FUNC_KINDS and i not in self.defn and not has_body(n):
                own = self.cls_of.get(i) if n.get("kind") != "FunctionDecl" else None
                d2 = libdef.get(((own or {}).get("name") or "", n.get("name"), norm(strip(qt(n)))))
                if d2 is not None:
                    self.defn[i] = d2
                    self.linked_to_library += 1

    def _walk(self, n, cls):
        k = n.get("kind")
        if "id" in n and k and k.endswith("Decl"):
            self.decl.setdefault(n["id"], n) if not has_body(n) else self.decl.__setitem__(n["id"], n)
            if cls is not None and k in FUNC_KINDS + ("FieldDecl", "VarDecl"):
                self.cls_of.setdefault(n["id"], cls)
        if k in CLASS_KINDS:
            if n.get("completeDefinition"):
                self.classes.append(n)
            cls = n
        for c in kids(n):
            self._walk(c, cls)

    def defs_by_owner_name(self):
        """(owner class bare name, function name) -> definitions with a body anywhere in the dump, template patterns included"""
        if self._defs_by is None:
            self._defs_by = {}
            for i, n in self.decl.items():
                if n.get("kind") in FUNC_KINDS and has_body(n):
                    own = self.cls_of.get(i)
                    if own is not None and own.get("name"):
                        self._defs_by.setdefault((own.get("name"), n.get("name")), []).append(n)
        return self._defs_by

    def static_census(self):
        """every function-local static declared in a member function / constructor DEFINITION of the dump, template patterns
        included (a static in a constructor template, or in a member nobody instantiates, is invisible to the analysis of
        instantiated bodies)"""
        if self._census is not None:
            return self._census
        out = []
        seen = set()
        def statics_in(n, acc):
            for ch in kids(n):
                if ch.get("kind") == "VarDecl" and ch.get("storageClass") == "static":
                    acc.append(ch)
                if ch.get("kind") in FUNC_KINDS and ch.get("kind") != "CXXMethodDecl":
                    continue
                statics_in(ch, acc)
        for i, n in self.decl.items():
            if n.get("kind") not in FUNC_KINDS or not has_body(n):
                continue
            cls = self.cls_of.get(i)
            if cls is None or not cls.get("name"):
                continue
            acc = []
            statics_in(n, acc)
            for v in acc:
                key = (cls.get("name"), n.get("name"), v.get("name"))
                if key in seen:
                    continue
                seen.add(key)
                out.append({"cls": cls.get("name"), "fn": n.get("name"), "var": v.get("name"), "type": qt(v), "sig": qt(n)[:120],
                            "ctor": n.get("kind") == "CXXConstructorDecl", "const": split_params(qt(n))[1],
                            "line": n.get("loc", {}).get("line") or n.get("loc", {}).get("expansionLoc", {}).get("line"),
                            "const_init": static_is_constant(v)})
        self._census = out
        return out

    def ctors_of(self, c):
        """[(constructor node, 'plain' | 'pattern' | 'instance')] of class node c; 'pattern' = the templated declaration itself"""
        out = []
        for m in kids(c):
            if m.get("kind") == "CXXConstructorDecl":
                out.append((m, "plain"))
            elif m.get("kind") == "FunctionTemplateDecl":
                cs = [x for x in kids(m) if x.get("kind") == "CXXConstructorDecl"]
                for i, x in enumerate(cs):
                    out.append((x, "pattern" if i == 0 else "instance"))
        return out

    def find_ctor(self, class_type, ctor_type):
        """the definition of the constructor a CXXConstructExpr calls (clang's JSON gives the class type and the constructor's
        function type, not the declaration): resolved by type"""
        strip = lambda t: re.sub(r"\s*noexcept(\(.*\))?\s*$", "", t or "")
        key = (class_type, ctor_type)
        if key in self._ctor_cache:
            return self._ctor_cache[key]
        res = None
        c = self.find_class_by_type(class_type) if class_type else None
        if c is not None:
            want = norm(strip(ctor_type))
            for m, kind in self.ctors_of(c):
                if kind != "pattern" and norm(strip(qt(m))) == want:
                    b = self.body(m["id"])
                    if b is not None:
                        res = b
                        break
        self._ctor_cache[key] = res
        return res

    def body(self, fid):
        n = self.defn.get(fid)
        if n is not None:
            return n
        n = self.decl.get(fid)
        if n is not None and has_body(n):
            return n
        return None

    def targs(self, c):
        out = []
        for a in kids(c):
            if a.get("kind") == "TemplateArgument":
                if "type" in a:
                    out.append(a["type"].get("qualType", ""))
                elif "value" in a:
                    out.append(str(a["value"]))
                else:
                    out.append("?")
        return out

    def find_class(self, name, args):
        na = [norm(a) for a in args]
        best = None
        for c in self.classes:
            if c.get("name") != name or c.get("kind") == "ClassTemplatePartialSpecializationDecl":
                continue
            ta = [norm(a) for a in self.targs(c)]
            if c.get("kind") == "CXXRecordDecl" and args:
                continue
            if ta[:len(na)] == na:
                if best is None or (len(kids(c)) > len(kids(best))):
                    best = c
        return best

    def find_class_by_type(self, tstr):
        t = norm(tstr)
        m = re.match(r"^(?:typename)?([A-Za-z_0-9:]+?)(?:<(.*)>)?$", t)
        if not m:
            return None
        name = m.group(1).split("::")[-1]
        argstr = m.group(2)
        cands = [c for c in self.classes if c.get("name") == name and c.get("kind") != "ClassTemplatePartialSpecializationDecl"]
        if argstr is None:
            cands2 = [c for c in cands if c.get("kind") == "CXXRecordDecl"]
            return cands2[0] if cands2 else (cands[0] if len(cands) == 1 else None)
        for c in cands:
            ta = ",".join(norm(a) for a in self.targs(c))
            if ta == argstr or ta.startswith(argstr + ",") or argstr.startswith(ta + ",") :
                return c
        # default template arguments are not printed in base specifiers: accept a unique prefix match
        pre = [c for c in cands if ",".join(norm(a) for a in self.targs(c)).startswith(argstr)]
        return pre[0] if len(pre) == 1 else None


# ------------------------------------------------------------------------------------------------ access paths

class Path:
    __slots__ = ("root", "name", "members", "deref", "cast", "node")

    def __init__(self, root, name, members, deref, cast):
        self.root, self.name, self.members, self.deref, self.cast = root, name, members, deref, cast

    def key(self):
        return (self.root, self.name, tuple(self.members), self.deref, self.cast)


def drops_const(cast_node):
    """does this explicit cast produce a non-const view of something const?"""
    sub = kids(cast_node)
    if not sub:
        return False
    to = qt(cast_node)
    frm = qt(sub[-1])
    def c(t):
        # constness of the pointee/referee (for pointers: before the last '*')
        t = t.strip()
        return "const" in t
    return c(frm) and not c(to)


def access_path(e, fn):
    """resolve an lvalue-ish expression to its root.  returns Path or None (temporary / call result / literal)"""
    members, deref, cast = [], False, False
    cur = e
    for _ in range(64):
        k = cur.get("kind")
        sub = kids(cur)
        if k in ("ParenExpr", "ImplicitCastExpr", "MaterializeTemporaryExpr", "ExprWithCleanups", "CXXBindTemporaryExpr",
                 "ConstantExpr", "SubstNonTypeTemplateParmExpr"):
            if not sub:
                return None
            cur = sub[0]
        elif k in ("CStyleCastExpr", "CXXConstCastExpr", "CXXStaticCastExpr", "CXXReinterpretCastExpr", "CXXFunctionalCastExpr"):
            if not sub:
                return None
            if k in ("CStyleCastExpr", "CXXConstCastExpr", "CXXReinterpretCastExpr") and drops_const(cur):
                cast = True
            cur = sub[-1]
        elif k == "MemberExpr":
            if not sub:
                return None
            members.append(cur.get("name"))
            if cur.get("isArrow") and sub[0].get("kind") != "CXXThisExpr":
                # p->m : through a pointer value
                pass
            cur = sub[0]
        elif k == "CXXDependentScopeMemberExpr":
            if not sub:
                return None
            members.append(cur.get("member") or "?")
            cur = sub[0]
        elif k == "ArraySubscriptExpr":
            deref = True
            cur = sub[0]
        elif k == "UnaryOperator" and cur.get("opcode") == "*":
            deref = True
            cur = sub[0]
        elif k == "UnaryOperator" and cur.get("opcode") == "&":
            cur = sub[0]
        elif k == "CXXOperatorCallExpr" and len(sub) >= 2 and _callee_name(sub[0]) in ("operator[]", "operator*", "operator->"):
            # container element: still the container member
            cur = sub[1]
        elif k == "CXXThisExpr":
            members.reverse()
            return Path("this", "this", members, deref, cast)
        elif k == "DeclRefExpr":
            r = cur.get("referencedDecl", {})
            members.reverse()
            rk = r.get("kind")
            if rk == "ParmVarDecl":
                return Path("param", r.get("name"), members, deref, cast)
            if rk == "VarDecl":
                rid = r.get("id")
                if rid in fn.static_locals:
                    return Path("static_local", r.get("name"), members, deref, cast)
                al = getattr(fn, "aliases", {}).get(rid)
                if al is not None:
                    # a local pointer / reference initialised from a path rooted at `this` or at a static (`Self_t* me =
                    # const_cast<Self_t*>(this); me->_cache = x;`): the access goes to that object
                    pth = Path(al.root, al.name, list(al.members) + members, deref or al.deref, cast or al.cast)
                    if hasattr(al, "node"):
                        pth.node = al.node
                    return pth
                if rid in fn.locals:
                    return Path("local", r.get("name"), members, deref, cast)
                p = Path("global", r.get("name"), members, deref, cast)
                p.node = r
                return p
            return None
        else:
            return None
    return None


def static_is_constant(v):
    """a function-local static that can never differ between two executions of the program: const-qualified (or constexpr) and
    initialised from an expression that mentions no parameter, no `this`, no other variable and calls nothing"""
    if not (is_const_lvalue_type(qt(v)) or v.get("constexpr")):
        return False
    def clean(n):
        k = n.get("kind")
        if k in ("CXXThisExpr", "CallExpr", "CXXMemberCallExpr", "CXXOperatorCallExpr", "LambdaExpr", "CXXNewExpr", "CXXDependentScopeMemberExpr",
                 "UnresolvedLookupExpr", "UnresolvedMemberExpr", "CXXUnresolvedConstructExpr", "DependentScopeDeclRefExpr"):
            return False
        if k == "DeclRefExpr" and n.get("referencedDecl", {}).get("kind") in ("ParmVarDecl", "VarDecl", "FieldDecl", "BindingDecl"):
            return False
        if k == "MemberExpr":
            return False
        return all(clean(c) for c in kids(n))
    return all(clean(c) for c in kids(v))


def _callee_name(n):
    cur = n
    for _ in range(8):
        if cur.get("kind") == "DeclRefExpr":
            return cur.get("referencedDecl", {}).get("name")
        if cur.get("kind") == "MemberExpr":
            return cur.get("name")
        s = kids(cur)
        if not s:
            return None
        cur = s[0]
    return None


def _callee_id(call):
    s = kids(call)
    if not s:
        return None, None
    k = call.get("kind")
    cur = s[0]
    for _ in range(8):
        if cur.get("kind") == "MemberExpr":
            obj = kids(cur)
            return cur.get("referencedMemberDecl"), (obj[0] if obj else None)
        if cur.get("kind") == "DeclRefExpr":
            rid = cur.get("referencedDecl", {}).get("id")
            recv = None
            if k == "CXXOperatorCallExpr" and cur.get("referencedDecl", {}).get("kind") == "CXXMethodDecl" and len(s) >= 2:
                recv = s[1]
            return rid, recv
        ss = kids(cur)
        if not ss:
            return None, None
        cur = ss[0]
    return None, None


def callee_meta(call):
    """(kind of callee expression, type of the receiver object or of the callee, name) of a call expression"""
    s = kids(call)
    cur = s[0] if s else None
    for _ in range(8):
        if cur is None:
            break
        k = cur.get("kind")
        if k == "MemberExpr":
            obj = kids(cur)
            return {"how": "member", "rtype": qt(obj[0]) if obj else "", "name": cur.get("name"), "ftype": qt(cur)}
        if k == "DeclRefExpr":
            r = cur.get("referencedDecl", {})
            rt = ""
            if call.get("kind") == "CXXOperatorCallExpr" and r.get("kind") == "CXXMethodDecl" and len(s) >= 2:
                rt = qt(s[1])
            return {"how": "decl:" + str(r.get("kind")), "rtype": rt, "name": r.get("name"), "ftype": r.get("type", {}).get("qualType", "")}
        if k in ("CXXDependentScopeMemberExpr", "UnresolvedLookupExpr", "UnresolvedMemberExpr", "DependentScopeDeclRefExpr", "CXXPseudoDestructorExpr"):
            return {"how": "dependent" if k != "CXXPseudoDestructorExpr" else "pseudo-destructor", "rtype": "", "name": cur.get("member") or cur.get("name"), "ftype": ""}
        ss = kids(cur)
        cur = ss[0] if ss else None
    return {"how": "?", "rtype": "", "name": None, "ftype": ""}


# ---- explicit effect table for callees that have NO body in the dump.  Every entry says what the callee may touch; nothing in the table
# touches an object other than its receiver / explicit operands, a stream operand, or the process-wide state named in the entry (which the
# property texts exclude).  A callee that matches no entry is UNEXPLAINED (counted, listed, and a broken obligation in checks/C16.py).
EFFECT_TABLE = [
    ("std-container", "member functions / operators of std::vector, list, deque, basic_string, pair, map, iterators: act on their receiver only (the receiver access is classified by the const-ness of the member)",
     lambda m: re.search(r"\bstd::(vector|list|deque|basic_string|string|pair|map|set|_List_|_Deque_|allocator|initializer_list|__cxx11|reverse_iterator|_Vector|_Bit|numeric_limits|char_traits|tuple|function)|__gnu_cxx::__normal_iterator|__normal_iterator|_List_iterator|_List_const_iterator|_Rb_tree", m["rtype"] + " " + (m["ftype"] if m["how"] != "member" or not m["rtype"] else "")) is not None
               or (m["how"].startswith("decl:") and re.search(r"\b(basic_string|vector|allocator|__normal_iterator|_List_iterator|_List_const_iterator|list<|deque|pair<)", m["ftype"]) is not None and not re.search(r"stream", m["ftype"]))),
    ("std-stream", "operator<< / operator>> and member functions of std streams: write / read the stream operand (I/O streams are not domain state)",
     lambda m: re.search(r"basic_[io]*stream|basic_ios|ios_base|std::[io]stream|__ostream_type|__istream_type|stringstream|std::ws|_Setw|_Setprecision|std::endl|std::flush|setw|setprecision", m["rtype"] + " " + m["ftype"] + " " + str(m["name"])) is not None),
    ("std-atomic", "std::atomic<T> members: atomic read-modify-write of their receiver",
     lambda m: re.search(r"__atomic_base|std::atomic", m["rtype"] + " " + m["ftype"]) is not None),
    ("libm / libc pure", "mathematical and utility functions of the C / C++ library without hidden state (fmod, floor, ceil, sqrt, pow, log, abs, min, max, swap, to_string, strlen, memcpy on explicit buffers, isdigit ...)",
     lambda m: m["how"].startswith("decl:Function") and str(m["name"]) in LIBC_PURE),
    ("libc time / random", "time(), gettimeofday(), getrusage(), clock(), rand(): process-wide clock / generator, used by timers and randomised operations only (excluded by the property text)",
     lambda m: str(m["name"]) in ("time", "gettimeofday", "getrusage", "clock", "rand", "srand", "lrand48", "srand48", "random", "getpid")),
    ("GMP C API", "mpz_* / mpq_* / mpf_* / mpn_* / gmp_*: operate on their explicit operands; gmp_randstate is the documented excluded random state; allocation goes through the memory manager (excluded)",
     lambda m: re.match(r"^(__g?mp[zqfn]?_|mp[zqfn]_|gmp_|__gmp)", str(m["name"])) is not None),
    ("allocation", "operator new / delete / malloc / free / the library's memory manager entry points: allocator state (excluded by the property texts)",
     lambda m: str(m["name"]) in ("operator new", "operator delete", "operator new[]", "operator delete[]", "malloc", "free", "realloc", "calloc", "abort", "exit", "__assert_fail")),
    ("RecInt value types", "arithmetic of RecInt::ruint<K> / rint<K> values (src/kernel/recint, not in the dump: its namespace is not Givaro): acts on its explicit operands; the headers are scanned on every run for function-local statics (recint_static_scan)",
     lambda m: re.search(r"RecInt::|\bru?int<", m["rtype"] + " " + m["ftype"]) is not None),
    ("gmpxx", "mpz_class / __gmp_expr of <gmpxx.h>: value types", lambda m: re.search(r"__gmp_expr|mpz_class|mpq_class", m["rtype"] + " " + m["ftype"]) is not None),
    ("builtin", "compiler builtins", lambda m: str(m["name"]).startswith("__builtin")),
    ("gmpxx random", "gmp_randclass of <gmpxx.h> (seed, get_z_range, ...): the GMP random state behind Integer::random / seeding (documented, excluded; callers are randomised operations)",
     lambda m: "gmp_randclass" in m["rtype"] + " " + m["ftype"]),
    ("std misc pure", "std::numeric_limits<T>::max()/min()/epsilon(), std::type_info::name(): constants of the implementation",
     lambda m: (m["how"] == "decl:CXXMethodDecl" and str(m["name"]) in ("max", "min", "epsilon", "lowest", "infinity") and re.match(r"^[\w ]+\(\)( noexcept)?$", m["ftype"].strip()) is not None)
               or "type_info" in m["rtype"]),
    ("libc time", "timespec_get / clock_gettime: the clock (timers, seeds of randomised operations)", lambda m: str(m["name"]) in ("timespec_get", "clock_gettime", "localtime", "gmtime", "strftime")),
    ("operand functor", "call through a function object / function pointer that is a PARAMETER or a local variable of the caller (a generator `g()` passed in): an operand",
     lambda m: m["how"] in ("decl:ParmVarDecl", "decl:VarDecl")),
]
LIBC_PURE = set("fmod fmodf floor floorf ceil ceilf sqrt sqrtf pow powf log log2 log10 exp abs fabs fabsf labs llabs min max swap to_string strlen strcmp strncmp strcpy strncpy memcpy memset memmove "
                "isdigit isspace isalpha isalnum toupper tolower atoi atol strtol strtoul strtod ldexp frexp round lround llround trunc rint nearbyint isnan isinf isfinite signbit copysign "
                "move forward make_pair get begin end distance advance fill copy reverse sort accumulate find operator== operator!= operator< operator> operator<= operator>= operator+ operator- "
                "addressof __addressof declval uninitialized_copy stoi stol stoul stoll stoull stod getline".split())


def classify_unresolved(idx, cid, meta):
    """category of a callee that has no body in the dump"""
    d = idx.decl.get(cid) if cid else None
    if meta.get("how") == "pseudo-destructor":
        return "pseudo-destructor (scalar)"
    if d is not None and (d.get("isImplicit") or d.get("explicitlyDefaulted") == "default"):
        return "implicit / defaulted special member (memberwise)"
    if d is not None and d.get("pure"):
        return "pure virtual (interface declaration)"
    for name, _, pred in EFFECT_TABLE:
        try:
            if pred(meta):
                return name
        except Exception:
            pass
    if d is not None:
        return "DECLARED IN THE LIBRARY, NO BODY IN THE DUMP"
    if meta.get("how") in ("dependent", "pseudo-destructor"):
        return "dependent code (template pattern, not an instantiated body)" if meta["how"] == "dependent" else "pseudo-destructor (scalar)"
    return "UNEXPLAINED"


class FnInfo:
    """one analysed function body"""

    def __init__(self, idx, node):
        self.idx = idx
        self.node = node
        self._in_static_init = 0
        self.locals, self.static_locals = set(), {}
        self.reads = set()            # top-level own members read
        self.effects = []             # dicts
        self.calls = []               # (callee id, receiver Path or None, name)
        self.unresolved_calls = 0
        self.aliases = {}
        self.assigned_fed = set()     # ... and the written value is computed from a PARAMETER of this function (re-parameterisation, not a cache fill)
        self.assigned = set()         # own members this body DEFINITELY writes: target of an assignment / ++ / --, receiver of operator= or of a
                                      # size-changing container member (resize, allocate, copy, clear, push_back, ...), first argument of assign(...)
        self.call_meta = {}           # index in self.calls -> what is known about the callee at the call site (for the classification of
                                      # callees without a body: std::, GMP, libc, RecInt, ...)
        self._collect_locals(node)
        self._collect_aliases(node)
        ps, self.is_const = split_params(qt(node))
        for c in kids(node):
            if c.get("kind") == "CompoundStmt":
                self._visit(c, None)
            elif c.get("kind") == "CXXCtorInitializer":
                for x in kids(c):
                    self._visit(x, None)

    def _collect_locals(self, n):
        for c in kids(n):
            k = c.get("kind")
            if k in ("VarDecl", "ParmVarDecl"):
                self.locals.add(c["id"])
                if c.get("storageClass") == "static" and k == "VarDecl":
                    self.static_locals[c["id"]] = (c.get("name"), qt(c))
            self._collect_locals(c)          # (lambda bodies included: their locals and statics belong to this function's analysis)

    def _collect_aliases(self, n):
        """local pointers / references bound to (a part of) `this`, a static or a global"""
        for c in kids(n):
            if c.get("kind") == "VarDecl" and c.get("storageClass") != "static" and c["id"] in self.locals:
                t = qt(c).rstrip()
                if (t.endswith("*") or t.endswith("&") or t.endswith("* const")) and kids(c):
                    ini = kids(c)[-1]
                    p = access_path(ini, self)
                    if p is not None and p.root in ("this", "static_local", "global"):
                        ref_const = t.endswith("&") and is_const_lvalue_type(t[:-1])
                        ptr_const = (t.endswith("*") or t.endswith("* const")) and "const" in t[:t.rfind("*")]
                        if not (ref_const or ptr_const):          # a pointer / reference to const cannot be written through
                            self.aliases[c["id"]] = p
            self._collect_aliases(c)

    # classification of one maximal access path in its context
    def _classify(self, e, parent):
        p = access_path(e, self)
        if p is None:
            return
        if p.root in ("param", "local"):
            return
        pk = parent.get("kind") if parent else None
        t = qt(e)
        read = False
        nonconst_callee = None
        if pk == "ImplicitCastExpr" and parent.get("castKind") == "LValueToRValue":
            read = True
        elif pk == "ImplicitCastExpr" and is_const_lvalue_type(qt(parent)) and parent.get("castKind") in (
                "NoOp", "DerivedToBase", "UncheckedDerivedToBase"):
            read = True
        elif e.get("valueCategory") == "prvalue":
            read = True
        elif is_const_lvalue_type(t):
            read = True
        elif pk == "MemberExpr" and "bound member function" in qt(parent):
            # object of a member call: const-ness decided by the callee
            mid = parent.get("referencedMemberDecl")
            d = self.idx.decl.get(mid)
            if d is not None:
                _, c = split_params(qt(d))
                read = c
                if not c:
                    nonconst_callee = mid      # resolved in Analyzer.summary: a body that writes no own member only reads
            else:
                read = is_const_lvalue_type(t)
        elif pk == "CXXDeleteExpr":
            read = False
        if p.root == "this":
            if p.members:
                self.reads.add(p.members[0])
            if not read:
                how = "cast" if p.cast else ("heap" if p.deref else "mutable")
                self.effects.append({"kind": "own_write", "path": list(p.members), "how": how})
            elif p.cast and not p.members:
                pass
        elif p.root == "static_local":
            self.effects.append({"kind": "static_local", "var": p.name, "write": not read, "init": self._in_static_init > 0,
                                 "nonconst_callee": nonconst_callee})
        elif p.root == "global":
            nm = p.name
            if nm in IGNORED_GLOBALS:
                return
            rt = getattr(p, "node", {}).get("type", {}).get("qualType", "") if hasattr(p, "node") else ""
            const = is_const_lvalue_type(rt) if rt else False
            if const:
                return          # immutable constant (Integer::zero, prime tables, ...)
            self.effects.append({"kind": "global_write" if not read else "global_read", "var": nm, "type": rt})

    def _note_assigned(self, e, values=()):
        """e is definitely written; `values` = the expressions the new value comes from (fed = one of them mentions a parameter)"""
        p = access_path(e, self) if e is not None else None
        if p is not None and p.root == "this" and p.members:
            self.assigned.add(p.members[0])
            if any(_mentions_any_param(v) for v in values if isinstance(v, dict)):
                self.assigned_fed.add(p.members[0])

    def _visit(self, n, parent):
        k = n.get("kind")
        ks_ = kids(n)
        if k in ("BinaryOperator", "CompoundAssignOperator") and n.get("opcode") in ASSIGN_OPS and len(ks_) == 2:
            self._note_assigned(ks_[0], ks_[1:])
        elif k == "UnaryOperator" and n.get("opcode") in ("++", "--") and ks_:
            self._note_assigned(ks_[0])
        elif k == "CXXOperatorCallExpr" and len(ks_) >= 2 and _callee_name(ks_[0]) in ("operator=", "operator+=", "operator-=", "operator*=", "operator/=", "operator%=", "operator++", "operator--"):
            self._note_assigned(ks_[1], ks_[2:])
        elif k == "CXXOperatorCallExpr" and len(ks_) >= 3 and _callee_name(ks_[0]) == "operator>>":
            self._note_assigned(ks_[2], ks_[1:2])          # stream >> member
        elif k == "CXXMemberCallExpr" and ks_:
            cn = _callee_name(ks_[0])
            if cn in DEFINITE_WRITERS:
                cid_, recv_ = _callee_id(n)
                dcl_ = self.idx.decl.get(cid_)
                if not (dcl_ is not None and split_params(qt(dcl_))[1]):          # (a const member of that name, e.g. a domain's element assign, writes nothing of its receiver)
                    self._note_assigned(recv_, ks_[1:])
            if cn in ("assign", "copy") and len(ks_) >= 3:
                self._note_assigned(ks_[1], ks_[2:])          # F.assign(const_cast<Element&>(mOne), value)
        if k == "ParenExpr":
            for c in kids(n):          # the context of (e) is the context of e:  x ^= !(Table[i])  reads Table
                self._visit(c, parent)
            return
        if k in ("MemberExpr", "ArraySubscriptExpr", "DeclRefExpr", "CXXThisExpr", "CXXDependentScopeMemberExpr") or \
                (k == "UnaryOperator" and n.get("opcode") == "*") or \
                (k in ("CStyleCastExpr", "CXXConstCastExpr") and drops_const(n)):
            if not (k == "MemberExpr" and "bound member function" in qt(n)) and not (k == "DeclRefExpr" and n.get("referencedDecl", {}).get("kind") not in ("VarDecl", "ParmVarDecl")):
                self._classify(n, parent)
                # still visit index expressions etc. below, but not the spine
                self._visit_offspine(n)
                return
        if k in ("CallExpr", "CXXMemberCallExpr", "CXXOperatorCallExpr"):
            cid, recv = _callee_id(n)
            rp = access_path(recv, self) if recv is not None else None
            if recv is not None and rp is None:
                # a receiver that is a call result / a temporary / a conditional is an operand, not the implicit `this`
                rp = Path("local", "<temporary>", [], False, False)
            self.calls.append((cid, rp, _callee_name(kids(n)[0]) if kids(n) else None, self._in_static_init > 0))
            self.call_meta[len(self.calls) - 1] = callee_meta(n)
        if k in ("CXXConstructExpr", "CXXTemporaryObjectExpr"):
            # an object of a class of the library built here (a local domain, a temporary, a member / base initialiser): what ITS
            # constructor does to statics / globals happens inside this function too
            b = self.idx.find_ctor(qt(n), n.get("ctorType", {}).get("qualType", ""))
            if b is not None and b["id"] != self.node.get("id"):
                self.calls.append((b["id"], None, "<constructor>", self._in_static_init > 0))
        if k == "DeclStmt":
            for c in kids(n):
                if c.get("kind") == "VarDecl" and c.get("storageClass") == "static":
                    self.effects.append({"kind": "static_local", "var": c.get("name"), "write": True, "decl": True, "type": qt(c),
                                         "const_init": static_is_constant(c)})
        guarded = k == "VarDecl" and n.get("storageClass") == "static"
        if guarded:
            self._in_static_init += 1
        for c in kids(n):
            self._visit(c, n)
        if guarded:
            self._in_static_init -= 1

    def _visit_offspine(self, n):
        """visit the sub-expressions that are not part of the access path spine (array indices, call arguments)"""
        cur = n
        for _ in range(64):
            k = cur.get("kind")
            sub = kids(cur)
            if not sub:
                return
            if k == "ArraySubscriptExpr":
                for c in sub[1:]:
                    self._visit(c, cur)
                cur = sub[0]
            elif k == "CXXOperatorCallExpr":
                for c in sub[2:]:
                    self._visit(c, cur)
                cur = sub[1] if len(sub) > 1 else sub[0]
            elif k in ("MemberExpr", "ParenExpr", "ImplicitCastExpr", "UnaryOperator", "CStyleCastExpr", "CXXConstCastExpr",
                       "CXXStaticCastExpr", "CXXReinterpretCastExpr", "CXXFunctionalCastExpr", "CXXDependentScopeMemberExpr",
                       "MaterializeTemporaryExpr", "ExprWithCleanups", "CXXBindTemporaryExpr"):
                if k in ("CXXOperatorCallExpr",):
                    pass
                nxt = sub[-1] if k.endswith("CastExpr") and k != "ImplicitCastExpr" else sub[0]
                # a call in the spine (e.g. f().m) : analyse it normally
                if nxt.get("kind") in ("CallExpr", "CXXMemberCallExpr", "CXXConstructExpr", "CXXTemporaryObjectExpr", "ConditionalOperator",
                                       "BinaryOperator", "CXXNewExpr"):
                    self._visit(nxt, cur)
                    return
                cur = nxt
            else:
                return


class Analyzer:
    def __init__(self, idx):
        self.idx = idx
        self.fn = {}            # id(node) -> FnInfo
        self.summ = {}          # function node id -> transitive effects
        self.stats = {"functions": 0, "calls_resolved": 0, "calls_unresolved": 0}
        self.written_globals = None          # None: not computed (every global counts as written); build_descriptions computes it over all bodies
        self.unresolved = {}          # category -> count (call sites in analysed bodies whose callee has no body in the dump)
        self.unresolved_names = {}    # category -> {callee: count}

    def info(self, node):
        i = node["id"]
        if i not in self.fn:
            self.fn[i] = FnInfo(self.idx, node)
            self.stats["functions"] += 1
        return self.fn[i]

    def summary(self, node, depth=0, stack=()):
        """transitive effects of calling `node` (own_write paths relative to its `this`)"""
        i = node["id"]
        if i in self.summ:
            return self.summ[i]
        if i in stack or depth > 12:
            return {"effects": [], "reads": set()}
        fi = self.info(node)
        effects = []
        for e in fi.effects:
            e = dict(e, via=[fname(self.idx, node)])
            cal = e.pop("nonconst_callee", None)
            if cal and e.get("write"):
                # non-const member function called on a static: a write only if that body writes one of its own members
                b2 = self.idx.body(cal)
                if b2 is not None and b2["id"] != i and b2["id"] not in stack:
                    s2 = self.summary(b2, depth + 1, stack + (i,))
                    if not any(x["kind"] in ("own_write", "plain_write") for x in s2["effects"]):
                        e["write"] = False
            effects.append(e)
        reads = set(fi.reads)
        for ci, (cid, recv, cname, in_init) in enumerate(fi.calls):
            b = self.idx.body(cid) if cid else None
            if b is None:
                self.stats["calls_unresolved"] += 1
                meta = fi.call_meta.get(ci) or {"how": "?", "rtype": "", "name": cname, "ftype": ""}
                cat = classify_unresolved(self.idx, cid, meta)
                self.unresolved[cat] = self.unresolved.get(cat, 0) + 1
                nm = "%s%s" % ((re.sub(r"<.*", "", meta["rtype"].replace("const ", "").strip()) + "::") if meta.get("rtype") else "", meta.get("name") or cname)
                if cat.startswith("DECLARED") or cat == "UNEXPLAINED":
                    nm = "%s : %s" % (nm, (meta.get("ftype") or "").replace("<bound member function type>", "member"))
                dd = self.unresolved_names.setdefault(cat, {})
                dd[nm] = dd.get(nm, 0) + 1
                continue
            self.stats["calls_resolved"] += 1
            s = self.summary(b, depth + 1, stack + (i,))
            for e in s["effects"]:
                e2 = dict(e)
                e2["via"] = [fname(self.idx, node)] + e.get("via", [])
                if e["kind"] == "own_write":
                    if recv is None:
                        # implicit this->f(): same object
                        continue_ = False
                        if b.get("kind") in ("CXXMethodDecl",) and self._is_method_of_same_object(cid):
                            effects.append(e2)
                        continue
                    if recv.root == "this":
                        e2["path"] = list(recv.members) + e["path"]
                        if recv.cast and e["how"] == "plain":
                            e2["how"] = "cast"
                        effects.append(e2)
                    elif recv.root in ("static_local", "global"):
                        effects.append({"kind": "static_local" if recv.root == "static_local" else "global_write",
                                        "var": recv.name, "write": True, "init": in_init, "via": e2["via"]})
                    # receiver is a parameter / local / temporary: an operand, not shared state
                elif e["kind"] == "plain_write":
                    # write to an own member inside a NON-const callee; only matters if the receiver is this-rooted
                    if recv is not None and recv.root == "this":
                        effects.append({"kind": "own_write", "path": list(recv.members) + e["path"],
                                        "how": "cast" if recv.cast else ("heap" if recv.deref else "mutable"), "via": e2["via"]})
                    elif recv is not None and recv.root in ("static_local", "global"):
                        effects.append({"kind": "static_local" if recv.root == "static_local" else "global_write",
                                        "var": recv.name, "write": True, "init": in_init, "via": e2["via"]})
                else:
                    effects.append(e2)
            if recv is not None and recv.root == "this" and not recv.members:
                reads |= s["reads"]
            elif recv is None and cid and self._is_method_of_same_object(cid):
                reads |= s["reads"]
        # in a non-const method, writes to own members are ordinary: mark them `plain_write`
        if not fi.is_const and node.get("kind") in ("CXXMethodDecl",):
            for e in effects:
                if e["kind"] == "own_write" and e.get("how") in ("mutable",) and len(e.get("via", [])) == 1:
                    e["kind"] = "plain_write"
        res = {"effects": effects, "reads": reads}
        self.summ[i] = res
        return res

    def definite_writes(self, node, depth=0, stack=()):
        """own members a call of `node` definitely writes (itself or through members of the same object it calls)"""
        i = node["id"]
        if i in stack or depth > 6:
            return set()
        fi = self.info(node)
        out = set(fi.assigned_fed)
        if fi.assigned_fed:
            out |= fi.assigned          # a member that takes new parameters: what it rewrites from them (derived values included) counts
            for cid, recv, cname, in_init in fi.calls:
                same = (recv is None and cid and self._is_method_of_same_object(cid)) or (recv is not None and recv.root == "this" and not recv.members)
                if same:
                    b = self.idx.body(cid)
                    if b is not None:
                        out |= self.info(b).assigned | self.definite_writes(b, depth + 1, stack + (i,))
        return out

    def _is_method_of_same_object(self, cid):
        d = self.idx.decl.get(cid)
        return d is not None and d.get("kind") == "CXXMethodDecl" and d.get("storageClass") != "static"


def fname(idx, node):
    c = idx.cls_of.get(node["id"])
    cn = c.get("name") if c else None
    return (cn + "::" if cn else "") + (node.get("name") or "?")


# ------------------------------------------------------------------------------------------------ class descriptions

def class_fields(idx, c, seen=None, notes=None):
    """(own + inherited) FieldDecls, static member variables, base classes"""
    seen = seen or set()
    fields, statics, bases = [], [], []
    for b in c.get("bases", []):
        bt = b.get("type", {})
        bc = idx.find_class_by_type(bt.get("desugaredQualType") or bt.get("qualType", ""))
        if bc is None or bc["id"] in seen:
            if notes is not None and bc is None:
                notes.append("base %s not resolved (no complete definition in the dump; interface classes have no data members)" % bt.get("qualType"))
            continue
        seen.add(bc["id"])
        f2, s2, b2 = class_fields(idx, bc, seen, notes)
        fields += f2; statics += s2; bases += [bc] + b2
    for x in kids(c):
        if x.get("kind") == "FieldDecl":
            fields.append({"name": x.get("name"), "type": qt(x), "mutable": bool(x.get("mutable")), "cls": c.get("name"),
                           "pointer": qt(x).rstrip().endswith("*"), "has_default_init": bool(kids(x)), "id": x["id"]})
        elif x.get("kind") == "VarDecl" and x.get("storageClass") == "static":
            statics.append({"name": x.get("name"), "type": qt(x), "const": is_const_lvalue_type(qt(x)) or bool(x.get("constexpr"))})
    return fields, statics, bases


_FIELD_NAME = {}     # FieldDecl id -> name used in the description under construction (qualified when two bases clash)


def fkey(f):
    return _FIELD_NAME.get(f.get("id"), f["name"])


def rekey(mp, bf):
    """a map keyed by the member names of a base class -> keyed by the names of the description under construction"""
    by = {f["name"]: fkey(f) for f in bf}
    return {by.get(k, k): v for k, v in mp.items()}


ACCESS = {}          # id of a member function declaration -> "public" | "protected" | "private"


def methods_of(idx, c):
    out = []
    acc = "public" if c.get("tagUsed") == "struct" else "private"
    for x in kids(c):
        k = x.get("kind")
        if k == "AccessSpecDecl":
            acc = x.get("access", acc)
        elif k in FUNC_KINDS:
            ACCESS[x["id"]] = acc
            out.append(x)
        elif k == "FunctionTemplateDecl":
            fs = [m for m in kids(x) if m.get("kind") in FUNC_KINDS]
            # the first function is the template PATTERN (dependent code: no overload is resolved in it); it is analysed only when the
            # units instantiate no specialisation of it
            insts = [m for m in fs[1:] if idx.body(m["id"]) is not None]
            for m in (insts if insts else fs[:1]):
                if idx.body(m["id"]) is not None or has_body(m):
                    ACCESS[m["id"]] = acc
                    out.append(m)
    return out


def _mentions_any_param(n):
    if n.get("kind") == "DeclRefExpr" and n.get("referencedDecl", {}).get("kind") == "ParmVarDecl":
        return True
    return any(_mentions_any_param(c) for c in kids(n))


def param_members(idx, an, c, bases, fnames):
    """members whose value a constructor derives from its parameters: initialised from an expression that mentions a constructor
    parameter or another such member, or written in the body (transitively) of a constructor that has parameters"""
    dep = set()
    for cls in [c] + bases:
        for m in kids(cls):
            if m.get("kind") == "FunctionTemplateDecl":
                cands = [x for x in kids(m) if x.get("kind") == "CXXConstructorDecl"]
            else:
                cands = [m] if m.get("kind") == "CXXConstructorDecl" else []
            for ct in cands:
                ct = idx.body(ct["id"]) or ct
                ps = [p for p in kids(ct) if p.get("kind") == "ParmVarDecl"]
                if not ps or is_copy_param(idx, ct, cls.get("name")) or (len(ps) == 1 and "&&" in qt(ps[0])):
                    continue
                changed = True
                inits = [x for x in kids(ct) if x.get("kind") == "CXXCtorInitializer" and "anyInit" in x]
                while changed:
                    changed = False
                    for ini in inits:
                        nm = ini["anyInit"].get("name")
                        if nm in dep:
                            continue
                        fn = an.info(ct)
                        own = [mm for kind, mm in sum([src_members(sx, None, fn) for sx in kids(ini)], []) if kind == "own"]
                        if any(_mentions_any_param(sx) for sx in kids(ini)) or any(o[0] in dep for o in own):
                            dep.add(nm); changed = True
                if has_body(ct):
                    for e in an.summary(ct)["effects"]:
                        if e["kind"] in ("own_write", "plain_write") and e.get("path"):
                            dep.add(e["path"][0])
    return sorted(x for x in dep if x in fnames)


def _is_dependent(m):
    return "<dependent type>" in json.dumps(m)[:200000] if False else False


def is_copy_param(idx, m, cname):
    ps = [p for p in kids(m) if p.get("kind") == "ParmVarDecl"]
    if len(ps) != 1:
        return None
    t = qt(ps[0])
    if "&&" in t or "&" not in t or "const" not in t:
        return None
    tn = re.sub(r"\bconst\b", "", t).replace("&", "").replace("class ", "").replace("struct ", "").strip()
    tn = re.sub(r"^(::)?Givaro::", "", tn)
    def whole(x):
        # x = NAME<...> with the bracket opened after NAME closed by the last character
        if not x.startswith(cname + "<") or not x.endswith(">"):
            return False
        depth = 0
        for i, ch in enumerate(x):
            if ch == "<":
                depth += 1
            elif ch == ">":
                depth -= 1
                if depth == 0:
                    return i == len(x) - 1
        return False
    same = tn == cname or whole(tn)
    if same or tn == "Self_t" or (tn.endswith("::Self_t") and whole(tn[:-len("::Self_t")])):
        return ps[0]
    return None


def src_members(e, param_id, fn):
    """member paths of the copy source mentioned in expression e"""
    out = []
    def rec(n, parent):
        k = n.get("kind")
        if k in ("MemberExpr",):
            p = access_path(n, fn)
            if p is not None and p.root == "param" and p.members:
                out.append(("src", p.members))
                return
            if p is not None and p.root == "this" and p.members and "bound member function" not in qt(n):
                out.append(("own", p.members))
                return
        if k == "CXXMemberCallExpr":
            cid, recv = _callee_id(n)
            rp = access_path(recv, fn) if recv is not None else None
            if rp is not None and rp.root == "param" and not rp.members:
                b = fn.idx.body(cid)
                if b is not None:
                    fi = FnInfo(fn.idx, b)
                    for r in sorted(fi.reads):
                        out.append(("src", [r]))
                    return
        for c in kids(n):
            rec(c, n)
    rec(e, None)
    return out


DEFINITE_WRITERS = ("resize", "reallocate", "allocate", "reserve", "copy", "logcopy", "clear", "push_back", "pop_back", "erase", "insert", "swap", "assign", "destroy", "reset", "read", "setPrimes")
SHARING_TAGS = ("givNoCopy",)                       # Array0(p, givNoCopy): reference-counted alias of p's block
SHARING_CALLS = ("logcopy",)                        # Array0::logcopy(src): the same, as a member
SHARING_WRAPPERS = ("reference_wrapper", "std::ref", "std::cref")


def _mentions_ref_param(n, only=None):
    """names of the reference / pointer parameters (of the function being analysed) mentioned in expression n"""
    out = []
    def rec(x):
        if x.get("kind") == "DeclRefExpr" and x.get("referencedDecl", {}).get("kind") == "ParmVarDecl":
            r = x["referencedDecl"]
            t = r.get("type", {}).get("qualType", "")
            if ("&" in t or "*" in t or "[" in t) and (only is None or r.get("id") in only):
                out.append((r.get("id"), r.get("name")))
        for c in kids(x):
            rec(c)
    rec(n)
    return out


def _sharing_form(sub, field_type):
    """how an initialiser / right-hand side binds the member to (part of) the expression: None = by value"""
    txt = []
    def rec(x):
        k = x.get("kind")
        if k in ("CXXConstructExpr", "CXXTemporaryObjectExpr") and any(t in x.get("ctorType", {}).get("qualType", "") for t in SHARING_TAGS):
            txt.append("logical copy (givNoCopy)")
        if k in ("CallExpr", "CXXConstructExpr", "CXXFunctionalCastExpr") and any(w in (qt(x) + " " + str(_callee_name(kids(x)[0]) if kids(x) else "")) for w in SHARING_WRAPPERS):
            txt.append("reference wrapper")
        for c in kids(x):
            rec(c)
    for x in sub:
        rec(x)
    if txt:
        return txt[0]
    ft = (field_type or "").rstrip()
    if ft.endswith("&"):
        return "reference member bound to the argument"
    if ft.endswith("*") or ft.endswith("* const"):
        return "pointer member set from the argument"
    return None


def arg_sharing(idx, an, node, ftypes, depth=0, only=None):
    """[(member, parameter name, form)]: members of `this` that, after `node` (a constructor or a setter), share storage with an
    ARGUMENT passed by reference / pointer: initialised through a sharing form (givNoCopy, logcopy, reference / pointer capture,
    reference wrapper) instead of a value copy.  Calls to own members with a body are followed (the argument passed on)."""
    out = []
    fn = an.info(node)
    for ini in kids(node):
        if ini.get("kind") == "CXXCtorInitializer" and "anyInit" in ini:
            nm = ini["anyInit"].get("name")
            ps = [n for x in kids(ini) for n in _mentions_ref_param(x, only)]
            form = _sharing_form(kids(ini), ftypes.get(nm, ini["anyInit"].get("type", {}).get("qualType", "")))
            if ps and form:
                out.append((nm, ps[0][1], form))
    def rec(n):
        k = n.get("kind")
        s = kids(n)
        if k in ("CXXMemberCallExpr", "CXXOperatorCallExpr", "CallExpr") and s:
            cname = _callee_name(s[0])
            cid, recv = _callee_id(n)
            rp = access_path(recv, fn) if recv is not None else None
            args = s[1:] if k != "CXXOperatorCallExpr" else s[2:]
            ps = [p for a in args for p in _mentions_ref_param(a, only)]
            if cname in SHARING_CALLS and rp is not None and rp.root == "this" and rp.members and ps:
                out.append((rp.members[0], ps[0][1], "logical copy (%s)" % cname))
            elif ps and depth < 3 and ((recv is None and k != "CallExpr") or (recv is None and an._is_method_of_same_object(cid)) or
                                       (rp is not None and rp.root == "this" and not rp.members)):
                b = idx.body(cid) if cid else None
                if b is not None and b.get("kind") == "CXXMethodDecl" and b["id"] != node["id"]:
                    out.extend((m, ps[0][1], f + " via " + (b.get("name") or "?")) for m, _, f in arg_sharing(idx, an, b, ftypes, depth + 1))
        if k in ("BinaryOperator",) and n.get("opcode") == "=" and len(s) == 2:
            lp = access_path(s[0], fn)
            ps = _mentions_ref_param(s[1], only)
            if lp is not None and lp.root == "this" and len(lp.members) == 1 and not lp.deref and ps:
                ft = ftypes.get(lp.members[0], "").rstrip()
                if ft.endswith("*") or ft.endswith("* const"):
                    out.append((lp.members[0], ps[0][1], "pointer member set from the argument"))
        for c in s:
            rec(c)
    for c in kids(node):
        if c.get("kind") == "CompoundStmt":
            rec(c)
    uq = []
    for x in out:
        if x not in uq:
            uq.append(x)
    return uq


def copy_ctor_map(idx, an, c, ctor, fields, depth=0):
    """member -> ('src', m) | ('default',) | ('own', m) | ('other', text)"""
    fn = an.info(ctor)
    par = is_copy_param(idx, ctor, c.get("name"))
    mp = {}
    own_names = [f["name"] for f in fields]
    inits = [x for x in kids(ctor) if x.get("kind") == "CXXCtorInitializer"]
    implicit_undumped = ctor.get("isImplicit") and not inits and not has_body(ctor)
    for ini in inits:
        if "anyInit" in ini:
            nm = ini["anyInit"].get("name")
            sub = kids(ini)
            if sub and sub[0].get("kind") == "CXXDefaultInitExpr":
                mp[nm] = ("default",)
                continue
            ms = []
            for s in sub:
                ms += src_members(s, par["id"] if par else None, fn)
            srcs = [m for kind, m in ms if kind == "src"]
            owns = [m for kind, m in ms if kind == "own"]
            if len(srcs) == 1 and len(srcs[0]) == 1 and not owns:
                mp[nm] = ("src", srcs[0][0])
            elif len(srcs) == 1 and not owns:
                mp[nm] = ("src", ".".join(srcs[0]))
            elif not srcs and len(owns) == 1:
                mp[nm] = ("own", ".".join(owns[0]))
            else:
                mp[nm] = ("other", "%d source members" % len(srcs))
            shf = _sharing_form(sub, None)
            if shf and "givNoCopy" in shf and srcs:
                mp[nm] = ("other", "%s of the source's %s: storage shared with the source, not a value copy" % (shf, ".".join(srcs[0])))
        elif "baseInit" in ini:
            bc = idx.find_class_by_type(ini["baseInit"].get("desugaredQualType") or ini["baseInit"].get("qualType", ""))
            passes = False
            for s in kids(ini):
                if par and _mentions_param(s, par["id"]):
                    passes = True
            if bc is not None and passes:
                bctor = find_copy_ctor(idx, bc)
                bf, _, _ = class_fields(idx, bc)
                if bctor is None or (bctor.get("isImplicit") and not has_body(bctor) and not [x for x in kids(bctor) if x.get("kind") == "CXXCtorInitializer"]):
                    for f in bf:
                        mp[fkey(f)] = ("src", fkey(f))       # implicit memberwise copy
                else:
                    sub = rekey(copy_ctor_map(idx, an, bc, bctor, bf, depth + 1)[0], bf)
                    by = {f["name"]: fkey(f) for f in bf}
                    mp.update({k: (("src", by.get(v[1], v[1])) if v[0] == "src" else v) for k, v in sub.items()})
            elif bc is not None:
                bf, _, _ = class_fields(idx, bc)
                for f in bf:
                    mp[fkey(f)] = ("default",)      # base sub-object default-constructed, not copied
    if implicit_undumped:
        for f in fields:
            mp[fkey(f)] = ("src", fkey(f))
    # body: rc events, assignments in the body
    body_assign = assign_map_from_body(idx, an, ctor, par) if has_body(ctor) and par else {}
    for k2, v in body_assign.items():
        mp[k2] = v
    return mp, fn


def _mentions_param(n, pid):
    if n.get("kind") == "DeclRefExpr" and n.get("referencedDecl", {}).get("id") == pid:
        return True
    return any(_mentions_param(c, pid) for c in kids(n))


def find_copy_ctor(idx, c):
    best = None
    for m in kids(c):
        if m.get("kind") == "CXXConstructorDecl" and is_copy_param(idx, m, c.get("name")):
            d = idx.body(m["id"]) or m
            # the out-of-line definition carries the initialisers
            if best is None or has_body(d):
                best = d
    return best


def find_assign(idx, c):
    for m in kids(c):
        if m.get("kind") == "CXXMethodDecl" and m.get("name") == "operator=" and is_copy_param(idx, m, c.get("name")):
            return idx.body(m["id"]) or m
    return None


def find_dtor(idx, c):
    for m in kids(c):
        if m.get("kind") == "CXXDestructorDecl":
            return idx.body(m["id"]) or m
    return None


def assign_map_from_body(idx, an, fnnode, par):
    """statements `this->m = F.m`, `m = F.m`, `F.assign(const_cast<E&>(m), F.m)`, base operator= calls"""
    fn = an.info(fnnode)
    mp = {}
    def target_src(lhs, rhs_nodes):
        lp = access_path(lhs, fn)
        if lp is None or lp.root != "this" or not lp.members or lp.deref:
            return
        ms = []
        for r in rhs_nodes:
            ms += src_members(r, par["id"], fn)
        srcs = [m for kind, m in ms if kind == "src"]
        nm = lp.members[0]
        if len(lp.members) > 1:
            return
        if len(srcs) == 1 and len(srcs[0]) == 1:
            mp[nm] = ("src", srcs[0][0])
        elif len(srcs) == 1:
            mp[nm] = ("src", ".".join(srcs[0]))
        elif not srcs:
            owns = [m for kind, m in ms if kind == "own"]
            mp[nm] = ("own", ".".join(owns[0])) if len(owns) == 1 else ("other", "no source member")
        else:
            mp[nm] = ("other", "%d source members" % len(srcs))
    def rec(n):
        k = n.get("kind")
        s = kids(n)
        if k in ("BinaryOperator", "CompoundAssignOperator") and n.get("opcode") == "=" and len(s) == 2:
            target_src(s[0], [s[1]])
        elif k == "CXXOperatorCallExpr" and s and _callee_name(s[0]) == "operator=" and len(s) == 3:
            target_src(s[1], [s[2]])
        elif k == "CXXMemberCallExpr" and s and _callee_name(s[0]) in ("assign", "copy") and len(s) == 3:
            target_src(s[1], [s[2]])
        elif k == "CallExpr" and s and _callee_name(s[0]) in ("copy",) and len(s) == 3:
            target_src(s[1], [s[2]])
        elif k == "CXXMemberCallExpr" and s and _callee_name(s[0]) == "operator=":
            # base-class operator=(F)
            cid, recv = _callee_id(n)
            bcls = idx.cls_of.get(cid)
            b = idx.body(cid)
            if bcls is not None:
                bf, _, _ = class_fields(idx, bcls)
                if b is not None and has_body(b) and not b.get("isImplicit"):
                    bpar = is_copy_param(idx, b, bcls.get("name"))
                    if bpar:
                        mp.update(rekey(assign_map_from_body(idx, an, b, bpar), bf))
                else:
                    for f in bf:
                        mp[fkey(f)] = ("src", fkey(f))
        for c in s:
            rec(c)
    for c in kids(fnnode):
        if c.get("kind") == "CompoundStmt":
            rec(c)
    return mp


def assign_map(idx, an, c, op, fields):
    par = is_copy_param(idx, op, c.get("name"))
    if op.get("isImplicit") or op.get("explicitlyDefaulted") == "default":
        if op.get("explicitlyDefaulted") == "deleted":
            return None
        mp = {}
        # memberwise: own fields by plain assignment, bases through their operator=
        for b in c.get("bases", []):
            bt = b.get("type", {})
            bc = idx.find_class_by_type(bt.get("desugaredQualType") or bt.get("qualType", ""))
            if bc is None:
                continue
            bop = find_assign(idx, bc)
            bf, _, _ = class_fields(idx, bc)
            if bop is None or bop.get("isImplicit"):
                for f in bf:
                    mp[fkey(f)] = ("src", fkey(f))
            else:
                mp.update(rekey(assign_map(idx, an, bc, bop, bf) or {}, bf))
        for x in kids(c):
            if x.get("kind") == "FieldDecl":
                nm = _FIELD_NAME.get(x.get("id"), x.get("name"))
                mp[nm] = ("src", nm)
        return mp
    if not has_body(op) or par is None:
        return {}
    return assign_map_from_body(idx, an, op, par)


def rc_events(idx, an, fnnode, par):
    """ordered reference-count events of a special member: ('dec'|'inc', 'this'|'src', member), ('delete', member),
    ('ptrcopy', member), and whether the body is guarded by `this != &F`"""
    if fnnode is None or not has_body(fnnode):
        return [], False
    fn = an.info(fnnode)
    ev = []
    guarded = [False]
    release_unguarded = [False]
    state = {"guard": 0, "after_return_guard": False}

    def is_self_test(cond):
        """(`this` compared with the address of the parameter, opcode)"""
        txt = json.dumps(cond)
        if "CXXThisExpr" in txt and par is not None and par["id"] in txt:
            if '"opcode": "!="' in txt:
                return "!="
            if '"opcode": "=="' in txt:
                return "=="
        return None

    def has_return(n):
        return n.get("kind") == "ReturnStmt" or any(has_return(c) for c in kids(n))

    def note_release():
        if not (state["guard"] > 0 or state["after_return_guard"]):
            release_unguarded[0] = True

    def rec(n):
        k = n.get("kind")
        s = kids(n)
        if k == "IfStmt" and s:
            op = is_self_test(s[0])
            if op == "!=" and len(s) >= 2:
                # if (this != &F) { ... }: the THEN branch runs only for distinct objects
                rec(s[0])
                state["guard"] += 1
                rec(s[1])
                state["guard"] -= 1
                for c in s[2:]:
                    rec(c)
                return
            if op == "==" and len(s) >= 2 and has_return(s[1]):
                # if (this == &F) return *this;  everything AFTER it runs only for distinct objects
                for c in s:
                    rec(c)
                state["after_return_guard"] = True
                return
        if k == "UnaryOperator" and n.get("opcode") in ("++", "--") and s:
            p = access_path(s[0], fn)
            if p is not None and p.deref and p.members and p.root in ("this", "param"):
                ev.append(("inc" if n.get("opcode") == "++" else "dec", "this" if p.root == "this" else "src", p.members[0]))
                if n.get("opcode") == "--" and p.root == "this":
                    note_release()
        if k == "CXXOperatorCallExpr" and len(s) >= 2 and _callee_name(s[0]) in ("operator++", "operator--"):
            # std::atomic<int> counter: ++(*numRefs) / --(*numRefs) are member operator calls
            p = access_path(s[1], fn)
            if p is not None and p.deref and p.members and p.root in ("this", "param"):
                ev.append(("inc" if _callee_name(s[0]) == "operator++" else "dec", "this" if p.root == "this" else "src", p.members[0]))
                if _callee_name(s[0]) == "operator--" and p.root == "this":
                    note_release()
        if k == "CXXMemberCallExpr" and s and _callee_name(s[0]) in ("fetch_add", "fetch_sub"):
            cid, recv = _callee_id(n)
            p = access_path(recv, fn) if recv is not None else None
            if p is not None and p.members and p.root in ("this", "param"):
                ev.append(("inc" if _callee_name(s[0]) == "fetch_add" else "dec", "this" if p.root == "this" else "src", p.members[0]))
                if _callee_name(s[0]) == "fetch_sub" and p.root == "this":
                    note_release()
        if k == "CXXDeleteExpr" and s:
            p = access_path(s[0], fn)
            if p is not None and p.root == "this" and p.members:
                ev.append(("delete", "this", p.members[0]))
                note_release()
        if k == "BinaryOperator" and n.get("opcode") == "=" and len(s) == 2:
            lp = access_path(s[0], fn)
            if lp is not None and lp.root == "this" and len(lp.members) == 1 and not lp.deref and qt(s[0]).rstrip().endswith("*"):
                ev.append(("ptrcopy", "this", lp.members[0]))
        for c in s:
            rec(c)
    for c in kids(fnnode):
        if c.get("kind") == "CompoundStmt":
            rec(c)
    # guarded = there is a release of the object's own share, and EVERY release (decrement / delete) is inside `if (this != &F)` or after
    # `if (this == &F) return`: a self test somewhere else in the body does not count
    guarded[0] = any(e[0] in ("dec", "delete") and e[1] == "this" for e in ev) and not release_unguarded[0]
    return ev, guarded[0]


def describe_class(idx, an, disp, c):
    notes = []
    fields, statics, bases = class_fields(idx, c, None, notes)
    # two bases may declare members of the same name (Poly1PadicDom: zero/one/mOne of Poly1Dom and of IntegerDom): the later one is
    # described under a qualified name
    taken = set()
    for f in fields:
        if f["name"] in taken:
            f["name"] = "%s::%s" % (f["cls"], f["name"])
        taken.add(f["name"])
    global _FIELD_NAME
    _FIELD_NAME = {f["id"]: f["name"] for f in fields}
    fnames = [f["name"] for f in fields]
    d = {"name": disp, "clang_name": c.get("name"), "source": "clang-ast", "members": fields, "class_statics": statics,
         "bases": [b.get("name") for b in bases], "notes": notes}
    # special members
    cc = find_copy_ctor(idx, c)
    if cc is None:
        d["copy_map"] = None
        notes.append("no copy constructor found in the dump")
    elif cc.get("explicitlyDefaulted") == "deleted":
        d["copy_map"] = None
    else:
        mp, _ = copy_ctor_map(idx, an, c, cc, fields)
        d["copy_map"] = mp
        d["copy_implicit"] = bool(cc.get("isImplicit"))
    op = find_assign(idx, c)
    if op is None or op.get("explicitlyDefaulted") == "deleted" or (op.get("isImplicit") and not has_body(op) and _implicitly_deleted(c, op)):
        d["assign_map"] = None
    else:
        d["assign_map"] = assign_map(idx, an, c, op, fields)
        d["assign_implicit"] = bool(op.get("isImplicit"))
    # reference counting
    ccpar = is_copy_param(idx, cc, c.get("name")) if cc is not None else None
    oppar = is_copy_param(idx, op, c.get("name")) if op is not None else None
    ce, _ = rc_events(idx, an, cc, ccpar)
    ae, guarded = rc_events(idx, an, op, oppar)
    dt = find_dtor(idx, c)
    de, _ = rc_events(idx, an, dt, None)
    rcm = sorted(set(m for e in ce + ae + de for m in [e[2]] if e[0] in ("inc", "dec")))
    shared = [f["name"] for f in fields if f["pointer"] and (d.get("copy_map") or {}).get(f["name"]) == ("src", f["name"])]
    d["shared_heap_members"] = shared
    d["rc"] = None
    if rcm or shared:
        order = "none"
        idx_dec = next((i for i, e in enumerate(ae) if e[0] == "dec" and e[1] == "this"), None)
        idx_inc = next((i for i, e in enumerate(ae) if e[0] == "inc"), None)
        idx_ptr = next((i for i, e in enumerate(ae) if e[0] == "ptrcopy" and e[2] in rcm), None)
        if idx_dec is not None and idx_inc is not None:
            if idx_inc < idx_dec and (idx_ptr is None or ae[idx_inc][1] == "src"):
                order = "acquire_first"
            else:
                order = "release_first_guarded" if guarded else "release_first_unguarded"
        elif d["assign_map"] is None:
            order = "no_assign"
        ctype = next((f.get("type", "") for f in fields if rcm and f["name"] == rcm[0]), "")
        inner = re.sub(r"\bconst\b|\bvolatile\b|\*|&", "", ctype).strip()
        mm = re.match(r"^(?:std::)?atomic<(.*)>$", inner)
        inner = (mm.group(1) if mm else inner).strip()
        WIDE = ("int", "unsigned int", "unsigned", "long", "unsigned long", "long long", "unsigned long long", "size_t", "std::size_t", "int32_t", "uint32_t", "int64_t", "uint64_t", "ptrdiff_t", "long int", "unsigned long int")
        narrow = bool(rcm) and inner not in WIDE          # a counter of any other type (short, char, a typedef such as Residu_t = uint16_t) is not known to be at least as wide as int
        d["rc"] = {"counter_type": ctype, "counter_wide": not narrow, "counter": rcm[0] if rcm else None, "copy_events": ce, "assign_events": ae, "destroy_events": de,
                   "copy_incs": any(e[0] == "inc" for e in ce), "destroy_decs": any(e[0] == "dec" for e in de),
                   "destroy_frees": any(e[0] == "delete" for e in de), "assign_order": order, "assign_guarded": guarded}
    # methods: own + inherited
    meths = []
    seen = set()
    for cls in [c] + bases:
        for m in methods_of(idx, cls):
            if m.get("kind") in ("CXXConstructorDecl", "CXXDestructorDecl") or m.get("name") == "operator=":
                continue
            b = idx.body(m["id"])
            if b is None:
                continue
            if b["id"] in seen:
                continue
            seen.add(b["id"])
            meths.append((cls, b))
    # public non-const members that NO unit instantiates (a member of a class template is instantiated only when used): their template
    # PATTERN is still examined for assignments of members from the member's own parameters (a re-parameterising member nobody calls yet)
    uninstantiated = []
    for cls in [c] + bases:
        for m in methods_of(idx, cls):
            if m.get("kind") != "CXXMethodDecl" or idx.body(m["id"]) is not None or m.get("isImplicit") or (m.get("name") or "").startswith("operator"):
                continue
            if split_params(qt(m))[1] or m.get("storageClass") == "static" or (ACCESS.get(m["id"]) or "public") != "public":
                continue
            npar = len(split_params(qt(m))[0])
            for pat in idx.defs_by_owner_name().get((cls.get("name"), m.get("name")), []):
                if len(split_params(qt(pat))[0]) == npar and not split_params(qt(pat))[1]:
                    uninstantiated.append((cls, m, pat))
                    break
    reads = set()
    mdesc = []
    benign_statics = set()
    for cls, b in meths:
        s = an.summary(b)
        fi = an.info(b)
        isstatic = b.get("storageClass") == "static"
        r_own = sorted(x for x in s["reads"] if x in fnames)
        reads |= set(r_own)
        writes = []
        mut_writes = []
        for e in s["effects"]:
            if e["kind"] == "own_write" and fi.is_const:
                if e["path"] and e["path"][0] in fnames:
                    writes.append({"k": "own", "member": ".".join(e["path"]), "how": e["how"], "via": e.get("via", [])[-2:]})
            elif e["kind"] in ("own_write", "plain_write") and not fi.is_const:
                if e.get("path") and e["path"][0] in fnames and e["path"][0] not in mut_writes:
                    mut_writes.append(e["path"][0])
            elif e["kind"] == "static_local":
                if e.get("const_init"):
                    benign_statics.add("%s in %s" % (e["var"], (e.get("via") or ["?"])[-1]))
                elif e.get("decl") or e.get("write"):
                    writes.append({"k": "static_local", "member": e["var"], "how": "init" if (e.get("decl") or e.get("init")) else "static",
                                   "via": e.get("via", [])[-2:]})
            elif e["kind"] == "global_write":
                writes.append({"k": "global", "member": e["var"], "how": "static", "via": e.get("via", [])[-2:]})
            elif e["kind"] == "global_read":
                if an.written_globals is None or e["var"] in an.written_globals:
                    writes.append({"k": "global_read", "member": e["var"], "how": "static", "via": e.get("via", [])[-2:]})
                else:
                    benign_statics.add("%s (namespace / class static that NO function body of the dump writes: a constant in effect)" % e["var"])
        # dedupe
        uniq, seenw = [], set()
        for w in writes:
            key = (w["k"], w["member"], w["how"])
            if key not in seenw:
                seenw.add(key); uniq.append(w)
        ps, _ = split_params(qt(b))
        mdesc.append({"name": b.get("name"), "sig": qt(b)[:160], "params": ",".join(norm(x) for x in ps), "cls": cls.get("name"), "mut_writes": sorted(mut_writes),
                      "definite_writes": sorted(x for x in an.definite_writes(b) if x in fnames) if not fi.is_const else [],
                      "access": ACCESS.get(b["id"]) or ACCESS.get(next((k for k, v in idx.defn.items() if v is b and k in ACCESS), None), "public"),
                      "const": fi.is_const and not isstatic,
                      "static": isstatic, "reads": r_own, "writes": uniq, "line": b.get("loc", {}).get("line") or b.get("loc", {}).get("expansionLoc", {}).get("line")})
    # copy constructor as an operation ON THE SOURCE (C18: copy-construction from the shared object)
    if cc is not None and has_body(cc):
        src_writes = []
        ftypes = {f["name"]: f.get("type", "") for f in fields}
        for e in ce:
            if e[0] in ("inc", "dec") and "atomic" in ftypes.get(e[2], ""):
                continue        # std::atomic counter: an atomic read-modify-write, not a data race
            if e[0] in ("inc", "dec") and e[1] in ("src", "this"):
                # numRefs(F.numRefs) then (*numRefs)++ : the counter is shared with the source
                src_writes.append({"k": "own", "member": e[2], "how": "heap", "via": [c.get("name") + "::" + c.get("name") + "(const&)"]})
        d["copy_ctor_shared_writes"] = src_writes
    else:
        d["copy_ctor_shared_writes"] = []
    seen_uid = {}
    for m in mdesc:
        base = "%s@%s" % (m["name"], m.get("line"))
        seen_uid[base] = seen_uid.get(base, 0) + 1
        m["uid"] = base if seen_uid[base] == 1 else "%s#%d" % (base, seen_uid[base])
    for cls, m, pat in uninstantiated:
        dw = sorted(x for x in an.definite_writes(pat) if x in fnames)
        if dw:
            pl, _ = split_params(qt(m))
            mdesc.append({"name": m.get("name"), "sig": qt(m)[:160], "params": ",".join(norm(x) for x in pl), "cls": cls.get("name"), "mut_writes": dw, "definite_writes": dw,
                          "access": "public", "const": False, "static": False, "reads": [], "writes": [], "line": None, "uid": "%s@pattern" % m.get("name"), "pattern": True})
    d["methods"] = mdesc
    d["reads"] = sorted(reads)
    # ---- constructors: what they do to state outside the object, and how each member gets its first value
    ctors, ceff, unanalysed = [], [], []
    names = [x.get("name") for x in [c] + bases]
    for cls in [c] + bases:
        cs = idx.ctors_of(cls)
        for m, kind in cs:
            if kind == "pattern":
                if not any(k2 == "instance" and (idx.body(m2["id"]) is not None) for m2, k2 in cs if m2.get("name") == m.get("name") and len(split_params(qt(m2))[0]) == len(split_params(qt(m))[0])):
                    unanalysed.append("%s::%s  [constructor template never instantiated in harness/c16_inst.C]" % (cls.get("name"), qt(m)[:90]))
                continue
            if is_copy_param(idx, m, cls.get("name")) or m.get("explicitlyDefaulted") == "deleted":
                continue
            ps = [x for x in kids(m) if x.get("kind") == "ParmVarDecl"]
            if len(ps) == 1 and "&&" in qt(ps[0]):
                continue
            b = idx.body(m["id"])
            if b is None and kind == "instance":
                continue          # a specialisation clang declared during overload resolution and never defined
            if b is None:
                if not (m.get("isImplicit") or m.get("explicitlyDefaulted")):
                    unanalysed.append("%s::%s  [never instantiated in harness/c16_inst.C]" % (cls.get("name"), qt(m)[:90]))
                continue
            sm = an.summary(b)
            ws = []
            for e in sm["effects"]:
                if e["kind"] == "static_local":
                    if e.get("const_init"):
                        benign_statics.add("%s in %s" % (e["var"], (e.get("via") or ["?"])[-1]))
                    elif e.get("decl") or e.get("write"):
                        ws.append({"k": "static_local", "member": e["var"], "how": "init" if (e.get("decl") or e.get("init")) else "static", "via": e.get("via", [])[-2:]})
                elif e["kind"] == "global_write":
                    ws.append({"k": "global", "member": e["var"], "how": "static", "via": e.get("via", [])[-2:]})
                elif e["kind"] == "global_read" and (an.written_globals is None or e["var"] in an.written_globals):
                    ws.append({"k": "global_read", "member": e["var"], "how": "static", "via": e.get("via", [])[-2:]})
            uq, sk = [], set()
            for w in ws:
                key = (w["k"], w["member"], w["how"])
                if key not in sk:
                    sk.add(key); uq.append(w)
            pl, _ = split_params(qt(b))
            ctors.append({"cls": cls.get("name"), "params": ",".join(norm(x) for x in pl), "writes": uq, "implicit": bool(m.get("isImplicit"))})
            ceff += [w for w in uq if w not in ceff]
    # statics in constructor / member-function TEMPLATES and members that no use in c16_inst.C instantiates: found in the patterns
    for st in idx.static_census():
        if st["cls"] not in names or st["const_init"]:
            continue
        w = {"k": "static_local", "member": st["var"], "how": "init", "via": ["%s::%s [template pattern, line %s]" % (st["cls"], st["fn"], st["line"])]}
        if st["ctor"]:
            if not any(x["k"] == "static_local" and x["member"] == st["var"] for x in ceff):
                ceff.append(w)
                ctors.append({"cls": st["cls"], "params": "[pattern] " + st["sig"], "writes": [w], "implicit": False, "pattern": True})
        elif not any(m_["name"] == st["fn"] and any(x["k"] == "static_local" and x["member"] == st["var"] for x in m_["writes"]) for m_ in mdesc):
            mdesc.append({"name": st["fn"], "sig": st["sig"][:160], "params": "[pattern]", "cls": st["cls"], "mut_writes": [], "access": "public",
                          "const": st["const"], "static": False, "reads": [], "writes": [w], "line": st["line"], "uid": "%s@pattern:%s" % (st["fn"], st["var"]), "pattern": True})
    # members that share storage with an ARGUMENT of a constructor / of a public non-const member (setter): an object outside the lineage
    ftypes = {f["name"]: f.get("type", "") for f in fields}
    shared_args = []
    for cls in [c] + bases:
        for m, kind in idx.ctors_of(cls):
            b = idx.body(m["id"])
            if kind == "pattern" or b is None or is_copy_param(idx, m, cls.get("name")):
                continue
            pl, _ = split_params(qt(b))
            for mem_, par_, form in arg_sharing(idx, an, b, ftypes):
                if mem_ in fnames:
                    shared_args.append({"member": mem_, "where": "%s::%s(%s)" % (cls.get("name"), cls.get("name"), ",".join(norm(x) for x in pl)), "param": par_, "form": form})
    for cls, b in meths:
        fi = an.info(b)
        if fi.is_const or b.get("storageClass") == "static" or (ACCESS.get(b["id"]) or "public") != "public":
            continue
        pl, _ = split_params(qt(b))
        for mem_, par_, form in arg_sharing(idx, an, b, ftypes):
            if mem_ in fnames:
                shared_args.append({"member": mem_, "where": "%s::%s(%s)" % (cls.get("name"), b.get("name"), ",".join(norm(x) for x in pl)), "param": par_, "form": form})
    d["arg_shared"] = shared_args
    d["ctors"] = ctors
    d["ctor_writes"] = ceff
    d["ctors_unanalysed"] = unanalysed
    d["benign_statics"] = sorted(benign_statics)
    d["param_members"] = param_members(idx, an, c, bases, fnames)
    d["init_kinds"] = init_kinds(idx, an, c, bases, fields, d["param_members"])
    d["codependent"] = codependence(idx, an, c, bases, fields)
    # a member some constructor derives from its parameters (or that two constructors initialise differently) is parameter-derived
    d["param_members"] = sorted(set(d["param_members"]) | set(k for k, v in d["init_kinds"].items() if v == "param"))
    return d


def _expr_text(n):
    """canonical text of an initialiser (no ids, no source locations): two constructors that initialise a member from the same
    parameter-free expression give it the same value"""
    if isinstance(n, dict):
        return "(" + " ".join("%s=%s" % (k, _expr_text(v)) for k, v in sorted(n.items()) if k not in ("id", "loc", "range", "isUsed", "isReferenced", "hadMultipleCandidates")) + ")"
    if isinstance(n, list):
        return "[" + " ".join(_expr_text(x) for x in n) + "]"
    return re.sub(r"0x[0-9a-f]+", "@", str(n))          # node addresses (temporaries, alias declarations, ...)


def _init_value_text(nodes):
    """the value an initialiser denotes, when it is a literal behind casts: `zero(0.0)`, `zero(static_cast<Element>(0))` and the default
    member initialiser `= 0.0` are the same constant.  Anything else: its canonical expression text"""
    def lit(n):
        k = n.get("kind")
        if k in ("IntegerLiteral", "FloatingLiteral", "CXXBoolLiteralExpr", "CharacterLiteral"):
            try:
                return "lit:%r" % float(n.get("value"))
            except (TypeError, ValueError):
                return "lit:%s" % n.get("value")
        if k in ("ImplicitCastExpr", "CXXStaticCastExpr", "CStyleCastExpr", "CXXFunctionalCastExpr", "ParenExpr", "ExprWithCleanups", "ConstantExpr",
                 "MaterializeTemporaryExpr", "InitListExpr") and len(kids(n)) == 1 and "class" not in qt(n) and "Givaro::Integer" not in qt(n):
            return lit(kids(n)[0])
        return None
    if len(nodes) == 1:
        v = lit(nodes[0])
        if v is not None:
            return v
    return _expr_text(nodes)


def codependence(idx, an, c, bases, fields):
    """member -> members that some constructor derives from a COMMON constructor parameter (itself included).  A setter that rewrites a
    member from its own parameter must also rewrite the members co-dependent with it; `setIndeter` (only _x comes from X) need not touch what
    comes from the domain"""
    fn = [f["name"] for f in fields]
    src = {}          # member -> set of (constructor id, parameter id)
    for cls in [c] + bases:
        for m, kind in idx.ctors_of(cls):
            b = idx.body(m["id"])
            if kind == "pattern" or b is None or is_copy_param(idx, m, cls.get("name")):
                continue
            pids = [x["id"] for x in kids(b) if x.get("kind") == "ParmVarDecl"]
            if not pids:
                continue
            own_mentions = {}
            for ini in kids(b):
                if ini.get("kind") == "CXXCtorInitializer" and "anyInit" in ini:
                    nm = _FIELD_NAME.get(ini["anyInit"].get("id"), ini["anyInit"].get("name"))
                    ps = set()
                    def rec(x):
                        if x.get("kind") == "DeclRefExpr" and x.get("referencedDecl", {}).get("kind") == "ParmVarDecl":
                            ps.add(x["referencedDecl"].get("id"))
                        if x.get("kind") == "MemberExpr" and kids(x) and kids(x)[0].get("kind") == "CXXThisExpr":
                            own_mentions.setdefault(nm, set()).add(x.get("name"))
                        for ch in kids(x):
                            rec(ch)
                    for x in kids(ini):
                        rec(x)
                    src.setdefault(nm, set()).update((b["id"], p) for p in ps)
            for nm, others in own_mentions.items():
                for o in others:
                    src.setdefault(nm, set()).update(x for x in src.get(o, set()) if x[0] == b["id"])
            if has_body(b):
                for e in an.summary(b)["effects"]:
                    if e["kind"] in ("own_write", "plain_write") and e.get("path"):
                        src.setdefault(e["path"][0], set()).update((b["id"], p) for p in pids)
    out = {}
    for a in fn:
        out[a] = sorted(x for x in fn if x == a or (src.get(a) and src.get(x) and src[a] & src[x]))
    return out


def _state_free(n):
    """no call, no variable, no randomised temporary in the expression: its value is the same in every execution"""
    k = n.get("kind")
    if k in ("CallExpr", "CXXMemberCallExpr", "CXXOperatorCallExpr", "LambdaExpr", "CXXNewExpr", "CXXThisExpr"):
        return False
    if k == "DeclRefExpr" and n.get("referencedDecl", {}).get("kind") in ("VarDecl", "ParmVarDecl", "FieldDecl") and not is_const_lvalue_type(n.get("referencedDecl", {}).get("type", {}).get("qualType", "")):
        return False
    if k in ("CXXConstructExpr", "CXXTemporaryObjectExpr") and any(t in qt(n) for t in RANDOM_TYPES + ("Timer",)):
        return False
    return all(_state_free(c) for c in kids(n))


def init_kinds(idx, an, c, bases, fields, dep):
    """member -> 'param' | 'const' | 'default': how the (non-copy) constructors give a member its first value.
       param   : derived from constructor parameters (param_members), written in a constructor body, or initialised differently
                 by two constructors of its class (the choice of the constructor is part of the construction parameters)
       const   : every constructor of its class that mentions it uses the same parameter-free expression
       default : no constructor mentions it (default member initialiser / default-constructed / left alone)"""
    kinds = {}
    for f in fields:
        nm = f["name"]
        if nm in dep and "::" not in nm:
            kinds[nm] = "param"
            continue
        key, nm = nm, nm.split("::")[-1]
        nsdmi = None          # default member initialiser (`const Element zero = 0.0;`): what a constructor that does not mention the member uses
        fd = idx.decl.get(f.get("id"))
        if fd is not None and kids(fd):
            nsdmi = "<param>" if any(_mentions_any_param(x) for x in kids(fd)) else _init_value_text(kids(fd))
        seen = []          # per constructor of the declaring class: None (not mentioned) | text | "<body>"
        for cls in [c] + bases:
            if cls.get("name") != f.get("cls"):
                continue
            for m, kind in idx.ctors_of(cls):
                if kind == "pattern" or is_copy_param(idx, m, cls.get("name")) or m.get("explicitlyDefaulted") == "deleted":
                    continue
                ps = [x for x in kids(m) if x.get("kind") == "ParmVarDecl"]
                if len(ps) == 1 and "&&" in qt(ps[0]):
                    continue
                b = idx.body(m["id"])
                if b is None:
                    continue
                got = nsdmi
                for ini in kids(b):
                    if ini.get("kind") == "CXXCtorInitializer" and ini.get("anyInit", {}).get("name") == nm:
                        sub = kids(ini)
                        if sub and sub[0].get("kind") == "CXXDefaultInitExpr":
                            got = nsdmi
                        elif any(_mentions_any_param(x) for x in sub) or not all(_state_free(x) for x in sub):
                            got = "<param>"          # (an initialiser that calls something or reads a variable is not a constant: `_g(GivRandom())` draws a clock seed)
                        else:
                            got = _init_value_text(sub)
                if has_body(b) and any(e["kind"] in ("own_write", "plain_write") and e.get("path") and e["path"][0] == nm for e in an.summary(b)["effects"]):
                    got = "<body>"
                seen.append(got)
        vals = set(seen)
        if not vals or vals == {None} or (nsdmi not in (None, "<param>") and vals == {nsdmi}):
            kinds[key] = "default"          # left to the default member initialiser / default construction by every constructor (or spelled out identically)
        elif len(vals) == 1 and not (vals & {"<param>", "<body>"}):
            kinds[key] = "const"
        else:
            kinds[key] = "param"
    return kinds


def _implicitly_deleted(c, op):
    # clang lists an implicit operator= even when it is defined as deleted; definitionData tells
    dd = c.get("definitionData", {})
    ca = dd.get("copyAssign", {})
    return not ca.get("trivial") and not ca.get("hasConstParam") if False else any(
        isinstance(f, dict) and f.get("kind") == "FieldDecl" and qt(f).startswith("const ") for f in kids(c))


# ------------------------------------------------------------------------------------------------ source scan (GFqKronecker)

def scan_kronecker():
    p = os.path.join(vf.REPO, "src/kernel/field/gfqkronecker.h")
    try:
        txt = open(p).read()
    except OSError:
        return None
    code = re.sub(r"//[^\n]*", "", txt)
    code = re.sub(r"/\*.*?\*/", "", code, flags=re.S)
    d = {"name": "GFqKronecker<TT,Ints>", "clang_name": "GFqKronecker", "source": "source-scan",
         "notes": ["gfqkronecker.h does not compile in this tree (includes givaro/givzpz.h and givaro/givzpzInt.h, which no longer exist; "
                   "ModularRandIter is used with two template arguments): described by a textual scan of the class body, not by the AST"],
         "bases": ["GFqDom"], "class_statics": [], "shared_heap_members": [], "rc": None, "copy_ctor_shared_writes": []}
    m = re.search(r"struct\s+GFqKronecker[^{]*\{(.*)\};", code, flags=re.S)
    body = m.group(1) if m else ""
    members = []
    for mm in re.finditer(r"^\s*(UTT|Ints|Element|std::vector<UTT>)\s+([_A-Za-z0-9, ]+);", body, flags=re.M):
        for nm in mm.group(2).split(","):
            members.append({"name": nm.strip(), "type": mm.group(1), "mutable": False, "cls": "GFqKronecker", "pointer": False,
                            "has_default_init": False, "id": ""})
    d["members"] = members
    has_cc = re.search(r"GFqKronecker\s*\(\s*const\s+(Self_t|GFqKronecker)", body) is not None
    has_as = re.search(r"operator\s*=", body) is not None
    d["copy_map"] = {f["name"]: ("src", f["name"]) for f in members} if not has_cc else {}
    d["assign_map"] = {f["name"]: ("src", f["name"]) for f in members} if not has_as else {}
    d["copy_implicit"] = not has_cc
    d["assign_implicit"] = not has_as
    methods = []
    # methods: name(args) const { body }
    for mm in re.finditer(r"([A-Za-z_&<>:\s]+?)\s+(\w+)\s*\(([^)]*)\)\s*(const)?\s*\{", body):
        start = mm.end()
        depth, i = 1, start
        while i < len(body) and depth:
            depth += body[i] == "{"
            depth -= body[i] == "}"
            i += 1
        mb = body[start:i]
        name = mm.group(2)
        if name == "GFqKronecker":
            for sm in re.finditer(r"\bstatic\s+([^;=(]+?)\s+(\w+)\s*(\(|;|=)", mb):
                d.setdefault("ctor_writes", []).append({"k": "static_local", "member": sm.group(2), "how": "init", "via": ["GFqKronecker::GFqKronecker"]})
        if name in ("GFqKronecker", "for", "if", "while"):
            continue
        writes = []
        for sm in re.finditer(r"\bstatic\s+([^;=(]+?)\s+(\w+)\s*(\(|;|=)", mb):
            writes.append({"k": "static_local", "member": sm.group(2), "how": "static", "via": ["GFqKronecker::" + name]})
        reads = sorted(set(f["name"] for f in members if re.search(r"\b" + re.escape(f["name"]) + r"\b", mb)))
        methods.append({"name": name, "sig": mm.group(0)[:120].strip(), "cls": "GFqKronecker", "const": bool(mm.group(4)), "static": False,
                        "reads": reads, "writes": writes, "line": body.count("\n", 0, mm.start())})
    d["methods"] = methods
    d["reads"] = sorted(set(r for m_ in methods for r in m_["reads"]))
    d.setdefault("ctor_writes", [])
    d["arg_shared"] = []
    d["ctors"], d["ctors_unanalysed"], d["benign_statics"] = [], ["(source scan: constructors scanned for function-local statics only)"], []
    d["param_members"] = []
    d["init_kinds"] = {f["name"]: "param" for f in members}
    d["param_members"] = [f["name"] for f in members]
    return d


# ------------------------------------------------------------------------------------------------ driver + Coq emission

def build_descriptions(log=None):
    """returns (descs, meta, error)"""
    t0 = time.time()
    key = ast_cache_key()
    cdir = vf.mkdir(os.path.join(vf.CACHE, "c16-objmodel"))
    cp = os.path.join(cdir, key + ".json")
    if os.path.exists(cp) and not os.environ.get("C16_AST_PICKLE"):
        try:
            j = json.load(open(cp))
            j["meta"]["cached"] = True
            j["meta"]["seconds"] = round(time.time() - t0, 2)
            return j["descs"], j["meta"], None
        except Exception:
            pass
    objs, lg = dump_ast()
    if objs is None:
        return None, {}, lg
    t1 = time.time()
    idx = Index(objs)
    an = Analyzer(idx)
    # namespace / class statics that some function body of the dump (both units) writes; a global nobody writes is a constant in effect
    # (IntPrimeDom::TP is `static const int*`: the pointer is not const-qualified, but nothing reseats it)
    an.written_globals = set()
    for i, dn in list(idx.decl.items()):
        if dn.get("kind") in FUNC_KINDS and has_body(dn):
            try:
                for e in an.info(dn).effects:
                    if e["kind"] == "global_write":
                        an.written_globals.add(e["var"])
            except Exception:
                pass
    descs, missing = [], []
    id2disp = {}
    for disp, name, args in TARGETS:
        c = idx.find_class(name, args)
        if c is None:
            missing.append(disp)
            continue
        id2disp[c["id"]] = disp
        descs.append(describe_class(idx, an, disp, c))
    field_class = {}
    for d in descs:
        for f in d["members"]:
            c2 = idx.find_class_by_type(f.get("type", ""))
            if c2 is not None and c2.get("id") in id2disp:
                field_class[(d["name"], f["name"])] = id2disp[c2["id"]]
    descs = json.loads(json.dumps(descs, default=list))
    compose_nested(descs, field_class)
    k = scan_kronecker()
    if k is not None:
        descs.append(k)
    else:
        missing.append("GFqKronecker (gfqkronecker.h unreadable)")
    meta = {"cached": False, "ast_objects": len(objs), "clang_seconds": round(t1 - t0, 2), "seconds": round(time.time() - t0, 2),
            "decls_indexed": len(idx.decl), "classes_in_dump": len(idx.classes), "missing": missing, "stats": an.stats, "key": key,
            "unresolved_by_category": an.unresolved, "linked_to_library_definitions": idx.linked_to_library,
            "unresolved_callees": {c: sorted(v.items(), key=lambda kv: -kv[1])[:(60 if c.isupper() or c.startswith("DECLARED") else 8)] for c, v in an.unresolved_names.items()},
            "recint_static_scan": recint_static_scan(),
            "nested_domain_members": sorted("%s.%s : %s" % (k[0], k[1], v) for k, v in field_class.items())}
    # tuples -> lists for JSON
    js = json.loads(json.dumps({"descs": descs, "meta": meta}, default=list))
    tmp = cp + ".tmp%d" % os.getpid()
    json.dump(js, open(tmp, "w"))
    os.rename(tmp, cp)
    for old in sorted([os.path.join(cdir, f) for f in os.listdir(cdir) if f.endswith(".json")], key=os.path.getmtime)[:-6]:
        os.remove(old)
    return js["descs"], js["meta"], None


def recint_static_scan():
    """RecInt is outside the dump (namespace RecInt): its headers are scanned textually for function-local statics, the only way a value-type
    operation could carry hidden state.  Class-level statics of the modular types rmint (the module-wide modulus p, p1, r, ...) are the documented
    design of those types (C07) and are not used by ruint / rint."""
    d = os.path.join(vf.REPO, "src/kernel/recint")
    hits, files = [], 0
    try:
        names = sorted(os.listdir(d))
    except OSError:
        return {"files": 0, "function_local_statics": ["directory unreadable"]}
    for f in names:
        if not f.endswith((".h", ".inl")):
            continue
        files += 1
        txt = re.sub(r"//[^\n]*", "", open(os.path.join(d, f), errors="replace").read())
        txt = re.sub(r"/\*.*?\*/", "", txt, flags=re.S)
        depth_stack = []      # a `static` declaration of a VARIABLE (no parenthesis before ; or =) at brace depth >= 1 inside a function body
        for m in re.finditer(r"\bstatic\s+(?!inline|const\b|constexpr)([A-Za-z_][\w:<>, ]*?)[\s&*]+([A-Za-z_]\w*)\s*(=|;|\()", txt):
            pre = txt[:m.start()]
            # inside a function body: the last unclosed '{' is preceded by ')' (possibly with const / noexcept)
            depth, i = 0, len(pre) - 1
            while i >= 0:
                ch = pre[i]
                if ch == "}":
                    depth += 1
                elif ch == "{":
                    if depth == 0:
                        break
                    depth -= 1
                i -= 1
            head = pre[:i].rstrip() if i >= 0 else ""
            if re.search(r"\)\s*(const)?\s*(noexcept)?\s*$", head) and m.group(3) != "(":
                hits.append("%s: static %s %s" % (f, m.group(1).strip(), m.group(2)))
    return {"files": files, "function_local_statics": hits}


def coq_str(s):
    return '"' + str(s).replace('"', "'") + '"'


def coq_list(xs):
    return "[" + "; ".join(xs) + "]" if xs else "[]"


def coq_ident(name):
    return "d_" + re.sub(r"[^A-Za-z0-9]+", "_", name).strip("_")


def coq_src(v):
    if v is None:
        return "SrcMissing"
    v = list(v)
    if v[0] == "src":
        return "SrcMember " + coq_str(v[1])
    if v[0] == "default":
        return "SrcDefault"
    if v[0] == "own":
        return "SrcOwn " + coq_str(v[1])
    return "SrcOther " + coq_str(v[1] if len(v) > 1 else "")


# ---------------------------------------------------------------- normal form shared by the Coq emission and the python mirror

def effects_of(d, m):
    """list of (constructor, name[, via]) for one method description"""
    return norm_effects(d, m["writes"])


def ctor_effects_of(d):
    """what the (non-copy) constructors of the class and of its bases do to state outside the object under construction"""
    return [e for e in norm_effects(d, d.get("ctor_writes") or []) if e[0] != "WOwn"]


def norm_effects(d, writes):
    types = {f["name"]: f.get("type", "") for f in d["members"]}
    out = []
    for w in writes:
        root = w["member"].split(".")[0]
        if w["k"] == "own":
            if any(t in types.get(root, "") for t in RANDOM_TYPES):
                e = ("WRandom", root)
            else:
                e = ("WOwn", root, {"mutable": "ViaMutable", "cast": "ViaCast", "heap": "ViaHeap"}.get(w["how"], "ViaCast"))
        elif w["k"] == "static_local":
            e = ("WRandom", root) if root in RANDOM_STATICS else (("WStaticInit", root) if w["how"] == "init" else ("WStaticLocal", root))
        elif w["k"] == "global":
            e = ("RExcluded", root) if root in EXCLUDED_GLOBALS else ("WGlobal", root)
        elif w["k"] == "global_read":
            e = ("RExcluded", root) if (root in EXCLUDED_GLOBALS or root in READ_EXCLUDED_GLOBALS) else ("RGlobal", root)
        else:
            continue
        if e not in out:
            out.append(e)
    # a static that is also written outside its guarded initialisation is a plain static write
    plain = {e[1] for e in out if e[0] == "WStaticLocal"}
    out = [e for e in out if not (e[0] == "WStaticInit" and e[1] in plain)]
    return out


def copy_effects_of(d):
    return [("WOwn", w["member"].split(".")[0], "ViaHeap") for w in d.get("copy_ctor_shared_writes", [])]


def mname(m):
    return m.get("uid") or "%s@%s" % (m["name"], m.get("line"))


def msite(m):
    """stable identification of a method for findings: defining class, name, parameter types (no line numbers)"""
    return "%s::%s(%s)%s" % (m.get("cls"), m["name"], m.get("params", ""), " const" if m.get("const") else "")


class Mirror:
    """python mirror of the deciders of coq/C16/ObjModel.v (the Coq side re-computes them by vm_compute; gen/Decide.v states
    the values computed here as lemmas, so a disagreement stops the Coq build)"""

    def __init__(self, d):
        self.d = d
        self.members = [f["name"] for f in d["members"]]
        self.cm, self.am = d.get("copy_map"), d.get("assign_map")
        self.eff = {id(m): effects_of(d, m) for m in d["methods"]}
        self.written = set()
        for m in d["methods"]:
            if m["const"]:
                for e in self.eff[id(m)]:
                    if e[0] in ("WOwn", "WRandom"):
                        self.written.add(e[1])
        self.arg_shared = sorted(set(x["member"] for x in (d.get("arg_shared") or [])))
        self.ctor_eff = ctor_effects_of(d)
        self.params = set(d.get("param_members") or [])
        self.kinds = d.get("init_kinds") or {}

    # ---- constructors
    def ctor_pure(self):
        """no constructor touches a function-local static / a mutable global (documented excluded globals apart): the members after
        construction are a function of the construction parameters only"""
        return all(e[0] == "RExcluded" for e in self.ctor_eff)

    def init_kind(self, x):
        return {"param": "InitParam", "const": "InitConst", "default": "InitDefault"}.get(self.kinds.get(x), "InitParam")

    def init_consistent(self):
        """(i) a member outside cd_params is initialised by a parameter-free constant / by default in every constructor,
        (ii) a member the copy constructor default-initialises is default-initialised by every constructor"""
        for x in self.members:
            if self.init_kind(x) == "InitParam" and x not in self.params:
                return False
        if self.cm is not None:
            for x in self.members:
                v = self.lookup(self.cm, x)
                if v is not None and v[0] == "default" and self.init_kind(x) != "InitDefault":
                    return False
        return True

    def init_offenders(self):
        bad = [x for x in self.members if self.init_kind(x) == "InitParam" and x not in self.params]
        if self.cm is not None:
            bad += [x for x in self.members if (self.lookup(self.cm, x) or ["?"])[0] == "default" and self.init_kind(x) != "InitDefault" and x not in bad]
        return bad

    def lookup(self, mp, x):
        # the Coq map lists exactly the members, in order, SrcMissing when python has no entry
        if x not in self.members:
            return None
        v = mp.get(x)
        return list(v) if v is not None else ["missing"]

    def copy_ok(self, x):
        if self.cm is None:
            return True
        v = self.lookup(self.cm, x)
        return v is not None and (v[:2] == ["src", x] or (v[0] == "default" and self.init_kind(x) == "InitDefault"))

    def assign_ok(self, x):
        if self.am is None:
            return True
        v = self.lookup(self.am, x)
        return v is not None and v[:2] == ["src", x]

    def arg_shared_offenders(self):
        return [x for x in self.arg_shared if any(self.claimed(m) and x in m["reads"] for m in self.d["methods"])]

    def ctor_ok(self, x):
        return x not in self.params or self.ctor_pure()

    def stable(self, x):
        return self.copy_ok(x) and self.assign_ok(x) and x not in self.written and self.ctor_ok(x) and x not in self.arg_shared

    def rc_ok(self):
        sh = self.d.get("shared_heap_members") or []
        if not sh:
            return True
        rc = self.d.get("rc")
        if rc is None:
            return False
        return bool(rc["copy_incs"] and rc["destroy_decs"] and rc["destroy_frees"] and rc.get("counter_wide", True)
                    and rc["assign_order"] in ("acquire_first", "release_first_guarded", "no_assign"))

    def pure(self, m):
        return all(e[0] == "RExcluded" for e in self.eff[id(m)])

    def randomized(self, m):
        return any(e[0] == "WRandom" for e in self.eff[id(m)])

    def claimed(self, m):
        return bool(m["const"]) and not self.randomized(m)

    def shared_read_ok(self, x):
        return x not in (self.d.get("shared_heap_members") or []) or self.rc_ok()

    def method_sc(self, m):
        return bool(m["const"]) and self.pure(m) and all(self.stable(x) for x in m["reads"]) and all(self.shared_read_ok(x) for x in m["reads"])

    def method_rf(self, m):
        return bool(m["const"]) and all(e[0] in ("RExcluded", "WStaticInit") for e in self.eff[id(m)])

    def sc_offenders(self):
        return [m for m in self.d["methods"] if self.claimed(m) and not self.method_sc(m)]

    def stateless(self, m):
        """reads no member and has no effect: method_sc is trivially true, the theorem says nothing about it"""
        return not m["reads"] and not self.eff[id(m)]

    def rf_offenders(self):
        return [m for m in self.d["methods"] if self.claimed(m) and not self.method_rf(m)]

    def copy_rf(self):
        return not copy_effects_of(self.d)

    # ---- in-place re-parameterisation (public non-const members: setPrimes, read(istream&), ...)
    def reparam_core(self):
        """members read by operations whose value the constructors derive from the parameters, caches excluded"""
        return [x for x in (self.d.get("param_members") or []) if x in self.d["reads"]]

    MUTATOR_NAMES = re.compile(r"^(set[A-Z_].*|read|reset.*|reinit.*|init|resize|assign)$")

    def setter_closure(self, m):
        """the members co-dependent (through a common constructor parameter) with what the member writes from its own parameters"""
        cd = self.d.get("codependent") or {}
        out = set()
        for x in m.get("definite_writes", []) or m.get("mut_writes", []):
            out |= set(cd.get(x, [x]))
        return out

    def is_partial_setter(self, m):
        """a public non-const member that rewrites SOME construction parameter from its own argument (Poly1Dom::setdomain, setIndeter): it must
        rewrite everything co-dependent with what it sets; the other parameters legitimately stay"""
        if m["const"] or m.get("static") or m.get("access", "public") != "public" or (m["name"] or "").startswith("operator"):
            return False
        if not any(x in (self.d.get("param_members") or []) for x in m.get("definite_writes", [])):
            return False
        return not set(self.reparam_core()) <= self.setter_closure(m)

    def partial_setter_missing(self, m):
        w = set(m.get("mut_writes", [])) | set(m.get("definite_writes", []))
        return sorted(x for x in self.setter_closure(m) if x in (self.d.get("param_members") or []) and x not in w)

    def is_mutator(self, m):
        """public non-const member that re-parameterises the object in place: writes a parameter-derived member that operations read,
        and is named like a setter / reader (conversion members that merely touch containers through non-const accessors are not)"""
        if m["const"] or m.get("static") or m.get("access", "public") != "public" or (m["name"] or "").startswith("operator"):
            return False
        # by the AST: the member (whatever its name) definitely assigns a parameter-derived member that operations read; the NAME rule is kept
        # for setters whose writes go through calls the translator cannot see through (it needs a classified write as well)
        by_ast = any(x in self.reparam_core() for x in m.get("definite_writes", [])) and not self.is_partial_setter(m)
        by_name = bool(self.MUTATOR_NAMES.match(m["name"] or "")) and any(x in self.reparam_core() for x in m.get("mut_writes", [])) and not self.is_partial_setter(m)
        if not (by_ast or by_name):
            return False
        # a member inherited from a base cannot refresh what a derived class adds: reported as a note, not decided here
        decl = {f["name"]: f.get("cls") for f in self.d["members"]}
        missing = self.mutator_missing(m)
        own = [x for x in missing if decl.get(x) == m.get("cls")]
        return not (missing and not own)

    def mutator_missing(self, m):
        """what a re-parameterising member leaves behind: parameter-derived members it does not rewrite, caches it does not reset"""
        w = set(m.get("mut_writes", [])) | set(m.get("definite_writes", []))
        need = set(self.d.get("param_members") or []) | set(x for x in self.written if x in self.members)
        return sorted(need - w)

    def mutator_offenders(self):
        return [m for m in self.d["methods"] if self.is_mutator(m) and self.mutator_missing(m)]

    def why_sc(self, m):
        """reasons a claimed method is not self-contained, as a list of (kind, detail)"""
        r = []
        fx = [e for e in self.eff[id(m)] if e[0] != "RExcluded"]
        for e in fx:
            r.append(({"WOwn": "own-write", "WStaticLocal": "static-local", "WStaticInit": "static-local", "WGlobal": "global-write", "RGlobal": "global-read"}[e[0]], e[1]))
        for x in m["reads"]:
            if not self.copy_ok(x):
                r.append(("reads-member-not-copied", x))
            if not self.assign_ok(x):
                r.append(("reads-member-not-assigned", x))
            if x in self.written:
                r.append(("reads-member-written-on-const-path", x))
            if x in self.arg_shared:
                r.append(("reads-member-sharing-storage-with-an-argument", x))
            if not self.ctor_ok(x):
                for e in self.ctor_eff:
                    if e[0] != "RExcluded":
                        r.append(("constructor-" + {"WStaticLocal": "static-local", "WStaticInit": "static-local", "WGlobal": "global-write", "RGlobal": "global-read"}.get(e[0], "effect"), e[1]))
            if not self.shared_read_ok(x):
                r.append(("reads-shared-heap-with-bad-refcount", x))
        return r


def compose_nested(descs, field_class):
    """a member whose type is itself a described class is copied / assigned by THAT class's special members: if those are
    incomplete on the members its methods read, the outer map entry is not a faithful copy"""
    by_name = {d["name"]: d for d in descs}
    for d in descs:
        for f in d["members"]:
            inner = by_name.get(field_class.get((d["name"], f["name"])))
            if inner is None or inner is d:
                continue
            mi = Mirror(inner)
            badc = [x for x in inner["reads"] if not mi.copy_ok(x)]
            bada = [x for x in inner["reads"] if not mi.assign_ok(x)]
            if badc and d.get("copy_map") and list(d["copy_map"].get(f["name"], ["?"]))[0] == "src":
                d["copy_map"][f["name"]] = ["other", "copied by the copy constructor of %s, incomplete for %s" % (inner["name"], ",".join(badc))]
            if bada and d.get("assign_map") and list(d["assign_map"].get(f["name"], ["?"]))[0] == "src":
                d["assign_map"][f["name"]] = ["other", "assigned by operator= of %s, incomplete for %s" % (inner["name"], ",".join(bada))]


def emit_coq(descs, meta):
    out = ["(* GENERATED by harness/c16_objmodel.py from the clang JSON AST of harness/c16_inst.C compiled against the current",
           "   headers of the repository.  Do not edit: it is rewritten by every run of checks/C16.py and checks/C18.py. *)",
           "From Coq Require Import String List.", "From C16 Require Import ObjModel.", "Import ListNotations.", "Local Open Scope string_scope.", ""]
    names = []
    for d in descs:
        idn = coq_ident(d["name"])
        names.append(idn)
        members = [f["name"] for f in d["members"]]
        cm = d.get("copy_map")
        am = d.get("assign_map")

        def mapstr(mp):
            if mp is None:
                return "None"
            return "Some " + coq_list(["(%s, %s)" % (coq_str(m), coq_src(mp.get(m))) for m in members])

        def effstr(e):
            return "%s %s%s" % (e[0], coq_str(e[1]), (" " + e[2]) if len(e) > 2 else "")
        meths = []
        mir = Mirror(d)
        for m in d["methods"]:
            meths.append("{| m_name := %s; m_const := %s; m_reads := %s; m_effects := %s; m_mutator := %s; m_writes := %s |}" % (
                coq_str(mname(m)), "true" if m["const"] else "false",
                coq_list([coq_str(r) for r in m["reads"]]), coq_list([effstr(e) for e in effects_of(d, m)]),
                "true" if mir.is_mutator(m) else "false", coq_list([coq_str(w) for w in m.get("mut_writes", [])])))
        rc = d.get("rc")
        if rc is None:
            rcs = "None"
        else:
            order = {"acquire_first": "AcquireFirst", "release_first_guarded": "ReleaseFirstGuarded",
                     "release_first_unguarded": "ReleaseFirstUnguarded", "no_assign": "NoAssign", "none": "NoProtocol"}[rc["assign_order"]]
            rcs = "Some {| rc_counter := %s; rc_copy_incs := %s; rc_destroy_decs := %s; rc_destroy_frees := %s; rc_assign := %s; rc_counter_wide := %s |}" % (
                coq_str(rc["counter"] or ""), str(bool(rc["copy_incs"])).lower(), str(bool(rc["destroy_decs"])).lower(),
                str(bool(rc["destroy_frees"])).lower(), order, str(bool(rc.get("counter_wide", True))).lower())
        out.append("Definition %s : class_desc := {|" % idn)
        out.append("  cd_name := %s;" % coq_str(d["name"]))
        out.append("  cd_from_ast := %s;" % ("true" if d.get("source") == "clang-ast" else "false"))
        out.append("  cd_members := %s;" % coq_list([coq_str(m) for m in members]))
        out.append("  cd_mutable := %s;" % coq_list([coq_str(f["name"]) for f in d["members"] if f.get("mutable")]))
        out.append("  cd_shared := %s;" % coq_list([coq_str(m) for m in d.get("shared_heap_members", [])]))
        out.append("  cd_copy := %s;" % mapstr(cm))
        out.append("  cd_assign := %s;" % mapstr(am))
        out.append("  cd_reads := %s;" % coq_list([coq_str(r) for r in d["reads"]]))
        out.append("  cd_params := %s;" % coq_list([coq_str(r) for r in (d.get("param_members") or [])]))
        out.append("  cd_init := %s;" % coq_list(["(%s, %s)" % (coq_str(m), mir.init_kind(m)) for m in members]))
        out.append("  cd_ctor_effects := %s;" % coq_list([effstr(e) for e in ctor_effects_of(d)]))
        out.append("  cd_arg_shared := %s;" % coq_list([coq_str(x) for x in mir.arg_shared]))
        out.append("  cd_copy_effects := %s;" % coq_list([effstr(e) for e in copy_effects_of(d)]))
        out.append("  cd_rc := %s;" % rcs)
        out.append("  cd_methods := %s" % ("[\n    " + ";\n    ".join(meths) + "]" if meths else "[]"))
        out.append("|}.")
        out.append("")
    out.append("Definition all_descs : list class_desc := %s." % coq_list(names))
    return "\n".join(out) + "\n"


def emit_decide(descs):
    """gen/Decide.v: the per-class decisions, computed here and RE-COMPUTED by Coq (vm_compute) from gen/Desc.v"""
    sc, rf, cp, rc, mu, ct, ini, ash = [], [], [], [], [], [], [], []
    for d in descs:
        mi = Mirror(d)
        ash.append("(%s, %s)" % (coq_str(d["name"]), coq_list([coq_str(x) for x in mi.arg_shared_offenders()])))
        ct.append("(%s, %s)" % (coq_str(d["name"]), "true" if mi.ctor_pure() else "false"))
        ini.append("(%s, %s)" % (coq_str(d["name"]), "true" if mi.init_consistent() else "false"))
        sc.append("(%s, %s)" % (coq_str(d["name"]), coq_list([coq_str(mname(m)) for m in mi.sc_offenders()])))
        rf.append("(%s, %s)" % (coq_str(d["name"]), coq_list([coq_str(mname(m)) for m in mi.rf_offenders()])))
        cp.append("(%s, %s)" % (coq_str(d["name"]), "true" if mi.copy_rf() else "false"))
        rc.append("(%s, %s)" % (coq_str(d["name"]), "true" if mi.rc_ok() else "false"))
        mu.append("(%s, %s)" % (coq_str(d["name"]), coq_list([coq_str(mname(m)) for m in mi.mutator_offenders()])))
    sep = ";\n    "
    return "\n".join([
        "(* GENERATED by harness/c16_objmodel.py: the decisions per class.  Each lemma is re-decided by vm_compute on gen/Desc.v. *)",
        "From Coq Require Import String List Bool.", "From C16 Require Import ObjModel.", "From C16.gen Require Import Desc.", "Import ListNotations.", "Local Open Scope string_scope.", "",
        "(* claimed const methods (not randomised) whose result is NOT shown to be a function of parameters and operands *)",
        "(* classes that are described but carry no verdict, with the reason *)",
        "Definition sc_exceptions : list (string * string) := " + coq_list(["(%s, %s)" % (coq_str(k), coq_str(v)) for k, v in NO_VERDICT.items() if any(d["name"] == k for d in descs)]) + ".",
        "Definition sc_excepted (d : class_desc) : bool := mem (cd_name d) (map fst sc_exceptions).",
        "Definition Decide_sc_stmt : Prop := map (fun d => (cd_name d, sc_offenders d)) (filter (fun d => negb (sc_excepted d)) all_descs) =\n   [" + sep.join(x for x, d in zip(sc, descs) if d["name"] not in NO_VERDICT) + "].",
        "Lemma decide_sc : Decide_sc_stmt.", "Proof. vm_compute. reflexivity. Qed.", "",
        "(* ... the classes set aside (no verdict): their offender lists, for the record *)",
        "Definition Decide_sc_excepted_stmt : Prop := map (fun d => (cd_name d, sc_offenders d)) (filter sc_excepted all_descs) =\n   [" + sep.join(x for x, d in zip(sc, descs) if d["name"] in NO_VERDICT) + "].",
        "Lemma decide_sc_excepted : Decide_sc_excepted_stmt.", "Proof. vm_compute. reflexivity. Qed.", "",
        "(* methods that read a member or have an effect (the others are stateless: accepted trivially) and are accepted, per class *)",
        "Definition Decide_stateful_stmt : Prop := map (fun d => (cd_name d, stateful_accepted d)) all_descs =\n   [" + sep.join("(%s, %d)" % (coq_str(d["name"]), sum(1 for m in d["methods"] if Mirror(d).claimed(m) and Mirror(d).method_sc(m) and not Mirror(d).stateless(m))) for d in descs) + "].",
        "Lemma decide_stateful : Decide_stateful_stmt.", "Proof. vm_compute. reflexivity. Qed.", "",
        "(* claimed const methods that write state other threads can see *)",
        "Definition Decide_rf_stmt : Prop := map (fun d => (cd_name d, rf_offenders d)) all_descs =\n   [" + sep.join(rf) + "].",
        "Lemma decide_rf : Decide_rf_stmt.", "Proof. vm_compute. reflexivity. Qed.", "",
        "(* copy-construction from a shared object writes nothing shared *)",
        "Definition Decide_copy_rf_stmt : Prop := map (fun d => (cd_name d, copy_rf_b d)) all_descs =\n   [" + sep.join(cp) + "].",
        "Lemma decide_copy_rf : Decide_copy_rf_stmt.", "Proof. vm_compute. reflexivity. Qed.", "",
        "(* public members that re-parameterise the object in place but leave a parameter-derived member or a cache behind *)",
        "Definition Decide_mut_stmt : Prop := map (fun d => (cd_name d, mutator_offenders d)) all_descs =\n   [" + sep.join(mu) + "].",
        "Lemma decide_mut : Decide_mut_stmt.", "Proof. vm_compute. reflexivity. Qed.", "",
        "(* shared heap parts are reference-counted by a protocol accepted by Refcount.refcount_safe *)",
        "Definition Decide_rc_stmt : Prop := map (fun d => (cd_name d, rc_ok_b d)) all_descs =\n   [" + sep.join(rc) + "].",
        "Lemma decide_rc : Decide_rc_stmt.", "Proof. vm_compute. reflexivity. Qed.", "",
        "(* no constructor of the class (or of a base) touches a function-local static or a mutable global: construction is a function of its parameters *)",
        "Definition Decide_ctor_stmt : Prop := map (fun d => (cd_name d, ctor_pure_b d)) all_descs =\n   [" + sep.join(ct) + "].",
        "Lemma decide_ctor : Decide_ctor_stmt.", "Proof. vm_compute. reflexivity. Qed.", "",
        "(* the description of the constructors is consistent: members outside cd_params are initialised by a constant / by default in every",
        "   constructor, members the copy constructor default-initialises are default-initialised by every constructor *)",
        "Definition Decide_init_stmt : Prop := map (fun d => (cd_name d, init_consistent_b d)) all_descs =\n   [" + sep.join(ini) + "].",
        "Lemma decide_init : Decide_init_stmt.", "Proof. vm_compute. reflexivity. Qed.", "",
        "(* members that share storage with an argument of a constructor / setter (givNoCopy, logcopy, reference / pointer capture): an object outside the lineage *)",
        "Definition Decide_args_stmt : Prop := map (fun d => (cd_name d, arg_shared_offenders d)) all_descs =\n   [" + sep.join(ash) + "].",
        "Lemma decide_args : Decide_args_stmt.", "Proof. vm_compute. reflexivity. Qed.", "",
        "(* the premises of the generic theorem C16_self_contained that are decided on the description, for every class at once",
        "   (the classes listed here are the exceptions: a mutator offender or an inconsistent constructor description) *)",
        "Definition decided_exceptions : list string := " + coq_list([coq_str(d["name"]) for d in descs if Mirror(d).mutator_offenders() or not Mirror(d).init_consistent()]) + ".",
        "Definition Decide_premises_stmt : Prop :=",
        "  forallb (fun d => orb (mem (cd_name d) decided_exceptions) (andb (init_consistent_b d) (match mutator_offenders d with [] => true | _ => false end))) all_descs = true.",
        "Lemma decide_premises : Decide_premises_stmt.", "Proof. vm_compute. reflexivity. Qed.", "",
        "(* ... and the statement about the described classes is not vacuous *)",
        "Definition Decide_nonempty_stmt : Prop := exists d, In d all_descs /\\ mem (cd_name d) decided_exceptions = false.",
        "Lemma decide_nonempty : Decide_nonempty_stmt.",
        "Proof. exists %s. split; [unfold all_descs; repeat (try (left; reflexivity); right) | reflexivity]. Qed." % next(
            (coq_ident(d["name"]) for d in descs if not (Mirror(d).mutator_offenders() or not Mirror(d).init_consistent())), coq_ident(descs[0]["name"])), ""]) + "\n"


if __name__ == "__main__":
    descs, meta, err = build_descriptions()
    if err:
        print(err); sys.exit(1)
    print(json.dumps(meta, indent=1))
    for d in descs:
        mi = Mirror(d)
        print("== %s [%s] members=%d methods=%d(const %d) reads=%s" % (d["name"], d.get("source"), len(d["members"]), len(d["methods"]),
              sum(1 for m in d["methods"] if m["const"]), d["reads"]))
        print("   sc offenders:", [(mname(m), mi.why_sc(m)) for m in mi.sc_offenders()])
        print("   rf offenders:", [(mname(m), mi.eff[id(m)]) for m in mi.rf_offenders()])
        print("   randomised:", [mname(m) for m in d["methods"] if m["const"] and mi.randomized(m)])
        print("   param members:", d.get("param_members"), " mutators:", [(mname(m), m.get("mut_writes"), mi.mutator_missing(m)) for m in d["methods"] if mi.is_mutator(m)])
        print("   partial setters:", [(mname(m), m.get("definite_writes"), mi.partial_setter_missing(m)) for m in d["methods"] if mi.is_partial_setter(m)])
        print("   args shared:", d.get("arg_shared"))
        print("   ctor effects:", mi.ctor_eff, " init kinds:", d.get("init_kinds"), " init offenders:", mi.init_offenders())
        print("   ctors:", [(x["cls"], x["params"][:60], [w["member"] for w in x["writes"]]) for x in d.get("ctors", [])], " unanalysed:", d.get("ctors_unanalysed"), " benign statics:", d.get("benign_statics"))
        print("   rc:", d.get("rc") and d["rc"]["assign_order"], "rc_ok", mi.rc_ok(), "shared:", d.get("shared_heap_members"), "copy-effects:", copy_effects_of(d))
        if d["notes"]:
            print("   notes:", d["notes"])
    if len(sys.argv) > 1:
        open(sys.argv[1], "w").write(emit_coq(descs, meta))
        open(os.path.join(os.path.dirname(sys.argv[1]), "Decide.v"), "w").write(emit_decide(descs))
