// C16 / C18 — the probes (a fixed set of operations with fixed operands per domain class) and the construction of every
// class in scope from a small parameter index.  Shared by harness/c16_history.C and harness/c18_threads.C.
#ifndef C16_PROBES_H
#define C16_PROBES_H
#include <iostream>
#include <sstream>
#include <string>
#include <vector>
#include <deque>
#include <map>
#include <utility>
#include <cstdio>
#include <cstdlib>
#include <cstring>
#include <unistd.h>
#include <sys/wait.h>
#include <signal.h>
#include "givinteger.h"
#include "givrational.h"
#include "modular.h"
#include "modular-balanced.h"
#include "modular-log16.h"
#include "modular-extended.h"
#include "montgomery.h"
#include "gfq.h"
#include "gfqext.h"
#include "extension.h"
#include "givpoly1.h"
#include "givpoly1factor.h"
#include "givintrns.h"
#include "givrns.h"
#include "givrandom.h"

using namespace Givaro;
typedef std::ostringstream OS;

static const long VALS[] = {0, 1, 2, 5, -7, 123456789L, 65521L, -1};
static const int NV = sizeof(VALS) / sizeof(VALS[0]);

static uint64_t fnv(const std::string& s) { uint64_t h = 1469598103934665603ULL; for (size_t i = 0; i < s.size(); ++i) { h ^= (unsigned char)s[i]; h *= 1099511628211ULL; } return h; }

// the probe of one object is printed part by part ("name:" before the part is computed, its hash after), so that a crash inside
// a part is attributed to that part
struct Sink {
    OS o; FILE* out; bool verbose, first, open, plain; uint64_t acc;      // out == NULL: only accumulate a digest
    Sink(FILE* f, bool v) : out(f), verbose(v), first(true), open(false), plain(false), acc(0) {}
    void close() { if (open && !out) { acc = acc * 1000003ULL + fnv(o.str()); o.str(""); open = false; return; }
                   if (open) { if (plain) fprintf(out, "%s", o.str().c_str()); else if (verbose) fprintf(out, "[%s]", o.str().c_str()); else fprintf(out, "%016llx", (unsigned long long)fnv(o.str())); o.str(""); open = false; fflush(out); } }
    void part(const char* n) { close(); plain = false; if (out) { fprintf(out, "%s%s:", first ? "" : ",", n); fflush(out); } first = false; open = true; }
    // a part printed as text (no blanks, no commas) even when not verbose: the python side checks it against a specification oracle
    void text(const char* n) { part(n); plain = true; }
};

// ------------------------------------------------------------------ probes
template <class F, class E> static void show(OS& o, const F& f, const E& e) { Integer i; f.convert(i, e); o << i << ","; }
template <class T> static Integer toI(const T& x) { Integer r; Caster(r, x); return r; }

// the reference-taking overloads of characteristic / cardinality (GFqExtFast hides the Integer& one and adds its own accessors)
template <class F> static void acc_overloads(const F& f, OS& o) { Integer ci, ki; uint64_t cu = 0; f.characteristic(ci); f.cardinality(ki); f.characteristic(cu); o << ci << "," << ki << "," << cu << ","; }
template <class T> static void acc_overloads(const GFqExtFast<T>& f, OS& o) { typename GFqExtFast<T>::Residu_t cu = 0; Integer ki; f.characteristic(cu); f.cardinality(ki);
    o << cu << "," << ki << "," << f.bits() << "," << f.base() << "," << f.mask() << "," << f.maxdot() << ","; }
template <class T> static void acc_overloads(const GFqExt<T>& f, OS& o) { acc_overloads(static_cast<const GFqExtFast<T>&>(f), o); }

// the ring interface shared by Modular<*>, ModularBalanced<*>, Montgomery<*>, Modular<Log16>, GFqDom, GFqExtFast, GFqExt
template <class F> static void probe_ring(const F& f, OS& o, bool dbl = true) {
    typedef typename F::Element E;
    Integer ch = toI(f.characteristic()), ca = toI(f.cardinality());
    o << "ch=" << ch << " card=" << ca << " z="; show(o, f, f.zero); o << " o="; show(o, f, f.one); o << " m="; show(o, f, f.mOne);
    o << " t=" << f.isZero(f.zero) << f.isOne(f.one) << f.isMOne(f.mOne) << f.isZero(f.one) << f.areEqual(f.one, f.mOne);
    // every accessor / constant (a stale derived member after an assignment shows here even when the arithmetic is right)
    { o << " acc="; acc_overloads(f, o); o << toI(f.residu()) << "," << toI(f.size()) << ",";
      show(o, f, f.minElement()); show(o, f, f.maxElement());
      E t; f.init(t); f.add(t, f.mOne, f.one); o << f.isZero(t); f.neg(t, f.one); o << f.areEqual(t, f.mOne) << f.isMOne(t); f.mul(t, f.mOne, f.mOne); o << f.isOne(t);
      f.init(t, Integer(-1)); o << f.isMOne(t) << f.areEqual(t, f.mOne) << f.isUnit(f.mOne) << f.isUnit(f.one) << f.isUnit(f.zero); }
    E a, b, c, r; f.init(a); f.init(b); f.init(c); f.init(r);
    for (int i = 0; i < NV; ++i) {
        f.init(a, Integer(VALS[i])); o << " i" << i << "="; show(o, f, a);
        f.init(r, (int64_t)VALS[i]); show(o, f, r);
        if (VALS[i] >= 0) { f.init(r, (uint64_t)VALS[i]); show(o, f, r); }
        if (dbl) { f.init(r, (double)VALS[i]); show(o, f, r); }
        int64_t l; f.convert(l, a); o << l << ","; double d; f.convert(d, a); o << (long long)d << ",";
        o << f.isZero(a) << f.isOne(a) << f.isMOne(a) << f.isUnit(a);
        for (int j = 0; j < NV; j += 2) {
            f.init(b, Integer(VALS[j])); f.init(c, Integer(VALS[(i + j + 1) % NV]));
            o << " ";
            f.add(r, a, b); show(o, f, r); f.sub(r, a, b); show(o, f, r); f.mul(r, a, b); show(o, f, r); f.neg(r, a); show(o, f, r);
            if (!f.isZero(b) && f.isUnit(b)) { f.div(r, a, b); show(o, f, r); f.inv(r, b); show(o, f, r);
                                               f.assign(r, a); f.divin(r, b); show(o, f, r); f.assign(r, b); f.invin(r); show(o, f, r); }
            f.assign(r, a); f.addin(r, b); show(o, f, r); f.assign(r, a); f.subin(r, b); show(o, f, r);
            f.assign(r, a); f.mulin(r, b); show(o, f, r); f.assign(r, a); f.negin(r); show(o, f, r);
            f.axpy(r, a, b, c); show(o, f, r); f.axmy(r, a, b, c); show(o, f, r); f.maxpy(r, a, b, c); show(o, f, r);
            f.assign(r, c); f.axpyin(r, a, b); show(o, f, r); f.assign(r, c); f.axmyin(r, a, b); show(o, f, r);
            f.assign(r, c); f.maxpyin(r, a, b); show(o, f, r);
            o << f.areEqual(a, b);
        }
    }
}

template <class F> static void probe_gfq(const F& f, Sink& s, bool dbl = true) {
    typedef typename F::Element E;
    s.part("ring"); probe_ring(f, s.o, dbl);
    OS& o = s.o;
    s.part("misc");
    o << " e=" << f.exponent() << " g="; show(o, f, f.generator()); o << " s=" << f.size() << " r=" << f.residu();
    o << " ir=" << f.irreducible() << " sg="; show(o, f, f.sage_generator()); { E g; f.generator(g); o << " G="; show(o, f, g); }
    o << " zp=" << f.zech2padic((typename F::Residu_t)1) << "," << f.padic2zech((typename F::Residu_t)1);
    // arithmetic inside the prime subfield, printed as integers: whatever irreducible polynomial / generator the constructor chose,
    // these are the integers modulo p (specification oracle on the python side)
    s.text("pf");
    { long pp = (long)f.characteristic(); E x, y, z;
      for (long i = 0; i < 6; ++i) for (long j = 1; j < 4; ++j) {
          long ai = (i * 5 + 1) % pp, bj = (j * 3 + 2) % pp; f.init(x, (int64_t)ai); f.init(y, (int64_t)bj); Integer back;
          f.add(z, x, y); f.convert(back, z); o << back << "."; f.mul(z, x, y); f.convert(back, z); o << back << "."; f.sub(z, x, y); f.convert(back, z); o << back << ".";
          f.neg(z, x); f.convert(back, z); o << back << "."; if (!f.isZero(y)) { f.div(z, x, y); f.convert(back, z); o << back; } o << ";"; } }
    // element from a polynomial over the prime field (GFqDom::init(Rep&, Vector)); coefficients are prime-field elements,
    // whose representation is an index below p
    long p = (long)f.characteristic();
    GFqDom<E> Zp((typename GFqDom<E>::Residu_t)p, 1);      // coefficients are prime-field ELEMENTS (Zech representation of GF(p))
    s.text("vecval");        // degree < e: the element is sum v_i p^i whatever the irreducible polynomial is
    for (int k = 0; k < 3; ++k) {
        std::vector<E> v; E c; Zp.init(c, (int64_t)((2 + k) % p)); v.push_back(c);
        if (f.exponent() > 1) { Zp.init(c, (int64_t)((1 + k) % p)); v.push_back(c); }
        E r; f.init(r, v); Integer back; f.convert(back, r); o << back << ";";
    }
    s.part("vecmod");        // degree >= e: reduced modulo the field's irreducible polynomial (e = 1: _irred is not a polynomial)
    if (f.exponent() > 1) {
        std::vector<E> v; for (int k = 0; k <= (int)f.exponent() + 1; ++k) { E c; Zp.init(c, (int64_t)((k + 1) % p)); v.push_back(c); }
        E r; f.init(r, v); o << " vm="; show(o, f, r);
    }
}
template <class F> static void probe_gfqext(const F& f, Sink& s, bool dbl) {
    typedef typename F::Element E;
    // GFqExtFast::init(double) requires 0 <= d < _MODOUT (GFqExt reduces first)
    s.part("dbl");
    OS& o = s.o;
    long lim = (long)f.cardinality() - 1;
    for (int k = 0; k < 6; ++k) { E r; double d = (double)((3 * k + 1) % lim); f.init(r, d); o << " d" << k << "="; show(o, f, r); double back; f.convert(back, r); o << (long long)back; }
    probe_gfq(f, s, dbl);
}

template <class F> static void probe_extension(const F& f, OS& o) {
    typedef typename F::Element E;
    Integer ch = toI(f.characteristic()), ca = toI(f.cardinality());
    o << "ch=" << ch << " card=" << ca << " e=" << f.exponent() << " z="; f.write(o, f.zero); o << " o="; f.write(o, f.one); o << " m="; f.write(o, f.mOne);
    o << " ir="; f.write(o, f.irreducible());
    { Integer ci, ki; int64_t cl = 0; f.characteristic(ci); f.cardinality(ki); f.characteristic(cl); E ir; f.irreducible(ir);
      o << " acc=" << ci << "," << ki << "," << cl << "," << toI(f.residu()) << "," << toI(f.order()) << "," << f.extension_type() << ","
        << toI(f.base_field().characteristic()) << "," << toI(f.base_field().cardinality()) << "," << toI(f.polynomial_domain().getdomain().characteristic()) << ",";
      f.write(o, ir); E t; f.add(t, f.mOne, f.one); o << "," << f.isZero(t) << f.isOne(f.one) << f.isMOne(f.mOne) << f.isUnit(f.one); f.neg(t, f.one); o << f.areEqual(t, f.mOne); }
    E a, b, c, r;
    for (int i = 0; i < NV; i += 1) {
        f.init(a, Integer(VALS[i] < 0 ? -VALS[i] * 31 : VALS[i] * 977 + 3)); f.init(b, Integer(VALS[(i + 3) % NV] < 0 ? 4242 : VALS[(i + 3) % NV] + 11));
        f.init(c, Integer(1000 + i));
        o << " |"; f.write(o, a); o << ";"; f.mul(r, a, b); f.write(o, r); o << ";"; f.add(r, a, b); f.write(o, r); o << ";"; f.sub(r, a, b); f.write(o, r);
        if (!f.isZero(b)) { o << ";"; f.inv(r, b); f.write(o, r); o << ";"; f.div(r, a, b); f.write(o, r); }
        o << ";"; f.axpy(r, a, b, c); f.write(o, r); o << ";"; f.neg(r, a); f.write(o, r);
        if (!f.isZero(a)) { Integer back; f.convert(back, a); o << ";" << back; }
        o << ";" << f.isZero(a) << f.isOne(a) << f.areEqual(a, b);
    }
}

template <class PD> static void probe_poly(const PD& pd, OS& o, bool factor) {
    typedef typename PD::Element P;
    P x, c3, c5, a, b, q, r, g, t;
    pd.init(x, Degree(1)); pd.init(c3, Degree(0), 3); pd.init(c5, Degree(0), 5);
    // a = x^3 + 3x + 5, b = x^2 + 5
    pd.init(a, Degree(3)); pd.mul(t, x, c3); pd.addin(a, t); pd.addin(a, c5);
    pd.init(b, Degree(2)); pd.addin(b, c5);
    o << "a="; pd.write(o, a); o << " b="; pd.write(o, b);
    pd.mul(t, a, b); o << " ab="; pd.write(o, t); pd.add(t, a, b); o << " a+b="; pd.write(o, t); pd.sub(t, a, b); o << " a-b="; pd.write(o, t);
    pd.divmod(q, r, a, b); o << " q="; pd.write(o, q); o << " r="; pd.write(o, r);
    pd.gcd(g, a, b); o << " g="; pd.write(o, g);
    pd.mul(t, a, a); pd.mulin(t, b); pd.mod(r, t, a); o << " m="; pd.write(o, r);
    Degree d; pd.degree(d, t); o << " deg=" << d.value();
    o << " z="; pd.write(o, pd.zero); o << " o="; pd.write(o, pd.one); o << " t=" << pd.isZero(pd.zero) << pd.isOne(pd.one) << pd.areEqual(a, b);
    o << " mo="; pd.write(o, pd.mOne); pd.add(t, pd.mOne, pd.one); o << pd.isZero(t); pd.neg(t, pd.one); o << pd.areEqual(t, pd.mOne);
    o << " dom=" << toI(pd.getdomain().cardinality()) << ","; pd.getdomain().write(o, pd.getdomain().mOne); o << "," << pd.getdomain().isMOne(pd.getdomain().mOne) << " X=" << pd.getIndeter();
    typename PD::Type_t lc; pd.leadcoef(lc, a); o << " lc="; pd.getdomain().write(o, lc);
    pd.diff(t, a); o << " da="; pd.write(o, t);
    o << " ch=" << toI(pd.getdomain().characteristic());
}
template <class PD> static void probe_factor(const PD& pd, OS& o) {
    probe_poly(pd, o, true);
    typedef typename PD::Element P;
    P x, c, a;
    pd.init(x, Degree(1));
    for (int k = 1; k <= 4; ++k) { pd.init(a, Degree(2)); pd.init(c, Degree(0), k); pd.addin(a, c); o << " irr" << k << "=" << pd.is_irreducible(a); }
    for (int k = 1; k <= 3; ++k) { pd.init(a, Degree(3)); pd.addin(a, x); pd.init(c, Degree(0), k); pd.addin(a, c); o << " irc" << k << "=" << pd.is_irreducible(a); }
}

template <class R> static void probe_intrns(R& rns, OS& o) {
    typename R::array res, mix;
    static const char* XS[] = {"0", "1", "52", "1000", "123456789012", "-5"};
    o << "n=" << rns.NumOfPrimes() << " prod=" << rns.product();
    for (int i = 0; i < 6; ++i) {
        Integer x(XS[i]), y, z;
        rns.RingToRns(res, x); o << " |";
        for (size_t k = 0; k < res.size(); ++k) o << res[k] << ",";
        rns.RnsToRing(y, res); o << "->" << y;
        rns.RnsToMixedRadix(mix, res); rns.MixedRadixToRing(z, mix); o << "/" << z;
    }
    o << " ck="; for (size_t k = 1; k < rns.Reciprocals().size(); ++k) o << rns.Reciprocals()[k] << ",";
    o << " p="; for (size_t k = 0; k < rns.Primes().size(); ++k) o << rns.Primes()[k] << ","; o << rns.ith(0) << "," << rns.reciprocal(1);
}
template <class R> static void probe_rns(R& rns, OS& o) {
    typename R::array res;
    static const char* XS[] = {"0", "1", "52", "1000", "123456789", "100000"};
    o << "n=" << rns.size();
    for (int i = 0; i < 6; ++i) {
        Integer x(XS[i]), y;
        rns.RingToRns(res, x); o << " |";
        for (size_t k = 0; k < res.size(); ++k) o << (long long)res[k] << ",";
        rns.RnsToRing(y, res); o << "->" << y;
    }
    o << " ck="; for (size_t k = 1; k < rns.Reciprocals().size(); ++k) o << (long long)rns.Reciprocals()[k] << ",";
    o << " p="; for (size_t k = 0; k < rns.Primes().size(); ++k) o << (long long)rns.Primes()[k].characteristic() << ","; o << (long long)rns.ith(0).characteristic() << "," << (long long)rns.reciprocal(1);
}

// ------------------------------------------------------------------ classes: construction from a parameter set + probe
struct Any {
    virtual ~Any() {}
    virtual Any* copy() const = 0;
    virtual void assign(const Any& src) = 0;
    virtual void swap_with(Any& other) = 0;           // std::swap of the two domain objects (move construction + two move assignments, or the copying fallbacks)
    virtual void move_from(Any& src) = 0;             // d = std::move(src.d): the source stays destructible and assignable, its value is unspecified
    virtual void probe(Sink& s) = 0;
};
// construction IN PLACE from the caller's arguments (no intermediate copy: a member that aliases an argument keeps aliasing it)
struct InPlace {};
template <class D, void (*PROBE)(const D&, Sink&)> struct Box : Any {
    D d;
    Box(const D& x) : d(x) {}
    template <class... A> Box(InPlace, A&&... a) : d(std::forward<A>(a)...) {}
    Any* copy() const { return new Box(d); }                         // D's copy constructor
    void assign(const Any& src) { d = static_cast<const Box&>(src).d; }   // D's operator=
    void swap_with(Any& o) { std::swap(d, static_cast<Box&>(o).d); }
    void move_from(Any& src) { d = std::move(static_cast<Box&>(src).d); }
    void probe(Sink& s) { PROBE(d, s); }
};
template <class D, void (*PROBE)(D&, Sink&)> struct BoxM : Any {           // probes that call non-const members
    D d;
    BoxM(const D& x) : d(x) {}
    template <class... A> BoxM(InPlace, A&&... a) : d(std::forward<A>(a)...) {}
    Any* copy() const { return new BoxM(d); }
    void assign(const Any& src) { d = static_cast<const BoxM&>(src).d; }
    void swap_with(Any& o) { std::swap(d, static_cast<BoxM&>(o).d); }
    void move_from(Any& src) { d = std::move(static_cast<BoxM&>(src).d); }
    void probe(Sink& s) { PROBE(d, s); }
};

template <class F> static void pr_ring(const F& f, Sink& s) { s.part("ring"); probe_ring(f, s.o); }
template <class F> static void pr_gfq(const F& f, Sink& s) { probe_gfq(f, s); }
template <class F> static void pr_gfqext(const F& f, Sink& s) { probe_gfqext(f, s, true); }
template <class F> static void pr_gfqextfast(const F& f, Sink& s) { probe_gfqext(f, s, false); }
template <class F> static void pr_ext(const F& f, Sink& s) { s.part("ext"); probe_extension(f, s.o); }
template <class F> static void pr_poly(const F& f, Sink& s) { s.part("poly"); probe_poly(f, s.o, false); }
template <class F> static void pr_fact(const F& f, Sink& s) { s.part("poly"); probe_factor(f, s.o); }
template <class F> static void pr_intrns(F& f, Sink& s) { s.part("rns"); probe_intrns(f, s.o); }
template <class F> static void pr_rns(F& f, Sink& s) { s.part("rns"); probe_rns(f, s.o); }

#define RINGBOX(T) Box<T, pr_ring<T> >

// ---- caller-owned arguments (constructor overloads 6 and 7).  The object is built IN PLACE from lvalue arguments owned by the caller
// (arrays of fields, vectors of coefficients, polynomials, domains, generators, Integers); then the caller OVERWRITES its arguments
// in place with another parameter set, builds a second object from the recycled arguments, resizes / reassigns and destroys them.  The
// first object must not notice: the digest of its probe before and after is compared here (text part `args`, expected
// "independent"), and python compares the probe with the reference of the same construction without recycling.
static std::map<const Any*, std::string> g_args_note;
static uint64_t digest(Any* a) { Sink s(0, false); a->probe(s); s.close(); return s.acc; }
static Any* noted(Any* a, uint64_t before) { g_args_note[a] = digest(a) == before ? "independent" : "CHANGED-WITH-THE-CALLERS-ARGUMENTS"; return a; }

// Construction.  P = parameter set (0..3), V = constructor overload:
//   V = 0  the usual constructor                                   V = 3  default constructor, then assignment from a temporary
//   V = 1, 2, 4, 5  the other overloads of the class (see below); make() returns 0 when the class has no such overload.
// In a history the construct event carries q = P + 4 * V  (cN:q).
// Prescribed polynomials for the GFqDom / GFqExtFast constructors (coefficients low degree first), per parameter set of GP/GE:
//   GF(3^2) = F3[x]/(x^2+1), generator x+1;  GF(5^2) = F5[x]/(x^2+2), generator x+1;  GF(2^4) = F2[x]/(x^4+x+1), generator x;
//   parameter set 3 is GF(7) for the automatic constructor and GF(7^2) = F7[x]/(x^2+1), generator x+2, for the polynomial overloads
//   (the polynomial constructors are not meant for e = 1)
static const long GF_I[4][5] = {{1, 0, 1, -1, -1}, {2, 0, 1, -1, -1}, {1, 1, 0, 0, 1}, {1, 0, 1, -1, -1}};
static const long GF_G[4][3] = {{1, 1, -1}, {1, 1, -1}, {0, 1, -1}, {2, 1, -1}};
template <class T> static std::vector<T> gf_vec(const long* a, int n) { std::vector<T> v; for (int i = 0; i < n && a[i] >= 0; ++i) v.push_back((T)a[i]); return v; }
template <class B, class D> static Any* dflt_assign(const D& tmp) { D x; x = tmp; return new B(x); }      // arrays of domains are filled this way
static const char* BIGP[] = {"1000000000000000000000007", "170141183460469231731687303715884105727", "18446744073709551629"};

// Modular<T> built on Modular_implem: Residu_t overload, the Source template with other source types, default + assignment
template <class M, class S> static Any* make_modular(S p, int V) {
    typedef Box<M, pr_ring<M> > B;
    if (V == 0) return new B(M(p));
    if (V == 1) return new B(M((typename M::Residu_t)p));
    if (V == 2) return new B(M(Integer((uint64_t)p)));                 // template<Source> Modular_implem(const Source&), Source = Integer
    if (V == 3) return dflt_assign<B, M>(M(p));
    if (V == 4) return new B(M((double)p));                            // Source = double
    if (V == 5) { M a(p); M b((typename M::Residu_t)3); b = a; return new B(b); }   // built for another modulus, then assigned
    if (V == 6) { B* a; uint64_t d; { S arg = p; a = new B(InPlace(), arg); d = digest(a); arg = (p == (S)3 ? (S)7 : (S)3); { M b(arg); (void)b; } arg = (S)5; } return noted(a, d); }
    if (V == 7) { B* a; uint64_t d; { Integer arg((uint64_t)p); a = new B(InPlace(), arg); d = digest(a); arg = Integer(p == (S)3 ? 7 : 3); { M b(arg); (void)b; } arg = Integer(5); } return noted(a, d); }
    return 0;
}
template <class M, class S> static Any* make_ring3(S p, int V) {          // ModularBalanced<T>, Montgomery<T>, Modular<Log16>
    typedef Box<M, pr_ring<M> > B;
    if (V == 0) return new B(M(p));
    if (V == 3) return dflt_assign<B, M>(M(p));
    if (V == 5) { M a(p); M b((S)5); b = a; return new B(b); }
    return 0;
}
template <class G, void (*PR)(const G&, Sink&), class T> static Any* make_gfq(int P, int V, bool ext) {
    static const long GP[] = {3, 5, 2, 7}, GE[] = {2, 2, 4, 1};
    typedef Box<G, PR> B; typedef typename G::Residu_t U;
    U p = (U)GP[P], e = (U)GE[P];
    if (V == 0) return new B(G(p, (ext && e == 1) ? (U)2 : e));
    if (V == 3) return dflt_assign<B, G>(G(p, (ext && e == 1) ? (U)2 : e));
    if (V == 1) return new B(G(p, e == 1 ? (U)2 : e, gf_vec<T>(GF_I[P], 5)));
    if (V == 6) { B* a; uint64_t d; int P2 = (P + 1) & 3;                      // (P, e, modPoly): the caller recycles its coefficient vector
        { std::vector<T> I = gf_vec<T>(GF_I[P], 5); a = new B(InPlace(), p, e == 1 ? (U)2 : e, I); d = digest(a);
          std::vector<T> I2 = gf_vec<T>(GF_I[P2], 5); for (size_t k = 0; k < I.size() && k < I2.size(); ++k) I[k] = I2[k];
          I = I2; { G b((U)GP[P2], (U)(GE[P2] == 1 ? 2 : GE[P2]), I); (void)b; } I.assign(I.size(), (T)0); I.clear(); }
        return noted(a, d); }
    return 0;
}
template <class T> static Any* make_gfqdom(int P, int V) {
    static const long GP[] = {3, 5, 2, 7}, GE[] = {2, 2, 4, 1};
    typedef GFqDom<T> G; typedef Box<G, pr_gfq<G> > B; typedef typename G::Residu_t U;
    U p = (U)GP[P], e = (U)(GE[P] == 1 ? 2 : GE[P]);
    if (V == 2) return new B(G(p, e, gf_vec<T>(GF_I[P], 5), gf_vec<T>(GF_G[P], 3)));                 // prescribed irreducible AND generator
    if (V == 4) return new B(G(p, e, gf_vec<int>(GF_I[P], 5), gf_vec<int>(GF_G[P], 3)));             // the same template with another Vector type
    if (V == 5) { std::deque<long> i, g; for (int k = 0; k < 5 && GF_I[P][k] >= 0; ++k) i.push_back(GF_I[P][k]); for (int k = 0; k < 3 && GF_G[P][k] >= 0; ++k) g.push_back(GF_G[P][k]);
                  return new B(G(p, e, i)); }                                                              // 3-argument template, Vector = deque
    if (V == 7) { B* a; uint64_t d; int P2 = (P + 1) & 3;                      // (P, e, modPoly, genPoly): both vectors recycled
        { std::vector<T> I = gf_vec<T>(GF_I[P], 5), Gn = gf_vec<T>(GF_G[P], 3); a = new B(InPlace(), p, e, I, Gn); d = digest(a);
          std::vector<T> I2 = gf_vec<T>(GF_I[P2], 5), G2 = gf_vec<T>(GF_G[P2], 3);
          for (size_t k = 0; k < I.size() && k < I2.size(); ++k) I[k] = I2[k]; for (size_t k = 0; k < Gn.size() && k < G2.size(); ++k) Gn[k] = G2[k];
          I = I2; Gn = G2; { G b((U)GP[P2], (U)(GE[P2] == 1 ? 2 : GE[P2]), I, Gn); (void)b; } I.assign(I.size(), (T)0); Gn.clear(); }
        return noted(a, d); }
    return make_gfq<G, pr_gfq<G>, T>(P, V, false);
}

static bool known_class(const std::string& cls);
static Any* make(const std::string& cls, int P, int V = 0) {
    static const long SMALL[] = {7, 101, 46337, 3};          // valid for every word ring (46337^2 < 2^31)
    static const long ODD[] = {7, 101, 40503, 3};
    static const long L16[] = {7, 101, 16381, 3};
    static const long GP[] = {3, 5, 2, 7}, GE[] = {2, 2, 4, 1};
    P &= 3;
    if (cls == "Modular<int32_t>") return make_modular<Modular<int32_t> >((int32_t)SMALL[P], V);
    if (cls == "Modular<uint32_t>") return make_modular<Modular<uint32_t> >((uint32_t)SMALL[P], V);
    if (cls == "Modular<int64_t>") return make_modular<Modular<int64_t> >((int64_t)(P == 2 ? 2147483629L : SMALL[P]), V);
    if (cls == "Modular<uint64_t>") return make_modular<Modular<uint64_t> >((uint64_t)(P == 2 ? 4294967291UL : SMALL[P]), V);
    if (cls == "Modular<float>") return make_modular<Modular<float> >((float)(P == 2 ? 2039 : SMALL[P]), V);
    if (cls == "Modular<double>") return make_modular<Modular<double> >((double)(P == 2 ? 67108859 : SMALL[P]), V);
    { static const long S8[] = {7, 11, 5, 3}, S16[] = {7, 101, 181, 3};      // p (p-1) must fit the compute type
      if (cls == "Modular<int8_t>") return make_modular<Modular<int8_t> >((int8_t)S8[P], V);
      if (cls == "Modular<uint8_t>") return make_modular<Modular<uint8_t> >((uint8_t)S8[P], V);
      if (cls == "Modular<int16_t>") return make_modular<Modular<int16_t> >((int16_t)S16[P], V);
      if (cls == "Modular<uint16_t>") return make_modular<Modular<uint16_t> >((uint16_t)S16[P], V); }
    if (cls == "ModularExtended<double>") { typedef ModularExtended<double> M; typedef RINGBOX(M) B; double p = (double)(P == 2 ? 1125899906842597LL : SMALL[P]);
        if (V == 0) return new B(M(p));
        if (V == 1) return new B(M((uint64_t)p));                    // template<XXX> ModularExtended(const XXX&), XXX = uint64_t
        if (V == 2) return new B(M(Integer((uint64_t)p)));
        if (V == 3) return dflt_assign<B, M>(M(p));
        if (V == 5) { M a(p); M b(5.0); b = a; return new B(b); }
        if (V == 6) { B* a; uint64_t d; { double arg = p; a = new B(InPlace(), arg); d = digest(a); arg = 1009.0; { M b(arg); (void)b; } arg = 5.0; } return noted(a, d); }
        return 0; }
    if (cls == "ModularExtended<float>") { typedef ModularExtended<float> M; typedef RINGBOX(M) B; float p = (float)(P == 2 ? 2097143 : SMALL[P] == 46337 ? 2039 : SMALL[P]);
        if (V == 0) return new B(M(p));
        if (V == 1) return new B(M((uint64_t)p));
        if (V == 3) return dflt_assign<B, M>(M(p));
        if (V == 5) { M a(p); M b(5.0f); b = a; return new B(b); }
        if (V == 6) { B* a; uint64_t d; { float arg = p; a = new B(InPlace(), arg); d = digest(a); arg = 1009.0f; { M b(arg); (void)b; } arg = 5.0f; } return noted(a, d); }
        return 0; }
    if (cls == "Modular<Integer>") { typedef Modular<Integer> M; typedef RINGBOX(M) B; Integer p(P < 3 ? Integer(BIGP[P]) : Integer(101));
        if (V == 0 || V == 1) return new B(M(p));
        if (V == 2) return P == 3 ? new B(M((int64_t)101)) : 0;                  // Source = int64_t
        if (V == 3) return dflt_assign<B, M>(M(p));
        if (V == 5) { M a(p); M b(Integer(3)); b = a; return new B(b); }
        if (V == 6) { B* a; uint64_t d; { Integer arg(p); a = new B(InPlace(), arg); d = digest(a); arg = Integer(BIGP[(P + 1) % 3]); { M b(arg); (void)b; } arg = Integer(5); } return noted(a, d); }
        return 0; }
    if (cls == "Modular<ruint<7>>") { typedef Modular<RecInt::ruint<7> > M; typedef RINGBOX(M) B; RecInt::ruint<7> p; Integer ip(P < 3 ? BIGP[P == 1 ? 2 : P] : "101"); Caster(p, ip);
        if (V == 0 || V == 1) return new B(M(p));
        if (V == 2) return new B(M(ip));                                          // Source = Integer
        if (V == 3) return dflt_assign<B, M>(M(p));
        if (V == 5) { M a(p); M b(RecInt::ruint<7>(3)); b = a; return new B(b); }
        if (V == 6) { B* a; uint64_t d; { RecInt::ruint<7> arg(p); a = new B(InPlace(), arg); d = digest(a); arg = RecInt::ruint<7>(1009); { M b(arg); (void)b; } arg = RecInt::ruint<7>(5); } return noted(a, d); }
        if (V == 7) { B* a; uint64_t d; { Integer arg(ip); a = new B(InPlace(), arg); d = digest(a); arg = Integer(1009); { M b(arg); (void)b; } arg = Integer(5); } return noted(a, d); }
        return 0; }
    if (cls == "ModularBalanced<int32_t>") return make_ring3<ModularBalanced<int32_t> >((int32_t)ODD[P], V);
    if (cls == "ModularBalanced<int64_t>") return make_ring3<ModularBalanced<int64_t> >((int64_t)(P == 2 ? 2147483629L : ODD[P]), V);
    if (cls == "ModularBalanced<float>") return make_ring3<ModularBalanced<float> >((float)(P == 2 ? 2039 : ODD[P]), V);
    if (cls == "ModularBalanced<double>") return make_ring3<ModularBalanced<double> >((double)(P == 2 ? 67108859 : ODD[P]), V);
    if (cls == "Montgomery<int32_t>") { typedef Montgomery<int32_t> M; if (V == 1) return new RINGBOX(M)(M((M::Residu_t)ODD[P], 1)); return make_ring3<M>((M::Residu_t)ODD[P], V); }
    if (cls == "Montgomery<ruint<7>>") { typedef Montgomery<RecInt::ruint<7> > M; typedef RINGBOX(M) B; RecInt::ruint<7> p; Integer ip(P < 3 ? BIGP[P == 1 ? 2 : P] : "101"); Caster(p, ip);
        if (V == 0) return new B(M(p));
        if (V == 3) return dflt_assign<B, M>(M(p));
        if (V == 5) { M a(p); M b(RecInt::ruint<7>(5)); b = a; return new B(b); }
        if (V == 6) { B* a; uint64_t d; { RecInt::ruint<7> arg(p); a = new B(InPlace(), arg); d = digest(a); arg = RecInt::ruint<7>(1009); { M b(arg); (void)b; } arg = RecInt::ruint<7>(5); } return noted(a, d); }
        return 0; }
    if (cls == "Modular<Log16>") return make_ring3<Modular<Log16> >((Modular<Log16>::Residu_t)L16[P], V);
    if (cls == "GFqDom<int64_t>") return make_gfqdom<int64_t>(P, V);
    if (cls == "GFqDom<int32_t>") return make_gfqdom<int32_t>(P, V);
    if (cls == "GFqExtFast<int64_t>") { typedef GFqExtFast<int64_t> G; return make_gfq<G, pr_gfqextfast<G>, int64_t>(P, V, true); }
    if (cls == "GFqExt<int64_t>") { typedef GFqExt<int64_t> G; typedef Box<G, pr_gfqext<G> > B; uint64_t e = (uint64_t)(GE[P] == 1 ? 2 : GE[P]);      // no polynomial overload
        if (V == 0) return new B(G((uint64_t)GP[P], e));
        if (V == 3) return dflt_assign<B, G>(G((uint64_t)GP[P], e));
        return 0; }
    if (cls == "Extension<GFqDom<int64_t>>") { typedef Extension<GFqDom<int64_t> > X; typedef Box<X, pr_ext<X> > B; GFqDom<int64_t> Bf((uint64_t)GP[P], 1); uint64_t ex = (uint64_t)(2 + (P & 1));
        if (V == 0) return new B(X(Bf, ex));
        if (V == 1) return new B(X((X::Residu_t)GP[P], (X::Residu_t)(P == 2 ? 12 : 9), Indeter("Y")));     // (p, e, Indeter): exponent above the table limit of the base field
        if (V == 2) { X::Pol_t PD(Bf, Indeter("Y")); X::PolElement ir; PD.init(ir, Degree((int64_t)ex));      // prescribed irreducible: x^ex + x + c, first c that works
                      X::PolElement x1, c; PD.init(x1, Degree(1)); PD.addin(ir, x1);
                      Poly1FactorDom<GFqDom<int64_t>, Dense> FD(Bf, Indeter("Y"));
                      for (int k = 1; k < GP[P]; ++k) { X::PolElement t; PD.init(c, Degree(0), k); PD.add(t, ir, c); if (FD.is_irreducible(t)) return new B(X(PD, t)); }
                      return 0; }
        if (V == 3) return dflt_assign<B, X>(X(Bf, ex));
        int P2 = (P + 1) & 3;
        if (V == 6) { B* a; uint64_t d; { GFqDom<int64_t> F(Bf); Indeter Y("Y"); a = new B(InPlace(), F, ex, Y); d = digest(a);        // (base field, degree, Indeter)
                      F = GFqDom<int64_t>((uint64_t)GP[P2], 1); Y = Indeter("Z"); { X b(F, (uint64_t)2, Y); (void)b; } F = GFqDom<int64_t>(); } return noted(a, d); }
        if (V == 7) { X::Pol_t PD(Bf, Indeter("Y")); X::PolElement ir, x1, c, t; PD.init(ir, Degree((int64_t)ex)); PD.init(x1, Degree(1)); PD.addin(ir, x1);     // (Pol_t, irreducible)
                      Poly1FactorDom<GFqDom<int64_t>, Dense> FD(Bf, Indeter("Y"));
                      for (int k = 1; k < GP[P]; ++k) { PD.init(c, Degree(0), k); PD.add(t, ir, c); if (FD.is_irreducible(t)) {
                          B* a = new B(InPlace(), PD, t); uint64_t d = digest(a);
                          for (size_t i = 0; i + 1 < t.size(); ++i) t[i] = t[t.size() - 1];                 // the caller overwrites the coefficients of its polynomial in place
                          GFqDom<int64_t> F2((uint64_t)GP[P2], 1); PD = X::Pol_t(F2, Indeter("Z")); t.resize(1); t.clear();
                          return noted(a, d); } }
                      return 0; }
        return 0; }
    if (cls == "Extension<Modular<double>>") { typedef Extension<Modular<double> > X; typedef Box<X, pr_ext<X> > B; Modular<double> Bf((double)(SMALL[P] == 46337 ? 11 : SMALL[P])); uint64_t ex = (uint64_t)(2 + (P & 1));
        if (V == 0) return new B(X(Bf, ex));
        if (V == 3) return dflt_assign<B, X>(X(Bf, ex));
        if (V == 6) { B* a; uint64_t d; { Modular<double> F(Bf); Indeter Y("Y"); a = new B(InPlace(), F, ex, Y); d = digest(a); F = Modular<double>(13.0); Y = Indeter("Z"); { X b(F, (uint64_t)2, Y); (void)b; } F = Modular<double>(2.0); } return noted(a, d); }
        return 0; }
    if (cls == "Poly1Dom<Modular<double>,Dense>") { typedef Poly1Dom<Modular<double>, Dense> PD; typedef Box<PD, pr_poly<PD> > B; Modular<double> Bf((double)SMALL[P]);
        if (V == 0) return new B(PD(Bf, Indeter(P & 1 ? "Y" : "X")));
        if (V == 3) return dflt_assign<B, PD>(PD(Bf, Indeter(P & 1 ? "Y" : "X")));
        if (V == 6) { B* a; uint64_t d; { Modular<double> F(Bf); Indeter X(P & 1 ? "Y" : "X"); a = new B(InPlace(), F, X); d = digest(a);
                      F = Modular<double>((double)SMALL[(P + 1) & 3]); X = Indeter("Z"); { PD b(F, X); (void)b; } F = Modular<double>(2.0); } return noted(a, d); }
        return 0; }
    if (cls == "Poly1Dom<GFqDom<int64_t>,Dense>") { typedef Poly1Dom<GFqDom<int64_t>, Dense> PD; typedef Box<PD, pr_poly<PD> > B;
        if (V == 0) { GFqDom<int64_t> Bf((uint64_t)GP[P], (uint64_t)GE[P]); return new B(PD(Bf, Indeter(P & 1 ? "Y" : "X"))); }
        if (V == 2) { GFqDom<int64_t> Bf((uint64_t)GP[P], (uint64_t)(GE[P] == 1 ? 2 : GE[P]), gf_vec<int64_t>(GF_I[P], 5), gf_vec<int64_t>(GF_G[P], 3)); return new B(PD(Bf, Indeter(P & 1 ? "Y" : "X"))); }
        if (V == 3) { GFqDom<int64_t> Bf((uint64_t)GP[P], (uint64_t)GE[P]); return dflt_assign<B, PD>(PD(Bf, Indeter(P & 1 ? "Y" : "X"))); }
        if (V == 7) { B* a; uint64_t d; int P2 = (P + 1) & 3;                    // base field with prescribed polynomials, owned by the caller
                      { GFqDom<int64_t> F((uint64_t)GP[P], (uint64_t)(GE[P] == 1 ? 2 : GE[P]), gf_vec<int64_t>(GF_I[P], 5), gf_vec<int64_t>(GF_G[P], 3)); Indeter X(P & 1 ? "Y" : "X");
                        a = new B(InPlace(), F, X); d = digest(a);
                        F = GFqDom<int64_t>((uint64_t)GP[P2], (uint64_t)(GE[P2] == 1 ? 2 : GE[P2]), gf_vec<int64_t>(GF_I[P2], 5), gf_vec<int64_t>(GF_G[P2], 3)); X = Indeter("Z");
                        { PD b(F, X); (void)b; } F = GFqDom<int64_t>(); } return noted(a, d); }
        return 0; }
    if (cls == "Poly1FactorDom<Modular<double>,Dense>") { typedef Poly1FactorDom<Modular<double>, Dense> PD; typedef Box<PD, pr_fact<PD> > B; Modular<double> Bf((double)SMALL[P]);
        if (V == 0) return new B(PD(Bf, Indeter(P & 1 ? "Y" : "X")));
        if (V == 1) { Poly1Dom<Modular<double>, Dense> Q(Bf, Indeter(P & 1 ? "Y" : "X")); return new B(PD(Q, GivRandom(1234))); }      // (Poly1Dom, generator)
        if (V == 3) return dflt_assign<B, PD>(PD(Bf, Indeter(P & 1 ? "Y" : "X")));
        if (V == 6) { B* a; uint64_t d; { Modular<double> F(Bf); Indeter X(P & 1 ? "Y" : "X"); GivRandom g(77); a = new B(InPlace(), F, X, g); d = digest(a);
                      F = Modular<double>((double)SMALL[(P + 1) & 3]); X = Indeter("Z"); g = GivRandom(78); { PD b(F, X, g); (void)b; } F = Modular<double>(2.0); } return noted(a, d); }
        if (V == 7) { B* a; uint64_t d; { Poly1Dom<Modular<double>, Dense> Q(Bf, Indeter(P & 1 ? "Y" : "X")); GivRandom g(1234); a = new B(InPlace(), Q, g); d = digest(a);      // (Poly1Dom, generator)
                      Q = Poly1Dom<Modular<double>, Dense>(Modular<double>((double)SMALL[(P + 1) & 3]), Indeter("Z")); g = GivRandom(78); { PD b(Q, g); (void)b; } } return noted(a, d); }
        return 0; }
    if (cls == "Poly1FactorDom<GFqDom<int64_t>,Dense>") { typedef Poly1FactorDom<GFqDom<int64_t>, Dense> PD; typedef Box<PD, pr_fact<PD> > B;
        if (V == 2) { GFqDom<int64_t> Bf((uint64_t)GP[P], (uint64_t)(GE[P] == 1 ? 2 : GE[P]), gf_vec<int64_t>(GF_I[P], 5), gf_vec<int64_t>(GF_G[P], 3)); return new B(PD(Bf, Indeter(P & 1 ? "Y" : "X"))); }
        GFqDom<int64_t> Bf((uint64_t)GP[P], (uint64_t)GE[P]);
        if (V == 0) return new B(PD(Bf, Indeter(P & 1 ? "Y" : "X")));
        if (V == 1) { Poly1Dom<GFqDom<int64_t>, Dense> Q(Bf, Indeter(P & 1 ? "Y" : "X")); return new B(PD(Q, GivRandom(1234))); }
        if (V == 3) return dflt_assign<B, PD>(PD(Bf, Indeter(P & 1 ? "Y" : "X")));
        return 0; }
    if (cls == "IntRNSsystem<vector>") {
        typedef IntRNSsystem<std::vector, std::allocator> R; typedef BoxM<R, pr_intrns<R> > B; std::vector<Integer> pr; std::vector<int64_t> pl;
        static const long PS[4][5] = {{3, 5, 7, 0, 0}, {11, 13, 17, 19, 0}, {1000003, 1000033, 999983, 65521, 0}, {2, 3, 5, 0, 0}};
        for (int k = 0; k < 5 && PS[P][k]; ++k) { pr.push_back(Integer(PS[P][k])); pl.push_back((int64_t)PS[P][k]); }
        if (V == 0) return new B(R(pr));
        if (V == 1) return new B(R(pl));                                  // template<TT> IntRNSsystem(const Container<TT>&)
        if (V == 3) return dflt_assign<B, R>(R(pr));
        if (V == 6 || V == 7) { int P2 = (P + 1) & 3; B* a = V == 6 ? new B(InPlace(), pr) : new B(InPlace(), pl); uint64_t d = digest(a);
            for (int k = 0; k < 5 && PS[P2][k] && (size_t)k < pr.size(); ++k) { pr[(size_t)k] = Integer(PS[P2][k]); pl[(size_t)k] = (int64_t)PS[P2][k]; }      // overwritten in place
            { R b(pr); R c(pl); (void)b; (void)c; } pr.resize(1); pl.clear(); pr[0] = Integer(1); return noted(a, d); }
        return 0;
    }
    if (cls == "RNSsystem<Integer,Modular<double>>") {
        typedef RNSsystem<Integer, Modular<double> > R; typedef BoxM<R, pr_rns<R> > B;
        static const long PS[4][5] = {{3, 5, 7, 0, 0}, {11, 13, 17, 19, 0}, {1009, 1013, 65521, 2, 0}, {2, 3, 5, 0, 0}};
        int n = 0; while (n < 5 && PS[P][n]) ++n;
        R::domains dm(n); for (int k = 0; k < n; ++k) dm[k] = Modular<double>((double)PS[P][k]);
        if (V == 0) return new B(R(dm));
        if (V == 1) { R x; x.setPrimes(dm); return new B(x); }           // default constructor + setPrimes
        if (V == 3) return dflt_assign<B, R>(R(dm));
        if (V == 6 || V == 7) { int P2 = (P + 1) & 3; B* a; uint64_t d;          // the caller's array of fields is overwritten element by element, reused, resized, destroyed
            { R::domains cd(dm, givWithCopy());
              if (V == 6) a = new B(InPlace(), cd); else { a = new B(InPlace()); a->d.setPrimes(cd); }
              d = digest(a);
              for (int k = 0; k < 5 && PS[P2][k] && (size_t)k < cd.size(); ++k) cd[(size_t)k] = Modular<double>((double)PS[P2][k]);
              { R b(cd); (void)b.size(); } cd.resize(1); cd[0] = Modular<double>(2.0); cd.allocate(0); }
            return noted(a, d); }
        return 0;
    }
    return 0;
}
static const char* C16_CLASSES[] = {"Modular<int32_t>", "Modular<uint32_t>", "Modular<int64_t>", "Modular<uint64_t>", "Modular<float>", "Modular<double>",
    "Modular<int8_t>", "Modular<uint8_t>", "Modular<int16_t>", "Modular<uint16_t>", "ModularExtended<double>", "ModularExtended<float>",
    "Modular<Integer>", "Modular<ruint<7>>", "ModularBalanced<int32_t>", "ModularBalanced<int64_t>", "ModularBalanced<float>", "ModularBalanced<double>",
    "Montgomery<int32_t>", "Montgomery<ruint<7>>", "Modular<Log16>", "GFqDom<int64_t>", "GFqDom<int32_t>", "GFqExtFast<int64_t>", "GFqExt<int64_t>",
    "Extension<GFqDom<int64_t>>", "Extension<Modular<double>>", "Poly1Dom<Modular<double>,Dense>", "Poly1Dom<GFqDom<int64_t>,Dense>", "Poly1FactorDom<Modular<double>,Dense>",
    "Poly1FactorDom<GFqDom<int64_t>,Dense>", "IntRNSsystem<vector>", "RNSsystem<Integer,Modular<double>>", 0};
static bool known_class(const std::string& cls) { for (int i = 0; C16_CLASSES[i]; ++i) if (cls == C16_CLASSES[i]) return true; return false; }


// ------------------------------------------------------------------ mutators: re-parameterise a live object in place
// (event sN:P).  Afterwards the object must behave exactly like a fresh object built from parameter set P.
//   RNSsystem::setPrimes(domains)            Modular<T>::read(istream&) / Modular<Log16>::read(istream&)   "(z, <p>)"
// read() from a truncated / malformed text (event fN:q, q = P + 4 * variant): "(z, <p>"  "(z <p>)"  ""  "(z, "
template <class BOX> static bool mutate_read_bad(Any* a, const std::string& cls, int q) {
    BOX* b = static_cast<BOX*>(a);
    Any* f = make(cls, q & 3); Integer p = toI(static_cast<BOX*>(f)->d.characteristic()); delete f;
    std::stringstream ss; int t = (q >> 2) & 3;
    if (t == 0) ss << "(z, " << p; else if (t == 1) ss << "(z " << p << ")"; else if (t == 3) ss << "(z, ";
    b->d.read(ss);
    return true;
}
template <class BOX> static bool mutate_read(Any* a, const std::string& cls, int P) {
    BOX* b = static_cast<BOX*>(a);
    Any* f = make(cls, P); Integer p = toI(static_cast<BOX*>(f)->d.characteristic()); delete f;
    std::stringstream ss; ss << "(z, " << p << ")";
    b->d.read(ss);
    return true;
}
// ModularExtended<T>::read(istream&) reads the bare modulus
template <class BOX> static bool mutate_read_plain(Any* a, const std::string& cls, int P) {
    BOX* b = static_cast<BOX*>(a);
    Any* f = make(cls, P); Integer p = toI(static_cast<BOX*>(f)->d.characteristic()); delete f;
    std::stringstream ss; ss << p;
    b->d.read(ss);
    return true;
}
#define MUT_READ(NAME, T) if (cls == NAME) return mutate_read<RINGBOX(T) >(a, cls, P);
#define MUT_BAD(NAME, T) if (cls == NAME) return mutate_read_bad<RINGBOX(T) >(a, cls, q);
static bool mutate_bad(const std::string& cls, Any* a, int q) {
    MUT_BAD("Modular<int32_t>", Modular<int32_t>) MUT_BAD("Modular<uint32_t>", Modular<uint32_t>) MUT_BAD("Modular<int64_t>", Modular<int64_t>) MUT_BAD("Modular<uint64_t>", Modular<uint64_t>)
    MUT_BAD("Modular<float>", Modular<float>) MUT_BAD("Modular<double>", Modular<double>) MUT_BAD("Modular<int16_t>", Modular<int16_t>) MUT_BAD("Modular<uint16_t>", Modular<uint16_t>)
    MUT_BAD("Modular<Integer>", Modular<Integer>) MUT_BAD("Modular<Log16>", Modular<Log16>)
    return false;
}
static bool mutate(const std::string& cls, Any* a, int P) {
    P &= 3;
    MUT_READ("Modular<int32_t>", Modular<int32_t>) MUT_READ("Modular<uint32_t>", Modular<uint32_t>) MUT_READ("Modular<int64_t>", Modular<int64_t>)
    MUT_READ("Modular<uint64_t>", Modular<uint64_t>) MUT_READ("Modular<float>", Modular<float>) MUT_READ("Modular<double>", Modular<double>)
    MUT_READ("Modular<Integer>", Modular<Integer>) MUT_READ("Modular<Log16>", Modular<Log16>)
    if (cls == "GFqDom<int64_t>" || cls == "GFqDom<int32_t>") {          // GFqDom::read(istream&): "(p^k)" -> *this = GFqDom(p, k)
        static const long GP[] = {3, 5, 2, 7}, GE[] = {2, 2, 4, 1};
        std::stringstream ss; ss << "(" << GP[P] << "^" << GE[P] << ")";
        if (cls == "GFqDom<int64_t>") { typedef GFqDom<int64_t> G; static_cast<Box<G, pr_gfq<G> >*>(a)->d.read(ss); }
        else { typedef GFqDom<int32_t> G; static_cast<Box<G, pr_gfq<G> >*>(a)->d.read(ss); }
        return true;
    }
    if (cls == "Poly1Dom<Modular<double>,Dense>" || cls == "Poly1FactorDom<Modular<double>,Dense>") {          // setdomain + setIndeter: the polynomial domain over another ring
        static const long SM[] = {7, 101, 46337, 3};
        Modular<double> nf((double)SM[P]); Indeter nx(P & 1 ? "Y" : "X");
        if (cls[5] == 'D') { typedef Poly1Dom<Modular<double>, Dense> PD; PD& d = static_cast<Box<PD, pr_poly<PD> >*>(a)->d; if (P & 2) d.setdomain(nf); else d.setDomain(nf); d.setIndeter(nx); }
        else { typedef Poly1FactorDom<Modular<double>, Dense> PD; PD& d = static_cast<Box<PD, pr_fact<PD> >*>(a)->d; if (P & 2) d.setdomain(nf); else d.setDomain(nf); d.setIndeter(nx); }
        return true;
    }
    if (cls == "ModularExtended<double>") return mutate_read_plain<RINGBOX(ModularExtended<double>) >(a, cls, P);
    if (cls == "ModularExtended<float>") return mutate_read_plain<RINGBOX(ModularExtended<float>) >(a, cls, P);
    MUT_READ("Modular<int8_t>", Modular<int8_t>) MUT_READ("Modular<uint8_t>", Modular<uint8_t>) MUT_READ("Modular<int16_t>", Modular<int16_t>) MUT_READ("Modular<uint16_t>", Modular<uint16_t>)
    if (cls == "RNSsystem<Integer,Modular<double>>") {
        typedef RNSsystem<Integer, Modular<double> > R;
        Any* f = make(cls, P); R& src = static_cast<BoxM<R, pr_rns<R> >*>(f)->d;
        R::domains dm(src.Primes().size()); for (size_t k = 0; k < src.Primes().size(); ++k) dm[k] = src.Primes()[k];
        static_cast<BoxM<R, pr_rns<R> >*>(a)->d.setPrimes(dm);
        for (size_t k = 0; k < dm.size(); ++k) dm[k] = Modular<double>((double)(k + 2 == 4 ? 5 : k + 2));          // the caller recycles the array it passed to setPrimes
        dm.resize(1);
        delete f;
        return true;
    }
    return false;
}
#endif
