// C17 harness: Array0<int>, Array0<Integer> and GivMMFreeList of /repo's current sources, driven by the
// same line protocol as coq/C17/ocaml/driver.ml.
//   tab v0 .. v511                          compared with the real TabSize table
//   seq <fx> <elsize> <addr> <nh> op...     verbose: observation after every step (stops before a step that
//                                           meets a recorded defect precondition, printing df=<code>)
//   nostop <fx> <elsize> <addr> <nh> op...  like seq but executes everything, and compares with the
//                                           value-semantics oracle after every step (used for repro; may crash)
//   enum <fx> <elsize> <addr> <nh> <sizes> <L> prefix...   -> nodes defects h1 h2  [+ ORACLE-MISMATCH lines]
//   alloc <fixed0> aop...                   allocator-level sequence (a<sz> f<k> r<k>,<old>,<new>)
//   sb sz...                                size class chosen by _allocate
//   leak                                    GMP allocation balance of conversions / arithmetic
//   implicitcopy                            Array0 b(a) through the implicit copy constructor
//   forward                                 (hook) route the pool to malloc/free from now on
// elsize 4 = Array0<int>, 16 = Array0<Integer>.  forms: environment C17_FORMS=1 uses the alternative
// call forms (resize, operator=, Array0(s) when the fill value is 0).
#include <iostream>
#include <sstream>
#include <string>
#include <vector>
#include <memory>
#include <unordered_map>
#include <climits>
#include <cstdio>
#include <cstdlib>
#include <cstring>
#include <gmp.h>
#include "givaromm.h"
#include "givarray0.h"
#include "givref_count.h"
#include "givinteger.h"
#include "givrational.h"
#include <recint/recint.h>

#include <signal.h>
#include <unistd.h>
#include <sys/time.h>
#include <fcntl.h>
#include "giverror.h"
using namespace Givaro;

// ---------------------------------------------------------------- repair flags of the tree under test (chosen by the check's probes, C17_MODEL_FLAGS = "<fixr><fixrc><fxc>")
static bool g_fixr = false, g_fixrc = false, g_fxc = false;
// ---------------------------------------------------------------- per-case CPU watchdog (CPU time is load independent)
// g_case counts the cases (one sequence, one allocator token list, one probe) finished so far; a SIGPROF every C17_CPU_BUDGET seconds of CPU
// time finds out whether the process is still in the same case: then that case "does not return" and the process exits with code 97 after
// naming the case on stdout.
static volatile long g_case = 0, g_case_seen = -1;
static char g_case_name[2400] = "";
static void set_case_name(const std::string& s) { strncpy(g_case_name, s.c_str(), sizeof g_case_name - 1); g_case_name[sizeof g_case_name - 1] = 0; }
static std::string (*g_case_fmt)() = 0;      // formats the case being executed (enumerations keep only a pointer)
static volatile int g_cur_op = -1;           // index of the operation of the current sequence that is being executed (named in the report)
static const char* g_stuck_flag = 0;         // C17_STUCK_FLAG: a file shared by the parallel workers of one stream; the first worker that finds a case
                                             // that does not return creates it, the others leave at their next tick (exit 98): a hang costs ONE budget, not N
static void on_prof(int) {
    if (g_stuck_flag && access(g_stuck_flag, F_OK) == 0) _exit(98);
    if (g_case_seen == g_case) {
        if (g_case_fmt) { std::string d = g_case_fmt(); strncat(g_case_name, " :: ", sizeof g_case_name - strlen(g_case_name) - 1); strncat(g_case_name, d.c_str(), sizeof g_case_name - strlen(g_case_name) - 1); }
        if (g_cur_op >= 0) { char b[32]; snprintf(b, sizeof b, " @op=%d", (int) g_cur_op); strncat(g_case_name, b, sizeof g_case_name - strlen(g_case_name) - 1); }
        if (g_stuck_flag) { int fd = open(g_stuck_flag, O_CREAT | O_WRONLY, 0644); if (fd >= 0) close(fd); }
        static const char msg[] = "\nDOES-NOT-RETURN ";
        if (write(1, msg, sizeof msg - 1) < 0) {}
        if (write(1, g_case_name, strlen(g_case_name)) < 0) {}
        if (write(1, "\n", 1) < 0) {}
        _exit(97);
    }
    g_case_seen = g_case;
}
static void start_watchdog() {
    const char* b = getenv("C17_CPU_BUDGET"); long sec = b ? atol(b) : 5; if (sec <= 0) return;     // a case is reported after between 1x and 2x this many seconds of CPU
    g_stuck_flag = getenv("C17_STUCK_FLAG");
    struct sigaction sa; memset(&sa, 0, sizeof sa); sa.sa_handler = on_prof; sigaction(SIGPROF, &sa, 0);
    struct itimerval it; it.it_interval.tv_sec = sec; it.it_interval.tv_usec = 0; it.it_value = it.it_interval; setitimer(ITIMER_PROF, &it, 0);
}

// ---------------------------------------------------------------- access to the pool's tables
#ifdef GIVARO_VERIF_HAVE_MM_HOOK
static void* tabfree_head(int i) { return (void*) GivMMFreeList::verif_tabfree(i); }
static size_t tabsize_at(int i) { return GivMMFreeList::verif_tabsize(i); }
static bool pool_forwarding() { return GivMMFreeList::verif_forward(); }
#else
// without the hook: the static tables by their link names (BlocFreeList keeps them private)
extern void* c17_TabFree[] asm("_ZN6Givaro12BlocFreeList7TabFreeE");
extern const size_t c17_TabSize[] asm("_ZN6Givaro12BlocFreeList7TabSizeE");
static void* tabfree_head(int i) { return c17_TabFree[i]; }
static size_t tabsize_at(int i) { return c17_TabSize[i]; }
static bool pool_forwarding() { return false; }
#endif
static const size_t HDR = 8;                       // sizeof(BlocFreeList) - sizeof(int64_t)
static void* next_free(void* blk) { void* n; memcpy(&n, blk, sizeof n); return n; }
static int header_index(const void* data) { int i; memcpy(&i, (const char*)data - HDR, sizeof i); return i; }

// canonical numbering of pool addresses: order of first sight (= order of malloc, see the design note)
static std::unordered_map<const void*, long> g_ids;
static long addr_id(const void* p) {
    if (!p) return -1;
    auto it = g_ids.find(p);
    if (it != g_ids.end()) return it->second;
    long k = (long) g_ids.size(); g_ids[p] = k; return k;
}
// blocks on all free lists; -1 if some list is cyclic / a block is listed twice
static long free_population(std::vector<std::pair<int, std::vector<const void*> > >* lists = 0) {
    long n = 0;
    for (int i = 0; i < 512; ++i) {
        void* b = tabfree_head(i);
        if (!b) continue;
        std::vector<const void*> l;
        long guard = 0;
        while (b) { l.push_back((const char*)b + HDR); b = next_free(b); if (++guard > 100000) return -1; }
        n += (long) l.size();
        if (lists) lists->push_back(std::make_pair(i, l));
    }
    return n;
}

// ---------------------------------------------------------------- element types
static long cell_value(const int& x) { return x; }
static long cell_value(const Integer& x) { return (long)(int64_t) x; }

template <class T> struct Acc : public Array0<T> {             // a derived class sees the protected fields
    Acc(size_t s) : Array0<T>(s) {}
    Acc(size_t s, const T& t) : Array0<T>(s, t) {}
    Acc(const Acc& p, givNoCopy c) : Array0<T>(p, c) {}
    Acc(const Acc& p, givWithCopy c) : Array0<T>(p, c) {}
    Acc(const Acc& p) : Array0<T>(static_cast<const Array0<T>&>(p)) {}     // Array0's own copy constructor
    int* cnt() const { return this->_cnt; }
    T* dat() const { return this->_d; }
    size_t psz() const { return this->_psz; }
};

static const long WILD = LONG_MIN;
static bool on_free_list(const void* data);
static long pool_outstanding();
// value-semantics oracle with alias groups: a logical copy joins the group of its source
struct OHandle { std::shared_ptr<std::vector<long> > grp; size_t size; OHandle() : size(0) {} };
struct Oracle {
    std::vector<OHandle> h;
    explicit Oracle(int nh) : h(nh) {}
    void detach(int i) { h[i].grp.reset(); h[i].size = 0; }
    void build(int i, size_t n, long v) { detach(i); if (n) { h[i].grp = std::make_shared<std::vector<long> >(n, v); h[i].size = n; } }
    void withcopy(int i, int s) {
        OHandle src = h[s]; detach(i);
        if (src.size) { h[i].grp = std::make_shared<std::vector<long> >(src.grp->begin(), src.grp->begin() + src.size); h[i].size = src.size; } }
    void share(int i, int s) { if (i == s) return; OHandle src = h[s]; detach(i); if (src.grp) { h[i] = src; } }
    void allocate(int i, size_t n) {
        if (h[i].grp && h[i].grp.use_count() == 1 && h[i].grp->size() >= n) { h[i].size = n; for (size_t k = 0; k < n; ++k) (*h[i].grp)[k] = WILD; return; }
        detach(i); if (n) { h[i].grp = std::make_shared<std::vector<long> >(n, 0L); h[i].size = n; } }
    void reallocate(int i, size_t n) {
        if (h[i].grp && h[i].grp.use_count() == 1 && h[i].grp->size() >= n) {
            for (size_t k = h[i].size; k < n; ++k) (*h[i].grp)[k] = WILD;
            h[i].size = n; return; }
        std::vector<long> keep;
        if (h[i].grp) keep.assign(h[i].grp->begin(), h[i].grp->begin() + std::min(h[i].size, n));
        detach(i);
        if (n) { keep.resize(n, 0L); h[i].grp = std::make_shared<std::vector<long> >(keep); h[i].size = n; } }
    void push_back(int i, long v) { size_t n = h[i].size; reallocate(i, n + 1); (*h[i].grp)[n] = v; }
    void copy(int i, int s) {
        if (h[i].grp == h[s].grp) return;
        OHandle src = h[s];
        reallocate(i, src.size);
        for (size_t k = 0; k < src.size; ++k) (*h[i].grp)[k] = (*src.grp)[k]; }
    void write(int i, size_t k, long v) { if (k < h[i].size) (*h[i].grp)[k] = v; }
    void reserve(int i, size_t n) { reallocate(i, n); reallocate(i, 0); }
    long counter(int i) const { return h[i].grp ? (long) h[i].grp.use_count() : 0; }
};

struct Op { char kind; int h; long a, b; };   // a = size/src, b = value
static Op parse_op(const std::string& t) {
    Op o; o.kind = t[0]; o.h = 0; o.a = -1; o.b = 0;
    long v[3] = {0, 0, 0}; int n = 0; std::stringstream ss(t.substr(1)); std::string part;
    while (std::getline(ss, part, ',') && n < 3) v[n++] = atol(part.c_str());
    o.h = (int) v[0];
    if (o.kind == 'B' || o.kind == 'X') { o.a = v[1]; o.b = v[2]; }
    else if (o.kind == 'P') { o.b = v[1]; }
    else if (o.kind != 'D') { o.a = v[1]; }
    return o;
}

struct Fx { bool realloc_, nocopy, selflog; };
static Fx parse_fx(const std::string& s) { Fx f; f.realloc_ = s[0] == '1'; f.nocopy = s[1] == '1'; f.selflog = s[2] == '1'; return f; }

static int g_forms = 0;
// call-form coverage: how often each public call form was executed by this process (command `formcounts`)
enum { F_CTOR_ST, F_CTOR_S, F_CTOR_WITHCOPY, F_CTOR_COPY, F_CTOR_NOCOPY, F_DTOR, F_LOGCOPY, F_COPY, F_ASSIGN, F_ALLOCATE, F_REALLOCATE, F_RESIZE,
       F_PUSH_BACK, F_DESTROY, F_RESERVE, F_WRITE, F_FRONT_W, F_BACK_W, F_BEGIN_W, F_END_W, F_BASEPTR_W, F_INDEX_W,
       F_READ, F_INDEX_R, F_BEGIN_R, F_FRONT_R, F_BACK_R, F_END_R, F_BASEPTR_R, F_NFORMS };
static const char* const g_fname[F_NFORMS] = { "Array0(s,t)", "Array0(s)", "Array0(p,givWithCopy)", "Array0(p)", "Array0(p,givNoCopy)", "~Array0", "logcopy", "copy", "operator=",
       "allocate", "reallocate", "resize", "push_back", "destroy", "reserve", "write", "front()=", "back()=", "*(begin()+k)=", "*(end()-j)=", "baseptr()[k]=", "operator[]=",
       "read", "operator[]const", "*(begin()+k)const", "front()const", "back()const", "*(end()-j)const", "baseptr()const[k]" };
static long g_fc[F_NFORMS];
static long g_step = 0, g_refused = 0;          // g_refused: requests the allocator refused (GivError caught) in this process                            // operations applied so far in this process: selects the write call form
// GMP allocation balance (all commands): every Integer element constructed by a container must be destroyed by it
static long g_gmp_out = 0;
static void* c_alloc(size_t n) { ++g_gmp_out; return malloc(n); }
static void* c_realloc(void* p, size_t, size_t n) { return realloc(p, n); }
static void c_free(void* p, size_t) { --g_gmp_out; free(p); }
static long m1 = 2147483647L, m2 = 2147483629L, g_h1 = 0, g_h2 = 0;
static void mix(long x) { x += 5; g_h1 = (g_h1 * 1000003L + x) % m1; g_h2 = (g_h2 * 998244353L + x) % m2; }

template <class T> struct World {
    int nh; bool addr;
    typename std::aligned_storage<sizeof(Acc<T>), alignof(Acc<T>)>::type buf[4];
    Oracle orc;
    World(int n, bool a) : nh(n), addr(a), orc(n) { for (int i = 0; i < nh; ++i) new (&buf[i]) Acc<T>(0); }
    Acc<T>& H(int i) { return *reinterpret_cast<Acc<T>*>(&buf[i]); }
    void cleanup() { for (int i = 0; i < nh; ++i) H(i).destroy(); }

    // the recorded defect preconditions, evaluated on the real objects (0 = none)
    int realloc_defect(const Fx& fx, int h, size_t n) {
        if (fx.realloc_) return 0;
        Acc<T>& x = H(h);
        if (x.cnt() != 0 && *x.cnt() != 1) return n > 0 ? (n < x.size() ? 2 : 1) : 5;
        return 0;
    }
    int defect(const Fx& fx, const Op& o) {
        switch (o.kind) {
        case 'R': case 'V': return realloc_defect(fx, o.h, (size_t) o.a);
        case 'P': return realloc_defect(fx, o.h, H(o.h).size() + 1);
        case 'C': if (H((int) o.a).dat() == H(o.h).dat()) return 0; return realloc_defect(fx, o.h, H((int) o.a).size());
        case 'N': if (o.h == (int) o.a) return 0;
                  return (!fx.nocopy && H((int) o.a).size() == 0 && H((int) o.a).psz() != 0) ? 4 : 0;
        case 'L': return (!fx.selflog && o.h == (int) o.a && H(o.h).psz() != 0) ? 6 : 0;
        default: return 0;
        }
    }
    // one operation; a request the block allocator refuses (GivError: no size class holds it) is CAUGHT here, the sequence goes on with the
    // handle as the library left it.  The oracle (independent of the Coq model) then expects: reallocate / resize / push_back / copy /
    // operator= / reserve -> nothing changed; allocate -> the handle is empty (it gave up its storage); a constructor -> no object came to
    // life (the slot is default-constructed again).  Every other handle is untouched in all cases.
    void apply(const Op& o) {
        try { apply_raw(o); }
        catch (GivError&) {
            ++g_refused;
            switch (o.kind) {
            case 'B': case 'W': new (&buf[o.h]) Acc<T>(0); orc.detach(o.h); break;
            case 'A': orc.detach(o.h); break;
            default: break;
            }
        }
        if (addr) for (int i = 0; i < nh; ++i) { addr_id(H(i).dat()); addr_id(H(i).cnt()); }
    }
    void apply_raw(const Op& o) {
        Acc<T>& x = H(o.h);
        ++g_step;
        switch (o.kind) {
        case 'B': x.~Acc<T>(); ++g_fc[F_DTOR];
                  if (g_forms && o.b == 0) { new (&buf[o.h]) Acc<T>((size_t) o.a); ++g_fc[F_CTOR_S]; } else { new (&buf[o.h]) Acc<T>((size_t) o.a, T(o.b)); ++g_fc[F_CTOR_ST]; }
                  orc.build(o.h, (size_t) o.a, o.b); break;
        case 'W': if (o.h == (int) o.a) break; x.~Acc<T>(); ++g_fc[F_DTOR];
                  if (g_forms == 2) { new (&buf[o.h]) Acc<T>(H((int) o.a)); ++g_fc[F_CTOR_COPY]; } else { new (&buf[o.h]) Acc<T>(H((int) o.a), givWithCopy()); ++g_fc[F_CTOR_WITHCOPY]; }
                  orc.withcopy(o.h, (int) o.a); break;
        case 'N': if (o.h == (int) o.a) break; x.~Acc<T>(); ++g_fc[F_DTOR]; new (&buf[o.h]) Acc<T>(H((int) o.a), givNoCopy()); ++g_fc[F_CTOR_NOCOPY]; orc.share(o.h, (int) o.a); break;
        case 'L': x.logcopy(H((int) o.a)); ++g_fc[F_LOGCOPY]; orc.share(o.h, (int) o.a); break;
        case 'C': if (g_forms) { static_cast<Array0<T>&>(x) = static_cast<const Array0<T>&>(H((int) o.a)); ++g_fc[F_ASSIGN]; } else { x.copy(H((int) o.a)); ++g_fc[F_COPY]; }
                  orc.copy(o.h, (int) o.a); break;
        case 'A': x.allocate((size_t) o.a); ++g_fc[F_ALLOCATE]; orc.allocate(o.h, (size_t) o.a); break;
        case 'R': if (g_forms) { x.resize((size_t) o.a); ++g_fc[F_RESIZE]; } else { x.reallocate((size_t) o.a); ++g_fc[F_REALLOCATE]; } orc.reallocate(o.h, (size_t) o.a); break;
        case 'P': x.push_back(T(o.b)); ++g_fc[F_PUSH_BACK]; orc.push_back(o.h, o.b); break;
        case 'D': x.destroy(); ++g_fc[F_DESTROY]; orc.detach(o.h); break;
        case 'V': x.reserve((size_t) o.a); ++g_fc[F_RESERVE]; orc.reserve(o.h, (size_t) o.a); break;
        case 'X': {
            size_t k = (size_t) o.a;
            if (k < x.size()) {
                // forms >= 1: the call form rotates with the operation counter, so that every form is used on every run
                const long f = g_forms ? g_step % 6 : 0;
                if (f == 0) { x.write(k, T(o.b)); ++g_fc[F_WRITE]; }
                else if (f == 1 && k == 0) { x.front() = T(o.b); ++g_fc[F_FRONT_W]; }
                else if ((f == 1 || f == 2) && k + 1 == x.size()) { x.back() = T(o.b); ++g_fc[F_BACK_W]; }
                else if (f == 3) { *(x.begin() + k) = T(o.b); ++g_fc[F_BEGIN_W]; }
                else if (f == 4) { *(x.end() - (x.size() - k)) = T(o.b); ++g_fc[F_END_W]; }
                else if (f == 5) { x.baseptr()[k] = T(o.b); ++g_fc[F_BASEPTR_W]; }
                else { x[k] = T(o.b); ++g_fc[F_INDEX_W]; }
            }
            orc.write(o.h, k, o.b); break; }
        }
    }
    bool sane(int i) { Acc<T>& x = H(i); return x.size() == orc.h[i].size && (x.size() == 0 || x.dat() != 0) && x.size() <= x.psz(); }
    void observe(std::vector<long>& out) {
        for (int i = 0; i < nh; ++i) {
            Acc<T>& x = H(i);
            if (!sane(i)) { out.push_back(-7); out.push_back((long) x.size()); out.push_back((long) x.psz()); continue; }
            out.push_back((long) x.size()); out.push_back((long) x.psz());
            if (x.cnt()) { out.push_back(1); out.push_back(x.getCounter()); } else { out.push_back(0); out.push_back(g_fxc ? x.getCounter() : 0); }
            if (addr) { out.push_back(addr_id(x.dat())); out.push_back(addr_id(x.cnt())); }
            for (size_t k = 0; k < x.size(); ++k) out.push_back(cell(i, k));
        }
        if (addr) out.push_back(pool_outstanding());       // blocks the pool has handed out to this world
    }
    // element k of handle i through the public read accessors
    long cell(int i, size_t k) {
        const Acc<T>& x = H(i);
        if (!g_forms) { T v; x.read(k, v); ++g_fc[F_READ]; return cell_value(v); }
        switch ((k + i) % 5) {
        case 4: ++g_fc[F_BASEPTR_R]; return cell_value(x.baseptr()[k]);
        case 0: ++g_fc[F_INDEX_R]; return cell_value(x[k]);
        case 1: ++g_fc[F_BEGIN_R]; return cell_value(*(x.begin() + k));
        case 2: if (k == 0) { ++g_fc[F_FRONT_R]; return cell_value(x.front()); }
                if (k + 1 == x.size()) { ++g_fc[F_BACK_R]; return cell_value(x.back()); }
                ++g_fc[F_INDEX_R]; return cell_value(x[k]);
        default: ++g_fc[F_END_R]; return cell_value(*(x.end() - (x.size() - k)));
        }
    }
    std::string show() {
        std::ostringstream o;
        for (int i = 0; i < nh; ++i) {
            Acc<T>& x = H(i);
            o << "h" << i << ":" << x.size() << "," << x.psz() << ",";
            if (x.cnt()) o << x.getCounter(); else if (g_fxc) { if (x.getCounter() == 0) o << "-"; else o << "!" << x.getCounter(); } else o << "-";
            o << ",";
            if (addr) { if (x.dat()) o << addr_id(x.dat()); else o << "-"; o << ","; if (x.cnt()) o << addr_id(x.cnt()); else o << "-"; }
            else o << "?,?";
            o << "[";
            if (!sane(i)) o << "!unreadable: size " << x.size() << " capacity " << x.psz() << (x.dat() ? "" : " null storage");
            else for (size_t k = 0; k < x.size(); ++k) { if (k) o << " "; o << cell(i, k); }
            o << "] ";
        }
        if (addr) o << "out=" << pool_outstanding() << " ";
        return o.str();
    }
    // implementation vs oracle; empty string when they agree
    std::string oracle_diff() {
        std::ostringstream o;
        for (int i = 0; i < nh; ++i) {
            Acc<T>& x = H(i);
            if (x.size() != orc.h[i].size) { o << "h" << i << ".size=" << x.size() << " expected " << orc.h[i].size << (x.dat() ? "" : " (null storage)") << "; "; continue; }
            if (x.size() > x.psz() || (x.size() > 0 && !x.dat()) || (x.psz() > 0 && !x.cnt())) { o << "h" << i << " inconsistent: size " << x.size() << " capacity " << x.psz() << (x.dat() ? "" : " null storage") << (x.cnt() ? "" : " null counter") << "; "; continue; }
            long c = (x.cnt() || g_fxc) ? x.getCounter() : 0;       // an empty array: 0 sharers (getCounter() itself only with the repair of frag/C17.fix-11)
            if (c != orc.counter(i)) o << "h" << i << ".counter=" << c << " expected " << orc.counter(i) << "; ";
            for (size_t k = 0; k < x.size(); ++k) {
                long e = (*orc.h[i].grp)[k];
                if (e != WILD && cell(i, k) != e) o << "h" << i << "[" << k << "]=" << cell(i, k) << " expected " << e << "; ";
            }
            if (x.phsize() != x.psz() || (x.baseptr() != x.dat())) o << "h" << i << ".phsize/baseptr inconsistent; ";
            if (x.cnt() && (on_free_list(x.cnt()) || on_free_list(x.dat()))) o << "h" << i << " refers to a block that is on a free list; ";
            for (int j = 0; j < i; ++j) {
                bool shared = x.dat() && x.dat() == H(j).dat();
                bool eshared = orc.h[i].grp && orc.h[i].grp == orc.h[j].grp;
                if (shared != eshared) o << "h" << i << (shared ? " shares with h" : " does not share with h") << j << "; ";
            }
        }
        return o.str();
    }
};

static bool on_free_list(const void* data) {      // data = the data field of a block; every list is searched (a released block's header holds a link)
    for (int idx = 0; idx < 512; ++idx) {
        long guard = 0;
        for (void* b = tabfree_head(idx); b; b = next_free(b)) { if ((const char*) b + HDR == (const char*) data) return true; if (++guard > 100000) return true; }
    }
    return false;
}
// blocks handed out by the pool and not returned, relative to the baseline taken at the start of a command:
// every block the sequences touch is numbered by addr_id, every released block is on a free list
static long g_base_ids = 0, g_base_free = 0;
static void pool_baseline() { g_base_ids = (long) g_ids.size(); g_base_free = free_population(); }
static long pool_outstanding() {
    if (pool_forwarding()) return 0;
    long f = free_population();
    if (f < 0) return -1;
    return ((long) g_ids.size() - g_base_ids) - (f - g_base_free);
}

template <class T> static std::string cmd_seq(bool stop, const Fx& fx, bool addr, int nh, const std::vector<std::string>& toks) {
    pool_baseline();
    const long gmp0 = g_gmp_out;
    std::ostringstream out;
    {
    World<T> w(nh, addr);
    for (size_t k = 0; k < toks.size(); ++k) {
        Op o = parse_op(toks[k]);
        int d = w.defect(fx, o);
        if (stop && d) { out << "| df=" << d << " "; break; }
        g_cur_op = (int) k;
        w.apply(o);
        std::string diff = w.oracle_diff();
        out << "| " << w.show();
        if (!diff.empty()) { out << "ORACLE-MISMATCH step " << k << " (" << toks[k] << "): " << diff; return out.str(); }
    }
    if (stop) {    // after an executed defect the objects are not safe to destroy
        w.cleanup();
        if (addr) { long po = pool_outstanding(); if (po != 0) out << "POOL-LEAK outstanding=" << po; }
    }
    else return out.str();
    }
    if (g_gmp_out != gmp0) out << "POOL-LEAK gmp=" << (g_gmp_out - gmp0) << " GMP allocation(s) outstanding after all handles were destroyed";
    return out.str();
}

struct AOp { char kind; int h; int arg; };
static std::vector<AOp> alphabet(int nh, const std::vector<int>& sizes) {
    std::vector<AOp> l; const char kinds[] = "BWNLCARPDXV";
    for (const char* k = kinds; *k; ++k)
        for (int h = 0; h < nh; ++h) {
            if (*k == 'B' || *k == 'A' || *k == 'R' || *k == 'V') for (size_t i = 0; i < sizes.size(); ++i) l.push_back(AOp{*k, h, sizes[i]});
            else if (*k == 'W' || *k == 'N') { for (int s = 0; s < nh; ++s) if (s != h) l.push_back(AOp{*k, h, s}); }
            else if (*k == 'L' || *k == 'C') { for (int s = 0; s < nh; ++s) l.push_back(AOp{*k, h, s}); }
            else l.push_back(AOp{*k, h, -1});
        }
    return l;
}
static Op op_of(const AOp& a, int k) {
    Op o; o.kind = a.kind; o.h = a.h; o.a = a.arg; o.b = 0;
    if (a.kind == 'B') o.b = (k % 2 == 1) ? 0 : 100 * (k + 1);
    if (a.kind == 'P') o.b = 100 * (k + 1) + 7;
    if (a.kind == 'X') { o.a = k % 2; o.b = 100 * (k + 1) + 3 + 16 * (k % 5); }
    return o;
}
static int used_after(int mx, const AOp& a) {    // -2 = not canonical
    if (a.h > mx + 1) return -2;
    mx = std::max(mx, a.h);
    if (a.kind == 'W' || a.kind == 'N' || a.kind == 'L' || a.kind == 'C') { if (a.arg > mx + 1) return -2; return std::max(mx, a.arg); }
    return mx;
}
static std::string show_seq(const std::vector<AOp>& seq) {
    std::ostringstream o;
    for (size_t k = 0; k < seq.size(); ++k) {
        Op p = op_of(seq[k], (int) k);
        o << p.kind << p.h;
        if (p.kind == 'B' || p.kind == 'X') o << "," << p.a << "," << p.b; else if (p.kind == 'P') o << "," << p.b; else if (p.kind != 'D') o << "," << p.a;
        o << " ";
    }
    return o.str();
}

static const std::vector<AOp>* g_cur_seq = 0;
static std::string fmt_cur_seq() { return g_cur_seq ? show_seq(*g_cur_seq) : std::string(); }
template <class T> struct Enum {
    Fx fx; bool addr; int nh; int lmax; std::vector<AOp> alpha; long nodes, ndef; std::ostringstream extra; int nextra;
    void visit(std::vector<AOp>& seq, int mx) {
        const long gmp0 = g_gmp_out;
        visit1(seq, mx);
        // every element the containers constructed has been destroyed again (Integer elements own GMP limbs)
        if (g_gmp_out != gmp0 && !stop_here && nextra < 20) { ++nextra; extra << "\nGMP-LEAK " << show_seq(seq) << ": " << (g_gmp_out - gmp0) << " GMP allocation(s) outstanding after all handles were destroyed"; }
        if ((int) seq.size() < lmax && !stop_here)
            for (size_t i = 0; i < alpha.size(); ++i) {
                int m = used_after(mx, alpha[i]);
                if (m == -2) continue;
                seq.push_back(alpha[i]); visit(seq, m); seq.pop_back();
            }
        stop_here = false;
    }
    bool stop_here;
    void visit1(std::vector<AOp>& seq, int mx) {
        World<T> w(nh, addr);
        ++nodes; stop_here = false; ++g_case; g_cur_seq = &seq;
        int dk = -1, dcode = 0;
        for (size_t k = 0; k < seq.size(); ++k) {
            Op o = op_of(seq[k], (int) k);
            int d = w.defect(fx, o);
            if (d) { dk = (int) k; dcode = d; break; }
            g_cur_op = (int) k;
            w.apply(o);
        }
        if (dk >= 0) {
            if (dk == (int) seq.size() - 1) { ++ndef; mix(-dcode); } else mix(-100);
            w.cleanup(); stop_here = true;
            return;
        }
        std::string diff = w.oracle_diff();
        std::vector<long> obs; w.observe(obs);
        for (size_t i = 0; i < obs.size(); ++i) mix(obs[i]);
        if (!diff.empty() && nextra < 20) { ++nextra; extra << "\nORACLE-MISMATCH " << show_seq(seq) << ": " << diff; }
        if (!diff.empty()) { stop_here = true; pool_baseline(); return; }      // the objects may be half-updated: not destroyed, not extended
        w.cleanup();
        if (addr) { long po = pool_outstanding(); if (po != 0 && nextra < 20) { ++nextra; extra << "\nPOOL-LEAK " << show_seq(seq) << ": outstanding=" << po; } }
    }
};
template <class T> static std::string cmd_enum(const Fx& fx, bool addr, int nh, const std::vector<int>& sizes, int lmax, const std::vector<std::string>& prefix) {
    Enum<T> e; e.fx = fx; e.addr = addr; e.nh = nh; e.lmax = lmax; e.alpha = alphabet(nh, sizes); e.nodes = e.ndef = 0; e.nextra = 0; e.stop_here = false;
    g_h1 = g_h2 = 0; pool_baseline();
    std::vector<AOp> seq; int mx = -1;
    for (size_t i = 0; i < prefix.size(); ++i) {
        Op o = parse_op(prefix[i]); AOp a{o.kind, o.h, (int) o.a};
        int m = used_after(mx, a); mx = (m == -2) ? 99 : m; seq.push_back(a);
    }
    g_case_fmt = fmt_cur_seq;
    e.visit(seq, mx);
    g_case_fmt = 0; g_cur_seq = 0;
    std::ostringstream out; out << e.nodes << " " << e.ndef << " " << g_h1 << " " << g_h2 << e.extra.str();
    return out.str();
}

// ---------------------------------------------------------------- allocator level
static std::string cmd_alloc(bool fixed0, const std::vector<std::string>& toks) {
    std::vector<void*> slots; std::ostringstream out;
    for (size_t i = 0; i < toks.size(); ++i) {
        const std::string& t = toks[i]; long v[3] = {0, 0, 0}; int n = 0; std::stringstream ss(t.substr(1)); std::string part;
        while (std::getline(ss, part, ',') && n < 3) v[n++] = atol(part.c_str());
        if (t[0] == 'a') {
            if (v[0] == 0 && !fixed0) { slots.push_back(0); out << "x!idx-1 "; continue; }   // recorded defect: not executed here
            void* p = 0;
            try { p = GivMMFreeList::allocate((size_t) v[0]); }
            catch (GivError&) { slots.push_back(0); out << "x!toobig "; continue; }           // no size class holds the request: nothing changed
            if (p) memset(p, 0x30 + (int) (slots.size() % 60), (size_t) v[0]);
            slots.push_back(p);
            if (!p) out << "0 "; else out << addr_id(p) << "/" << header_index(p) << " ";
        } else if (t[0] == 'f') {
            GivMMFreeList::desallocate((v[0] < 0 || (size_t) v[0] >= slots.size()) ? 0 : slots[v[0]]); out << "f ";
        } else if (t[0] == 'r') {
            void* src = (v[0] < 0 || (size_t) v[0] >= slots.size()) ? 0 : slots[v[0]];          // r-1,old,new: the null pointer as source
            if (!src && v[2] == 0 && !g_fixr) { slots.push_back(0); out << "0!idx-1 "; continue; }   // resize(0, x, 0) indexes TabFree[-1] (finding null-src-size0): not executed here
            unsigned char keep[2048]; size_t m = std::min((size_t) 2048, std::min((size_t) v[1], (size_t) v[2]));
            if (src) memcpy(keep, src, m);
            void* p = 0;
            try { p = GivMMFreeList::resize(src, (size_t) v[1], (size_t) v[2]); }
            catch (GivError&) { slots.push_back(0); out << "0!toobig "; continue; }
            bool same = !src || !p || memcmp(keep, p, m) == 0;       // the first min(old,new) bytes survive a move
            if (p && (size_t) v[2] > (size_t) v[1]) memset((char*) p + v[1], 0x70 + (int) (slots.size() % 60), (size_t) v[2] - (size_t) v[1]);
            slots.push_back(p);
            if (!p) out << "0 "; else out << addr_id(p) << "/" << header_index(p) << (same ? "" : "!content") << " ";
        }
    }
    std::vector<std::pair<int, std::vector<const void*> > > lists;
    long n = free_population(&lists);
    if (n < 0) out << "FREELIST-CYCLE ";
    for (size_t i = 0; i < lists.size(); ++i) {
        out << "F" << lists[i].first << ":";
        for (size_t k = 0; k < lists[i].second.size(); ++k) { if (k) out << ","; out << addr_id(lists[i].second[k]); }
        out << " ";
    }
    if (n >= 0) out << "O" << ((long) g_ids.size() - n) << " ";      // blocks handed out and not returned (every block was numbered when it was handed out)
    return out.str();
}
static std::string cmd_sb(const std::vector<std::string>& toks) {
    std::ostringstream out;
    for (size_t i = 0; i < toks.size(); ++i) {
        size_t sz = (size_t) strtoull(toks[i].c_str(), 0, 10);
        try {
            BlocFreeList* b = GivMMFreeList::_allocate(sz);
            int idx; memcpy(&idx, b, sizeof idx);
            out << idx << " ";
            GivMMFreeList::desallocate((char*) b + HDR);
        } catch (GivError&) { out << "throw "; }
    }
    return out.str();
}

// ---------------------------------------------------------------- GivMMRefCount (reference count in data[0] of the block)
// rc op...: a<sz> d<k> s<j>,<k> i<k> c<k> g<k> r<k>,<old>,<new> n<new> (resize of a null pointer) ; slots hold user pointers
static std::string cmd_rc(const std::vector<std::string>& toks) {
    std::vector<void*> slots; std::vector<size_t> fillsz; std::ostringstream out;
    for (size_t i = 0; i < toks.size(); ++i) {
        const std::string& t = toks[i]; long v[3] = {0, 0, 0}; int n = 0; std::stringstream ss(t.substr(1)); std::string part;
        while (std::getline(ss, part, ',') && n < 3) v[n++] = atol(part.c_str());
        if (t[0] == 'a') {
            void* p = GivMMRefCount::allocate((size_t) v[0]);
            memset(p, 0x40 + (int) (slots.size() % 50), (size_t) v[0]);
            slots.push_back(p); fillsz.push_back((size_t) v[0]);
            out << addr_id((char*) p - 8) << "/" << header_index((char*) p - 8) << "/" << GivMMRefCount::getrc(p) << " ";
        } else if (t[0] == 'd') {
            void* p = slots[v[0]]; GivMMRefCount::desallocate(p);
            out << "d" << (on_free_list((char*) p - 8) ? 1 : 0) << " ";
        } else if (t[0] == 's') {
            void* old = slots[v[0]];
            void* r = GivMMRefCount::assign(&slots[v[0]], slots[v[1]]);
            out << "s" << (r == slots[v[1]] && slots[v[0]] == slots[v[1]] ? "=" : "!") << GivMMRefCount::getrc(r) << "," << (old && on_free_list((char*) old - 8) ? 1 : 0) << " ";
        } else if (t[0] == 'i') { out << "i" << GivMMRefCount::incrc(slots[v[0]]) << " "; }
        else if (t[0] == 'c') { out << "c" << GivMMRefCount::decrc(slots[v[0]]) << " "; }
        else if (t[0] == 'g') { out << "g" << GivMMRefCount::getrc(slots[v[0]]) << " "; }
        else if (t[0] == 'r' || t[0] == 'n') {
            void* src = t[0] == 'n' ? 0 : slots[v[0]];
            size_t olds = t[0] == 'n' ? 0 : (size_t) v[1], news = t[0] == 'n' ? (size_t) v[0] : (size_t) v[2];
            unsigned char keep[64]; size_t m = std::min(std::min(olds, news), (size_t) 64);
            if (src) memcpy(keep, src, m);
            void* q = GivMMRefCount::resize(src, olds, news);
            bool same = src && memcmp(keep, q, m) == 0;
            slots.push_back(q); fillsz.push_back(news);
            out << addr_id((char*) q - 8) << "/" << header_index((char*) q - 8) << "/" << GivMMRefCount::getrc(q) << (src ? (same ? "/ok" : "/BAD") : "/new")
                << "," << (src && on_free_list((char*) src - 8) ? 1 : 0) << " ";
        }
    }
    return out.str();
}
// ---------------------------------------------------------------- GivMMRefCount on pointer variables q[0..nq): the model's rstep
// op tokens: n<i>,<s> (np = allocate(s); desallocate(q[i]); q[i] = np)   s<i>,<j> (assign(&q[i], q[j]))   z<i> (assign(&q[i], 0))
//            f<i> (desallocate(q[i]); q[i] = 0)   r<i>,<new> (q[i] = resize(q[i], usz[i], new))   p<i> (incrc, getrc, decrc)
struct RBlk { std::vector<int> bytes; };      // -1 = unspecified byte
struct RWorld {
    static const int NQ = 3;
    void* q[NQ]; size_t usz[NQ]; std::shared_ptr<RBlk> o[NQ]; int pat; std::string probe;
    RWorld() : pat(0) { for (int i = 0; i < NQ; ++i) { q[i] = 0; usz[i] = 0; } }
    void fill(int i, size_t from, size_t to) {   // q[i] is the only owner here
        ++pat; unsigned char* b = (unsigned char*) q[i];
        for (size_t k = from; k < to; ++k) { b[k] = (unsigned char) (pat * 7 + k); o[i]->bytes[k] = b[k]; }
    }
    // resize of a live pointer to a size no class holds, body as it is: releases / decrements before _allocate throws (finding refused-size):
    // not executed in the sequences (own-process probe `rcrefuse`); the sequence stops there on both sides
    bool refused_as_is(char kind, int i, long a) const { return kind == 'r' && !g_fixrc && q[i] != 0 && (size_t) a + 8 > tabsize_at(511); }
    void apply(char kind, int i, long a) {
        probe.clear();
        switch (kind) {
        case 'n': { void* np = 0;
                    try { np = GivMMRefCount::allocate((size_t) a); } catch (GivError&) { probe = "refused"; break; }     // nothing has changed
                    GivMMRefCount::desallocate(q[i]); q[i] = np; usz[i] = (size_t) a;
                    o[i] = std::make_shared<RBlk>(); o[i]->bytes.assign((size_t) a, -1); fill(i, 0, (size_t) a); break; }
        case 's': { void* r = GivMMRefCount::assign(&q[i], q[a]); if (r != q[i] || q[i] != q[a]) probe = "assign-result!"; usz[i] = usz[a]; o[i] = o[a]; break; }
        case 'z': { void* r = GivMMRefCount::assign(&q[i], 0); if (r != 0 || q[i] != 0) probe = "assign-result!"; usz[i] = 0; o[i].reset(); break; }
        case 'f': GivMMRefCount::desallocate(q[i]); q[i] = 0; usz[i] = 0; o[i].reset(); break;
        case 'r': { size_t old = usz[i], nw = (size_t) a;
                    try { q[i] = GivMMRefCount::resize(q[i], old, nw); } catch (GivError&) { probe = "refused"; break; }   // repaired body / null pointer: nothing has changed
                    usz[i] = nw;
                    std::shared_ptr<RBlk> nb = std::make_shared<RBlk>(); nb->bytes.assign(nw, -1);
                    if (o[i]) for (size_t k = 0; k < std::min(old, nw); ++k) nb->bytes[k] = o[i]->bytes[k];
                    if (o[i] && o[i].use_count() == 1 && nw <= old) { o[i]->bytes.resize(std::max(old, nw)); }   // sole owner, no growth: same block
                    else o[i] = nb;
                    if (nw > old) fill(i, old, nw);
                    break; }
        case 'p': { std::ostringstream s; s << GivMMRefCount::incrc(q[i]) << "," << GivMMRefCount::getrc(q[i]) << "," << GivMMRefCount::decrc(q[i]); probe = s.str(); break; }
        }
        for (int k = 0; k < NQ; ++k) if (q[k]) addr_id((char*) q[k] - 8);
    }
    void observe(std::vector<long>& out) {
        for (int i = 0; i < NQ; ++i) {
            if (!q[i]) { out.push_back(-1); continue; }
            out.push_back(addr_id((char*) q[i] - 8)); out.push_back(header_index((char*) q[i] - 8)); out.push_back(GivMMRefCount::getrc(q[i]));
        }
    }
    std::string show() {
        std::ostringstream s;
        for (int i = 0; i < NQ; ++i) {
            if (!q[i]) s << "q" << i << ":- ";
            else s << "q" << i << ":" << addr_id((char*) q[i] - 8) << "/" << header_index((char*) q[i] - 8) << "/" << GivMMRefCount::getrc(q[i]) << " ";
        }
        if (!probe.empty() && probe != "refused") s << "probe=" << probe << " ";
        return s.str();
    }
    // implementation vs reference-count oracle
    std::string oracle_diff() {
        std::ostringstream s;
        if (probe == "assign-result!") s << "assign() result / *dest inconsistent; ";
        for (int i = 0; i < NQ; ++i) {
            if ((q[i] != 0) != (o[i] != 0)) { s << "q" << i << (q[i] ? " non-null" : " null") << " unexpectedly; "; continue; }
            if (!q[i]) { if (GivMMRefCount::getrc(q[i]) != 0) s << "getrc(0) != 0; "; continue; }
            long c = GivMMRefCount::getrc(q[i]);
            if (c != (long) o[i].use_count()) s << "q" << i << ".count=" << c << " expected " << o[i].use_count() << "; ";
            if (on_free_list((char*) q[i] - 8)) s << "q" << i << " refers to a bloc that is on a free list; ";
            const unsigned char* b = (const unsigned char*) q[i];
            for (size_t k = 0; k < usz[i] && k < o[i]->bytes.size(); ++k)
                if (o[i]->bytes[k] >= 0 && b[k] != o[i]->bytes[k]) { s << "q" << i << "[" << k << "]=" << (int) b[k] << " expected " << o[i]->bytes[k] << "; "; break; }
            for (int j = 0; j < i; ++j) if (q[j]) {
                if ((q[i] == q[j]) != (o[i] == o[j])) s << "q" << i << (q[i] == q[j] ? " aliases q" : " does not alias q") << j << "; ";
            }
        }
        if (probe.size() && probe != "assign-result!" && probe != "refused") {    // incrc,getrc,decrc of the probed variable
            long a = 0, b = 0, c = 0; sscanf(probe.c_str(), "%ld,%ld,%ld", &a, &b, &c);
            // recover which variable: the values must be count+1,count+1,count of some live variable, or 0,0,0
            bool ok = (a == 0 && b == 0 && c == 0);
            for (int i = 0; i < NQ; ++i) if (o[i] && a == (long) o[i].use_count() + 1 && b == a && c == a - 1) ok = true;
            if (!ok) s << "incrc/getrc/decrc = " << probe << "; ";
        }
        return s.str();
    }
    void cleanup() { for (int i = 0; i < NQ; ++i) { GivMMRefCount::desallocate(q[i]); q[i] = 0; usz[i] = 0; o[i].reset(); } }
};
struct ROp { char kind; int i; long a; };
static ROp parse_rop(const std::string& t) {
    ROp o; o.kind = t[0]; long v[2] = {0, 0}; int n = 0; std::stringstream ss(t.substr(1)); std::string part;
    while (std::getline(ss, part, ',') && n < 2) v[n++] = atol(part.c_str());
    o.i = (int) v[0]; o.a = v[1]; return o;
}
static std::string rop_str(const ROp& o) {
    std::ostringstream s; s << o.kind << o.i; if (o.kind == 'n' || o.kind == 's' || o.kind == 'r') s << "," << o.a; return s.str();
}
// rcq op...: one sequence, observation + oracle after every step, then release everything and check the pool
static std::string cmd_rcq(const std::vector<std::string>& toks) {
    pool_baseline(); RWorld w; std::ostringstream out;
    for (size_t k = 0; k < toks.size(); ++k) {
        ROp o = parse_rop(toks[k]);
        if (w.refused_as_is(o.kind, o.i, o.a)) { out << "| df=refused "; break; }
        g_cur_op = (int) k;
        w.apply(o.kind, o.i, o.a);
        out << "| " << w.show();
        std::string d = w.oracle_diff();
        if (!d.empty()) { out << "ORACLE-MISMATCH step " << k << " (" << toks[k] << "): " << d; return out.str(); }
    }
    w.cleanup();
    long po = pool_outstanding(); if (po != 0) out << "POOL-LEAK outstanding=" << po;
    return out.str();
}
static std::vector<ROp> ralphabet(const std::vector<int>& sizes) {
    std::vector<ROp> l;
    for (int i = 0; i < RWorld::NQ; ++i) for (size_t k = 0; k < sizes.size(); ++k) l.push_back(ROp{'n', i, sizes[k]});
    for (int i = 0; i < RWorld::NQ; ++i) for (int j = 0; j < RWorld::NQ; ++j) l.push_back(ROp{'s', i, j});
    for (int i = 0; i < RWorld::NQ; ++i) l.push_back(ROp{'z', i, 0});
    for (int i = 0; i < RWorld::NQ; ++i) l.push_back(ROp{'f', i, 0});
    for (int i = 0; i < RWorld::NQ; ++i) for (size_t k = 0; k < sizes.size(); ++k) l.push_back(ROp{'r', i, sizes[k]});
    for (int i = 0; i < RWorld::NQ; ++i) l.push_back(ROp{'p', i, 0});
    return l;
}
static const std::vector<ROp>* g_cur_rseq = 0;
static std::string fmt_cur_rseq() { std::string r; if (g_cur_rseq) for (size_t k = 0; k < g_cur_rseq->size(); ++k) r += rop_str((*g_cur_rseq)[k]) + " "; return r; }
struct REnum {
    std::vector<ROp> alpha; int lmax; long nodes; std::ostringstream extra; int nextra;
    void visit(std::vector<ROp>& seq) {
        ++nodes;
        RWorld w; std::string d; bool cut = false;
        ++g_case; g_cur_rseq = &seq;
        for (size_t k = 0; k < seq.size() && d.empty(); ++k) {
            if (w.refused_as_is(seq[k].kind, seq[k].i, seq[k].a)) { cut = true; break; }
            g_cur_op = (int) k;
            w.apply(seq[k].kind, seq[k].i, seq[k].a); d = w.oracle_diff();
        }
        if (cut) { mix(-200); w.cleanup(); return; }
        std::vector<long> obs; w.observe(obs);
        for (size_t i = 0; i < obs.size(); ++i) mix(obs[i]);
        if (w.probe != "refused") for (size_t i = 0; i < w.probe.size(); ++i) mix(w.probe[i]);
        w.cleanup();
        long po = pool_outstanding();
        if ((!d.empty() || po != 0) && nextra < 20) {
            ++nextra; extra << "\n" << (d.empty() ? "POOL-LEAK " : "ORACLE-MISMATCH ");
            for (size_t k = 0; k < seq.size(); ++k) extra << rop_str(seq[k]) << " ";
            if (d.empty()) extra << ": outstanding=" << po; else extra << ": " << d;
        }
        if (!d.empty() || po != 0) { pool_baseline(); return; }
        if ((int) seq.size() < lmax) for (size_t i = 0; i < alpha.size(); ++i) { seq.push_back(alpha[i]); visit(seq); seq.pop_back(); }
    }
};
// rcenum <sizes,csv> <L> prefix...  -> nodes h1 h2 [+ ORACLE-MISMATCH / POOL-LEAK lines]
static std::string cmd_rcenum(const std::vector<std::string>& toks) {
    std::vector<int> sizes; { std::stringstream ss(toks[0]); std::string x; while (std::getline(ss, x, ',')) sizes.push_back(atoi(x.c_str())); }
    REnum e; e.alpha = ralphabet(sizes); e.lmax = atoi(toks[1].c_str()); e.nodes = 0; e.nextra = 0;
    g_h1 = g_h2 = 0; pool_baseline();
    std::vector<ROp> seq; for (size_t i = 2; i < toks.size(); ++i) seq.push_back(parse_rop(toks[i]));
    g_case_fmt = fmt_cur_rseq;
    e.visit(seq);
    g_case_fmt = 0; g_cur_rseq = 0;
    std::ostringstream out; out << e.nodes << " " << g_h1 << " " << g_h2 << e.extra.str();
    return out.str();
}

// RefCounter (givref_count.h)
static std::string cmd_refcounter() {
    std::ostringstream out;
    RefCounter a, b(5);
    out << a.val() << " " << b.getvalue() << " " << a.incr() << " " << a.incr() << " " << a.decr() << " " << b.decr() << " ";
    b.refvalue() = 9; out << b.val() << " " << a.val();
    return out.str();
}

// ---------------------------------------------------------------- GMP allocation balance
template <class F> static void balance(std::ostringstream& out, const char* name, F f) {
    long before = g_gmp_out; f(); out << name << "=" << (g_gmp_out - before) << " ";
}
static std::string cmd_leak() {
    std::ostringstream out;
    const Integer big = (Integer(1) << 200) + 12345, big2 = (Integer(1) << 130) - 7;
    balance(out, "integer-arith", [&] { Integer a(big), b(big2), c; c = a * b + a / b - (a % b); c *= c; c = pow(c, 3); Integer g = gcd(a, b); g += c; Integer::axpyin(g, a, b); g = -g; });
    balance(out, "rational-arith", [&] { Rational r(big, big2), s(big2, big + 1); Rational t = r * s + r / s - s; t += r; t = -t; Integer n = t.nume() + t.deno(); (void) n; });
    balance(out, "ruint-ctor-integer", [&] { RecInt::ruint<8> u(123456789u); u *= u; u *= u; Integer x(u); Integer y = x + 1; (void) y; });
    balance(out, "rint-ctor-integer", [&] { RecInt::rint<8> u(-123456789); u *= u; u *= u; u = -u; Integer x(u); Integer y = x + 1; (void) y; });
    balance(out, "caster-ruint-to-fresh-integer", [&] { RecInt::ruint<8> u(123456789u); u *= u; u *= u; Integer x; Caster(x, u); });
    balance(out, "caster-ruint-to-live-integer", [&] { RecInt::ruint<8> u(123456789u); u *= u; u *= u; Integer x(big); Caster(x, u); });
    balance(out, "caster-rint-to-live-integer", [&] { RecInt::rint<8> u(-123456789); u *= u; u = -u; Integer x(big); Caster(x, u); });
    balance(out, "caster-integer-to-ruint", [&] { RecInt::ruint<8> u; Integer x(big); Caster(u, x); Integer back(u); (void) back; });
    balance(out, "caster-integer-to-rint", [&] { RecInt::rint<8> u; Integer x(-big2); Caster(u, x); Integer back(u); (void) back; });
    balance(out, "array0-integer", [&] { Array0<Integer> a(3, big); Array0<Integer> b(a, givWithCopy()); b.reallocate(7); b.push_back(big2); a.copy(b); a.allocate(2); });
    return out.str();
}
// values of the conversions (exactness of the round trips used above)
static std::string cmd_conv(const std::vector<std::string>& toks) {
    std::ostringstream out;
    for (size_t i = 0; i < toks.size(); ++i) {
        Integer x(toks[i].c_str());
        Integer live((Integer(1) << 100) + 1);
        RecInt::ruint<8> u; Caster(u, x); Integer bu(u);
        RecInt::rint<8> s; Caster(s, x); Integer bs(s);
        out << bu << "," << bs << " ";
    }
    return out.str();
}
static std::string cmd_implicitcopy() {
    std::ostringstream out;
    Array0<int>* a = new Array0<int>(2, 7);
    int inner;
    { Array0<int> b(*a); inner = a->getCounter(); }
    out << "inner=" << inner << " after=" << a->getCounter();    // value semantics: 2 (or a private copy: 1), then 1
    return out.str();    // *a is deliberately not destroyed: its block may already be released
}

// refused requests at the REAL limit: arrays of exactly cap = TabSize[511] / sizeof(T) elements (served), then one element more (GivError).
// Every member that can make a request is driven on a shared, on a solely owned and on an empty handle; after the caught GivError the handle
// is observed and used again.  Prints one token per check; all must read "ok".
template <class T> static std::string refuse_probe() {
    std::ostringstream o; const size_t cap = tabsize_at(511) / sizeof(T);
    #define CHK(name, cond) o << name << (cond ? "=ok " : "=BAD ")
    #define REFUSED(stmt) ([&]() { try { stmt; } catch (GivError&) { return true; } return false; }())
    {
        Acc<T> a(cap, T(3)); Acc<T> b(a, givNoCopy());               // shared, full
        bool r1 = REFUSED(a.push_back(T(5)));
        CHK("push_back-shared-refused", r1); CHK("push_back-shared-unchanged", a.size() == cap && a.psz() == cap && a.getCounter() == 2 && a.dat() == b.dat() && cell_value(a[cap - 1]) == 3);
        bool r2 = REFUSED(a.resize(cap + 1)); bool r3 = REFUSED(a.reallocate(cap + 7)); bool r4 = REFUSED(a.reserve(cap + 1));
        CHK("resize/reallocate/reserve-shared-refused", r2 && r3 && r4); CHK("...-unchanged", a.size() == cap && a.getCounter() == 2 && a.dat() == b.dat() && cell_value(a[0]) == 3);
        bool r5 = REFUSED(a.allocate(cap + 1));
        CHK("allocate-shared-refused", r5); CHK("allocate-shared-target-empty", a.size() == 0 && a.psz() == 0 && a.dat() == 0 && a.cnt() == 0);
        CHK("allocate-shared-sharer-intact", b.size() == cap && b.getCounter() == 1 && cell_value(b[cap / 2]) == 3);
        a.push_back(T(9)); CHK("reuse-after-refusal", a.size() == 1 && cell_value(a[0]) == 9 && a.getCounter() == 1);
        bool r6 = REFUSED(b.push_back(T(5)));                            // sole owner, full
        CHK("push_back-sole-refused", r6); CHK("push_back-sole-unchanged", b.size() == cap && b.getCounter() == 1 && cell_value(b[cap - 1]) == 3);
        bool r7 = REFUSED(b.allocate(cap + 1));
        CHK("allocate-sole-refused", r7); CHK("allocate-sole-target-empty", b.size() == 0 && b.psz() == 0 && b.dat() == 0 && b.cnt() == 0);
    }
    {
        Acc<T> e(0);                                                      // empty
        bool r1 = REFUSED(e.allocate(cap + 1)); bool r2 = REFUSED(e.reallocate(cap + 1)); bool r3 = REFUSED(e.resize(9000000)); bool r4 = REFUSED(e.reserve(cap + 1));
        CHK("empty-handle-refused", r1 && r2 && r3 && r4); CHK("empty-handle-still-empty", e.size() == 0 && e.psz() == 0 && e.dat() == 0 && e.cnt() == 0);
        e.push_back(T(1)); CHK("empty-handle-usable", e.size() == 1);
        bool r5 = REFUSED(Acc<T> z(cap + 1)); bool r6 = REFUSED(Acc<T> z(cap + 1, T(2)));
        CHK("constructors-refused", r5 && r6);
        Acc<T> src(5, T(4)); Acc<T> dst(cap, T(1));                     // copy / operator= / copy constructors never need more than the source holds
        dst.copy(src); CHK("copy-down", dst.size() == 5 && cell_value(dst[4]) == 4);
    }
    #undef CHK
    #undef REFUSED
    return o.str();
}

int main() {
    mp_set_memory_functions(c_alloc, c_realloc, c_free);
    const char* f = getenv("C17_FORMS"); g_forms = f ? atoi(f) : 0;
    const char* mf = getenv("C17_MODEL_FLAGS");
    if (mf && strlen(mf) >= 3) { g_fixr = mf[0] == '1'; g_fixrc = mf[1] == '1'; g_fxc = mf[2] == '1'; }
    start_watchdog();
    std::string line;
    while (std::getline(std::cin, line)) {
        std::vector<std::string> t; { std::stringstream ss(line); std::string x; while (ss >> x) t.push_back(x); }
        if (t.empty()) continue;
        ++g_case; g_cur_op = -1; set_case_name(line.substr(0, 2000));
        std::string r;
        if (t[0] == "tab") {
            int bad = 0; for (size_t i = 1; i < t.size() && i <= 512; ++i) if (strtoull(t[i].c_str(), 0, 10) != tabsize_at((int) i - 1)) ++bad;
            std::ostringstream o; o << "ok " << (t.size() - 1); if (bad) o << " TABLE-MISMATCH " << bad; r = o.str();
        } else if ((t[0] == "seq" || t[0] == "nostop") && t.size() >= 5) {
            Fx fx = parse_fx(t[1]); int es = atoi(t[2].c_str()); bool addr = t[3] == "1"; int nh = atoi(t[4].c_str());
            std::vector<std::string> ops(t.begin() + 5, t.end());
            r = es == 4 ? cmd_seq<int>(t[0] == "seq", fx, addr, nh, ops) : cmd_seq<Integer>(t[0] == "seq", fx, addr, nh, ops);
        } else if (t[0] == "enum" && t.size() >= 7) {
            Fx fx = parse_fx(t[1]); int es = atoi(t[2].c_str()); bool addr = t[3] == "1"; int nh = atoi(t[4].c_str());
            std::vector<int> sizes; { std::stringstream ss(t[5]); std::string x; while (std::getline(ss, x, ',')) sizes.push_back(atoi(x.c_str())); }
            int lmax = atoi(t[6].c_str());
            std::vector<std::string> pre(t.begin() + 7, t.end());
            r = es == 4 ? cmd_enum<int>(fx, addr, nh, sizes, lmax, pre) : cmd_enum<Integer>(fx, addr, nh, sizes, lmax, pre);
        } else if (t[0] == "alloc" && t.size() >= 2) { r = cmd_alloc(t[1] == "1", std::vector<std::string>(t.begin() + 2, t.end())); }
        else if (t[0] == "rcq") { r = cmd_rcq(std::vector<std::string>(t.begin() + 1, t.end())); }
        else if (t[0] == "rcenum" && t.size() >= 3) { r = cmd_rcenum(std::vector<std::string>(t.begin() + 1, t.end())); }
        else if (t[0] == "rc") { r = cmd_rc(std::vector<std::string>(t.begin() + 1, t.end())); }
        else if (t[0] == "rcdirty" && t.size() >= 2) {
            // mixed use of the two managers: blocks that served GivMMFreeList (user bytes in data[0]) wait on the free lists GivMMRefCount recycles from
            std::vector<int> sizes; { std::stringstream ss(t[1]); std::string x; while (std::getline(ss, x, ',')) sizes.push_back(atoi(x.c_str())); }
            int n = 0;
            for (size_t i = 0; i < sizes.size(); ++i) {
                void* p1 = GivMMFreeList::allocate((size_t) sizes[i] + 8); void* p2 = GivMMFreeList::allocate((size_t) sizes[i] + 8);
                memset(p1, 0x77, (size_t) sizes[i] + 8); memset(p2, 0x5a, (size_t) sizes[i] + 8);
                addr_id(p1); addr_id(p2); n += 2;
                GivMMFreeList::desallocate(p1); GivMMFreeList::desallocate(p2);
            }
            std::ostringstream o; o << "dirty " << n; r = o.str();
        }
        else if (t[0] == "refcounter") { r = cmd_refcounter(); }
        else if (t[0] == "refuseprobe") { pool_baseline(); const long g0 = g_gmp_out; r = "int: " + refuse_probe<int>() + "Integer: " + refuse_probe<Integer>();
            std::ostringstream o; o << "gmp=" << (g_gmp_out - g0); r += o.str(); }
        else if (t[0] == "refusedcount") { std::ostringstream o; o << "REFUSED " << g_refused; r = o.str(); }
        else if (t[0] == "hang") { volatile unsigned long z = 0; for (;;) ++z; }       // self-test of the watchdog
        // ---- unguarded probes of the findings filed in phase 4: each in its own process, each may crash
        else if (t[0] == "resize00") {      // GivMMFreeList::resize(0, 0, 0): the null pointer, nothing allocated (as it is: TabFree[-1])
            long f0 = free_population(); void* p = GivMMFreeList::resize(0, 0, 0); long f1 = free_population();
            std::ostringstream o; o << "p=" << (p ? "nonnull" : "null") << " lists=" << (f1 - f0); r = o.str();
        }
        else if (t[0] == "rcrefuse") {      // GivMMRefCount::resize to a size no class holds: GivError, and p / its count exactly as before
            std::ostringstream o;
            { void* p = GivMMRefCount::allocate(16); bool threw = false;
              try { GivMMRefCount::resize(p, 16, 9000000); } catch (GivError&) { threw = true; }
              o << "sole: threw=" << threw << " rc=" << GivMMRefCount::getrc(p) << " onlist=" << on_free_list((char*) p - 8); }
            { void* p = GivMMRefCount::allocate(40); void* q2 = 0; GivMMRefCount::assign(&q2, p); bool threw = false;
              try { GivMMRefCount::resize(q2, 40, 9000000); } catch (GivError&) { threw = true; }
              o << " shared: threw=" << threw << " rc=" << GivMMRefCount::getrc(p); }
            r = o.str();
        }
        else if (t[0] == "getcounter0") {   // getCounter() of arrays without storage: 0 sharers
            std::ostringstream o; Array0<int> a; o << "default=" << a.getCounter();
            Array0<Integer> b(3, Integer(5)); b.destroy(); o << " destroyed=" << b.getCounter();
            Array0<int> c(2, 1); c.reallocate(0); Array0<int> d(c, givNoCopy()); o << " size0=" << c.getCounter() << "," << d.getCounter();
            r = o.str();
        }
        else if (t[0] == "destroyheads") {  // GivMMFreeList::Destroy(): no free-list head may keep pointing to a freed bloc
            void* p1 = GivMMFreeList::allocate(16); void* p2 = GivMMFreeList::allocate(100); GivMMFreeList::desallocate(p1); GivMMFreeList::desallocate(p2);
            GivMMFreeList::Destroy(); int dangling = 0; for (int i = 0; i < 512; ++i) if (tabfree_head(i)) ++dangling;
            std::ostringstream o; o << "dangling=" << dangling; r = o.str();
        }
        else if (t[0] == "wrapobs") {       // observation only: s*sizeof(T) wraps in GivaroMM<T>::allocate(s) (no element is touched here)
            std::ostringstream o; const size_t sbig = (size_t(1) << 61) + 1;
            try { long* q = GivaroMM<long>::allocate(sbig); o << "wrap=" << (q ? "block-of-" : "null") << (q ? (long) tabsize_at(header_index(q)) : 0L); GivaroMM<long>::desallocate(q); }
            catch (GivError&) { o << "wrap=GivError"; }
            r = o.str();
        }
        else if (t[0] == "formcounts") { std::ostringstream o; o << "FORMS"; for (int i = 0; i < F_NFORMS; ++i) o << " " << g_fname[i] << "=" << g_fc[i]; r = o.str(); }
        else if (t[0] == "mmcpy") {     // GivMMFreeList::memcpy(dest, src, n) between two pooled blocks; the bytes after n and the source stay as they were
            std::ostringstream o; int bad = 0;
            const size_t szs[] = {1, 8, 31, 32, 33, 100, 1000};
            for (size_t a = 0; a < 7; ++a) for (size_t n = 0; n <= szs[a]; n += (szs[a] < 40 ? 1 : 37)) {
                unsigned char* d = (unsigned char*) GivMMFreeList::allocate(szs[a]); unsigned char* q = (unsigned char*) GivMMFreeList::allocate(szs[a]);
                for (size_t k = 0; k < szs[a]; ++k) { d[k] = (unsigned char) (k * 3 + 1); q[k] = (unsigned char) (200 - k); }
                GivMMFreeList::memcpy(d, q, n);
                for (size_t k = 0; k < szs[a]; ++k) { if (d[k] != (k < n ? (unsigned char) (200 - k) : (unsigned char) (k * 3 + 1))) ++bad; if (q[k] != (unsigned char) (200 - k)) ++bad; }
                GivMMFreeList::desallocate(d); GivMMFreeList::desallocate(q);
            }
            o << "bad=" << bad; r = o.str();
        }
        else if (t[0] == "rcnull") {    // GivMMRefCount::resize(0, 0, 16) on a recycled block whose data[0] is not 1
            void* f = GivMMFreeList::allocate(24); memset(f, 0x77, 24); GivMMFreeList::desallocate(f);
            void* p = GivMMRefCount::resize(0, 0, 16);
            std::ostringstream o; o << "rc=" << GivMMRefCount::getrc(p); r = o.str();
        }
        else if (t[0] == "sb") { r = cmd_sb(std::vector<std::string>(t.begin() + 1, t.end())); }
        else if (t[0] == "leak") { r = cmd_leak(); }
        else if (t[0] == "conv") { r = cmd_conv(std::vector<std::string>(t.begin() + 1, t.end())); }
        else if (t[0] == "implicitcopy") { r = cmd_implicitcopy(); }
        else if (t[0] == "alloc0") {     // executes allocate(0) for real (repro of the recorded defect; own process)
            void* p = GivMMFreeList::allocate(0); std::ostringstream o; o << "p=" << (p ? "nonnull" : "null"); if (p) o << " index=" << header_index(p); r = o.str();
        }
        else if (t[0] == "resize0") {    // resize(0, 0, 16) must hand out the data field of the block it takes from TabFree[15]
            void* q = GivMMFreeList::allocate(16); GivMMFreeList::desallocate(q);
            void* p = GivMMFreeList::resize(0, 0, 16);
            std::ostringstream o; o << "offset=" << ((char*) p - (char*) q); r = o.str();
        }
        else if (t[0] == "forward") {
#ifdef GIVARO_VERIF_HAVE_MM_HOOK
            GivMMFreeList::verif_forward() = true; r = "forwarding";
#else
            r = "no-hook";
#endif
        }
        else r = "BAD-LINE";
        ++g_case;
        std::cout << r << std::endl;
    }
    return 0;
}
