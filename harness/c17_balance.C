// C17 harness 2: "conversions and arithmetic on big integers, rationals and fixed-precision integers release
// every allocation they make".  Every named block below is one public entry point (or a small family of
// overloads) of Integer / Rational / RecInt / containers of Integer, executed on every operand of the list the
// check sends (boundary values on both sides of each limb boundary, deterministic; + seeded random ones).
// Four independent balances are taken around every execution:
//   gmp   blocks / bytes obtained through GMP's allocation functions (mp_set_memory_functions)
//   new   blocks obtained through the global operator new / new[]
//   heap  blocks / usable bytes obtained from the C library (malloc/calloc/realloc/memalign interposed): pool growth, anything else
//   pool  blocks of the givaro pool that are neither on a free list nor known before (free-list walk)
// A block is executed ROUNDS times on the same operand; only a balance that is non-zero in each of the last two
// rounds counts (one-time lazy initialisations - locale facets, static tables, pool growth - happen in the first).
// protocol:   ops v1 v2 ...      operand list (decimal, may be negative)
//             run                -> "B <block> cases=<n> bad=<m>" per block, "LEAK <block> x=<v> <balances>" per finding
//             value              -> conversion round trips checked against GMP's own mpz functions: "V <block> cases bad"
#include <iostream>
#include <sstream>
#include <string>
#include <vector>
#include <functional>
#include <cstdio>
#include <cstdlib>
#include <cstring>
#include <new>
#include <malloc.h>
#include <gmp.h>
#include <gmpxx.h>
#include "givaromm.h"
#include "givarray0.h"
#include "givinteger.h"
#include "givrational.h"
#include "givpoly1.h"
#include "modular-integer.h"
#include "zring.h"
#include "modular-ruint.h"
#include "montgomery-ruint.h"
#include <recint/recint.h>

#include <signal.h>
#include <unistd.h>
#include <sys/time.h>
#include <fcntl.h>
using namespace Givaro;

// ---------------------------------------------------------------- per-case CPU watchdog (as in c17_array0.C): a case = one block on one operand pair (all rounds)
static volatile long g_case = 0, g_case_seen = -1;
static char g_case_name[1200] = "";
static const char* g_stuck_flag = 0;         // C17_STUCK_FLAG: a file shared by the parallel workers of one stream; the first worker that finds a case
                                             // that does not return creates it, the others leave at their next tick (exit 98): a hang costs ONE budget, not N
static void on_prof(int) {
    if (g_stuck_flag && access(g_stuck_flag, F_OK) == 0) _exit(98);
    if (g_case_seen == g_case) {
        if (g_stuck_flag) { int fd = open(g_stuck_flag, O_CREAT | O_WRONLY, 0644); if (fd >= 0) close(fd); }
        static const char msg[] = "\nDOES-NOT-RETURN ";
        if (write(1, msg, sizeof msg - 1) < 0) {}
        if (write(1, g_case_name, strlen(g_case_name)) < 0) {}
        if (write(1, "\n", 1) < 0) {}
        _exit(97);
    }
    g_case_seen = g_case;
}
static void start_watchdog() {
    const char* b = getenv("C17_CPU_BUDGET"); long sec = b ? atol(b) : 5; if (sec <= 0) return;     // a case is reported after between 1x and 2x this many seconds of CPU
    g_stuck_flag = getenv("C17_STUCK_FLAG");
    struct sigaction sa; memset(&sa, 0, sizeof sa); sa.sa_handler = on_prof; sigaction(SIGPROF, &sa, 0);
    struct itimerval it; it.it_interval.tv_sec = sec; it.it_interval.tv_usec = 0; it.it_value = it.it_interval; setitimer(ITIMER_PROF, &it, 0);
}

// ---------------------------------------------------------------- the four balances
static long g_gmp_blocks = 0, g_gmp_bytes = 0, g_new_blocks = 0, g_heap_blocks = 0, g_heap_bytes = 0;
// the C library's allocator is interposed (glibc: "replacing malloc"): every block any code in the process obtains is counted
extern "C" {
    void* __libc_malloc(size_t); void __libc_free(void*); void* __libc_calloc(size_t, size_t); void* __libc_realloc(void*, size_t); void* __libc_memalign(size_t, size_t);
    void* malloc(size_t n) { void* p = __libc_malloc(n); if (p) { ++g_heap_blocks; g_heap_bytes += (long) malloc_usable_size(p); } return p; }
    void free(void* p) { if (p) { --g_heap_blocks; g_heap_bytes -= (long) malloc_usable_size(p); } __libc_free(p); }
    void* calloc(size_t a, size_t b) { void* p = __libc_calloc(a, b); if (p) { ++g_heap_blocks; g_heap_bytes += (long) malloc_usable_size(p); } return p; }
    void* realloc(void* q, size_t n) {
        long before = q ? (long) malloc_usable_size(q) : 0; void* p = __libc_realloc(q, n);
        if (q && (p || n == 0)) { --g_heap_blocks; g_heap_bytes -= before; }
        if (p) { ++g_heap_blocks; g_heap_bytes += (long) malloc_usable_size(p); }
        return p; }
    void* memalign(size_t al, size_t n) { void* p = __libc_memalign(al, n); if (p) { ++g_heap_blocks; g_heap_bytes += (long) malloc_usable_size(p); } return p; }
    void* aligned_alloc(size_t al, size_t n) { return memalign(al, n); }
    int posix_memalign(void** out, size_t al, size_t n) { void* p = memalign(al, n); if (!p) return 12; *out = p; return 0; }
}
static void* c_alloc(size_t n) { ++g_gmp_blocks; g_gmp_bytes += (long) n; return malloc(n); }
static void* c_realloc(void* p, size_t o, size_t n) { g_gmp_bytes += (long) n - (long) o; return realloc(p, n); }
static void c_free(void* p, size_t n) { --g_gmp_blocks; g_gmp_bytes -= (long) n; free(p); }
void* operator new(size_t n) { ++g_new_blocks; void* p = malloc(n ? n : 1); if (!p) throw std::bad_alloc(); return p; }
void* operator new[](size_t n) { ++g_new_blocks; void* p = malloc(n ? n : 1); if (!p) throw std::bad_alloc(); return p; }
void operator delete(void* p) noexcept { if (p) { --g_new_blocks; free(p); } }
void operator delete[](void* p) noexcept { if (p) { --g_new_blocks; free(p); } }
void operator delete(void* p, size_t) noexcept { if (p) { --g_new_blocks; free(p); } }
void operator delete[](void* p, size_t) noexcept { if (p) { --g_new_blocks; free(p); } }

extern void* c17_TabFree[] asm("_ZN6Givaro12BlocFreeList7TabFreeE");
static long free_population() {
    long n = 0;
    for (int i = 0; i < 512; ++i) { long guard = 0; for (void* b = c17_TabFree[i]; b; ) { ++n; void* nx; memcpy(&nx, b, sizeof nx); b = nx; if (++guard > 1000000) return -1; } }
    return n;
}
struct Snap { long gb, gy, nb, heap, hb, fp; };
static Snap snap() { Snap s; s.gb = g_gmp_blocks; s.gy = g_gmp_bytes; s.nb = g_new_blocks; s.fp = free_population(); s.heap = g_heap_bytes; s.hb = g_heap_blocks; return s; }

static const int ROUNDS = 4;
typedef std::function<void(const Integer&, const Integer&)> Body;
struct Block { const char* name; Body body; };
static std::vector<Block> g_blocks;
static std::vector<Integer>* g_ops = 0;
static volatile long g_sink = 0;
static void use(const Integer& a) { g_sink += (long) (a.bitsize()); }
static void use(const Rational& a) { g_sink += (long) (a.nume().bitsize() + a.deno().bitsize()); }
static void use(long a) { g_sink += a; }
static void use(double a) { g_sink += (long) (a > 0); }
static void use(const std::string& s) { g_sink += (long) s.size(); }

static double dbl(const Integer& x) { return x.bitsize() > 900 ? (double) (x % (Integer(1) << 900)) : (double) x; }   // finite
static Integer nz(const Integer& y) { return isZero(y) ? Integer(3) : y; }                 // a non-zero divisor
static Integer pos(const Integer& y) { Integer a = abs(y); return isZero(a) ? Integer(5) : a; }

template <size_t K> static RecInt::ruint<K> to_ru(const Integer& x) { RecInt::ruint<K> u; Caster(u, x); return u; }
template <size_t K> static RecInt::rint<K> to_ri(const Integer& x) { RecInt::rint<K> u; Caster(u, x); return u; }

// the RecInt <-> Integer entry points for one K
template <size_t K> static void add_recint(const char* tag) {
    static std::vector<std::string> names;     // keep the strings alive
    auto nm = [&](const char* s) { names.push_back(std::string(s) + tag); return names.back().c_str(); };
    g_blocks.push_back(Block{nm("Integer(ruint)"), [](const Integer& x, const Integer&) { RecInt::ruint<K> u = to_ru<K>(x); Integer a(u); use(a); }});
    g_blocks.push_back(Block{nm("Integer(rint)"), [](const Integer& x, const Integer&) { RecInt::rint<K> u = to_ri<K>(x); Integer a(u); use(a); }});
    g_blocks.push_back(Block{nm("Integer=ruint-implicit"), [](const Integer& x, const Integer& y) { RecInt::ruint<K> u = to_ru<K>(x); Integer a(y); a = u; Integer b = a + Integer(u); use(b); }});
    g_blocks.push_back(Block{nm("Integer=rint-implicit"), [](const Integer& x, const Integer& y) { RecInt::rint<K> u = to_ri<K>(x); Integer a(y); a = u; Integer b = a * Integer(u); use(b); }});
    g_blocks.push_back(Block{nm("Caster(Integer-fresh,ruint)"), [](const Integer& x, const Integer&) { RecInt::ruint<K> u = to_ru<K>(x); Integer a; Caster(a, u); use(a); }});
    g_blocks.push_back(Block{nm("Caster(Integer-live,ruint)"), [](const Integer& x, const Integer& y) { RecInt::ruint<K> u = to_ru<K>(x); Integer a(y); Caster(a, u); use(a); }});
    g_blocks.push_back(Block{nm("Caster(Integer-fresh,rint)"), [](const Integer& x, const Integer&) { RecInt::rint<K> u = to_ri<K>(x); Integer a; Caster(a, u); use(a); }});
    g_blocks.push_back(Block{nm("Caster(Integer-live,rint)"), [](const Integer& x, const Integer& y) { RecInt::rint<K> u = to_ri<K>(x); Integer a(y); Caster(a, u); use(a); }});
    g_blocks.push_back(Block{nm("Caster(ruint,Integer)"), [](const Integer& x, const Integer&) { RecInt::ruint<K> u; Caster(u, x); use((long) (u == 0)); }});
    g_blocks.push_back(Block{nm("Caster(rint,Integer)"), [](const Integer& x, const Integer&) { RecInt::rint<K> u; Caster(u, x); use((long) (u == 0)); }});
    g_blocks.push_back(Block{nm("Integer::operator-ruint"), [](const Integer& x, const Integer&) { RecInt::ruint<K> u = (RecInt::ruint<K>) x; use((long) (u == 0)); }});
    g_blocks.push_back(Block{nm("Integer::operator-rint"), [](const Integer& x, const Integer&) { RecInt::rint<K> u = (RecInt::rint<K>) x; use((long) (u == 0)); }});
    g_blocks.push_back(Block{nm("ruint_to_mpz_t"), [](const Integer& x, const Integer&) { RecInt::ruint<K> u = to_ru<K>(x); mpz_t m; RecInt::ruint_to_mpz_t(m, u); use((long) mpz_sizeinbase(m, 2)); mpz_clear(m); }});
    g_blocks.push_back(Block{nm("rint_to_mpz_t"), [](const Integer& x, const Integer&) { RecInt::rint<K> u = to_ri<K>(x); mpz_t m; RecInt::rint_to_mpz_t(m, u); use((long) mpz_sizeinbase(m, 2)); mpz_clear(m); }});
    g_blocks.push_back(Block{nm("ruint_to_mpz/mpz_to_ruint"), [](const Integer& x, const Integer&) { RecInt::ruint<K> u = to_ru<K>(x), v; mpz_class m; RecInt::ruint_to_mpz(m, u); RecInt::mpz_to_ruint(v, m); use((long) (u == v)); }});
    g_blocks.push_back(Block{nm("rint_to_mpz/mpz_to_rint"), [](const Integer& x, const Integer&) { RecInt::rint<K> u = to_ri<K>(x), v; mpz_class m; RecInt::rint_to_mpz(m, u); RecInt::mpz_to_rint(v, m); use((long) (u == v)); }});
    g_blocks.push_back(Block{nm("mpz_t_to_ruint/rint"), [](const Integer& x, const Integer&) { RecInt::ruint<K> u; RecInt::rint<K> s; RecInt::mpz_t_to_ruint(u, x.get_mpz_const()); RecInt::mpz_t_to_rint(s, x.get_mpz_const()); use((long) (u == 0) + (long) (s == 0)); }});
    if (K > 6) g_blocks.push_back(Block{nm("ruint(const char*)"), [](const Integer& x, const Integer&) { std::string s = (std::string) abs(x); RecInt::ruint<(K > 6 ? K : 7)> u(s.c_str()); use((long) (u == 0)); }});
    g_blocks.push_back(Block{nm("ruint-stream-io"), [](const Integer& x, const Integer&) { RecInt::ruint<K> u = to_ru<K>(x), v; std::ostringstream o; o << u; std::istringstream i(o.str()); i >> v; use((long) (u == v)); }});
    g_blocks.push_back(Block{nm("rint-stream-io"), [](const Integer& x, const Integer&) { RecInt::rint<K> u = to_ri<K>(x), v; std::ostringstream o; o << u; std::istringstream i(o.str()); i >> v; use((long) (u == v)); }});
    g_blocks.push_back(Block{nm("Caster<T>(src) value forms"), [](const Integer& x, const Integer&) { RecInt::ruint<K> u = Caster<RecInt::ruint<K> >(x); RecInt::rint<K> s = Caster<RecInt::rint<K> >(x); Integer a = Caster<Integer>(u), b = Caster<Integer>(s); use(a); use(b); }});
    g_blocks.push_back(Block{nm("recint-arith-through-Integer"), [](const Integer& x, const Integer& y) {
        RecInt::ruint<K> u = to_ru<K>(x), v = to_ru<K>(y); u *= v; u += v; u -= 1; if (v != 0) { u /= v; u %= v; }
        RecInt::rint<K> s = to_ri<K>(x), t = to_ri<K>(y); s *= t; s -= t; s = -s;
        Integer a(u), b(s); a += b; use(a); }});
}

static void build_blocks() {
    // ---- Integer constructors / assignment
    g_blocks.push_back(Block{"Integer(int32/uint32/uchar)", [](const Integer& x, const Integer&) { Integer a((int32_t) (int64_t) x), b((uint32_t) (uint64_t) x), c((unsigned char) (uint32_t) x); use(a); use(b); use(c); }});
    g_blocks.push_back(Block{"Integer(int64/uint64)", [](const Integer& x, const Integer&) { Integer a((int64_t) x), b((uint64_t) x); use(a); use(b); }});
    g_blocks.push_back(Block{"Integer(double)", [](const Integer& x, const Integer&) { double d = dbl(x); Integer a(d); use(a); }});
    g_blocks.push_back(Block{"Integer(const char*)", [](const Integer& x, const Integer&) { std::string s = (std::string) x; Integer a(s.c_str()); use(a); }});
    g_blocks.push_back(Block{"Integer(mpz_class)", [](const Integer& x, const Integer&) { mpz_class m(x.get_mpz_const()); Integer a(m); use(a); }});
    g_blocks.push_back(Block{"Integer(vect_t)/operator vect_t", [](const Integer& x, const Integer&) { Integer::vect_t v = x.operator Integer::vect_t(); Integer a(v); use(a); }});
    g_blocks.push_back(Block{"Integer copy/operator=/logcpy/copy", [](const Integer& x, const Integer& y) { Integer a(x), b(y), c, d(y); b = a; c.logcpy(x); d.copy(x); a = a; b = y; use(a); use(b); use(c); use(d); }});
    g_blocks.push_back(Block{"Integer=builtin", [](const Integer& x, const Integer& y) { Integer a(y), b(y), c(y), d(y), e(y); a = (int64_t) x; b = (uint64_t) x; c = (int32_t) (int64_t) x; d = (uint32_t) (uint64_t) x; e = dbl(x); use(a); use(b); use(c); use(d); use(e); }});
    // ---- casts
    g_blocks.push_back(Block{"Integer casts to builtin", [](const Integer& x, const Integer&) { use((long) (int64_t) x); use((long) (uint64_t) x); use((long) (int32_t) x); use((long) (uint32_t) x); use((double) x); use((double) (float) x); use((long) (bool) x); use((long) (int16_t) x); use((long) (unsigned char) x); }});
    g_blocks.push_back(Block{"Integer -> std::string", [](const Integer& x, const Integer&) { std::string s = (std::string) x; std::string t = x.operator std::string(); use(s); use(t); }});
    g_blocks.push_back(Block{"Integer stream io", [](const Integer& x, const Integer&) { std::ostringstream o; o << x; x.print(o << ' '); std::istringstream i(o.str()); Integer a, b; i >> a >> b; std::ostringstream o2; absOutput(o2, x); use(o2.str()); use(a); use(b); }});
    // ---- Integer arithmetic
    g_blocks.push_back(Block{"Integer + - * operators", [](const Integer& x, const Integer& y) { Integer a = x + y, b = x - y, c = x * y, d = -x; a += y; b -= x; c *= y; a = a + (int64_t) 7 - (uint64_t) 9; a = (int64_t) 5 + a; a = (uint64_t) 5 * a; a = (int32_t) 3 - a; a *= (int64_t) -3; a += (uint64_t) 11; a -= (int32_t) 1; ++a; --a; a++; a--; use(a); use(b); use(c); use(d); }});
    g_blocks.push_back(Block{"Integer / % operators", [](const Integer& x, const Integer& y) { Integer n = nz(y); Integer a = x / n, b = x % n; a /= n; b %= n; Integer c = x / (int64_t) 7, d = x / (uint64_t) 9; use((long) (x % (int64_t) 7)); use((long) (x % (uint64_t) 9)); c /= (int64_t) 3; d /= (uint64_t) 5; Integer e = (int64_t) 1000 / n, f = (uint64_t) 1000 % n; use(a); use(b); use(c); use(d); use(e); use(f); }});
    g_blocks.push_back(Block{"Integer::add/sub/mul/neg (3-address, in-place)", [](const Integer& x, const Integer& y) { Integer r, s(x); Integer::add(r, x, y); Integer::sub(r, r, y); Integer::mul(r, x, y); Integer::add(r, x, (int64_t) 5); Integer::sub(r, x, (uint64_t) 5); Integer::mul(r, x, (int64_t) -5); Integer::addin(s, y); Integer::subin(s, x); Integer::mulin(s, y); Integer::addin(s, (int64_t) 3); Integer::subin(s, (uint64_t) 3); Integer::mulin(s, (uint64_t) 3); Integer::negin(s); Integer::neg(r, s); use(r); use(s); }});
    g_blocks.push_back(Block{"Integer::axpy family", [](const Integer& x, const Integer& y) { Integer r, s(y); Integer::axpy(r, x, y, x); Integer::axpy(r, x, (uint64_t) 7, y); Integer::axpyin(s, x, y); Integer::axpyin(s, x, (uint64_t) 3); Integer::maxpy(r, x, y, x); Integer::maxpyin(s, x, y); Integer::axmy(r, x, y, x); Integer::axmyin(s, x, y); use(r); use(s); }});
    g_blocks.push_back(Block{"Integer::div/mod/divmod/divexact/rem", [](const Integer& x, const Integer& y) { Integer n = nz(y), q, r, s(x); Integer::div(q, x, n); Integer::mod(r, x, n); Integer::divmod(q, r, x, n); Integer::divin(s, n); s = x; Integer::modin(s, n); Integer::divexact(q, x * n, n); Integer e = Integer::divexact(x * n, n); Integer::trem(r, x, n); Integer::crem(r, x, n); Integer::frem(r, x, n); use((long) Integer::frem(x, (uint64_t) 97)); Integer::div(q, x, (int64_t) 7); Integer::mod(r, x, (uint64_t) 7); Integer::divmod(q, r, x, (int64_t) 9); Integer c = Integer::ceil(x, n), f = Integer::floor(x, n), t = Integer::trunc(x, n); use(q); use(r); use(s); use(e); use(c); use(f); use(t); }});
    g_blocks.push_back(Block{"Integer bit operations / shifts", [](const Integer& x, const Integer& y) { Integer a = x ^ y, b = x | y, c = x & y, d = ~x; a ^= y; b |= x; c &= y; Integer e = x << (uint32_t) 70, f = x >> (int32_t) 3; e <<= (uint64_t) 5; f >>= (int64_t) 64; use((long) (x & (uint64_t) 255)); use(a); use(b); use(c); use(d); use(e); use(f); }});
    g_blocks.push_back(Block{"Integer pow/powmod/sqrt/logp", [](const Integer& x, const Integer& y) { Integer p = pow(x, (uint64_t) 5), m = pos(y) + 1, q = powmod(x, (uint64_t) 77, m), q2 = powmod(abs(x), pos(y), m), s = sqrt(abs(x)), r, s2; sqrtrem(s2, abs(x), r); use(p); use(q); use(q2); use(s); use(r); use((long) logp(pos(x), Integer(3))); use((long) x.bitsize()); use((long) length(x)); }});
    g_blocks.push_back(Block{"Integer gcd/lcm/inv", [](const Integer& x, const Integer& y) { Integer g = gcd(x, y), u, v, g2 = gcd(u, v, x, y), l = lcm(x, y), m = pos(y) * 2 + 1, i; inv(i, Integer(2), m); Integer g3; gcd(g3, x, y); use(g); use(g2); use(u); use(v); use(l); use(i); use(g3); }});
    g_blocks.push_back(Block{"Integer compare / predicates", [](const Integer& x, const Integer& y) { use((long) compare(x, y)); use((long) absCompare(x, y)); use((long) (x == y) + (long) (x < y) + (long) (x >= (int64_t) 5) + (long) (x != (uint64_t) 5) + (long) (x > 1.5) + (long) isZero(x) + (long) isOne(x) + (long) sign(x)); Integer a = abs(x); use(a); }});
    g_blocks.push_back(Block{"Integer primes", [](const Integer& x, const Integer&) { Integer n = pos(x) % Integer("1000000000000000000000000") + 2, p, q; Protected::nextprime(p, n); Protected::prevprime(q, p + 100); use((long) Protected::probab_prime(p, 5)); use(p); use(q); }});
    g_blocks.push_back(Block{"Integer random", [](const Integer& x, const Integer& y) { Integer a, b; Integer::seeding(pos(x)); Integer::seeding((uint64_t) 17); Integer::random_lessthan(a, pos(x) + 1); Integer::random_exact_2exp(b, (uint64_t) 130); Integer c = Integer::random_between(Integer(0), pos(y) + 1); use(a); use(b); use(c); }});
    // ---- Rational
    g_blocks.push_back(Block{"Rational constructors", [](const Integer& x, const Integer& y) { Rational a(x, nz(y)), b(x), c((int64_t) x, (int64_t) 7), d(dbl(x) / 3.0), e(a), f((uint32_t) 5, (uint32_t) 10), g((int32_t) -4), h(x, nz(y), 0); std::string s = (std::string) x + "/" + (std::string) pos(y); Rational k(s.c_str()); a = b; e = e; use(a); use(c); use(d); use(e); use(f); use(g); use(h); use(k); }});
    g_blocks.push_back(Block{"Rational arithmetic", [](const Integer& x, const Integer& y) { Rational r(x, pos(y)), s(y + 1, pos(x)); Rational t = r + s, u = r - s, v = r * s, w = isZero(s) ? r : r / s; t += r; u -= s; v *= r; if (!isZero(s)) w /= s; t = -t; Rational p = pow(r, (int64_t) 3), p2 = pow(r, (uint64_t) 2); use(p2); Integer n = t.nume() + u.deno(); use(t); use(u); use(v); use(w); use(p); use(n); }});
    g_blocks.push_back(Block{"Rational mixed compare / conversions", [](const Integer& x, const Integer& y) { Rational r(x, pos(y)); Rational ry(y), r3((int64_t) 3), r25(2.5); use((long) (r == ry) + (long) (r < r3) + (long) (r >= r25) + (long) (r3 > r) + (long) (r != ry) + (long) (r <= r3)); use((double) r); Integer f = floor(r), c = ceil(r), t = trunc(r), rd = round(r); use(f); use(c); use(t); use(rd); use((long) compare(r, Rational(y))); Rational a = abs(r); use(a); }});
    g_blocks.push_back(Block{"Rational stream io", [](const Integer& x, const Integer& y) { Rational r(x, pos(y)), s; std::ostringstream o; o << r; std::istringstream i(o.str()); i >> s; use(s); }});
    g_blocks.push_back(Block{"Rational reconstruction", [](const Integer& x, const Integer& y) { Integer m = pos(y) * pos(y) + 17; Rational r(x % m, m, Integer(1) + sqrt(m), true); Integer a, b; use(r); }});
    // ---- containers of Integer
    g_blocks.push_back(Block{"Array0<Integer> life cycle", [](const Integer& x, const Integer& y) { Array0<Integer> a(3, x); Array0<Integer> b(a, givWithCopy()); Array0<Integer> s(a, givNoCopy()); b.reallocate(7); b.push_back(y); a.copy(b); s.resize(2); a.allocate(2); a[0] = y; Array0<Integer> c(b); c.logcopy(a); c.reserve(4); Array0<Integer> d; d = b; d.resize(1); d.destroy(); use(b[7]); }});
    g_blocks.push_back(Block{"Array0<Rational> life cycle", [](const Integer& x, const Integer& y) { Array0<Rational> a(2, Rational(x, pos(y))); Array0<Rational> b(a, givNoCopy()); b.push_back(Rational(y)); b.resize(1); a = b; a.reallocate(0); use(b[0]); }});
    g_blocks.push_back(Block{"Poly1Dom<ZRing<Integer>>", [](const Integer& x, const Integer& y) { typedef Poly1Dom<ZRing<Integer>, Dense> PD; ZRing<Integer> Z; PD P(Z, Indeter("X")); PD::Element a, b, c, d; P.init(a, Degree(3), x); P.init(b, Degree(1), nz(y)); P.addin(a, b); P.mul(c, a, b); P.sub(d, c, a); P.mulin(d, a); P.assign(a, d); P.negin(a); Integer e; P.eval(e, a, y); use(e); Degree dg; P.degree(dg, a); use(dg.value()); }});
    g_blocks.push_back(Block{"Poly1Dom<Modular<Integer>>", [](const Integer& x, const Integer& y) { typedef Modular<Integer> F; typedef Poly1Dom<F, Dense> PD; Integer p; Protected::nextprime(p, pos(y) % Integer("100000000000000000000000000000000000000") + 1000); F f(p); PD P(f, Indeter("X")); PD::Element a, b, q, r, g; P.init(a, Degree(4), x); P.init(b, Degree(2), Integer(1)); F::Element t; f.init(t, x + 3); P.setEntry(b, t, Degree(0)); P.divmod(q, r, a, b); P.gcd(g, a, b); P.mul(q, a, b); P.modin(q, b); use((long) q.size()); use((long) g.size()); }});
    g_blocks.push_back(Block{"std::vector<Integer> / swap", [](const Integer& x, const Integer& y) { std::vector<Integer> v(3, x); v.push_back(y); v.resize(9); v[5] = x * y; v.erase(v.begin() + 1); std::vector<Integer> w(v); std::swap(w[0], w[1]); use(w[4]); }});
    g_blocks.push_back(Block{"Modular<ruint<7>> init/convert through Integer", [](const Integer& x, const Integer& y) { typedef Modular<RecInt::ruint<7> > F; Integer p; Protected::nextprime(p, pos(y) % (Integer(1) << 100) + 1000); RecInt::ruint<7> pp; Caster(pp, p); F f(pp); F::Element a, b; f.init(a, x); f.init(b, y + 1); f.mulin(a, b); f.addin(a, b); Integer r; f.convert(r, a); Integer c; f.cardinality(c); f.characteristic(c); use(r); use(c); }});
    g_blocks.push_back(Block{"Montgomery<ruint<7>> init/convert through Integer", [](const Integer& x, const Integer& y) { typedef Montgomery<RecInt::ruint<7> > F; Integer p; Protected::nextprime(p, pos(y) % (Integer(1) << 100) + 1000); RecInt::ruint<7> pp; Caster(pp, p); F f(pp); F::Element a, b; f.init(a, x); f.init(b, y + 1); f.mulin(a, b); f.addin(a, b); Integer r; f.convert(r, a); use(r); }});
    g_blocks.push_back(Block{"Modular<Integer>/ZRing<Integer> init/convert", [](const Integer& x, const Integer& y) { Modular<Integer> f(pos(y) + 2); Modular<Integer>::Element a, b; f.init(a, x); f.init(b, (int64_t) -7); f.init(b, 2.5e10); f.mulin(a, b); f.invin(b); double d; f.convert(d, a); int64_t l; f.convert(l, a); Integer r; f.convert(r, a); ZRing<Integer> Z; Integer z; Z.init(z, x); Z.mulin(z, y); Z.convert(d, z); use(r); use(z); use(d); use((long) l); }});
    add_recint<6>("<6>"); add_recint<7>("<7>"); add_recint<8>("<8>"); add_recint<9>("<9>");
}

// ---------------------------------------------------------------- value checks of the conversions (GMP is the oracle)
template <size_t K> static int check_values(const Integer& x, std::string& why) {
    const unsigned bits = 1u << K;
    mpz_t e, t; mpz_init(e); mpz_init(t);
    int bad = 0;
    // Integer -> ruint<K> -> Integer : x mod 2^bits for x >= 0 (a negative source is outside this property)
    if (sign(x) >= 0) {
        RecInt::ruint<K> u; Caster(u, x); Integer back(u), back2; Caster(back2, u); Integer live((Integer(1) << 300) + 7); Caster(live, u);
        mpz_fdiv_r_2exp(e, x.get_mpz_const(), bits);
        if (mpz_cmp(e, back.get_mpz_const()) || mpz_cmp(e, back2.get_mpz_const()) || mpz_cmp(e, live.get_mpz_const())) { ++bad; why += " ruint<" + std::to_string(K) + "> of " + (std::string) x; }
        RecInt::ruint<K> w = (RecInt::ruint<K>) x; if (w != u) { ++bad; why += " operator ruint"; }
    }
    // Integer -> rint<K> -> Integer : the representative in [-2^(bits-1), 2^(bits-1))
    {
        RecInt::rint<K> s; Caster(s, x); Integer back(s), live((Integer(1) << 300) + 7); Caster(live, s);
        mpz_set_ui(t, 1); mpz_mul_2exp(t, t, bits - 1);              // 2^(bits-1)
        mpz_add(e, x.get_mpz_const(), t); mpz_fdiv_r_2exp(e, e, bits); mpz_sub(e, e, t);
        if (mpz_cmp(e, back.get_mpz_const()) || mpz_cmp(e, live.get_mpz_const())) { ++bad; why += " rint<" + std::to_string(K) + "> of " + (std::string) x; }
    }
    mpz_clear(e); mpz_clear(t);
    return bad;
}

int main() {
    mp_set_memory_functions(c_alloc, c_realloc, c_free);
    start_watchdog();
    const char* only = getenv("C17_ONLY_BLOCK");
    std::vector<Integer> ops; g_ops = &ops;
    build_blocks();
    std::string line;
    while (std::getline(std::cin, line)) {
        std::vector<std::string> t; { std::stringstream ss(line); std::string x; while (ss >> x) t.push_back(x); }
        if (t.empty()) continue;
        if (t[0] == "ops") { ops.clear(); for (size_t i = 1; i < t.size(); ++i) ops.push_back(Integer(t[i].c_str())); std::cout << "ok " << ops.size() << std::endl; }
        else if (t[0] == "list") { for (size_t b = 0; b < g_blocks.size(); ++b) std::cout << g_blocks[b].name << "\n"; std::cout << "end" << std::endl; }
        else if (t[0] == "run") {
            std::ostringstream out;     // (built before the measurements start; printed at the end)
            for (size_t b = 0; b < g_blocks.size(); ++b) {
                long bad = 0;
                if (only && strcmp(only, g_blocks[b].name) != 0) continue;
                for (size_t i = 0; i < ops.size(); ++i) {
                    const Integer& x = ops[i]; const Integer& y = ops[(i * 7 + 3) % ops.size()];
                    { std::ostringstream nm; nm << g_blocks[b].name << " | x=" << x << " y=" << y; std::string n2 = nm.str(); ++g_case; strncpy(g_case_name, n2.c_str(), sizeof g_case_name - 1); }
                    Snap d[ROUNDS];
                    bool threw = false;
                    for (int r = 0; r < ROUNDS; ++r) {
                        Snap s0 = snap();
                        try { g_blocks[b].body(x, y); } catch (...) { threw = true; }
                        Snap s1 = snap();
                        d[r].gb = s1.gb - s0.gb; d[r].gy = s1.gy - s0.gy; d[r].nb = s1.nb - s0.nb; d[r].heap = s1.heap - s0.heap; d[r].hb = s1.hb - s0.hb; d[r].fp = s1.fp - s0.fp;
                    }
                    const Snap &p = d[ROUNDS - 2], &q = d[ROUNDS - 1];
                    bool leak = (p.gb != 0 && q.gb != 0) || (p.gy != 0 && q.gy != 0) || (p.nb != 0 && q.nb != 0) || (p.hb != 0 && q.hb != 0) || (p.heap != 0 && q.heap != 0) || (p.fp < 0 && q.fp < 0);
                    if (leak && !threw) {
                        ++bad;
                        if (bad <= 3) out << "LEAK " << g_blocks[b].name << " | x=" << x << " y=" << y << " | gmp_blocks=" << q.gb << " gmp_bytes=" << q.gy << " new_blocks=" << q.nb
                                          << " heap_blocks=" << q.hb << " heap_bytes=" << q.heap << " pool_free_lists=" << q.fp << " (per execution, rounds " << ROUNDS - 1 << " and " << ROUNDS << " of " << ROUNDS << ")\n";
                    }
                    if (threw && i == 0) out << "THROW " << g_blocks[b].name << "\n";
                }
                out << "B " << g_blocks[b].name << " | cases=" << ops.size() << " bad=" << bad << "\n";
            }
            std::cout << out.str() << "end" << std::endl;
        }
        else if (t[0] == "value") {
            long cases = 0, bad = 0; std::string why;
            for (size_t i = 0; i < ops.size(); ++i) { cases += 4; bad += check_values<6>(ops[i], why) + check_values<7>(ops[i], why) + check_values<8>(ops[i], why) + check_values<9>(ops[i], why); }
            std::cout << "V conversions cases=" << cases << " bad=" << bad << (bad ? " :" + why.substr(0, 400) : "") << std::endl;
        }
        else std::cout << "BAD-LINE" << std::endl;
    }
    return 0;
}
