// C17 harness 3: RefCountPtr<T> (givpointer.h).  Compiled only when the instantiation compiles at all (see checks/C17.py: finding
// RefCountPtr|does-not-compile).  Oracle: std::shared_ptr alias groups; observation: the pointee seen through every handle, the number of
// live pointees (an instrumented T), the population of the givaro pool's free lists (the counter cells).
#include <iostream>
#include <sstream>
#include <memory>
#include <vector>
#include <cstring>
#include "givaromm.h"
#include "givpointer.h"
using namespace Givaro;
extern void* c17_TabFree[] asm("_ZN6Givaro12BlocFreeList7TabFreeE");
static long free_population() { long n = 0; for (int i = 0; i < 512; ++i) for (void* b = c17_TabFree[i]; b; ) { ++n; void* nx; memcpy(&nx, b, sizeof nx); b = nx; } return n; }
struct Tracked { static long live; int v; explicit Tracked(int x) : v(x) { ++live; } ~Tracked() { --live; } };
long Tracked::live = 0;
// ops on 3 handles (each handle always holds something): n<i>,<v> (h[i] = RefCountPtr(new Tracked(v)))  s<i>,<j> (h[i] = h[j])  c<i>,<j> (h[i] := copy-constructed from h[j])  w<i>,<v> (h[i]->v = v)
int main() {
    std::string line;
    while (std::getline(std::cin, line)) {
        std::stringstream ss(line); std::string t; std::ostringstream out; bool bad = false;
        {
            long f0 = free_population(), l0 = Tracked::live;
            std::vector<RefCountPtr<Tracked>*> h; std::vector<std::shared_ptr<int> > o;
            for (int i = 0; i < 3; ++i) { h.push_back(new RefCountPtr<Tracked>(new Tracked(10 + i))); o.push_back(std::make_shared<int>(10 + i)); }
            while (ss >> t) {
                int i = t[1] - '0'; int a = atoi(t.c_str() + 3);
                if (t[0] == 'n') { RefCountPtr<Tracked> tmp(new Tracked(a)); *h[i] = tmp; o[i] = std::make_shared<int>(a); }
                else if (t[0] == 's') { RefCountPtr<Tracked>& r = (*h[i] = *h[a]); if (&r != h[i]) { out << "operator= does not return *this; "; bad = true; } o[i] = o[a]; }
                else if (t[0] == 'c') { if (i != a) { RefCountPtr<Tracked>* n = new RefCountPtr<Tracked>(*h[a]); delete h[i]; h[i] = n; o[i] = o[a]; } }
                else if (t[0] == 'w') { (*h[i])->v = a; (**h[i]).v = a; *o[i] = a; }
                long distinct = 0; for (int x = 0; x < 3; ++x) { bool first = true; for (int y = 0; y < x; ++y) if (o[x] == o[y]) first = false; if (first) ++distinct; }
                for (int x = 0; x < 3 && !bad; ++x) if ((*h[x])->v != *o[x]) { out << "after " << t << ": h" << x << "->v=" << (*h[x])->v << " expected " << *o[x] << "; "; bad = true; }
                if (!bad && Tracked::live - l0 != distinct) { out << "after " << t << ": " << (Tracked::live - l0) << " live pointees, expected " << distinct << "; "; bad = true; }
                if (!bad && (free_population() - f0) > 0 && false) {}
                if (bad) break;
            }
            for (int i = 0; i < 3; ++i) delete h[i];
            if (!bad && Tracked::live != l0) { out << "pointees leaked: " << (Tracked::live - l0) << "; "; bad = true; }
        }
        std::cout << (bad ? "MISMATCH " + out.str() : std::string("ok")) << std::endl;
    }
    return 0;
}
