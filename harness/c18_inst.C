// C18 — instantiation unit for the value-class footprint generator (harness/c18_values.py).  Never linked: clang reads it with
// -fsyntax-only -Xclang -ast-dump=json -Xclang -ast-dump-filter=Givaro -DRecInt=Givaro_RecInt (the macro renames namespace RecInt so
// that one filter keeps both namespaces in one dump), AFTER the library's own .C files (gmp++, integer, rational, memory, system,
// bstruct: listed from the repository on every run and #included in front of this file), so every body of the library that an
// operation of Integer / Rational / ruint / rint / rmint can reach is in the dump.
#include "c18_values.h"

// every family is referenced through the table FAMILIES: all of them (and every template they use) are instantiated
void GivaroC18_uses() {
    std::ostringstream o;
    GivaroC18::c18_rmint_modules();
    for (int i = 0; i < GivaroC18::NFAM; ++i) GivaroC18::FAMILIES[i].run(o);
    // documented setters of process-wide state (they must stay the ONLY writers): named here so that they are in the dump
    Givaro::Rational::SetReduce(); Givaro::Rational::SetNoReduce();
    RecInt::srand(1); RecInt::ruint<7> x; RecInt::rand(x); RecInt::rint<7> y; RecInt::rand(y);
    RecInt::rmint<7, RecInt::MG_ACTIVE> m; RecInt::rand(m); m.random();
    Givaro::Integer::seeding(1); Givaro::Integer r; Givaro::Integer::random(r, 10); Givaro::Integer::nonzerorandom(r, 10);
}

// ---- rarely instantiated rings and fields that are NOT in the object-model TARGETS of harness/c16_objmodel.py: their bodies get the
// same decision (no const member writes a static or, through mutable / a cast / a pointer, a member of the shared object)
#include "modular.h"
#include "modular-balanced.h"
#include "modular-extended.h"
#include "montgomery.h"
#include "zring.h"
#include "gf2.h"
#include "gfq.h"
#include "givrandom.h"
// (the explicit instantiations `template class X;` of these classes are written by harness/c18_values.py behind this file, minus those
// harness/c16_inst.C already contains: a duplicate explicit instantiation is an error)
template <class D, class E> void GivaroC18_ring_ops(const D& F, E& r, const E& a, const E& b) {
    F.init(r); F.init(r, (int64_t)5); F.init(r, (uint64_t)5); F.init(r, Givaro::Integer(5)); F.init(r, 5.0);
    F.assign(r, a); F.add(r, a, b); F.sub(r, a, b); F.mul(r, a, b); F.div(r, a, b); F.neg(r, a); F.inv(r, a);
    F.addin(r, a); F.subin(r, a); F.mulin(r, a); F.divin(r, a); F.negin(r); F.invin(r);
    F.axpy(r, a, b, a); F.axpyin(r, a, b); F.axmy(r, a, b, a); F.axmyin(r, a, b); F.maxpy(r, a, b, a); F.maxpyin(r, a, b);
    F.isZero(a); F.isOne(a); F.isMOne(a); F.areEqual(a, b);
    Givaro::Integer i; F.convert(i, a); int64_t l; F.convert(l, a); double d; F.convert(d, a);
    F.characteristic(); F.cardinality(); F.write(std::cout, a); F.write(std::cout);
    D G(F); D H; H = F; (void)G;
}
void GivaroC18_ring_uses() {
    using namespace Givaro;
    { Modular<int8_t> F(7); int8_t r = 0; GivaroC18_ring_ops(F, r, r, r); } { Modular<int16_t> F(7); int16_t r = 0; GivaroC18_ring_ops(F, r, r, r); }
    { Modular<uint8_t> F(7); uint8_t r = 0; GivaroC18_ring_ops(F, r, r, r); } { Modular<uint16_t> F(7); uint16_t r = 0; GivaroC18_ring_ops(F, r, r, r); }
    { Modular<int32_t, int64_t> F(7); int32_t r = 0; GivaroC18_ring_ops(F, r, r, r); } { Modular<uint32_t, uint64_t> F(7); uint32_t r = 0; GivaroC18_ring_ops(F, r, r, r); }
    { Modular<int64_t, uint64_t> F(7); int64_t r = 0; GivaroC18_ring_ops(F, r, r, r); } { Modular<float, double> F(7); float r = 0; GivaroC18_ring_ops(F, r, r, r); }
    { Modular<RecInt::ruint<6> > F(7); RecInt::ruint<6> r(0u); GivaroC18_ring_ops(F, r, r, r); }
    { Modular<RecInt::rint<7> > F(7); RecInt::rint<7> r(0); GivaroC18_ring_ops(F, r, r, r); }
    { Montgomery<RecInt::ruint<6> > F(7); RecInt::ruint<6> r(0u); GivaroC18_ring_ops(F, r, r, r); }
    { ModularExtended<double> F(7); double r = 0; GivaroC18_ring_ops(F, r, r, r); } { ModularExtended<float> F(7); float r = 0; GivaroC18_ring_ops(F, r, r, r); }
    { ModularBalanced<int32_t> F(7); int32_t r = 0; GivaroC18_ring_ops(F, r, r, r); }
    { GF2 F; GF2::Element r, a, b; F.init(r, 1); F.init(a, (int64_t)3); F.add(r, a, b); F.mul(r, a, b); F.sub(r, a, b); F.div(r, a, a); F.neg(r, a); F.inv(r, a);
      F.axpy(r, a, b, a); F.axpyin(r, a, b); F.maxpy(r, a, b, a); F.isZero(a); F.isOne(a); F.areEqual(a, b); F.write(std::cout, a); Integer i; F.convert(i, a);
      std::vector<bool> v(4); F.init(v[1], 1); F.add(v[0], v[1], v[2]); F.mul(v[0], v[1], v[2]); F.axpyin(v[0], v[1], v[2]); GF2 G(F); (void)G; }
    { GFqDom<int64_t> F(3, 2), G(5, 2); int64_t r = 0; std::vector<int64_t> v(3, 1); F.init(r, v); G.init(r, v); F.init(r, 5.0); Integer i; F.convert(i, r); }
}
