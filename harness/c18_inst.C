// C18 — instantiation unit for the value-class footprint generator (harness/c18_values.py).  Never linked: clang reads it with
// -fsyntax-only -Xclang -ast-dump=json -Xclang -ast-dump-filter=Givaro -DRecInt=Givaro_RecInt (the macro renames namespace RecInt so
// that one filter keeps both namespaces in one dump), AFTER the library's own .C files (gmp++, integer, rational, memory, system,
// bstruct: listed from the repository on every run and #included in front of this file), so every body of the library that an
// operation of Integer / Rational / ruint / rint / rmint can reach is in the dump.
#include "c18_values.h"

// every family is referenced through the table FAMILIES: all of them (and every template they use) are instantiated
void GivaroC18_uses() {
    std::ostringstream o;
    GivaroC18::c18_rmint_modules();
    for (int i = 0; i < GivaroC18::NFAM; ++i) GivaroC18::FAMILIES[i].run(o);
    // documented setters of process-wide state (they must stay the ONLY writers): named here so that they are in the dump
    Givaro::Rational::SetReduce(); Givaro::Rational::SetNoReduce();
    RecInt::srand(1); RecInt::ruint<7> x; RecInt::rand(x); RecInt::rint<7> y; RecInt::rand(y);
    RecInt::rmint<7, RecInt::MG_ACTIVE> m; RecInt::rand(m); m.random();
    Givaro::Integer::seeding(1); Givaro::Integer r; Givaro::Integer::random(r, 10); Givaro::Integer::nonzerorandom(r, 10);
}
