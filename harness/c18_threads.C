// C18 — several threads use ONE shared domain object through its const operations (and copy-construct from it) on
// thread-private elements.  One request per line:   <class> <parameter index> <threads> <iterations> [nocopy]
// Every request runs in a fork()ed child.  The reference digest is the probe of a copy made before the threads start; each
// thread then repeats  { probe(shared) ; copy = copy-construct(shared) ; probe(copy) ; destroy copy }  and compares every
// digest with the reference.   Output:   <class> <P> <T> ok   |   ... DIFF thread=<t> iter=<i> what=<shared|copy>   |   ... X <signal>
// The same file is built a second time with -fsanitize=thread (support run; reports go to stderr after a line
// "C18CLASS <class>").
// Class "Mixed<values>" (no shared object at all): the operation families of harness/c18_values.h on thread-private big integers,
// rationals and fixed-precision integers.  <parameter> = offset, thread t runs family (t + offset) mod NFAM in every iteration
// ("Mixed<values>") or walks through all families starting there ("MixedRotate<values>"); every digest is compared with the
// digest of the same family computed sequentially before the threads start, and all families are run once more sequentially
// after the threads have ended.  Output:  ... ok | ... DIFF thread=<t> iter=<i> what=<family> | ... X <signal> | ... T timeout
// Class "CopyStorm:<class>" (copy-construction from ONE shared const object, the sharer count of reference-counted classes):
// phase A: T threads, released together, each make <iterations> LIVE copies of the shared object (kept alive) and probe the last
// one; after joining, a class that counts its c18_sharers (Modular<Log16> and the domains built over it) must count EXACTLY
// before + T * iterations; phase B: the threads destroy their copies concurrently; the count must be back to `before`, and the
// shared object must still give the reference digest.  what=count-live:<got>/<expected> | count-end:... | digest-<when>
// Class "Config:<what>" (process-wide configuration the threads must SEE): the main thread calls a documented process-wide setter
// BEFORE it starts the workers, computes the reference digest of the operations that depend on the setting, then T workers compute the
// same digest: they must observe the main thread's setting.  <what> = flags (Rational::SetNoReduce / SetReduce by parameter), rmint
// (rmint<K,MG>::init_module, a second set of moduli by parameter), domain (StaticElement<Modular<double>>::setDomain), seed-integer
// (Integer::seeding, ONE worker draws: the generator is shared state, excluded from concurrent use), seed-recint (RecInt::srand).
// A setting that became per-thread (thread_local) makes every worker disagree, deterministically.   what=config-<what>
// `c18_threads --families` prints the family table (name <tab> call forms).
#include "c16_probes.h"
#include "qfield.h"
#include <recint/recint.h>
#include "c18_values.h"
#include "modular-extended.h"
#include "StaticElement.h"
#include <thread>
#include <atomic>
#include <unistd.h>
#include <sys/wait.h>
#include <signal.h>
#include <sys/resource.h>

// const probes of the RNS systems (their conversion members are not const; the accessors are, and fill caches lazily)
template <class R> static void c18_pr_intrns_const(const R& rns, Sink& s) {
    s.part("rnsc"); OS& o = s.o;
    o << rns.NumOfPrimes() << " prod=" << rns.product() << " ck=";
    for (size_t k = 1; k < rns.Reciprocals().size(); ++k) o << rns.Reciprocals()[k] << ",";
    o << " p="; for (size_t k = 0; k < rns.Primes().size(); ++k) o << rns.Primes()[k] << ","; o << rns.ith(0) << "," << rns.reciprocal(1);
}
template <class R> static void c18_pr_rns_const(const R& rns, Sink& s) {
    s.part("rnsc"); OS& o = s.o;
    o << rns.size() << " ck=";
    for (size_t k = 1; k < rns.Reciprocals().size(); ++k) o << (long long)rns.Reciprocals()[k] << ",";
    o << " p="; for (size_t k = 0; k < rns.Primes().size(); ++k) o << (long long)rns.Primes()[k].characteristic() << ","; o << (long long)rns.reciprocal(1);
}

// QField<Rational>: the field of rationals (no parameters; operator= is deleted).  Fractions are printed as stored (num/den), so a
// result that was not reduced (Rational::flags switched by somebody else) differs from the sequential digest.
static void c18_pr_qfield(const QField<Rational>& Q, Sink& s) {
    s.part("qfield"); OS& o = s.o;
    static const long N[] = {1, -3, 6, 35, 1000000007L, -12}, D[] = {2, 4, 9, 49, 6, 18};
    Rational a, b, c, r;
    for (int i = 0; i < 6; ++i) for (int j = 0; j < 6; j += 2) {
        Q.init(a, Integer(N[i]), Integer(D[i])); Q.init(b, Integer(N[j]), Integer(D[(j + 1) % 6])); Q.init(c, Integer(N[(i + j) % 6]), Integer(D[(i + 2) % 6]));
        Q.mul(r, a, b); o << r.nume() << "/" << r.deno() << ","; Q.add(r, a, b); o << r.nume() << "/" << r.deno() << ",";
        Q.sub(r, a, b); o << r.nume() << "/" << r.deno() << ","; Q.div(r, a, b); o << r.nume() << "/" << r.deno() << ",";
        Q.axpy(r, a, b, c); o << r.nume() << "/" << r.deno() << ","; Q.axmy(r, a, b, c); o << r.nume() << "/" << r.deno() << ",";
        Q.maxpy(r, a, b, c); o << r.nume() << "/" << r.deno() << ",";
        Q.assign(r, c); Q.axpyin(r, a, b); o << r.nume() << "/" << r.deno() << ","; Q.assign(r, c); Q.maxpyin(r, a, b); o << r.nume() << "/" << r.deno() << ",";
        Q.assign(r, a); Q.mulin(r, b); o << r.nume() << "/" << r.deno() << ","; Q.assign(r, a); Q.addin(r, b); o << r.nume() << "/" << r.deno() << ",";
        Q.inv(r, a); o << r.nume() << "/" << r.deno() << ","; Q.neg(r, a); o << r.nume() << "/" << r.deno() << " ";
        o << Q.isZero(a) << Q.isOne(a) << Q.areEqual(a, b) << " ";
    }
}
// "Independent big integers, rationals and fixed-precision integers may likewise be operated on concurrently": no shared object at all
struct c18_Indep {};
static void c18_pr_indep(const c18_Indep&, Sink& s) {
    s.part("indep"); OS& o = s.o;
    Integer a("123456789012345678901234567890"), b("987654321098765432109876543"), c, d;
    for (int i = 0; i < 12; ++i) {
        c = a * b + Integer(i); d = c % (b + i); o << d << ","; c = gcd(a + i, b); o << c << ","; c = pow(Integer(3 + i), (uint64_t)(7 + i)); o << c << ",";
        c = a; c <<= (i + 1); c -= b; c /= (i + 2); o << c << " ";
        Rational r(Integer(i + 1), Integer(6)), q(Integer(10), Integer(4 + i)); Rational t = r * q + r / q - q; o << t.nume() << "/" << t.deno() << " ";
        RecInt::ruint<7> x(123456789u), y(987654321u), z; x *= y; x += (RecInt::ruint<7>)i; z = x * x; z -= y; z /= (RecInt::ruint<7>)(i + 3); o << z << " ";
    }
}
// copy-constructible but not assignable classes (QField<Rational> has const members): held through a regular wrapper whose assignment is
// destroy + copy-construct, so that C16's Box<> can be used as it is (no subclass of Any here: that interface keeps growing)
template <class D> struct c18_Holder {
    D* p;
    c18_Holder(const D& x) : p(new D(x)) {}
    c18_Holder(const c18_Holder& o) : p(new D(*o.p)) {}                       // D's copy constructor
    c18_Holder& operator=(const c18_Holder& o) { if (this != &o) { D* q = new D(*o.p); delete p; p = q; } return *this; }
    ~c18_Holder() { delete p; }
};
static void c18_pr_qfield_h(const c18_Holder<QField<Rational> >& h, Sink& s) { c18_pr_qfield(*h.p, s); }
static void c18_pr_indep_h(const c18_Holder<c18_Indep>& h, Sink& s) { c18_pr_indep(*h.p, s); }

// ---- sharer counts (protected member numRefs of Modular<Log16>: read through a derived class without data members)
struct c18_PeekLog16 : Modular<Log16> { long refs() const { return numRefs ? (long)(int)(*numRefs) : -1; } };
static long c18_refs_of(const Modular<Log16>& F) { return static_cast<const c18_PeekLog16&>(F).refs(); }
typedef Poly1Dom<Modular<Log16>, Dense> c18_PolyLog16;
typedef Extension<Modular<Log16> > c18_ExtLog16;
static void c18_pr_polylog16(const c18_PolyLog16& pd, Sink& s) { s.part("poly"); probe_poly(pd, s.o, false); }
static void c18_pr_extlog16(const c18_ExtLog16& f, Sink& s) { s.part("ext"); probe_extension(f, s.o); }
static long c18_sharers(const std::string& cls, Any* a) {
    if (cls == "Modular<Log16>") return c18_refs_of(static_cast<RINGBOX(Modular<Log16>)*>(a)->d);
    if (cls == "Poly1Dom<Modular<Log16>,Dense>") return c18_refs_of(static_cast<Box<c18_PolyLog16, c18_pr_polylog16>*>(a)->d.getdomain());
    if (cls == "Extension<Modular<Log16>>") return c18_refs_of(static_cast<Box<c18_ExtLog16, c18_pr_extlog16>*>(a)->d.base_field());
    return -1;          // the class does not count c18_sharers
}

static Any* make18(const std::string& cls, int P) {
    P &= 3;
    if (cls == "QField<Rational>") return new Box<c18_Holder<QField<Rational> >, c18_pr_qfield_h>(c18_Holder<QField<Rational> >(QField<Rational>()));
    if (cls == "Independent<Integer,Rational,ruint>") return new Box<c18_Holder<c18_Indep>, c18_pr_indep_h>(c18_Holder<c18_Indep>(c18_Indep()));
    if (cls == "IntRNSsystem<vector>") {
        typedef IntRNSsystem<std::vector, std::allocator> R; std::vector<Integer> pr;
        static const long PS[4][5] = {{3, 5, 7, 0, 0}, {11, 13, 17, 19, 0}, {1000003, 1000033, 999983, 65521, 2}, {2, 3, 0, 0, 0}};
        for (int k = 0; k < 5 && PS[P][k]; ++k) pr.push_back(Integer(PS[P][k]));
        return new Box<R, c18_pr_intrns_const<R> >(R(pr));
    }
    if (cls == "RNSsystem<Integer,Modular<double>>") {
        typedef RNSsystem<Integer, Modular<double> > R;
        static const long PS[4][5] = {{3, 5, 7, 0, 0}, {11, 13, 17, 19, 0}, {1009, 1013, 65521, 2, 0}, {2, 3, 0, 0, 0}};
        int n = 0; while (n < 5 && PS[P][n]) ++n;
        R::domains dm(n); for (int k = 0; k < n; ++k) dm[k] = Modular<double>((double)PS[P][k]);
        return new Box<R, c18_pr_rns_const<R> >(R(dm));
    }
    static const long L16P[] = {7, 101, 16381, 3};
    if (cls == "Poly1Dom<Modular<Log16>,Dense>") { Modular<Log16> B((Modular<Log16>::Residu_t)L16P[P]); return new Box<c18_PolyLog16, c18_pr_polylog16>(c18_PolyLog16(B, Indeter(P & 1 ? "Y" : "X"))); }
    if (cls == "Extension<Modular<Log16>>") { Modular<Log16> B((Modular<Log16>::Residu_t)L16P[P]); return new Box<c18_ExtLog16, c18_pr_extlog16>(c18_ExtLog16(B, (uint64_t)(2 + (P & 1)))); }
    // rarely instantiated storage types / specialisations that are not among the history classes of c16_probes.h
    static const long S8[] = {7, 11, 5, 3}, U8[] = {7, 13, 11, 3}, S16[] = {7, 101, 181, 3}, BIG[] = {7, 101, 46337, 3};
    if (cls == "Modular<int8_t>") return new RINGBOX(Modular<int8_t>)(Modular<int8_t>((int8_t)S8[P]));
    if (cls == "Modular<uint8_t>") return new RINGBOX(Modular<uint8_t>)(Modular<uint8_t>((uint8_t)U8[P]));
    if (cls == "Modular<int16_t>") return new RINGBOX(Modular<int16_t>)(Modular<int16_t>((int16_t)S16[P]));
    if (cls == "Modular<uint16_t>") return new RINGBOX(Modular<uint16_t>)(Modular<uint16_t>((uint16_t)S16[P]));
    if (cls == "Modular<int32_t,int64_t>") { typedef Modular<int32_t, int64_t> M; return new RINGBOX(M)(M((int32_t)(P == 2 ? 2147483629L : BIG[P]))); }
    if (cls == "Modular<uint32_t,uint64_t>") { typedef Modular<uint32_t, uint64_t> M; return new RINGBOX(M)(M((uint32_t)(P == 2 ? 4294967291UL : BIG[P]))); }
    if (cls == "Modular<float,double>") { typedef Modular<float, double> M; return new RINGBOX(M)(M((float)(P == 2 ? 8388593 : BIG[P]))); }
    if (cls == "Modular<ruint<6>>") { typedef Modular<RecInt::ruint<6> > M; return new RINGBOX(M)(M(RecInt::ruint<6>((uint64_t)(P == 2 ? 4294967291UL : BIG[P])))); }
    if (cls == "ModularExtended<double>") { typedef ModularExtended<double> M; return new RINGBOX(M)(M((double)(P == 2 ? 1125899906842597.0 : BIG[P]))); }
    if (cls == "ModularExtended<float>") { typedef ModularExtended<float> M; return new RINGBOX(M)(M((float)(P == 2 ? 4194301 : BIG[P]))); }
    return make(cls, P);
}

static uint64_t c18_fam_digest(int f) { std::ostringstream o; c18::FAMILIES[f].run(o); return fnv(o.str()); }

static void c18_run_mixed(const std::string& cls, int P, int T, int iters, bool rotate) {
    const int NF = c18::NFAM;
    c18::c18_rmint_modules();                 // the documented module setters: once, before any thread exists
    std::vector<uint64_t> ref(NF);
    for (int f = 0; f < NF; ++f) ref[f] = c18_fam_digest(f);
    for (int f = 0; f < NF; ++f) if (c18_fam_digest(f) != ref[f]) { printf("%s %d %d X family-%s-not-deterministic\n", cls.c_str(), P, T, c18::FAMILIES[f].name); return; }
    std::atomic<int> bad(0), bt(-1), bi(-1), bf(-1), go(0);
    std::vector<std::thread> th;
    for (int t = 0; t < T; ++t) th.push_back(std::thread([&, t]() {
        while (!go.load()) { }
        for (int i = 0; i < iters; ++i) {
            int f = ((t + P + (rotate ? i : 0)) % NF + NF) % NF;
            if (c18_fam_digest(f) != ref[f]) { if (!bad.exchange(1)) { bt = t; bi = i; bf = f; } }
        }
    }));
    go = 1;
    for (size_t t = 0; t < th.size(); ++t) th[t].join();
    // what the threads did must not have changed any process-wide mode: the sequential results are still the same
    for (int f = 0; f < NF; ++f) if (c18_fam_digest(f) != ref[f] && !bad.exchange(1)) { bt = -1; bi = iters; bf = f; }
    if (bad) printf("%s %d %d DIFF thread=%d iter=%d what=%s\n", cls.c_str(), P, T, (int)bt, (int)bi, c18::FAMILIES[(int)bf].name);
    else printf("%s %d %d ok\n", cls.c_str(), P, T);
}

static uint64_t c18_digest(Any* a) { Sink s(0, false); a->probe(s); s.close(); return s.acc; }


static void c18_run_storm(const std::string& full, int P, int T, int K) {
    const std::string cls = full.substr(10);
    Any* shared = make18(cls, P);
    if (!shared) { printf("%s %d %d X unknown-class\n", full.c_str(), P, T); return; }
    uint64_t ref;
    { Any* c = shared->copy(); ref = c18_digest(c); delete c; }
    const long before = c18_sharers(cls, shared);
    std::vector<std::vector<Any*> > live(T);
    std::atomic<int> go(0), bad(0);
    std::string what;
    {   // phase A: live copies
        std::vector<std::thread> th;
        for (int t = 0; t < T; ++t) th.push_back(std::thread([&, t]() {
            live[t].reserve(K);
            while (!go.load()) { }
            for (int i = 0; i < K; ++i) live[t].push_back(shared->copy());
            if (K && c18_digest(live[t].back()) != ref) bad = 1;
        }));
        go = 1;
        for (size_t t = 0; t < th.size(); ++t) th[t].join();
    }
    if (bad) what = "digest-copy";
    const long mid = c18_sharers(cls, shared);
    // (an object may hold several c18_sharers of the tables: zero / one / nested domains -- per copy the same number as measured sequentially)
    long per = 0;
    if (before >= 0) { Any* c = shared->copy(); per = c18_sharers(cls, shared) - mid; delete c; }
    if (what.empty() && before >= 0 && mid != before + per * (long)T * K) {
        char b[96]; snprintf(b, sizeof b, "count-live:%ld/%ld", mid, before + per * (long)T * K); what = b; }
    if (what.empty() && c18_digest(shared) != ref) what = "digest-shared-live";
    if (!what.empty()) {
        // the count is wrong: destroying the copies would free tables that are in use; report now
        printf("%s %d %d DIFF thread=-1 iter=%d what=%s\n", full.c_str(), P, T, K, what.c_str()); return;
    }
    {   // phase B: concurrent destruction
        go = 0;
        std::vector<std::thread> th;
        for (int t = 0; t < T; ++t) th.push_back(std::thread([&, t]() {
            while (!go.load()) { }
            for (size_t i = 0; i < live[t].size(); ++i) delete live[t][i];
            live[t].clear();
        }));
        go = 1;
        for (size_t t = 0; t < th.size(); ++t) th[t].join();
    }
    const long end = c18_sharers(cls, shared);
    if (before >= 0 && end != before) { char b[96]; snprintf(b, sizeof b, "count-end:%ld/%ld", end, before); what = b; }
    else if (c18_digest(shared) != ref) what = "digest-shared-end";
    if (!what.empty()) printf("%s %d %d DIFF thread=-1 iter=%d what=%s\n", full.c_str(), P, T, K, what.c_str());
    else printf("%s %d %d ok\n", full.c_str(), P, T);
    return;                             // (the shared object is deliberately not destroyed: a miscounted class would double-free here)
}

// (the library leaves the definition of the class static to the user of StaticElement)
namespace Givaro { template<> Modular<double> StaticElement<Modular<double> >::_domain = Modular<double>(7.0); }
static std::string c18_config_digest(const std::string& what) {
    std::ostringstream o;
    if (what == "flags") { c18::fam_rational_arith(o); c18::fam_rational_cstor(o); }
    else if (what == "rmint") c18::fam_rmint_all(o);
    else if (what == "domain") {
        typedef StaticElement<Modular<double> > S;
        for (int i = 1; i < 40; ++i) { S x(3 * i + 1), y(5 * i + 2), z; z = x * y; o << (double)z << ","; z = x + y; o << (double)z << ","; z = x - y; o << (double)z << ",";
                                       z = x; z *= y; z += x; o << (double)z << "," << (x == y) << x.isZero() << " "; }
    }
    else if (what == "seed-integer") { for (int i = 0; i < 20; ++i) { Integer r; Integer::random(r, (int)(20 + 3 * i)); o << r << ","; } o << Integer::random_lessthan(Integer("1000000007")) << " "; }
    else if (what == "seed-recint") { for (int i = 0; i < 20; ++i) { RecInt::ruint<7> x; RecInt::rand(x); o << x << ","; RecInt::rint<6> y; RecInt::rand(y); o << y << " "; } }
    return o.str();
}
static void c18_config_set(const std::string& what, int P) {
    if (what == "flags") { if (P & 1) Rational::SetNoReduce(); else Rational::SetReduce(); }
    else if (what == "rmint") {
        c18::c18_rmint_modules();
        if (P & 1) { using namespace RecInt; rmint<6, MG_ACTIVE>::init_module(ruint<6>((uint64_t)1000000007ULL)); rmint<6, MG_INACTIVE>::init_module(ruint<6>((uint64_t)65521ULL));
                     rmint<7, MG_ACTIVE>::init_module(ruint<7>((uint64_t)0xffffffffffffffc5ULL)); rmint<7, MG_INACTIVE>::init_module(ruint<7>((uint64_t)4294967311ULL)); }
    }
    else if (what == "domain") StaticElement<Modular<double> >::setDomain(Modular<double>((P & 1) ? 101.0 : 65521.0));
    else if (what == "seed-integer") Integer::seeding((uint64_t)(12345 + P));
    else if (what == "seed-recint") RecInt::srand((RecInt::limb)(4242 + P));
}
static void c18_run_config(const std::string& full, int P, int T, int iters) {
    const std::string what = full.substr(7);
    const bool seed = what.compare(0, 5, "seed-") == 0;
    if (what != "flags" && what != "rmint" && what != "domain" && !seed) { printf("%s %d %d X unknown-class\n", full.c_str(), P, T); return; }
    // the scenario must be able to tell the settings apart: the other parameter value gives another digest
    c18_config_set(what, P ^ 1); const std::string other = c18_config_digest(what);
    c18_config_set(what, P);     const std::string ref = c18_config_digest(what);          // sequential run, main thread
    if (other == ref) { printf("%s %d %d X settings-not-distinguishable\n", full.c_str(), P, T); return; }
    if (seed) { T = 1; iters = 1; c18_config_set(what, P); }                              // re-seed: the worker must draw the same sequence
    std::atomic<int> bad(0), bt(-1), bi(-1);
    std::vector<std::thread> th;
    for (int t = 0; t < T; ++t) th.push_back(std::thread([&, t]() {
        for (int i = 0; i < iters; ++i) if (c18_config_digest(what) != ref) { if (!bad.exchange(1)) { bt = t; bi = i; } }
    }));
    for (size_t t = 0; t < th.size(); ++t) th[t].join();
    if (!seed && !bad && c18_config_digest(what) != ref) { bad = 1; }
    if (bad) printf("%s %d %d DIFF thread=%d iter=%d what=config-%s\n", full.c_str(), P, T, (int)bt, (int)bi, what.c_str());
    else printf("%s %d %d ok\n", full.c_str(), P, T);
}

static void c18_run_case(const std::string& cls, int P, int T, int iters, bool nocopy) {
    if (cls.compare(0, 7, "Config:") == 0) { c18_run_config(cls, P, T, iters); return; }
    if (cls.compare(0, 10, "CopyStorm:") == 0) { c18_run_storm(cls, P, T, iters); return; }
    if (cls == "Mixed<values>" || cls == "MixedRotate<values>") { c18_run_mixed(cls, P, T, iters, cls[5] == 'R'); return; }
    Any* shared = make18(cls, P);
    if (!shared) { printf("%s %d %d X unknown-class\n", cls.c_str(), P, T); return; }
    uint64_t ref;
    { Any* c = shared->copy(); ref = c18_digest(c); delete c; }
    std::atomic<int> bad(0); std::atomic<int> bt(-1), bi(-1), bw(0);
    std::atomic<int> go(0);
    std::vector<std::thread> th;
    for (int t = 0; t < T; ++t) th.push_back(std::thread([&, t]() {
        while (!go.load()) { }
        for (int i = 0; i < iters; ++i) {
            if (c18_digest(shared) != ref) { if (!bad.exchange(1)) { bt = t; bi = i; bw = 0; } }
            if (nocopy) continue;
            Any* c = shared->copy();
            if (c18_digest(c) != ref) { if (!bad.exchange(1)) { bt = t; bi = i; bw = 1; } }
            delete c;
        }
    }));
    go = 1;
    for (size_t t = 0; t < th.size(); ++t) th[t].join();
    // the shared object itself must still be intact
    if (c18_digest(shared) != ref && !bad.exchange(1)) { bt = -1; bi = iters; bw = 0; }
    delete shared;
    if (bad) printf("%s %d %d DIFF thread=%d iter=%d what=%s\n", cls.c_str(), P, T, (int)bt, (int)bi, bw ? "copy" : "shared");
    else printf("%s %d %d ok\n", cls.c_str(), P, T);
}

int main(int argc, char** argv) {
    if (argc > 1 && std::string(argv[1]) == "--families") {
        for (int f = 0; f < c18::NFAM; ++f) printf("%s\t%s\n", c18::FAMILIES[f].name, c18::FAMILIES[f].forms);
        return 0;
    }
    std::string line;
    bool nofork = getenv("C16_NOFORK") != 0;
    // a child that does not finish in time (loaded machine, sanitizer) is reported as "T timeout": inconclusive, never a crash
    unsigned limit = getenv("C18_ALARM") ? (unsigned)atoi(getenv("C18_ALARM")) : 600;
    // CPU-time watchdog (load independent): a request whose threads together burn more than this many CPU seconds does not return
    // (a spinning thread, a livelock): reported as "C cpu-limit", which the check re-runs alone with a larger budget before it reports it
    unsigned cpu = getenv("C18_CPU") ? (unsigned)atoi(getenv("C18_CPU")) : 300;
    while (std::getline(std::cin, line)) {
        if (line.empty()) continue;
        std::istringstream is(line); std::string cls; int P = 0, T = 2, iters = 1;
        is >> cls >> P >> T >> iters; std::string opt; bool nocopy = false; while (is >> opt) if (opt == "nocopy") nocopy = true;
        fprintf(stderr, "C18CLASS %s\n", cls.c_str()); fflush(stderr);
        if (nofork) { c18_run_case(cls, P, T, iters, nocopy); fflush(stdout); continue; }
        fflush(stdout);
        pid_t pid = fork();
        if (pid == 0) { struct rlimit rl; rl.rlim_cur = cpu; rl.rlim_max = cpu + 5; setrlimit(RLIMIT_CPU, &rl);
                        alarm(limit); c18_run_case(cls, P, T, iters, nocopy); fflush(stdout); fflush(stderr); _exit(0); }
        int st = 0; waitpid(pid, &st, 0);
        if (WIFSIGNALED(st) && WTERMSIG(st) == SIGALRM) printf("%s %d %d T timeout\n", cls.c_str(), P, T);
        else if (WIFSIGNALED(st) && (WTERMSIG(st) == SIGXCPU || WTERMSIG(st) == SIGKILL)) printf("%s %d %d C cpu-limit-%us\n", cls.c_str(), P, T, cpu);
        else if (WIFSIGNALED(st)) printf("%s %d %d X signal-%d\n", cls.c_str(), P, T, WTERMSIG(st));
        else if (WEXITSTATUS(st) != 0) printf("%s %d %d X exit-%d\n", cls.c_str(), P, T, WEXITSTATUS(st));
        fflush(stdout);
    }
    return 0;
}
