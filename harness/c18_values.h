// C18 — "Independent big integers, rationals and fixed-precision integers may likewise be operated on concurrently."
// The operation FAMILIES on thread-private values.  One source, three uses:
//   * harness/c18_threads.C  runs them in the mixed scenario (thread t runs family t mod NFAM, every thread's digest is compared with
//     the digest of the same family computed sequentially before the threads start), also under ThreadSanitizer;
//   * harness/c18_inst.C     is the instantiation unit harness/c18_values.py hands to clang (JSON AST): every library function
//     reachable from a family gets a footprint on process-wide state (class / namespace / function-local statics);
//   * the family list printed by `c18_threads --families` is the `chk.cov` call-form table.
// Everything a family touches is local to the call: no argument, no global of the harness.
#ifndef C18_VALUES_H
#define C18_VALUES_H
#include <iostream>
#include <sstream>
#include <string>
#include <vector>
#include <cstring>
#include <cmath>
#include <stdint.h>
#include "givinteger.h"
#include "givrational.h"
#include "qfield.h"
#include "givintprime.h"
#include <recint/recint.h>

namespace GivaroC18 {   // the name contains "Givaro": clang's -ast-dump-filter=Givaro keeps the families in the dump
using namespace Givaro;

static inline double dbits(uint64_t b) { double d; memcpy(&d, &b, 8); return d; }
// the doubles every constructor-from-double family sees: +-0, denormals (biased exponent 0), the smallest normal, ordinary
// dyadic and non-dyadic values, 2^53 +- 1, huge values, negative values
static const uint64_t DBL_BITS[] = {
    0x0000000000000000ULL, 0x8000000000000000ULL, 0x0000000000000001ULL, 0x0000000000000003ULL, 0x0000000000000004ULL,
    0x8000000000000006ULL, 0x000fffffffffffffULL, 0x800fffffffffffffULL, 0x0010000000000000ULL, 0x0008000000000000ULL,
    0x3fe0000000000000ULL, 0x3fb999999999999aULL, 0xbff8000000000000ULL, 0x4340000000000000ULL, 0x433fffffffffffffULL,
    0x4340000000000001ULL, 0x7fe0000000000000ULL, 0xffe1234567890abcULL, 0x4059000000000000ULL, 0xc1d2345678000000ULL,
    0x0000000000000005ULL, 0x8000000000000001ULL, 0x3ff0000000000000ULL, 0x4008000000000000ULL };
static const int NDBL = sizeof(DBL_BITS) / sizeof(DBL_BITS[0]);
static const char* const BIGS[] = { "0", "1", "-1", "18446744073709551615", "18446744073709551616", "-9223372036854775808",
    "123456789012345678901234567890", "-987654321098765432109876543210987654321", "340282366920938463463374607431768211455",
    "1000000007", "-65521", "2" };
static const int NBIG = sizeof(BIGS) / sizeof(BIGS[0]);
static const int64_t I64S[] = { 0, 1, -1, 2, -7, 65521, 2147483647LL, -2147483648LL, 4294967296LL, 9223372036854775807LL,
                                (-9223372036854775807LL - 1), 123456789012LL };
static const int NI64 = sizeof(I64S) / sizeof(I64S[0]);

static inline void rat(std::ostream& o, const Rational& r) { o << r.nume() << "/" << r.deno() << " "; }   // as stored

// ---------------------------------------------------------------------------------------------------- Integer
static void fam_integer_cstor(std::ostream& o) {
    o << "icstor:";
    for (int i = 0; i < NI64; ++i) {
        int64_t v = I64S[i];
        Integer a((int32_t)v), b((int64_t)v), c((unsigned char)v), d((uint32_t)v), e((uint64_t)v), f((double)v);
        o << a << "," << b << "," << c << "," << d << "," << e << "," << f << " ";
        Integer g; g = (int32_t)v; o << g << ","; g = (int64_t)v; o << g << ","; g = (uint32_t)v; o << g << ","; g = (uint64_t)v; o << g << ",";
        g = (double)v; o << g << " ";
        o << (int32_t)b << "," << (int64_t)b << "," << (uint32_t)b << "," << (uint64_t)b << "," << (double)b << "," << (float)b << " ";
    }
    for (int i = 0; i < NDBL; ++i) { double x = dbits(DBL_BITS[i]); Integer a(x); o << a << ","; Integer b(7); b = x; o << b << " "; }
    for (int i = 0; i < NBIG; ++i) {
        Integer a(BIGS[i]); Integer b(a), c, d, e; c = a; d.logcpy(a); e.copy(a);
        mpz_class z(BIGS[i]); Integer f(z);
        Integer::vect_t v; for (size_t k = 0; k < a.size(); ++k) v.push_back(a[k]);
        Integer g(v);
        o << a << "," << b << "," << c << "," << d << "," << e << "," << f << "," << g << "," << std::string(a) << "," << a.size() << "," << a.bitsize() << " ";
        o << (double)a << "," << (int64_t)a << "," << (uint64_t)a << " ";
        o << Integer::zero << Integer::one << Integer::mOne << " ";
    }
    RecInt::ruint<7> u7(12345678901234567ULL); RecInt::rint<7> s7(-1234567890123LL); Integer fu(u7), fs(s7); o << fu << "," << fs << " ";
}

static void fam_integer_arith(std::ostream& o) {
    o << "iarith:";
    for (int i = 0; i < NBIG; ++i) for (int j = 0; j < NBIG; j += 3) {
        Integer a(BIGS[i]), b(BIGS[(i + j + 1) % NBIG]), c(BIGS[(j + 5) % NBIG]), r, q;
        o << a + b << "," << a - b << "," << a * b << "," << -a << " ";
        o << a + (int64_t)I64S[j] << "," << a - (uint64_t)77 << "," << a * (int32_t)-3 << "," << (int64_t)5 + a << "," << (uint64_t)9 * b << " ";
        r = a; r += b; o << r << ","; r -= c; o << r << ","; r *= b; o << r << ","; r += (int64_t)-12; r -= (uint64_t)3; r *= (int32_t)7; o << r << " ";
        Integer::add(r, a, b); o << r << ","; Integer::sub(r, a, b); o << r << ","; Integer::mul(r, a, b); o << r << ","; Integer::neg(r, a); o << r << ",";
        Integer::addin(r, c); Integer::subin(r, a); Integer::mulin(r, b); Integer::negin(r); o << r << " ";
        Integer::axpy(r, a, b, c); o << r << ","; Integer::axmy(r, a, b, c); o << r << ","; Integer::maxpy(r, a, b, c); o << r << ",";
        r = c; Integer::axpyin(r, a, b); o << r << ","; r = c; Integer::maxpyin(r, a, b); o << r << ","; r = c; Integer::axmyin(r, a, b); o << r << " ";
        if (!isZero(b)) {
            o << a / b << "," << a % b << " "; r = a; r /= b; o << r << ","; r = a; r %= b; o << r << " ";
            Integer::div(q, a, b); o << q << ","; Integer::mod(r, a, b); o << r << ","; Integer::divmod(q, r, a, b); o << q << ":" << r << ",";
            Integer::trem(r, a, b); o << r << ","; Integer::crem(r, a, b); o << r << ","; Integer::frem(r, a, b); o << r << " ";
            Integer::floor(q, a, b); o << q << ","; Integer::ceil(q, a, b); o << q << ","; Integer::trunc(q, a, b); o << q << " ";
            Integer p = a * b; Integer::divexact(q, p, b); o << q << "," << Integer::divexact(p, b) << " ";
        }
        o << a / (int64_t)7 << "," << a % (int64_t)7 << "," << a / (uint64_t)1000003 << "," << a % (uint64_t)1000003 << " ";
        Integer g, u, v; g = gcd(a, b); o << g << ","; gcd(g, u, v, a, b); o << g << ":" << u << ":" << v << ","; o << lcm(a, b) << " ";
        Integer ab = abs(a) + 2; o << pow(ab, (uint64_t)5) << "," << pow(Integer(3), (int64_t)(7 + i)) << "," << sqrt(ab) << ",";
        Integer rt; sqrtrem(ab, rt); o << rt << ","; o << powmod(ab, (uint64_t)65537, Integer("1000000007")) << "," << powmod(ab, c * c + 1, Integer("1000000007")) << " ";
        Integer m("1000000007"); if (gcd(ab, m) == 1) { Integer iv; inv(iv, ab, m); o << iv << ","; invin(iv, m); o << iv << " "; }
        o << (ab << 13) << "," << (ab >> 3) << "," << (ab | Integer(5)) << "," << (ab & Integer(255)) << "," << (ab ^ Integer(77)) << " ";
        r = ab; r <<= (i + 1); r >>= 1; o << r << ","; o << logtwo(ab) << "," << length(a) << "," << sign(a) << "," << isZero(a) << isOne(a) << isMOne(a) << " ";
        o << isperfectpower(ab) << "," << jacobi(ab, Integer(10007)) << "," << legendre(ab, Integer(10007)) << " ";
    }
}

static void fam_integer_cmp_io(std::ostream& o) {
    o << "icmpio:";
    for (int i = 0; i < NBIG; ++i) for (int j = 0; j < NBIG; j += 2) {
        Integer a(BIGS[i]), b(BIGS[j]);
        o << compare(a, b) << absCompare(a, b) << (a == b) << (a != b) << (a < b) << (a <= b) << (a > b) << (a >= b);
        o << (a == (int32_t)2) << (a != (int64_t)-1) << (a < (uint64_t)5) << (a <= (int32_t)7) << (a > (uint32_t)9) << (a >= (int64_t)I64S[j]) << (a < 2.5) << (a > -3.5f);
        o << absCompare(a, (uint64_t)18446744073709551615ULL) << absCompare(a, (int64_t)-65521) << absCompare(a, 1e30) << absCompare(a, 3.0f) << " ";
    }
    for (int i = 0; i < NBIG; ++i) {
        Integer a(BIGS[i]);
        std::ostringstream s; s << a; a.print(s); s << std::hex << a << std::dec; s << std::string(a);
        std::istringstream in(std::string(BIGS[i]) + " " + BIGS[(i + 3) % NBIG]); Integer x, y; in >> x >> y;
        o << s.str() << "," << x << "," << y << " ";
    }
}

// ---------------------------------------------------------------------------------------------------- Rational
static void fam_rational_cstor(std::ostream& o) {
    o << "rcstor:";
    for (int rep = 0; rep < 6; ++rep)         // the constructor from double is the family's point: several passes
        for (int i = 0; i < NDBL; ++i) { double x = dbits(DBL_BITS[i]); Rational q(x); rat(o, q); if (rep == 0) { o << (double)q << " "; } }
    for (int i = 0; i < NI64; ++i) {
        int64_t v = I64S[i];
        Rational a((int32_t)v), b((int64_t)v), c((uint32_t)v), d((uint64_t)v); rat(o, a); rat(o, b); rat(o, c); rat(o, d);
        Rational e((int64_t)v, (int64_t)6), f((uint64_t)v, (uint64_t)4), g((int32_t)v, (int32_t)-10), h((uint32_t)v, (uint32_t)15); rat(o, e); rat(o, f); rat(o, g); rat(o, h);
        o << (int)e << "," << (int64_t)e << "," << (uint64_t)f << "," << (double)e << "," << (float)g << "," << std::string(h) << " ";
    }
    for (int i = 0; i < NBIG; ++i) {
        Integer n(BIGS[i]), d(BIGS[(i + 4) % NBIG]); if (isZero(d)) d = 6;
        Rational a(n), b(n, d), c(n * 6, d * 4, 0), e(b), f, g, h; f = b; g.logcpy(b); h.copy(c);
        rat(o, a); rat(o, b); rat(o, c); rat(o, e); rat(o, f); rat(o, g); rat(o, h); rat(o, f.reduce(c));
        rat(o, Rational::zero); rat(o, Rational::one); rat(o, Rational::mOne);
    }
    Rational s1("355/113"), s2("-12/18"), s3("42"); rat(o, s1); rat(o, s2); rat(o, s3);
    Rational rr(Integer(7), Integer(1000003), Integer(1000)); rat(o, rr);
    Integer num, den; o << Rational::RationalReconstruction(num, den, Integer(333333336), Integer(1000000007)) << num << "/" << den << " ";
    o << Rational::ratrecon(num, den, Integer(500000004), Integer(1000000007), Integer(31622)) << num << "/" << den << " ";
}

static void fam_rational_arith(std::ostream& o) {
    o << "rarith:";
    static const long N[] = {1, -3, 6, 35, 1000000007L, -12, 3, 5}, D[] = {2, 4, 9, 49, 6, 18, 4, 6};
    for (int rep = 0; rep < 4; ++rep) for (int i = 0; i < 8; ++i) for (int j = 0; j < 8; ++j) {
        Rational a(Integer((int64_t)N[i]), Integer((int64_t)D[i])), b(Integer((int64_t)N[j]), Integer((int64_t)D[(j + 1) % 8])), r;
        rat(o, a + b); rat(o, a - b); rat(o, a * b); rat(o, a / b); rat(o, -a); rat(o, +a);
        r = a; r += b; rat(o, r); r = a; r -= b; rat(o, r); r = a; r *= b; rat(o, r); r = a; r /= b; rat(o, r);
        if (rep) continue;
        o << compare(a, b) << absCompare(a, b) << (a == b) << (a != b) << (a < b) << (a <= b) << (a > b) << (a >= b);
        o << " ";      // (the member / friend comparison operators against Integer and native types are declared but defined nowhere in the library)
        rat(o, pow(a, (int64_t)3)); rat(o, pow(a, (uint32_t)2)); rat(o, pow(b, (uint64_t)4)); rat(o, abs(a));
        o << floor(a) << "," << ceil(a) << "," << round(a) << "," << trunc(a) << "," << a % Integer(7) << "," << length(a) << sign(a) << isZero(a) << isOne(a) << isMOne(a) << isInteger(a) << " ";
        std::ostringstream s; s << a; a.print(s); std::istringstream in(s.str().substr(0, s.str().size() / 2)); Rational x; in >> x; o << s.str() << ","; rat(o, x);
    }
    QField<Rational> Q; Rational a(Integer(3), Integer(4)), b(Integer(10), Integer(6)), c(Integer(-7), Integer(21)), r;
    Q.mul(r, a, b); rat(o, r); Q.add(r, a, b); rat(o, r); Q.sub(r, a, b); rat(o, r); Q.div(r, a, b); rat(o, r); Q.axpy(r, a, b, c); rat(o, r);
    Q.axmy(r, a, b, c); rat(o, r); Q.maxpy(r, a, b, c); rat(o, r); Q.inv(r, a); rat(o, r); Q.neg(r, a); rat(o, r);
    Q.init(r, 0.375); rat(o, r); Q.init(r, dbits(3)); rat(o, r); Q.init(r, Integer(12), Integer(18)); rat(o, r); Q.write(o, r) << " ";
}

// ---------------------------------------------------------------------------------------------------- RecInt
template <size_t K> static void fam_ruint(std::ostream& o) {
    using namespace RecInt;
    typedef ruint<K> U;
    o << "ruint" << K << ":";
    for (int i = 0; i < NI64; ++i) {
        int64_t v = I64S[i];
        U a((uint64_t)v), b((uint32_t)v), c((int64_t)(v < 0 ? -v : v)), d((int32_t)(v & 0x7fffffff)), e((unsigned char)v), f((double)(v & 0xffffffffLL)), g(a);
        o << a << "," << b << "," << c << "," << d << "," << e << "," << f << "," << g << " ";
        Integer big(BIGS[i % NBIG]); if (big < 0) big = -big; U h(big); o << h << "," << Integer(h) << " ";
        U x(a), y(b), r, q; y += (uint32_t)3;
        x *= (uint64_t)0x9e3779b97f4a7c15ULL; x += (uint64_t)12345; x = x * x + y; x <<= 7; x += a;
        add(r, x, y); o << r << ","; sub(r, x, y); o << r << ","; mul(r, x, y); o << r << ","; o << x + y << "," << x - y << "," << x * y << ",";
        o << x / y << "," << x % y << ","; div(q, r, x, y); o << q << ":" << r << ","; div_q(q, x, y); o << q << ","; div_r(r, x, y); o << r << " ";
        r = x; r += y; r -= a; r *= y; r /= y; r %= (x | U(1u)); o << r << ","; ++r; --r; r++; r--; o << r << "," << -r << "," << ~r << " ";
        o << (x & y) << "," << (x | y) << "," << (x ^ y) << "," << (x << 5) << "," << (x >> 9) << " "; r = x; r >>= 3; r <<= 1; r &= y; r |= a; r ^= b; o << r << " ";
        o << (x == y) << (x != y) << (x < y) << (x <= y) << (x > y) << (x >= y) << (x == (uint64_t)5) << (x > (uint32_t)7) << (x < (int32_t)9) << " ";
        U gg; gcd(gg, x, y); o << gg << ","; U m(x | U(1u)), iv; if (gcd(gg, y, m) == 1) { inv_mod(iv, y, m); o << iv << ","; }
        exp_mod(r, y, (uint64_t)5, m); o << r << ","; exp_mod(r, y, x, m); o << r << ","; square(r, y); o << r << " ";
        o << (uint64_t)x << "," << (uint32_t)x << "," << (double)y << "," << (bool)x << " ";
        ruint<K + 1> w; lmul(w, x, y); o << w << " "; mpz_class z; ruint_to_mpz(z, x); U back; mpz_to_ruint(back, z); o << z.get_str(16) << "," << back << " ";
        o << U::maxCardinality() << "," << U::maxElement() << "," << U::maxFFLAS() << " ";
    }
}

template <size_t K> static void fam_rint(std::ostream& o) {
    using namespace RecInt;
    typedef RecInt::rint<K> S;
    o << "rint" << K << ":";
    for (int i = 0; i < NI64; ++i) {
        int64_t v = I64S[i];
        S a((int64_t)v), b((int32_t)v), c((uint64_t)(v & 0x7fffffffffffffffLL)), d((uint32_t)v), e((double)(v % 1000000)), f(a);
        o << a << "," << b << "," << c << "," << d << "," << e << "," << f << " ";
        Integer big(BIGS[i % NBIG]); S h(big); o << h << "," << Integer(h) << " ";
        S x(a), y(b), r; y -= (int32_t)3; x *= (int64_t)-1234567; x += (int64_t)77; x = x * y - a; if (y == 0) y = 5;
        o << x + y << "," << x - y << "," << x * y << "," << x / y << "," << x % y << "," << -x << " ";
        r = x; r += y; r -= a; r *= y; r /= y; ++r; --r; o << r << " ";
        o << (x == y) << (x != y) << (x < y) << (x <= y) << (x > y) << (x >= y) << (x == (int64_t)-1) << (x < (int32_t)0) << x.isNegative() << x.isPositive() << " ";
        o << (x << 3) << "," << (x >> 2) << "," << (x & y) << "," << (x | y) << "," << (x ^ y) << " ";
        o << (int64_t)x << "," << (int32_t)x << "," << (double)y << " ";
        mpz_class z; rint_to_mpz(z, x); S back; mpz_to_rint(back, z); o << z.get_str(16) << "," << back << " ";
        o << S::maxCardinality() << "," << S::maxElement() << " ";   // rint<K>::maxFFLAS() does not compile in this tree (set_highest_bit(limb&))
    }
}

// the modulus of rmint<K,MG> is a class static set by init_module (documented "module" setter): c18_rmint_modules() is called ONCE,
// before any thread starts; the family only reads it
template <size_t K, size_t MG> static void fam_rmint(std::ostream& o) {
    using namespace RecInt;
    typedef rmint<K, MG> M;
    o << "rmint" << K << (MG == MG_ACTIVE ? "a" : "i") << ":";
    ruint<K> p; M::get_module(p); o << p << " ";
    for (int i = 0; i < NI64; ++i) {
        int64_t v = I64S[i];
        M a((int64_t)v), b((uint64_t)v), c((int32_t)v), d((uint32_t)v), e(ruint<K>((uint64_t)v)), f(RecInt::rint<K>((int64_t)v)), g(a), z;
        o << a << "," << b << "," << c << "," << d << "," << e << "," << f << "," << g << "," << z << " ";
        M x(a), y(b), r; y += M((uint32_t)3); x *= y; x += M((uint64_t)12345); if (y == M(0)) y = M(5);
        add(r, x, y); o << r << ","; sub(r, x, y); o << r << ","; mul(r, x, y); o << r << ","; neg(r, x); o << r << ","; o << x + y << "," << x - y << "," << x * y << "," << -x << " ";
        r = x; r += y; r -= a; r *= y; ++r; --r; o << r << ","; addmul(r, x, y); o << r << ","; square(r, x); o << r << " ";
        r = x + (int64_t)5; o << r << ","; r = x * (uint64_t)7; o << r << ","; r = x - (int32_t)9; o << r << " ";
        ruint<K> gg, yy = get_ruint(y); gcd(gg, yy, p);
        if (gg == 1) { inv(r, y); o << r << ","; div(r, x, y); o << r << "," << x / y << ","; r = x; r /= y; o << r << " "; }
        exp(r, y, (uint64_t)65537); o << r << ","; exp(r, x, ruint<K>((uint64_t)(i + 3))); o << r << " ";
        o << (x == y) << (x != y) << (x == M(1)) << " " << get_ruint(x) << "," << (uint64_t)x << " ";
        mpz_class zz; rmint_to_mpz(zz, x); M back; mpz_to_rmint(back, zz); o << zz.get_str(16) << "," << back << " ";
    }
}

static void c18_rmint_modules() {
    using namespace RecInt;
    rmint<6, MG_ACTIVE>::init_module(ruint<6>((uint64_t)18446744073709551557ULL));
    rmint<6, MG_INACTIVE>::init_module(ruint<6>((uint64_t)4294967311ULL));
    ruint<7> p7((uint64_t)0xffffffffffffffc5ULL); p7 <<= 61; p7 += (uint64_t)0x1fffffffffffffddULL; p7 |= ruint<7>(1u);
    rmint<7, MG_ACTIVE>::init_module(p7); rmint<7, MG_INACTIVE>::init_module(p7);
    ruint<8> p8((uint64_t)0xfedcba9876543211ULL); p8 <<= 150; p8 += (uint64_t)0x123456789abcdef1ULL;
    rmint<8, MG_ACTIVE>::init_module(p8); rmint<8, MG_INACTIVE>::init_module(p8 + ruint<8>((uint64_t)1000));
}
static void fam_rmint_all(std::ostream& o) {
    fam_rmint<6, RecInt::MG_ACTIVE>(o); fam_rmint<6, RecInt::MG_INACTIVE>(o); fam_rmint<7, RecInt::MG_ACTIVE>(o); fam_rmint<7, RecInt::MG_INACTIVE>(o);
    fam_rmint<8, RecInt::MG_ACTIVE>(o); fam_rmint<8, RecInt::MG_INACTIVE>(o);
}
static void fam_ruint_all(std::ostream& o) { fam_ruint<6>(o); fam_ruint<7>(o); fam_ruint<8>(o); }
static void fam_rint_all(std::ostream& o) { fam_rint<6>(o); fam_rint<7>(o); fam_rint<8>(o); }

// ---------------------------------------------------------------------------------------------------- integer domains
static void fam_domains(std::ostream& o) {
    o << "doms:";
    IntegerDom Z; IntPrimeDom IP; Integer a("123456789012345678901234567890"), b("987654321098765432109876543"), r, g, u, v;
    Z.add(r, a, b); o << r << ","; Z.mul(r, a, b); o << r << ","; Z.sub(r, a, b); o << r << ","; Z.div(r, a, b); o << r << ","; Z.mod(r, a, b); o << r << ",";
    Z.axpy(r, a, b, a); o << r << ","; Z.gcd(g, u, v, a, b); o << g << ":" << u << ":" << v << ","; Z.lcm(r, a, b); o << r << ","; Z.pow(r, b, 3); o << r << " ";
    o << Z.isZero(a) << Z.isOne(a) << Z.areEqual(a, b) << Z.isUnit(a) << " "; Z.write(o, a) << " ";
    for (int i = 0; i < 6; ++i) { Integer n = Integer(1000000) * (i + 1) + 1; IP.nextprime(r, n); o << r << ","; IP.prevprime(r, n); o << r << "," << (int)IP.isprime(n) << " "; }
    o << (int)IP.isprime(Integer("1000000007")) << (int)IP.isprime(Integer("1000000007") * 3) << " ";
}

struct Family { const char* name; void (*run)(std::ostream&); const char* forms; };
static const Family FAMILIES[] = {
    {"integer-constructors", fam_integer_cstor, "Integer(int32|int64|uchar|uint32|uint64|double incl. +-0/denormal/2^53+-1/huge|const char*|mpz_class|vect_t|ruint|rint|copy), operator=(native|Integer), logcpy, copy, casts to native/string"},
    {"integer-arithmetic", fam_integer_arith, "operators + - * / % unary- with Integer and native operands (both sides), compound forms, static add/sub/mul/neg/*in/axpy/axmy/maxpy(+in)/div/mod/divmod/[tcf]rem/floor/ceil/trunc/divexact, gcd (extended), lcm, pow, powmod, sqrt, sqrtrem, inv, shifts, bit ops, logtwo, length, sign, jacobi"},
    {"integer-compare-io", fam_integer_cmp_io, "compare/absCompare and the six comparison operators against Integer/int32/int64/uint32/uint64/double/float, operator<< (dec/hex), print, operator std::string, operator>>"},
    {"rational-constructors", fam_rational_cstor, "Rational(int32|int64|uint32|uint64|pairs|double incl. +-0/denormal/smallest normal/huge|const char*|Integer|Integer,Integer[,red]|reconstruction|copy), =, logcpy, copy, reduce, casts, RationalReconstruction, ratrecon"},
    {"rational-arithmetic", fam_rational_arith, "operators + - * / unary and compound (fractions printed as stored), compare/absCompare, the six comparison operators, pow, abs, floor/ceil/round/trunc, %, predicates, << print >>, QField<Rational> three-address ops and init(double)"},
    {"ruint", fam_ruint_all, "ruint<6|7|8>: constructors from native/Integer, add/sub/mul/div/mod named + operator + compound forms, ++ --, bit ops, shifts, comparisons, gcd, inv_mod, exp_mod (both exponent types), square, lmul, casts, mpz conversions, max*()"},
    {"rint", fam_rint_all, "rint<6|7|8>: constructors from native/Integer, operators and compound forms, comparisons, shifts, bit ops, casts, mpz conversions, maxCardinality/maxElement"},
    {"rmint", fam_rmint_all, "rmint<6|7|8, MG_ACTIVE|MG_INACTIVE> (module set once before the threads): constructors, add/sub/mul/neg/addmul/square/inv/div/exp named + operator forms, mixed native operands, comparisons, get_ruint, casts, mpz conversions"},
    {"integer-domains", fam_domains, "IntegerDom three-address ops, gcd/lcm/pow, predicates, write; IntPrimeDom nextprime/prevprime/isprime"},
};
static const int NFAM = sizeof(FAMILIES) / sizeof(FAMILIES[0]);
}  // namespace GivaroC18
namespace c18 = GivaroC18;
#endif
